(* C20 - DTLS 1.3 key updates: theorems about the model Ku/C20KeyUpdate.v.
   All statements are over every operation sequence (induction over the op list). *)
From Coq Require Import List NArith Bool Lia.
From Coq Require Import ZifyN ZifyNat ZifyBool.
From DtlsV Require Import Lib.Bytes Rec.Window Rec.WindowSound Ku.C20KeyUpdate.
Import ListNotations.
Open Scope N_scope.

(* ====================================================================== *)
(* 0. basic facts                                                          *)
(* ====================================================================== *)

Lemma side_eqb_refl s : side_eqb s s = true.
Proof. destruct s; reflexivity. Qed.

Lemma side_eqb_eq a b : side_eqb a b = true <-> a = b.
Proof. destruct a, b; cbn; split; congruence. Qed.

Lemma side_eqb_other s : side_eqb (other s) s = false.
Proof. destruct s; reflexivity. Qed.

Lemma side_eqb_other' s : side_eqb s (other s) = false.
Proof. destruct s; reflexivity. Qed.

Lemma other_other s : other (other s) = s.
Proof. destruct s; reflexivity. Qed.

Lemma other_neq s : other s <> s.
Proof. destruct s; discriminate. Qed.

Lemma sec_eqb_eq a b : sec_eqb a b = true <-> a = b.
Proof.
  revert b; induction a as [x|x|k IH]; intros [y|y|k']; cbn; try (split; [discriminate|congruence]).
  - rewrite side_eqb_eq. split; congruence.
  - rewrite side_eqb_eq. split; congruence.
  - rewrite IH. split; congruence.
Qed.

Lemma sec_eqb_refl a : sec_eqb a a = true.
Proof. now apply sec_eqb_eq. Qed.

Lemma nx_inj n m s s' : nx n (Init s) = nx m (Init s') -> n = m /\ s = s'.
Proof.
  revert m; induction n as [|n IH]; intros [|m] H; cbn in H; try discriminate.
  - inversion H. auto.
  - inversion H as [H1]. destruct (IH _ H1). auto.
Qed.

Lemma nx_not_hs n s s' : nx n (Init s) <> Hs s'.
Proof. destruct n; cbn; discriminate. Qed.

Lemma secret_of_inj s s' e e' : 3 <= e -> 3 <= e' -> secret_of s e = secret_of s' e' -> e = e' /\ s = s'.
Proof.
  unfold secret_of. intros He He' H. apply nx_inj in H. destruct H as [H1 H2]. split; [lia|exact H2].
Qed.

Lemma secret_of_succ s e : 3 <= e -> secret_of s (e + 1) = Next (secret_of s e).
Proof.
  intro He. unfold secret_of. replace (N.to_nat (e + 1 - 3)) with (S (N.to_nat (e - 3))) by lia. reflexivity.
Qed.

(* ---------- events ---------- *)

Definition ev_side (ev : event) : side :=
  match ev with
  | EvSent s _ _ | EvRead s _ | EvStart s _ _ | EvDone s _ | EvCommit s _ | EvKuIn s _ | EvFail s => s
  end.

Definition is_commit (me : side) (ev : event) : bool :=
  match ev with EvCommit s _ => side_eqb s me | _ => false end.

Definition commits (me : side) (evs : list event) : N := N.of_nat (length (filter (is_commit me) evs)).

Lemma commits_app me e1 e2 : commits me (e1 ++ e2) = commits me e1 + commits me e2.
Proof. unfold commits. rewrite filter_app, app_length. lia. Qed.

Lemma commits_nil me : commits me [] = 0.
Proof. reflexivity. Qed.

Lemma sent_by_app me e1 e2 : sent_by me (e1 ++ e2) = sent_by me e2 ++ sent_by me e1.
Proof.
  induction e1 as [|ev e1 IH]; cbn [app sent_by]; [now rewrite app_nil_r|].
  destruct ev; try exact IH.
  destruct (side_eqb s me); [|exact IH]. rewrite IH. now rewrite app_assoc.
Qed.

(* ====================================================================== *)
(* 1. the sending epoch never decreases, +1 exactly per committed update   *)
(* ====================================================================== *)

(* what every side function guarantees about the write epoch and its events *)
Definition Frame (me : side) (s s' : sidest) (evs : list event) : Prop :=
  w_epoch s' = w_epoch s + commits me evs /\ Forall (fun ev => ev_side ev = me) evs.

Lemma frame_refl me s : Frame me s s [].
Proof. split; [cbn; lia | constructor]. Qed.

Lemma frame_trans me s1 s2 s3 e1 e2 : Frame me s1 s2 e1 -> Frame me s2 s3 e2 -> Frame me s1 s3 (e1 ++ e2).
Proof.
  intros [H1 F1] [H2 F2]. split; [rewrite commits_app; lia | now apply Forall_app].
Qed.

Lemma frame_same me s s' evs :
  w_epoch s' = w_epoch s -> commits me evs = 0 -> Forall (fun ev => ev_side ev = me) evs -> Frame me s s' evs.
Proof. intros H1 H2 H3. split; [lia | exact H3]. Qed.

Lemma seal_wepoch s k : w_epoch (fst (seal s k)) = w_epoch s.
Proof. unfold seal. destruct (max_seq48 <? w_seq s); reflexivity. Qed.

Lemma frame_emit_ctl me s k : Frame me s (fst (fst (emit_ctl me s k))) (snd (fst (emit_ctl me s k))).
Proof.
  unfold emit_ctl, seal. destruct (max_seq48 <? w_seq s); cbn.
  - apply frame_same; [reflexivity | reflexivity | repeat constructor].
  - apply frame_same; [reflexivity | reflexivity | repeat constructor].
Qed.

Lemma frame_emit_app me s p : Frame me s (fst (emit_app me s p)) (snd (emit_app me s p)).
Proof.
  unfold emit_app, seal. destruct (max_seq48 <? w_seq s); cbn.
  - apply frame_refl || (apply frame_same; [reflexivity | reflexivity | constructor]).
  - apply frame_same; [reflexivity | reflexivity | repeat constructor].
Qed.

Lemma frame_start_ku me s req id : Frame me s (fst (start_ku me s req id)) (snd (start_ku me s req id)).
Proof.
  unfold start_ku.
  destruct ((w_epoch s =? max_epoch) || (max_msg <? hs_send s) || (max_seq48 <? w_seq s)); cbn.
  - apply frame_same; [reflexivity | reflexivity | repeat constructor].
  - destruct id; apply frame_same; try reflexivity; repeat constructor.
Qed.

Lemma frame_set_queue me s s' evs q : Frame me s s' evs -> Frame me s (set_queue s' q) evs.
Proof. intros [H F]. split; [exact H | exact F]. Qed.

Lemma frame_drain me q : forall s, Frame me s (fst (drain me s q)) (snd (drain me s q)).
Proof.
  induction q as [|c q IH]; intro s; cbn [drain].
  - cbn. apply frame_same; [reflexivity | reflexivity | constructor].
  - destruct c as [p|req id].
    + pose proof (frame_emit_app me s p) as F1. destruct (emit_app me s p) as [s1 e1]. cbn [fst snd] in F1.
      specialize (IH s1). destruct (drain me s1 q) as [s2 e2]. cbn [fst snd] in *.
      eapply frame_trans; eassumption.
    + destruct (pending s).
      * cbn. apply frame_same; [reflexivity | reflexivity | constructor].
      * pose proof (frame_start_ku me s req id) as F1. destruct (start_ku me s req id) as [s1 e1]. cbn [fst snd] in F1.
        destruct (failed s1).
        -- cbn [fst snd]. now apply frame_set_queue.
        -- specialize (IH s1). destruct (drain me s1 q) as [s2 e2]. cbn [fst snd] in *.
           eapply frame_trans; eassumption.
Qed.

Lemma frame_timer me s : Frame me s (fst (timer me s)) (snd (timer me s)).
Proof.
  unfold timer. destruct (failed s); [apply frame_refl|].
  destruct (pending s) as [f|]; [|apply frame_refl].
  pose proof (frame_emit_ctl me s (KU (f_msg f) (f_req f))) as F.
  destruct (emit_ctl me s (KU (f_msg f) (f_req f))) as [[s1 evs] [q|]]; cbn [fst snd] in *; [|exact F].
  destruct F as [H1 H2]. split; [exact H1 | exact H2].
Qed.

Lemma frame_recv_parked me s r : Frame me s (fst (recv_parked me s r)) (snd (recv_parked me s r)).
Proof.
  unfold recv_parked. destruct (open_rec s r); try apply frame_refl.
  destruct (check max_seq64 (wins s e) (r_seq r)); [|apply frame_refl].
  destruct (r_kind r); cbn [fst snd]; apply frame_same; try reflexivity; repeat constructor.
Qed.

Lemma frame_recv_parked_all me l : forall s, Frame me s (fst (recv_parked_all me s l)) (snd (recv_parked_all me s l)).
Proof.
  induction l as [|r l IH]; intro s; cbn [recv_parked_all]; [apply frame_refl|].
  pose proof (frame_recv_parked me s r) as F1. destruct (recv_parked me s r) as [s1 e1]. cbn [fst snd] in F1.
  specialize (IH s1). destruct (recv_parked_all me s1 l) as [s2 e2]. cbn [fst snd] in *.
  eapply frame_trans; eassumption.
Qed.

Lemma frame_on_ack me s l : Frame me s (fst (on_ack me s l)) (snd (on_ack me s l)).
Proof.
  unfold on_ack. destruct (pending s) as [f|]; [|apply frame_refl].
  destruct (acked s f l); [|apply frame_refl].
  unfold commit. cbn [fst snd]. split.
  - cbn [w_epoch]. unfold commits. cbn [filter is_commit]. rewrite side_eqb_refl.
    destruct (f_id f); cbn; lia.
  - destruct (f_id f); repeat constructor.
Qed.

Lemma frame_send_ack me s l : Frame me s (fst (send_ack me s l)) (snd (send_ack me s l)).
Proof.
  unfold send_ack. pose proof (frame_emit_ctl me s (Ack l)) as F.
  destruct (emit_ctl me s (Ack l)) as [[s1 evs] o]. exact F.
Qed.

Lemma frame_advance_read me s m req : Frame me s (fst (advance_read me s m req)) (snd (advance_read me s m req)).
Proof.
  unfold advance_read. destruct (r_gens s) as [|cur gs].
  - cbn. apply frame_same; [reflexivity | reflexivity | repeat constructor].
  - match goal with |- context [recv_parked_all me ?s1 ?l] =>
      pose proof (frame_recv_parked_all me l s1) as F; destruct (recv_parked_all me s1 l) as [s2 e2] end.
    cbn [fst snd] in *. destruct F as [H1 H2]. split.
    + cbn [w_epoch] in H1. rewrite H1. unfold commits. cbn [filter is_commit]. reflexivity.
    + constructor; [reflexivity | exact H2].
Qed.

Lemma frame_set_failed me s s' evs : Frame me s s' evs -> Frame me s (set_failed s') (evs ++ [EvFail me]).
Proof.
  intros [H F]. split.
  - rewrite commits_app. cbn [w_epoch set_failed]. unfold commits at 2. cbn. lia.
  - apply Forall_app. split; [exact F | repeat constructor].
Qed.

Lemma frame_on_ku me s e q m req : Frame me s (fst (on_ku me s e q m req)) (snd (on_ku me s e q m req)).
Proof.
  unfold on_ku. destruct (m <? hs_recv s); [apply frame_send_ack|].
  destruct (m =? hs_recv s); [|apply frame_send_ack].
  destruct (negb _).
  { cbn. apply frame_same; [reflexivity | reflexivity | repeat constructor]. }
  destruct (r_epoch s =? max_epoch).
  { cbn. apply frame_same; [reflexivity | reflexivity | repeat constructor]. }
  pose proof (frame_advance_read me s m req) as F1.
  destruct (advance_read me s m req) as [s1 e1]. cbn [fst snd] in F1.
  destruct (failed s1); [exact F1|].
  destruct (max_msg <? hs_recv s1).
  { cbn [fst snd]. now apply frame_set_failed. }
  pose proof (frame_send_ack me s1 [(e, q)]) as F2.
  destruct (send_ack me s1 [(e, q)]) as [s2 e2]. cbn [fst snd] in *.
  eapply frame_trans; eassumption.
Qed.

Lemma frame_mark me s s' evs e q : Frame me (mark s e q) s' evs -> Frame me s s' evs.
Proof. intros [H F]. split; [exact H | exact F]. Qed.

Lemma frame_run_queue me s : Frame me s (fst (run_queue me s)) (snd (run_queue me s)).
Proof. apply frame_drain. Qed.

Lemma frame_recv me s r : Frame me s (fst (recv me s r)) (snd (recv me s r)).
Proof.
  unfold recv. destruct (failed s); [apply frame_refl|].
  destruct (open_rec s r) as [| |e].
  - destruct (_ && _); cbn [fst snd]; [|apply frame_refl].
    apply frame_same; [reflexivity | reflexivity | constructor].
  - apply frame_refl.
  - destruct (negb _); [apply frame_refl|].
    destruct (r_kind r) as [p|m req|l].
    + cbn [fst snd]. apply frame_same; [reflexivity | reflexivity | repeat constructor].
    + apply frame_mark with (e := e) (q := r_seq r).
      pose proof (frame_on_ku me (mark s e (r_seq r)) e (r_seq r) m req) as F1.
      destruct (on_ku me (mark s e (r_seq r)) e (r_seq r) m req) as [s2 e2]. cbn [fst snd] in F1.
      destruct (failed s2); [exact F1|].
      pose proof (frame_run_queue me s2) as F2. destruct (run_queue me s2) as [s3 e3]. cbn [fst snd] in *.
      eapply frame_trans; eassumption.
    + apply frame_mark with (e := e) (q := r_seq r).
      pose proof (frame_on_ack me (mark s e (r_seq r)) l) as F1.
      destruct (on_ack me (mark s e (r_seq r)) l) as [s2 e2]. cbn [fst snd] in F1.
      destruct (failed s2); [exact F1|].
      pose proof (frame_run_queue me s2) as F2. destruct (run_queue me s2) as [s3 e3]. cbn [fst snd] in *.
      eapply frame_trans; eassumption.
Qed.

Lemma frame_submit me s c : Frame me s (fst (submit me s c)) (snd (submit me s c)).
Proof. unfold submit. destruct (failed s); [apply frame_refl | apply frame_drain]. Qed.

(* the side an operation acts on and what it does there *)
Definition actor (o : op) : side :=
  match o with OpUpdate s _ _ | OpWrite s _ | OpTimer s => s | OpDeliver to _ => to end.

Definition act (st : gst) (o : op) : sidest * list event :=
  match o with
  | OpUpdate s req id => submit s (sd st s) (CKU req (Some id))
  | OpWrite s p => submit s (sd st s) (CApp p)
  | OpDeliver to r => recv to (sd st to) r
  | OpTimer s => timer s (sd st s)
  end.

Lemma step_act st o : step st o = put st (actor o) (act st o).
Proof. destruct o; reflexivity. Qed.

Lemma frame_act st o : Frame (actor o) (sd st (actor o)) (fst (act st o)) (snd (act st o)).
Proof.
  destruct o; cbn [actor act]; [apply frame_submit | apply frame_submit | apply frame_recv | apply frame_timer].
Qed.

Lemma put_sd_me st me res : sd (fst (put st me res)) me = fst res.
Proof. destruct res. cbn. now rewrite side_eqb_refl. Qed.

Lemma put_sd_other st me res : sd (fst (put st me res)) (other me) = sd st (other me).
Proof. destruct res. cbn. now rewrite side_eqb_other. Qed.

Lemma put_evs st me res : snd (put st me res) = snd res.
Proof. destruct res. reflexivity. Qed.

Lemma put_net_me st me res : net (fst (put st me res)) me = sent_by me (snd res) ++ net st me.
Proof. destruct res. cbn. now rewrite side_eqb_refl. Qed.

Lemma put_net_other st me res : net (fst (put st me res)) (other me) = net st (other me).
Proof. destruct res. cbn. now rewrite side_eqb_other. Qed.

Lemma commits_foreign me x evs : Forall (fun ev => ev_side ev = me) evs -> x <> me -> commits x evs = 0.
Proof.
  intros F Hne. unfold commits. induction evs as [|ev evs IH]; [reflexivity|].
  inversion F as [|? ? Hev F']; subst. cbn [filter].
  assert (Hc : is_commit x ev = false).
  { destruct ev; cbn in *; try reflexivity. subst. destruct s, x; try reflexivity; congruence. }
  rewrite Hc. now apply IH.
Qed.

(* one step: the write epoch of every side grows by exactly the number of its commit events *)
Theorem step_send_epoch st o s :
  w_epoch (sd (fst (step st o)) s) = w_epoch (sd st s) + commits s (snd (step st o)).
Proof.
  rewrite step_act. pose proof (frame_act st o) as [H F]. rewrite put_evs.
  destruct (side_eqb s (actor o)) eqn:E.
  - apply side_eqb_eq in E. subst s. rewrite put_sd_me. exact H.
  - assert (Hne : s <> actor o) by (intro; subst; rewrite side_eqb_refl in E; discriminate).
    assert (Hs : s = other (actor o)) by (destruct s, (actor o); try reflexivity; congruence).
    rewrite Hs at 1. rewrite put_sd_other. rewrite <- Hs.
    rewrite (commits_foreign _ _ _ F Hne). lia.
Qed.

Theorem exec_send_epoch ops : forall st s,
  w_epoch (sd (fst (exec st ops)) s) = w_epoch (sd st s) + commits s (snd (exec st ops)).
Proof.
  induction ops as [|o ops IH]; intros st s; cbn [exec].
  - cbn. lia.
  - pose proof (step_send_epoch st o s) as H1. destruct (step st o) as [st1 e1]. cbn [fst snd] in H1.
    specialize (IH st1 s). destruct (exec st1 ops) as [st2 e2]. cbn [fst snd] in *.
    rewrite commits_app. lia.
Qed.

(* no commit outside on_ack *)
Lemma nc_start_ku me s req id : commits me (snd (start_ku me s req id)) = 0.
Proof.
  unfold start_ku. destruct (_ || _); [reflexivity|]. destruct id; reflexivity.
Qed.

Lemma nc_drain me q : forall s, commits me (snd (drain me s q)) = 0.
Proof.
  induction q as [|c q IH]; intro s; cbn [drain]; [reflexivity|].
  destruct c as [p|rq i].
  - unfold emit_app, seal. destruct (max_seq48 <? w_seq s); cbn [fst snd].
    + match goal with |- context [drain me ?y q] => specialize (IH y); destruct (drain me y q) end. exact IH.
    + match goal with |- context [drain me ?y q] => specialize (IH y); destruct (drain me y q) end. cbn [snd] in *.
      rewrite commits_app, IH. reflexivity.
  - destruct (pending s); [reflexivity|].
    pose proof (nc_start_ku me s rq i) as Hs.
    destruct (start_ku me s rq i) as [s1 e1]. cbn [snd] in Hs.
    destruct (failed s1); [exact Hs|].
    specialize (IH s1). destruct (drain me s1 q). cbn [snd] in *. rewrite commits_app. lia.
Qed.

Lemma nc_recv_parked_all me l : forall s, commits me (snd (recv_parked_all me s l)) = 0.
Proof.
  induction l as [|r0 l IH]; intro y; cbn [recv_parked_all]; [reflexivity|].
  assert (H0 : commits me (snd (recv_parked me y r0)) = 0).
  { unfold recv_parked. destruct (open_rec y r0); try reflexivity.
    destruct (check _ _ _); [|reflexivity]. destruct (r_kind r0); reflexivity. }
  destruct (recv_parked me y r0) as [y1 e1]. specialize (IH y1).
  destruct (recv_parked_all me y1 l). cbn [snd] in *. rewrite commits_app. lia.
Qed.

Lemma nc_send_ack me s l : commits me (snd (send_ack me s l)) = 0.
Proof. unfold send_ack, emit_ctl, seal. destruct (max_seq48 <? w_seq s); reflexivity. Qed.

Lemma nc_advance_read me s m req : commits me (snd (advance_read me s m req)) = 0.
Proof.
  unfold advance_read. destruct (r_gens s); [reflexivity|].
  match goal with |- context [recv_parked_all me ?s1 ?l] =>
    pose proof (nc_recv_parked_all me l s1) as Hp; destruct (recv_parked_all me s1 l) end. cbn [snd] in *.
  unfold commits in *. cbn [filter is_commit]. exact Hp.
Qed.

Lemma nc_on_ku me s e q m req : commits me (snd (on_ku me s e q m req)) = 0.
Proof.
  unfold on_ku. destruct (m <? hs_recv s); [apply nc_send_ack|].
  destruct (m =? hs_recv s); [|apply nc_send_ack].
  destruct (negb _); [reflexivity|]. destruct (r_epoch s =? max_epoch); [reflexivity|].
  pose proof (nc_advance_read me s m req) as Hadv.
  destruct (advance_read me s m req) as [s1 e1]. cbn [snd] in Hadv.
  destruct (failed s1); [exact Hadv|].
  destruct (max_msg <? hs_recv s1).
  { cbn [snd]. rewrite commits_app, Hadv. reflexivity. }
  pose proof (nc_send_ack me s1 [(e, q)]) as Ha. destruct (send_ack me s1 [(e, q)]). cbn [snd] in *.
  rewrite commits_app. lia.
Qed.

Lemma on_ack_commit me s l :
  (fst (on_ack me s l) = s /\ snd (on_ack me s l) = []) \/
  (w_epoch (fst (on_ack me s l)) = w_epoch s + 1 /\ In (EvCommit me (w_epoch s + 1)) (snd (on_ack me s l))).
Proof.
  unfold on_ack. destruct (pending s) as [f|]; [|now left].
  destruct (acked s f l); [|now left]. right. cbn. auto.
Qed.

(* never decreases, and a single step raises it by at most one *)
Theorem step_send_epoch_monotone st o s :
  w_epoch (sd (fst (step st o)) s) = w_epoch (sd st s) \/
  (w_epoch (sd (fst (step st o)) s) = w_epoch (sd st s) + 1 /\
   In (EvCommit s (w_epoch (sd st s) + 1)) (snd (step st o))).
Proof.
  rewrite step_act, put_evs.
  destruct (side_eqb s (actor o)) eqn:E.
  2:{ left. assert (Hs : s = other (actor o)).
      { destruct s, (actor o); cbn in E; try discriminate; reflexivity. }
      rewrite Hs. now rewrite put_sd_other. }
  apply side_eqb_eq in E. subst s. rewrite put_sd_me.
  pose proof (frame_act st o) as [H F].
  destruct o as [s req id|s p|to r|s]; cbn [actor act] in *.
  - left. rewrite H. unfold submit. destruct (failed (sd st s)); [cbn; lia|]. rewrite nc_drain. lia.
  - left. rewrite H. unfold submit. destruct (failed (sd st s)); [cbn; lia|]. rewrite nc_drain. lia.
  - clear H F. remember (sd st to) as x eqn:Hx. clear Hx.
    unfold recv. destruct (failed x); [now left|].
    destruct (open_rec x r) as [| |e]; [destruct (_ && _); now left | now left |].
    destruct (negb _); [now left|].
    destruct (r_kind r) as [p|m req|l]; [now left| |].
    + left.
      pose proof (frame_on_ku to (mark x e (r_seq r)) e (r_seq r) m req) as [H1 _].
      pose proof (nc_on_ku to (mark x e (r_seq r)) e (r_seq r) m req) as N1.
      destruct (on_ku to (mark x e (r_seq r)) e (r_seq r) m req) as [s2 e2]. cbn [fst snd] in *.
      rewrite N1 in H1. cbn [w_epoch mark] in H1.
      destruct (failed s2); [cbn [fst]; lia|].
      pose proof (frame_run_queue to s2) as [H2 _]. unfold run_queue in *. rewrite nc_drain in H2.
      destruct (drain to s2 (queue s2)). cbn [fst snd] in *. lia.
    + destruct (on_ack_commit to (mark x e (r_seq r)) l) as [[Ha Hb] | [Ha Hb]];
        destruct (on_ack to (mark x e (r_seq r)) l) as [s2 e2]; cbn [fst snd] in *.
      * subst s2 e2. cbn [failed mark].
        destruct (failed x) eqn:Ef.
        -- now left.
        -- left. pose proof (frame_run_queue to (mark x e (r_seq r))) as [H2 _]. unfold run_queue in *.
           rewrite nc_drain in H2. destruct (drain to (mark x e (r_seq r)) _). cbn [fst snd] in *.
           cbn [w_epoch mark] in H2. lia.
      * cbn [w_epoch mark] in Ha, Hb.
        destruct (failed s2); [right; cbn [fst snd]; auto|].
        pose proof (frame_run_queue to s2) as [H2 _]. unfold run_queue in *. rewrite nc_drain in H2.
        destruct (drain to s2 (queue s2)). cbn [fst snd] in *.
        right. split; [lia | apply in_or_app; now left].
  - left. rewrite H. unfold timer. destruct (failed (sd st s)); [cbn; lia|]. destruct (pending (sd st s)); [|cbn; lia].
    unfold emit_ctl, seal. destruct (max_seq48 <? w_seq (sd st s)); cbn; lia.
Qed.

(* ====================================================================== *)
(* 2. the invariant of authentic runs                                      *)
(* ====================================================================== *)

Lemma gens_down_from_in s n g :
  In g (gens_down_from s n) <->
  g = mkgen 2 (Hs s) \/ exists k, (k < n)%nat /\ g = mkgen (3 + N.of_nat k) (nx k (Init s)).
Proof.
  induction n as [|n IH]; cbn [gens_down_from In].
  - split; [intros [H|[]]; left; now symmetry | intros [H|[k [Hk _]]]; [left; now symmetry | lia]].
  - rewrite IH. split.
    + intros [H | [H | [k [Hk Hg]]]].
      * right. exists n. split; [lia | now symmetry].
      * now left.
      * right. exists k. split; [lia | exact Hg].
    + intros [H | [k [Hk Hg]]]; [right; now left|].
      destruct (Nat.eq_dec k n) as [-> | Hne]; [left; now symmetry|].
      right. right. exists k. split; [lia | exact Hg].
Qed.

Lemma gens_down_in s r g : 2 <= r ->
  In g (gens_down s r) <-> g = mkgen 2 (Hs s) \/ exists e, 3 <= e <= r /\ g = mkgen e (secret_of s e).
Proof.
  intro Hr. unfold gens_down. rewrite gens_down_from_in. split.
  - intros [H | [k [Hk Hg]]]; [now left|]. right. exists (3 + N.of_nat k). split; [lia|].
    unfold secret_of. replace (N.to_nat (3 + N.of_nat k - 3)) with k by lia. exact Hg.
  - intros [H | [e [He Hg]]]; [now left|]. right. exists (N.to_nat (e - 3)). split; [lia|].
    replace (3 + N.of_nat (N.to_nat (e - 3))) with e by lia. exact Hg.
Qed.

Lemma gens_down_succ s r : 3 <= r ->
  gens_down s (r + 1) = mkgen (r + 1) (secret_of s (r + 1)) :: gens_down s r.
Proof.
  intro Hr. unfold gens_down. replace (N.to_nat (r + 1 - 2)) with (S (N.to_nat (r - 2))) by lia.
  cbn [gens_down_from]. f_equal. unfold secret_of. f_equal; [lia|].
  f_equal. lia.
Qed.

Lemma gens_down_head s r : 3 <= r -> exists tl, gens_down s r = mkgen r (secret_of s r) :: tl.
Proof.
  intro Hr. unfold gens_down. replace (N.to_nat (r - 2)) with (S (N.to_nat (r - 3))) by lia.
  cbn [gens_down_from]. eexists. f_equal. unfold secret_of. f_equal. lia.
Qed.

Definition seqs_at (e : N) (l : list (N * N)) : list N := map snd (filter (fun x => fst x =? e) l).
Definition rkey (er : N * rec) : N * N := (fst er, r_seq (snd er)).
Definition gkey (t : N * N * N) : N * N := (fst (fst t), snd (fst t)).

Lemma seqs_at_cons_same e q l : seqs_at e ((e, q) :: l) = q :: seqs_at e l.
Proof. unfold seqs_at. cbn [filter fst]. now rewrite N.eqb_refl. Qed.

Lemma seqs_at_cons_other e e' q l : e' <> e -> seqs_at e ((e', q) :: l) = seqs_at e l.
Proof. intro H. unfold seqs_at. cbn [filter fst]. destruct (N.eqb_spec e' e); [contradiction | reflexivity]. Qed.

Lemma seqs_at_in e q l : In q (seqs_at e l) <-> In (e, q) l.
Proof.
  unfold seqs_at. rewrite in_map_iff. split.
  - intros [[e' q'] [Hq Hin]]. apply filter_In in Hin. destruct Hin as [Hin He]. cbn in *.
    apply N.eqb_eq in He. now subst.
  - intro H. exists (e, q). split; [reflexivity|]. apply filter_In. split; [exact H | cbn; apply N.eqb_refl].
Qed.

Lemma nodup_map_inj {T K : Type} (f : T -> K) (l : list T) x y :
  NoDup (map f l) -> In x l -> In y l -> f x = f y -> x = y.
Proof.
  induction l as [|a l IH]; intros Hnd Hx Hy Hf; [contradiction|].
  cbn [map] in Hnd. inversion Hnd as [|? ? Hn Hnd']; subst.
  destruct Hx as [-> | Hx], Hy as [-> | Hy].
  - reflexivity.
  - exfalso. apply Hn. rewrite Hf. now apply in_map.
  - exfalso. apply Hn. rewrite <- Hf. now apply in_map.
  - now apply IH.
Qed.

Section Invariant.
Variable W : nat.
Variable b : side -> N.
Hypothesis HW : N.of_nat W <= 32767.

Record DInv (X : side) (sx : sidest) (nt : list (N * rec)) (sy : sidest) (ny : list (N * rec)) : Prop := mkDInv {
  d_wrange : 3 <= w_epoch sx <= max_epoch;
  d_wsec : w_sec sx = secret_of X (w_epoch sx);
  d_hsend : hs_send sx = b X + (w_epoch sx - 3) + (match pending sx with Some _ => 1 | None => 0 end);
  d_pend : forall f, pending sx = Some f ->
             f_msg f = b X + (w_epoch sx - 3) /\
             forall q, In q (f_seqs f) ->
               exists r rq, In (w_epoch sx, r) nt /\ r_seq r = q /\ r_kind r = KU (f_msg f) rq;
  d_net : forall e r, In (e, r) nt ->
            3 <= e <= w_epoch sx /\ r_key r = secret_of X e /\ r_elow r = low2 e /\ r_seq r <= max_seq48 /\
            (e = w_epoch sx -> r_seq r < w_seq sx) /\
            (forall m rq, r_kind r = KU m rq -> m = b X + (e - 3) /\ m < hs_send sx);
  d_uniq : NoDup (map rkey nt);
  d_rrange : 3 <= r_epoch sy <= max_epoch;
  d_rgens : r_gens sy = gens_down X (r_epoch sy);
  d_hrecv : hs_recv sy = b X + (r_epoch sy - 3);
  d_epochs : w_epoch sx <= r_epoch sy <= w_epoch sx + 1;
  d_ahead : r_epoch sy = w_epoch sx + 1 -> pending sx <> None;
  d_acks : forall e r l, In (e, r) ny -> r_kind r = Ack l -> forall e' q, In (e', q) l ->
             exists rk m rq, In (e', rk) nt /\ r_seq rk = q /\ r_kind rk = KU m rq /\ m < hs_recv sy;
  d_wins : forall e, Inv W (wins sy e) (seqs_at e (seen sy)) /\ latest (wins sy e) <= max_seq64;
  d_seen : NoDup (seen sy);
  d_got : forall e q p, In (e, q, p) (got sy) ->
            In (e, q) (seen sy) /\ exists r, In (e, r) nt /\ r_seq r = q /\ r_kind r = App p;
  d_gotuniq : NoDup (map gkey (got sy));
  d_futq : futq sy = []
}.

(* both directions, seen from the acting side *)
Definition PInv (me : side) (sm : sidest) (nm : list (N * rec)) (sp : sidest) (np : list (N * rec)) : Prop :=
  DInv me sm nm sp np /\ DInv (other me) sp np sm nm.

Definition GInv (st : gst) : Prop := PInv A (sd st A) (net st A) (sd st B) (net st B).

Lemma GInv_side st me : GInv st -> PInv me (sd st me) (net st me) (sd st (other me)) (net st (other me)).
Proof. intros [H1 H2]. destruct me; cbn [other]; split; assumption. Qed.

Definition sview (s : sidest) := (w_epoch s, w_sec s, w_seq s, hs_send s, pending s).
Definition rview (s : sidest) := (r_epoch s, r_gens s, hs_recv s, wins s, seen s, got s, futq s).

Lemma DInv_sview X sx sx' nt sy ny : sview sx = sview sx' -> DInv X sx nt sy ny -> DInv X sx' nt sy ny.
Proof.
  unfold sview. intros E H. inversion E as [[E1 E2 E3 E4 E5]]. destruct H.
  constructor; rewrite <- ?E1, <- ?E2, <- ?E3, <- ?E4, <- ?E5; assumption.
Qed.

Lemma DInv_rview X sx nt sy sy' ny : rview sy = rview sy' -> DInv X sx nt sy ny -> DInv X sx nt sy' ny.
Proof.
  unfold rview. intros E H. inversion E as [[E1 E2 E3 E4 E5 E6 E7]]. destruct H.
  constructor; rewrite <- ?E1, <- ?E2, <- ?E3, <- ?E4, <- ?E5, <- ?E6, <- ?E7; assumption.
Qed.

(* an update of the acting side that touches neither view *)
Lemma PInv_views me sm sm' nm sp np :
  sview sm = sview sm' -> rview sm = rview sm' -> PInv me sm nm sp np -> PInv me sm' nm sp np.
Proof.
  intros E1 E2 [H1 H2]. split; [eapply DInv_sview | eapply DInv_rview]; eassumption.
Qed.


(* ---------- sealing one record under the current write generation ---------- *)

Definition ku_ok (X : side) (sx : sidest) (k : kind) : Prop :=
  forall m rq, k = KU m rq -> m = b X + (w_epoch sx - 3) /\ m < hs_send sx.

Definition ack_ok (sm : sidest) (np : list (N * rec)) (k : kind) : Prop :=
  forall l, k = Ack l -> forall e' q, In (e', q) l ->
    exists rk m rq, In (e', rk) np /\ r_seq rk = q /\ r_kind rk = KU m rq /\ m < hs_recv sm.

Definition sealed_net (sm : sidest) (o : option rec) : list (N * rec) :=
  match o with Some r => [(w_epoch sm, r)] | None => [] end.

Lemma dinv_seal_S X sx nt sy ny k :
  DInv X sx nt sy ny -> ku_ok X sx k ->
  DInv X (fst (seal sx k)) (sealed_net sx (snd (seal sx k)) ++ nt) sy ny.
Proof.
  intros H Hk. destruct H. unfold seal. destruct (max_seq48 <? w_seq sx) eqn:E; cbn [fst snd sealed_net app].
  - constructor; cbn [w_epoch w_sec w_seq hs_send pending set_wseq]; try assumption.
    intros e r Hin. destruct (d_net0 e r Hin) as (A1 & A2 & A3 & A4 & A5 & A6).
    refine (conj A1 (conj A2 (conj A3 (conj A4 (conj _ A6))))). intro He. specialize (A5 He). lia.
  - assert (Hq : w_seq sx <= max_seq48) by lia.
    constructor; cbn [w_epoch w_sec w_seq hs_send pending set_wseq]; try assumption.
    + intros f Hf. destruct (d_pend0 f Hf) as [P1 P2]. split; [exact P1|].
      intros q Hqin. destruct (P2 q Hqin) as (r & rq & R1 & R2 & R3). exists r, rq. split; [now right | auto].
    + intros e r [Heq | Hin].
      * inversion Heq; subst e r. cbn [r_key r_elow r_seq r_kind].
        refine (conj _ (conj d_wsec0 (conj eq_refl (conj Hq (conj _ _))))); [lia | intros _; lia |].
        intros m rq Hm. apply (Hk m rq Hm).
      * destruct (d_net0 e r Hin) as (A1 & A2 & A3 & A4 & A5 & A6).
        refine (conj A1 (conj A2 (conj A3 (conj A4 (conj _ A6))))). intro He. specialize (A5 He). lia.
    + cbn [map]. constructor; [|exact d_uniq0].
      intro Hin. apply in_map_iff in Hin. destruct Hin as [[e r] [Hk' Hin]].
      unfold rkey in Hk'. cbn [fst snd r_seq] in Hk'. inversion Hk'; subst e.
      destruct (d_net0 _ r Hin) as (_ & _ & _ & _ & A5 & _). specialize (A5 eq_refl). lia.
    + intros e r l Hin Hl e' q Hq'. destruct (d_acks0 e r l Hin Hl e' q Hq') as (rk & m & rq & B1 & B2 & B3 & B4).
      exists rk, m, rq. split; [now right | auto].
    + intros e q p Hin. destruct (d_got0 e q p Hin) as [G1 (r & G2 & G3 & G4)].
      split; [exact G1|]. exists r. split; [now right | auto].
Qed.

Lemma dinv_seal_R P sp np sm nm k :
  DInv P sp np sm nm -> ack_ok sm np k ->
  DInv P sp np (fst (seal sm k)) (sealed_net sm (snd (seal sm k)) ++ nm).
Proof.
  intros H Hk. unfold seal. destruct (max_seq48 <? w_seq sm) eqn:E; cbn [fst snd sealed_net app].
  - eapply DInv_rview; [|exact H]. reflexivity.
  - apply DInv_rview with (sy := sm); [reflexivity|]. destruct H.
    constructor; try assumption.
    intros e r l [Heq | Hin] Hl e' q Hq.
    + inversion Heq; subst e r. cbn [r_kind] in Hl. exact (Hk l Hl e' q Hq).
    + exact (d_acks0 e r l Hin Hl e' q Hq).
Qed.

Lemma pinv_seal me sm nm sp np k :
  PInv me sm nm sp np -> ku_ok me sm k -> ack_ok sm np k ->
  PInv me (fst (seal sm k)) (sealed_net sm (snd (seal sm k)) ++ nm) sp np.
Proof. intros [H1 H2] K1 K2. split; [now apply dinv_seal_S | now apply dinv_seal_R]. Qed.

Lemma pinv_set_failed me sm nm sp np : PInv me sm nm sp np -> PInv me (set_failed sm) nm sp np.
Proof. apply PInv_views; reflexivity. Qed.

Lemma pinv_set_queue me sm nm sp np q : PInv me sm nm sp np -> PInv me (set_queue sm q) nm sp np.
Proof. apply PInv_views; reflexivity. Qed.

Lemma sent_by_one me e r : sent_by me [EvSent me e r] = [(e, r)].
Proof. cbn. now rewrite side_eqb_refl. Qed.

Lemma seal_fields sm k :
  sview (fst (seal sm k)) = (w_epoch sm, w_sec sm, w_seq sm + 1, hs_send sm, pending sm) /\
  rview (fst (seal sm k)) = rview sm /\ queue (fst (seal sm k)) = queue sm /\ failed (fst (seal sm k)) = failed sm.
Proof. unfold seal. destruct (max_seq48 <? w_seq sm); repeat split. Qed.

Lemma pinv_emit_ctl me sm nm sp np k :
  PInv me sm nm sp np -> ku_ok me sm k -> ack_ok sm np k ->
  PInv me (fst (fst (emit_ctl me sm k))) (sent_by me (snd (fst (emit_ctl me sm k))) ++ nm) sp np.
Proof.
  intros H K1 K2. pose proof (pinv_seal me sm nm sp np k H K1 K2) as HS.
  unfold emit_ctl. destruct (seal sm k) as [s' [r|]]; cbn [fst snd sealed_net] in *.
  - rewrite sent_by_one. exact HS.
  - cbn [sent_by app] in *. now apply pinv_set_failed.
Qed.

Lemma pinv_emit_app me sm nm sp np p :
  PInv me sm nm sp np ->
  PInv me (fst (emit_app me sm p)) (sent_by me (snd (emit_app me sm p)) ++ nm) sp np.
Proof.
  intro H.
  assert (K1 : ku_ok me sm (App p)) by (intros m rq E; discriminate).
  assert (K2 : ack_ok sm np (App p)) by (intros l E; discriminate).
  pose proof (pinv_seal me sm nm sp np _ H K1 K2) as HS.
  unfold emit_app. destruct (seal sm (App p)) as [s' [r|]]; cbn [fst snd sealed_net] in *.
  - rewrite sent_by_one. exact HS.
  - exact HS.
Qed.


(* ---------- starting / retransmitting a KeyUpdate ---------- *)

Lemma dinv_ku_S X sx sx' nt sy ny f' rq :
  DInv X sx nt sy ny -> w_seq sx <= max_seq48 ->
  w_epoch sx' = w_epoch sx -> w_sec sx' = w_sec sx -> w_seq sx' = w_seq sx + 1 ->
  hs_send sx' = b X + (w_epoch sx - 3) + 1 -> pending sx' = Some f' ->
  f_msg f' = b X + (w_epoch sx - 3) ->
  (forall q, In q (f_seqs f') -> q = w_seq sx \/ exists f, pending sx = Some f /\ In q (f_seqs f)) ->
  DInv X sx' ((w_epoch sx, mkrec (w_sec sx) (low2 (w_epoch sx)) (w_seq sx) (KU (f_msg f') rq)) :: nt) sy ny.
Proof.
  intros H Hq E1 E2 E3 E4 E5 Hm Hseqs. destruct H.
  assert (Hhs : hs_send sx <= b X + (w_epoch sx - 3) + 1) by (rewrite d_hsend0; destruct (pending sx); lia).
  constructor; rewrite ?E1, ?E2, ?E3, ?E4, ?E5; try assumption.
  - lia.
  - intros f Hf. inversion Hf; subst f. split; [exact Hm|].
    intros q Hin. destruct (Hseqs q Hin) as [-> | (f0 & Hf0 & Hin0)].
    + eexists _, rq. split; [left; reflexivity|]. split; reflexivity.
    + destruct (d_pend0 f0 Hf0) as [P1 P2]. destruct (P2 q Hin0) as (r & rq0 & R1 & R2 & R3).
      exists r, rq0. split; [now right|]. split; [exact R2|]. rewrite R3. f_equal. lia.
  - intros e r [Heq | Hin].
    + inversion Heq; subst e r. cbn [r_key r_elow r_seq r_kind].
      refine (conj _ (conj d_wsec0 (conj eq_refl (conj Hq (conj _ _))))); [lia | intros _; lia |].
      intros m rq' Hk. inversion Hk; subst. lia.
    + destruct (d_net0 e r Hin) as (A1 & A2 & A3 & A4 & A5 & A6).
      refine (conj A1 (conj A2 (conj A3 (conj A4 (conj _ _))))).
      * intro He. specialize (A5 He). lia.
      * intros m rq' Hk. destruct (A6 m rq' Hk). split; [assumption | lia].
  - cbn [map]. constructor; [|exact d_uniq0].
    intro Hin. apply in_map_iff in Hin. destruct Hin as [[e r] [Hk' Hin]].
    unfold rkey in Hk'. cbn [fst snd r_seq] in Hk'. inversion Hk'; subst e.
    destruct (d_net0 _ r Hin) as (_ & _ & _ & _ & A5 & _). specialize (A5 eq_refl). lia.
  - intros _. discriminate.
  - intros e r l Hin Hl e' q Hq'. destruct (d_acks0 e r l Hin Hl e' q Hq') as (rk & m & rq0 & B1 & B2 & B3 & B4).
    exists rk, m, rq0. split; [now right | auto].
  - intros e q p Hin. destruct (d_got0 e q p Hin) as [G1 (r & G2 & G3 & G4)].
    split; [exact G1|]. exists r. split; [now right | auto].
Qed.

Lemma dinv_net_R P sp np sm sm' nm er :
  DInv P sp np sm nm -> rview sm = rview sm' -> (forall l, r_kind (snd er) <> Ack l) ->
  DInv P sp np sm' (er :: nm).
Proof.
  intros H Hv Hk. apply DInv_rview with (sy := sm); [exact Hv|]. destruct H.
  constructor; try assumption.
  intros e r l [Heq | Hin] Hl e' q Hq.
  - subst er. cbn [snd] in Hk. exfalso. exact (Hk l Hl).
  - exact (d_acks0 e r l Hin Hl e' q Hq).
Qed.

Lemma pinv_start_ku me sm nm sp np req id :
  PInv me sm nm sp np -> pending sm = None ->
  PInv me (fst (start_ku me sm req id)) (sent_by me (snd (start_ku me sm req id)) ++ nm) sp np.
Proof.
  intros [H1 H2] Hp. unfold start_ku.
  destruct ((w_epoch sm =? max_epoch) || (max_msg <? hs_send sm) || (max_seq48 <? w_seq sm)) eqn:E.
  { cbn [fst snd sent_by app]. apply pinv_set_failed. now split. }
  cbn [fst snd].
  assert (Hsent : forall tl, (forall ev, In ev tl -> match ev with EvSent _ _ _ => False | _ => True end) ->
            forall e r, sent_by me (EvSent me e r :: tl) = [(e, r)]).
  { intros tl Htl e r. cbn [sent_by]. rewrite side_eqb_refl.
    assert (Hn : sent_by me tl = []).
    { induction tl as [|ev tl IH]; [reflexivity|]. pose proof (Htl ev (or_introl eq_refl)) as Hev.
      destruct ev; try contradiction; cbn [sent_by]; apply IH; intros ev' Hin; apply Htl; now right. }
    now rewrite Hn. }
  rewrite Hsent by (destruct id; cbn; intros ev Hin; [destruct Hin as [<- | []]; exact I | destruct Hin]). cbn [app].
  assert (Hq : w_seq sm <= max_seq48) by lia.
  assert (Hhs : hs_send sm = b me + (w_epoch sm - 3)) by (destruct H1; rewrite d_hsend0, Hp; lia).
  split.
  - pose proof (dinv_ku_S me sm
      (mkside (failed sm) (w_epoch sm) (w_sec sm) (w_seq sm + 1) (hs_send sm + 1)
              (Some (mkflight (hs_send sm) req id [w_seq sm])) (queue sm) (r_epoch sm) (r_gens sm)
              (hs_recv sm) (wins sm) (futq sm) (seen sm) (got sm))
      nm sp np (mkflight (hs_send sm) req id [w_seq sm]) req H1 Hq) as HS.
    cbn [w_epoch w_sec w_seq hs_send pending f_msg f_seqs] in HS. apply HS; try reflexivity; try lia.
    intros q [<- | []]. now left.
  - eapply dinv_net_R; [exact H2 | reflexivity |]. cbn [snd r_kind]. intros l; discriminate.
Qed.

(* ---------- the queue ---------- *)

Lemma pinv_drain me q : forall sm nm sp np,
  PInv me sm nm sp np ->
  PInv me (fst (drain me sm q)) (sent_by me (snd (drain me sm q)) ++ nm) sp np.
Proof.
  induction q as [|c q IH]; intros sm nm sp np H; cbn [drain].
  - cbn [fst snd sent_by app]. now apply pinv_set_queue.
  - destruct c as [p|req id].
    + pose proof (pinv_emit_app me sm nm sp np p H) as H1.
      destruct (emit_app me sm p) as [s1 e1]. cbn [fst snd] in H1.
      specialize (IH s1 _ sp np H1). destruct (drain me s1 q) as [s2 e2]. cbn [fst snd] in *.
      rewrite sent_by_app, <- app_assoc. exact IH.
    + destruct (pending sm) eqn:Ep.
      * cbn [fst snd sent_by app]. now apply pinv_set_queue.
      * pose proof (pinv_start_ku me sm nm sp np req id H Ep) as H1.
        destruct (start_ku me sm req id) as [s1 e1]. cbn [fst snd] in H1.
        destruct (failed s1).
        -- cbn [fst snd]. now apply pinv_set_queue.
        -- specialize (IH s1 _ sp np H1). destruct (drain me s1 q) as [s2 e2]. cbn [fst snd] in *.
           rewrite sent_by_app, <- app_assoc. exact IH.
Qed.

Lemma pinv_submit me sm nm sp np c :
  PInv me sm nm sp np ->
  PInv me (fst (submit me sm c)) (sent_by me (snd (submit me sm c)) ++ nm) sp np.
Proof.
  intro H. unfold submit. destruct (failed sm); [exact H|]. now apply pinv_drain.
Qed.

(* ---------- the retransmission timer ---------- *)

Lemma pinv_timer me sm nm sp np :
  PInv me sm nm sp np ->
  PInv me (fst (timer me sm)) (sent_by me (snd (timer me sm)) ++ nm) sp np.
Proof.
  intros [H1 H2]. unfold timer. destruct (failed sm); [now split|].
  destruct (pending sm) as [f|] eqn:Ep; [|now split].
  unfold emit_ctl, seal. destruct (max_seq48 <? w_seq sm) eqn:E; cbn [fst snd].
  - cbn [sent_by app]. apply pinv_set_failed.
    assert (K1 : ku_ok me sm (App 0)) by (intros m rq Hk; discriminate).
    assert (K2 : ack_ok sm np (App 0)) by (intros l Hk; discriminate).
    pose proof (pinv_seal me sm nm sp np (App 0) (conj H1 H2) K1 K2) as HS.
    unfold seal in HS. rewrite E in HS. exact HS.
  - cbn [r_seq]. rewrite sent_by_one. cbn [app].
    assert (Hq : w_seq sm <= max_seq48) by lia.
    destruct (d_pend _ _ _ _ _ H1 f Ep) as [P1 P2].
    assert (Hhs : hs_send sm = b me + (w_epoch sm - 3) + 1) by (rewrite (d_hsend _ _ _ _ _ H1), Ep; reflexivity).
    split.
    + pose proof (dinv_ku_S me sm
        (set_pending (set_wseq sm (w_seq sm + 1)) (Some (mkflight (f_msg f) (f_req f) (f_id f) (w_seq sm :: f_seqs f))))
        nm sp np (mkflight (f_msg f) (f_req f) (f_id f) (w_seq sm :: f_seqs f)) (f_req f) H1 Hq) as HS.
      cbn [w_epoch w_sec w_seq hs_send pending set_pending set_wseq f_msg f_seqs] in HS.
      apply HS; try reflexivity; try assumption.
      intros q [<- | Hin]; [now left | right; eauto].
    + eapply dinv_net_R; [exact H2 | reflexivity |]. cbn [snd r_kind]. intros l; discriminate.
Qed.


(* ---------- receiving: opening an authentic record ---------- *)

Lemma max_seq64_facts : 0 < max_seq64 /\ N.of_nat W <= max_seq64.
Proof. unfold max_seq64. split; lia. Qed.

(* an authentic record is opened by the generation of its own epoch, or not at all *)
Lemma open_rec_authentic P sp np sm nm e0 r :
  DInv P sp np sm nm -> In (e0, r) np ->
  open_rec sm r = BadRecord \/ open_rec sm r = Opened e0.
Proof.
  intros H Hin. destruct (d_net _ _ _ _ _ H e0 r Hin) as (A1 & A2 & A3 & _).
  pose proof (d_epochs _ _ _ _ _ H) as Hep. pose proof (d_rrange _ _ _ _ _ H) as Hrr.
  unfold open_rec. rewrite (d_rgens _ _ _ _ _ H).
  set (elig := filter (fun g => g_epoch g <=? r_epoch sm)
                      (filter (fun g => low2 (g_epoch g) =? r_elow r) (gens_down P (r_epoch sm)))).
  assert (Hmine : In (mkgen e0 (secret_of P e0)) elig).
  { apply filter_In. split; [apply filter_In; split|].
    - apply gens_down_in; [lia|]. right. exists e0. split; [lia | reflexivity].
    - cbn [g_epoch]. rewrite A3. apply N.eqb_refl.
    - cbn [g_epoch]. apply N.leb_le. lia. }
  destruct elig as [|g0 tl] eqn:Eel; [contradiction|]. rewrite <- Eel.
  destruct (find (gen_opens sm r) elig) as [g|] eqn:Ef; [|now left].
  right. apply find_some in Ef. destruct Ef as [Hg Hop].
  unfold elig in Hg. apply filter_In in Hg. destruct Hg as [Hg _]. apply filter_In in Hg. destruct Hg as [Hg _].
  apply gens_down_in in Hg; [|lia].
  unfold gen_opens in Hop. apply andb_prop in Hop. destruct Hop as [Hs _]. apply sec_eqb_eq in Hs.
  destruct Hg as [-> | (e & He & ->)]; cbn [g_sec g_epoch] in *.
  - rewrite A2 in Hs. exfalso. symmetry in Hs. unfold secret_of in Hs. exact (nx_not_hs _ _ _ Hs).
  - rewrite A2 in Hs. apply secret_of_inj in Hs; [|lia|lia]. destruct Hs as [-> _]. reflexivity.
Qed.

(* ---------- the replay window and the delivered log ---------- *)

Lemma check_fresh P sp np sm nm e q :
  DInv P sp np sm nm -> check max_seq64 (wins sm e) q = true -> ~ In (e, q) (seen sm).
Proof.
  intros H Hc Hin. destruct (d_wins _ _ _ _ _ H e) as [HI _].
  apply (check_spec W max_seq64 _ _ q HI) in Hc. destruct Hc as [_ [Hlt | [_ Hn]]].
  - destruct HI as (_ & _ & Hle & _). apply seqs_at_in in Hin. specialize (Hle _ Hin). lia.
  - apply Hn. now apply seqs_at_in.
Qed.

Lemma dinv_mark_R P sp np sm nm e q :
  DInv P sp np sm nm -> check max_seq64 (wins sm e) q = true -> DInv P sp np (mark sm e q) nm.
Proof.
  intros H Hc. pose proof (check_fresh _ _ _ _ _ _ _ H Hc) as Hfresh. destruct H.
  constructor; cbn [r_epoch r_gens hs_recv wins seen got futq mark]; try assumption.
  - intro e'. destruct (N.eqb_spec e' e) as [-> | Hne].
    + rewrite seqs_at_cons_same. destruct (d_wins0 e) as [HI Hl].
      destruct max_seq64_facts as [M1 M2].
      destruct (accept_inv W max_seq64 (wins sm e) _ q M1 M2 HI Hc Hl) as [HI' Hl']. split; assumption.
    + rewrite seqs_at_cons_other by congruence. apply d_wins0.
  - constructor; assumption.
  - intros e' q' p Hin. destruct (d_got0 e' q' p Hin) as [G1 G2]. split; [now right | exact G2].
Qed.

Lemma pinv_mark me sm nm sp np e q :
  PInv me sm nm sp np -> check max_seq64 (wins sm e) q = true -> PInv me (mark sm e q) nm sp np.
Proof.
  intros [H1 H2] Hc. split; [eapply DInv_sview; [|exact H1]; reflexivity | now apply dinv_mark_R].
Qed.

Lemma dinv_addgot_R P sp np sm nm e q p r :
  DInv P sp np sm nm -> In (e, q) (seen sm) -> ~ In (e, q) (map gkey (got sm)) ->
  In (e, r) np -> r_seq r = q -> r_kind r = App p -> DInv P sp np (add_got sm e q p) nm.
Proof.
  intros H Hs Hn Hin Hq Hk. destruct H.
  constructor; cbn [r_epoch r_gens hs_recv wins seen got futq add_got]; try assumption.
  - intros e' q' p' [Heq | Hin'].
    + inversion Heq; subst. split; [exact Hs | eauto].
    + now apply d_got0.
  - cbn [map]. constructor; assumption.
Qed.

(* ---------- ACK: committing the pending generation ---------- *)

Lemma dinv_commit_S X sx nt sy ny :
  DInv X sx nt sy ny -> pending sx <> None -> r_epoch sy = w_epoch sx + 1 ->
  DInv X (mkside (failed sx) (w_epoch sx + 1) (Next (w_sec sx)) 0 (hs_send sx) None (queue sx) (r_epoch sx)
                 (r_gens sx) (hs_recv sx) (wins sx) (futq sx) (seen sx) (got sx)) nt sy ny.
Proof.
  intros H Hp Hr. destruct H.
  constructor; cbn [w_epoch w_sec w_seq hs_send pending]; try assumption.
  - lia.
  - rewrite d_wsec0. symmetry. apply secret_of_succ. lia.
  - rewrite d_hsend0. destruct (pending sx); [lia | contradiction].
  - intros f Hf. discriminate.
  - intros e r Hin. destruct (d_net0 e r Hin) as (A1 & A2 & A3 & A4 & A5 & A6).
    refine (conj _ (conj A2 (conj A3 (conj A4 (conj _ A6))))); [lia | intro; lia].
  - lia.
  - intro; lia.
Qed.

Lemma pinv_on_ack me sm nm sp np e0 r l :
  PInv me sm nm sp np -> In (e0, r) np -> r_kind r = Ack l ->
  PInv me (fst (on_ack me sm l)) (sent_by me (snd (on_ack me sm l)) ++ nm) sp np.
Proof.
  intros [H1 H2] Hin Hl. unfold on_ack. destruct (pending sm) as [f|] eqn:Ep; [|now split].
  destruct (acked sm f l) eqn:Ea; [|now split].
  assert (Hs : sent_by me (snd (commit me sm f)) = []).
  { unfold commit. cbn [snd sent_by]. destruct (f_id f); reflexivity. }
  rewrite Hs. cbn [app]. unfold commit. cbn [fst].
  (* the acknowledged record is one of the flight's records, so the peer processed the message *)
  unfold acked in Ea. apply existsb_exists in Ea. destruct Ea as [[e' q] [Hq Hc]]. cbn [fst snd] in Hc.
  apply andb_prop in Hc. destruct Hc as [He Hc]. apply N.eqb_eq in He. subst e'.
  apply existsb_exists in Hc. destruct Hc as [q' [Hq' Heq]]. apply N.eqb_eq in Heq. subst q'.
  destruct (d_acks _ _ _ _ _ H1 e0 r l Hin Hl _ _ Hq) as (rk & m & rq & B1 & B2 & B3 & B4).
  destruct (d_pend _ _ _ _ _ H1 f Ep) as [P1 P2]. destruct (P2 q Hq') as (r' & rq' & R1 & R2 & R3).
  assert (Hsame : (w_epoch sm, rk) = (w_epoch sm, r')).
  { apply (nodup_map_inj rkey nm); [exact (d_uniq _ _ _ _ _ H1) | exact B1 | exact R1 |].
    unfold rkey. cbn [fst snd]. congruence. }
  inversion Hsame; subst r'. rewrite B3 in R3. inversion R3; subst m.
  assert (Hr : r_epoch sp = w_epoch sm + 1).
  { pose proof (d_hrecv _ _ _ _ _ H1) as Hh. pose proof (d_epochs _ _ _ _ _ H1) as Hep.
    pose proof (d_wrange _ _ _ _ _ H1). pose proof (d_rrange _ _ _ _ _ H1). lia. }
  split.
  - apply dinv_commit_S; [exact H1 | congruence | exact Hr].
  - eapply DInv_rview; [|exact H2]. reflexivity.
Qed.

(* ---------- KeyUpdate: advancing the read generation ---------- *)

Lemma dinv_advance_R P sp np sm nm cur tl (req : bool) :
  DInv P sp np sm nm -> r_gens sm = cur :: tl ->
  r_epoch sm = w_epoch sp -> pending sp <> None -> r_epoch sm <> max_epoch ->
  DInv P sp np
    (mkside (failed sm) (w_epoch sm) (w_sec sm) (w_seq sm) (hs_send sm) (pending sm)
            (if req then insert_response (queue sm) else queue sm)
            (r_epoch sm + 1) (mkgen (r_epoch sm + 1) (Next (g_sec cur)) :: r_gens sm)
            (hs_recv sm + 1) (wins sm) [] (seen sm) (got sm)) nm.
Proof.
  intros H Hg Hr Hp Hmax. destruct H.
  constructor; cbn [r_epoch r_gens hs_recv wins seen got futq]; try assumption.
  - unfold max_epoch in *. lia.
  - rewrite gens_down_succ by lia. rewrite <- d_rgens0. f_equal. f_equal.
    destruct (gens_down_head P (r_epoch sm)) as [tl' Htl]; [lia|].
    rewrite d_rgens0, Htl in Hg. inversion Hg; subst cur. cbn [g_sec].
    symmetry. apply secret_of_succ. lia.
  - lia.
  - lia.
  - intros _. exact Hp.
  - intros e r l Hin Hl e' q Hq. destruct (d_acks0 e r l Hin Hl e' q Hq) as (rk & m & rq & B1 & B2 & B3 & B4).
    exists rk, m, rq. repeat (split; [assumption|]). lia.
  - reflexivity.
Qed.

Lemma pinv_on_ku me sm nm sp np e r m req :
  PInv me sm nm sp np -> In (e, r) np -> r_kind r = KU m req ->
  PInv me (fst (on_ku me sm e (r_seq r) m req)) (sent_by me (snd (on_ku me sm e (r_seq r) m req)) ++ nm) sp np.
Proof.
  intros [H1 H2] Hin Hk.
  destruct (d_net _ _ _ _ _ H2 e r Hin) as (A1 & A2 & A3 & A4 & A5 & A6). destruct (A6 m req Hk) as [M1 M2].
  pose proof (d_hrecv _ _ _ _ _ H2) as Hhr. pose proof (d_epochs _ _ _ _ _ H2) as Hep.
  pose proof (d_rrange _ _ _ _ _ H2) as Hrr. pose proof (d_hsend _ _ _ _ _ H2) as Hhs.
  assert (Hack : forall s', PInv me s' nm sp np -> m < hs_recv s' ->
            PInv me (fst (send_ack me s' [(e, r_seq r)])) (sent_by me (snd (send_ack me s' [(e, r_seq r)])) ++ nm) sp np).
  { intros s' HP Hlt. unfold send_ack.
    pose proof (pinv_emit_ctl me s' nm sp np (Ack [(e, r_seq r)]) HP) as HE.
    destruct (emit_ctl me s' (Ack [(e, r_seq r)])) as [[s1 evs] o]. cbn [fst snd] in *. apply HE.
    - intros m' rq' E; discriminate.
    - intros l E e' q Hq. inversion E; subst l. destruct Hq as [Heq | []]. inversion Heq; subst e' q.
      exists r, m, req. auto. }
  unfold on_ku. destruct (m <? hs_recv sm) eqn:E1.
  { apply Hack; [now split | lia]. }
  destruct (m =? hs_recv sm) eqn:E2.
  2:{ exfalso. lia. }
  assert (He : e = r_epoch sm) by lia.
  destruct (gens_down_head (other me) (r_epoch sm)) as [tl Htl]; [lia|].
  pose proof (d_rgens _ _ _ _ _ H2) as Hrg. rewrite Htl in Hrg. rewrite Hrg. cbn [g_epoch].
  replace (r_epoch sm =? e) with true by (symmetry; apply N.eqb_eq; lia). cbn [andb negb].
  destruct (r_epoch sm =? max_epoch) eqn:E3.
  { cbn [fst snd sent_by app]. apply pinv_set_failed. now split. }
  assert (Hrw : r_epoch sm = w_epoch sp) by lia.
  assert (Hpp : pending sp <> None).
  { intro Hn. rewrite Hn in Hhs. lia. }
  unfold advance_read. rewrite Hrg. rewrite (d_futq _ _ _ _ _ H2). cbn [recv_parked_all fst snd].
  set (s1 := mkside _ _ _ _ _ _ _ _ _ _ _ _ _ _).
  assert (HP1 : PInv me s1 nm sp np).
  { split.
    - eapply DInv_sview; [|exact H1]. reflexivity.
    - unfold s1. rewrite <- Hrg. eapply dinv_advance_R; try eassumption. apply N.eqb_neq. exact E3. }
  destruct (failed s1) eqn:Ef1.
  { cbn [fst snd sent_by app]. exact HP1. }
  destruct (max_msg <? hs_recv s1).
  { cbn [fst snd]. rewrite sent_by_app. cbn [sent_by app]. now apply pinv_set_failed. }
  assert (Hlt : m < hs_recv s1) by (unfold s1; cbn [hs_recv]; lia).
  specialize (Hack s1 HP1 Hlt).
  destruct (send_ack me s1 [(e, r_seq r)]) as [s2 e2]. cbn [fst snd] in *.
  rewrite sent_by_app. cbn [sent_by app]. rewrite app_nil_r. exact Hack.
Qed.

(* ---------- one arriving datagram ---------- *)

Lemma pinv_recv me sm nm sp np r :
  PInv me sm nm sp np -> In r (map snd np) ->
  PInv me (fst (recv me sm r)) (sent_by me (snd (recv me sm r)) ++ nm) sp np.
Proof.
  intros HP Hin. apply in_map_iff in Hin. destruct Hin as [[e0 r0] [Hr Hin]]. cbn [snd] in Hr. subst r0.
  destruct HP as [H1 H2].
  unfold recv. destruct (failed sm); [now split|].
  destruct (open_rec_authentic _ _ _ _ _ _ _ H2 Hin) as [-> | ->]; [now split|].
  destruct (check max_seq64 (wins sm e0) (r_seq r)) eqn:Ec; cbn [negb]; [|now split].
  pose proof (pinv_mark me sm nm sp np e0 (r_seq r) (conj H1 H2) Ec) as HM.
  destruct (r_kind r) as [p|m req|l] eqn:Ek.
  - cbn [fst snd sent_by app]. destruct HM as [M1 M2]. split.
    + eapply DInv_sview; [|exact M1]. reflexivity.
    + eapply dinv_addgot_R; try eassumption; try reflexivity.
      * cbn [seen mark]. now left.
      * cbn [got mark]. intro Hg. apply in_map_iff in Hg. destruct Hg as [[[e' q'] p'] [Hk' Hg]].
        unfold gkey in Hk'. cbn [fst snd] in Hk'. inversion Hk'; subst e' q'.
        destruct (d_got _ _ _ _ _ H2 _ _ _ Hg) as [Hs _].
        exact (check_fresh _ _ _ _ _ _ _ H2 Ec Hs).
  - pose proof (pinv_on_ku me _ nm sp np e0 r m req HM Hin Ek) as HK.
    destruct (on_ku me (mark sm e0 (r_seq r)) e0 (r_seq r) m req) as [s2 e2]. cbn [fst snd] in HK.
    destruct (failed s2); [exact HK|].
    pose proof (pinv_drain me (queue s2) s2 _ sp np HK) as HD. unfold run_queue.
    destruct (drain me s2 (queue s2)) as [s3 e3]. cbn [fst snd] in *.
    rewrite sent_by_app, <- app_assoc. exact HD.
  - pose proof (pinv_on_ack me _ nm sp np e0 r l HM Hin Ek) as HK.
    destruct (on_ack me (mark sm e0 (r_seq r)) l) as [s2 e2]. cbn [fst snd] in HK.
    destruct (failed s2); [exact HK|].
    pose proof (pinv_drain me (queue s2) s2 _ sp np HK) as HD. unfold run_queue.
    destruct (drain me s2 (queue s2)) as [s3 e3]. cbn [fst snd] in *.
    rewrite sent_by_app, <- app_assoc. exact HD.
Qed.

(* ---------- steps and runs ---------- *)

Lemma PInv_swap me sm nm sp np : PInv me sm nm sp np -> PInv (other me) sp np sm nm.
Proof. intros [H1 H2]. split; [exact H2 | now rewrite other_other]. Qed.

Lemma GInv_of_side st me : PInv me (sd st me) (net st me) (sd st (other me)) (net st (other me)) -> GInv st.
Proof. intro H. destruct me; [exact H | apply PInv_swap in H; exact H]. Qed.

Theorem step_GInv st o : GInv st -> authentic_op st o -> GInv (fst (step st o)).
Proof.
  intros HG Ha. rewrite step_act. set (me := actor o).
  apply (GInv_of_side _ me). rewrite put_sd_me, put_sd_other, put_net_me, put_net_other.
  pose proof (GInv_side st me HG) as HP.
  destruct o as [s req id|s p|to r|s]; cbn [actor act] in *; subst me.
  - now apply pinv_submit.
  - now apply pinv_submit.
  - now apply pinv_recv.
  - now apply pinv_timer.
Qed.

Theorem exec_GInv ops : forall st, GInv st -> authentic st ops -> GInv (fst (exec st ops)).
Proof.
  induction ops as [|o ops IH]; intros st HG Ha; [exact HG|].
  cbn [exec]. destruct Ha as [Ha1 Ha2]. pose proof (step_GInv st o HG Ha1) as H1.
  destruct (step st o) as [st1 e1]. cbn [fst] in *. specialize (IH st1 H1 Ha2).
  destruct (exec st1 ops) as [st2 e2]. exact IH.
Qed.


(* ====================================================================== *)
(* 3. consequences of the invariant                                        *)
(* ====================================================================== *)

(* ---------- successor chain ---------- *)

Theorem successor_chain st X : GInv st ->
  w_sec (sd st X) = secret_of X (w_epoch (sd st X)) /\
  (forall e, 3 <= e <= w_epoch (sd st X) ->
     In (mkgen e (secret_of X e)) (r_gens (sd st (other X))) /\
     (e < w_epoch (sd st X) -> secret_of X (e + 1) = Next (secret_of X e))).
Proof.
  intro HG. destruct (GInv_side st X HG) as [H1 _]. split; [exact (d_wsec _ _ _ _ _ H1)|].
  intros e He. split.
  - rewrite (d_rgens _ _ _ _ _ H1). pose proof (d_epochs _ _ _ _ _ H1). apply gens_down_in; [lia|].
    right. exists e. split; [lia | reflexivity].
  - intros _. apply secret_of_succ. lia.
Qed.

(* every generation ever authorised stays installed (TrafficKeyState never discards one) *)
Theorem all_generations_retained st X : GInv st ->
  forall g, In g (r_gens (sd st (other X))) <->
    g = mkgen 2 (Hs X) \/ exists e, 3 <= e <= r_epoch (sd st (other X)) /\ g = mkgen e (secret_of X e).
Proof.
  intros HG g. destruct (GInv_side st X HG) as [H1 _]. rewrite (d_rgens _ _ _ _ _ H1).
  pose proof (d_rrange _ _ _ _ _ H1). apply gens_down_in. lia.
Qed.

(* the peer never sends under an epoch the receiver has not authorised *)
Theorem sent_epoch_authorised st X e r : GInv st -> In (e, r) (net st X) ->
  3 <= e <= r_epoch (sd st (other X)) /\ r_key r = secret_of X e /\ r_elow r = low2 e.
Proof.
  intros HG Hin. destruct (GInv_side st X HG) as [H1 _].
  destruct (d_net _ _ _ _ _ H1 e r Hin) as (A1 & A2 & A3 & _). pose proof (d_epochs _ _ _ _ _ H1).
  repeat split; try assumption; lia.
Qed.

(* ---------- at most once, unmodified ---------- *)

Definition payload_of (t : N * N * N) : N := snd t.
Definition reads (s : sidest) : list N := map payload_of (got s).
Definition is_app (p : N) (er : N * rec) : bool :=
  match r_kind (snd er) with App p' => p' =? p | _ => false end.
Definition sealed (nt : list (N * rec)) : list N :=
  flat_map (fun er => match r_kind (snd er) with App p => [p] | _ => [] end) nt.

Lemma count_reads_filter (l : list (N * N * N)) p :
  count_occ N.eq_dec (map payload_of l) p = length (filter (fun t => payload_of t =? p) l).
Proof.
  induction l as [|t l IH]; [reflexivity|]. cbn [map count_occ filter].
  destruct (N.eq_dec (payload_of t) p) as [E|E].
  - rewrite (proj2 (N.eqb_eq _ _) E). cbn [length]. now rewrite IH.
  - rewrite (proj2 (N.eqb_neq _ _) E). exact IH.
Qed.

Lemma count_sealed_filter (nt : list (N * rec)) p :
  count_occ N.eq_dec (sealed nt) p = length (filter (is_app p) nt).
Proof.
  induction nt as [|er nt IH]; [reflexivity|]. cbn [sealed flat_map filter]. unfold is_app at 1.
  destruct (r_kind (snd er)) as [p'| |]; cbn [app]; try exact IH.
  cbn [count_occ]. destruct (N.eq_dec p' p) as [E|E].
  - rewrite (proj2 (N.eqb_eq _ _) E). cbn [length]. f_equal. exact IH.
  - rewrite (proj2 (N.eqb_neq _ _) E). exact IH.
Qed.

Lemma NoDup_map_filter {T K : Type} (f : T -> K) (g : T -> bool) (l : list T) :
  NoDup (map f l) -> NoDup (map f (filter g l)).
Proof.
  induction l as [|a l IH]; intro H; [constructor|]. cbn [map] in H. inversion H as [|? ? Hn Hd]; subst.
  cbn [filter]. destruct (g a); [|now apply IH]. cbn [map]. constructor; [|now apply IH].
  intro Hin. apply Hn. apply in_map_iff in Hin. destruct Hin as [x [Hx Hin]]. apply filter_In in Hin.
  apply in_map_iff. exists x. tauto.
Qed.

Theorem at_most_once_unmodified st X : GInv st ->
  forall p, (count_occ N.eq_dec (reads (sd st (other X))) p <= count_occ N.eq_dec (sealed (net st X)) p)%nat.
Proof.
  intros HG p. destruct (GInv_side st X HG) as [H1 _].
  unfold reads. rewrite count_reads_filter, count_sealed_filter.
  set (G := filter (fun t => payload_of t =? p) (got (sd st (other X)))).
  set (Wp := filter (is_app p) (net st X)).
  rewrite <- (map_length gkey G), <- (map_length rkey Wp).
  apply NoDup_incl_length.
  - apply NoDup_map_filter. exact (d_gotuniq _ _ _ _ _ H1).
  - intros k Hk. apply in_map_iff in Hk. destruct Hk as [[[e q] p'] [Hk Hin]].
    unfold G in Hin. apply filter_In in Hin. destruct Hin as [Hin Hp]. unfold payload_of in Hp. cbn [snd] in Hp.
    apply N.eqb_eq in Hp. subst p'. unfold gkey in Hk. cbn [fst snd] in Hk. subst k.
    destruct (d_got _ _ _ _ _ H1 e q p Hin) as [_ (r & R1 & R2 & R3)].
    apply in_map_iff. exists (e, r). split; [unfold rkey; cbn [fst snd]; now rewrite R2|].
    unfold Wp. apply filter_In. split; [exact R1|]. unfold is_app. cbn [snd]. rewrite R3. apply N.eqb_refl.
Qed.

(* every payload handed to Read was sealed by the peer in a record with exactly that content,
   and no record number is delivered twice *)
Theorem delivered_records_genuine st X : GInv st ->
  NoDup (map gkey (got (sd st (other X)))) /\
  forall e q p, In (e, q, p) (got (sd st (other X))) ->
    exists r, In (e, r) (net st X) /\ r_seq r = q /\ r_kind r = App p /\ r_key r = secret_of X e.
Proof.
  intro HG. destruct (GInv_side st X HG) as [H1 _]. split; [exact (d_gotuniq _ _ _ _ _ H1)|].
  intros e q p Hin. destruct (d_got _ _ _ _ _ H1 e q p Hin) as [_ (r & R1 & R2 & R3)].
  exists r. destruct (d_net _ _ _ _ _ H1 e r R1) as (_ & A2 & _). auto.
Qed.

(* ---------- delivered if it arrives in time ---------- *)

Lemma reconstruct_ok q h :
  (h < q <= h + 32768 \/ (q <= h /\ h - q < 32767)) -> reconstruct (q mod seq_bits) h = q.
Proof.
  intro H. unfold reconstruct, seq_bits. change (65536 / 2) with 32768.
  rewrite N.mod_mod by lia.
  destruct ((h + 1) / 65536 * 65536 + q mod 65536 + 32768 <=? h + 1) eqn:E1.
  - apply N.leb_le in E1. lia.
  - apply N.leb_gt in E1.
    destruct ((h + 1 + 32768 <? (h + 1) / 65536 * 65536 + q mod 65536) &&
              (65536 <=? (h + 1) / 65536 * 65536 + q mod 65536)) eqn:E2.
    + apply andb_prop in E2. destruct E2 as [E2 E3]. apply N.ltb_lt in E2. apply N.leb_le in E3. lia.
    + apply andb_false_iff in E2. destruct E2 as [E2 | E2]; [apply N.ltb_ge in E2 | apply N.leb_gt in E2]; lia.
Qed.

Theorem delivered_if_arrives_while_retained st X e r p : GInv st ->
  In (e, r) (net st X) -> r_kind r = App p ->
  let Y := other X in let sy := sd st Y in
  failed sy = false -> ~ In (e, r_seq r) (seen sy) ->
  (latest (wins sy e) < r_seq r <= latest (wins sy e) + 32768 \/
   (r_seq r <= latest (wins sy e) /\ latest (wins sy e) - r_seq r < N.of_nat W)) ->
  recv Y sy r = (add_got (mark sy e (r_seq r)) e (r_seq r) p, [EvRead Y p]).
Proof.
  intros HG Hin Hk Y sy Hf Hns Hwin. destruct (GInv_side st X HG) as [H1 _]. fold Y in H1. fold sy in H1.
  destruct (d_net _ _ _ _ _ H1 e r Hin) as (A1 & A2 & A3 & A4 & _).
  pose proof (d_epochs _ _ _ _ _ H1) as Hep. pose proof (d_rrange _ _ _ _ _ H1) as Hrr.
  unfold recv. rewrite Hf.
  assert (Hop : open_rec sy r = Opened e).
  { destruct (open_rec_authentic _ _ _ _ _ _ _ H1 Hin) as [Hb | Ho]; [|exact Ho]. exfalso.
    unfold open_rec in Hb. rewrite (d_rgens _ _ _ _ _ H1) in Hb.
    set (elig := filter (fun g => g_epoch g <=? r_epoch sy)
                        (filter (fun g => low2 (g_epoch g) =? r_elow r) (gens_down X (r_epoch sy)))) in Hb.
    assert (Hmine : In (mkgen e (secret_of X e)) elig).
    { apply filter_In. split; [apply filter_In; split|].
      - apply gens_down_in; [lia|]. right. exists e. split; [lia | reflexivity].
      - cbn [g_epoch]. rewrite A3. apply N.eqb_refl.
      - cbn [g_epoch]. apply N.leb_le. lia. }
    destruct elig as [|g0 tl] eqn:Eel; [contradiction|]. rewrite <- Eel in Hb.
    destruct (find (gen_opens sy r) elig) eqn:Ef; [discriminate|].
    rewrite <- Eel in Hmine. pose proof (find_none _ _ Ef _ Hmine) as Hno.
    unfold gen_opens in Hno. cbn [g_sec g_epoch] in Hno. rewrite A2, sec_eqb_refl in Hno. cbn [andb] in Hno.
    rewrite reconstruct_ok in Hno by lia. rewrite N.eqb_refl in Hno. discriminate. }
  rewrite Hop.
  assert (Hc : check max_seq64 (wins sy e) (r_seq r) = true).
  { destruct (d_wins _ _ _ _ _ H1 e) as [HI _]. apply (check_spec W max_seq64 _ _ _ HI).
    split; [unfold max_seq64, max_seq48 in *; lia|].
    destruct Hwin as [[Hl _] | [Hl1 Hl2]]; [now left|].
    destruct (N.ltb_spec (latest (wins sy e)) (r_seq r)); [now left|].
    right. split; [exact Hl2|]. intro Hs. apply Hns. now apply seqs_at_in. }
  rewrite Hc. cbn [negb]. rewrite Hk. reflexivity.
Qed.


(* the ACK that completes a flight names one of its records, and the peer has processed the message *)
Lemma acked_processed me sm nm sp np f e0 r l :
  DInv me sm nm sp np -> pending sm = Some f -> In (e0, r) np -> r_kind r = Ack l -> acked sm f l = true ->
  exists q, In q (f_seqs f) /\ In (w_epoch sm, q) l /\ f_msg f < hs_recv sp /\ r_epoch sp = w_epoch sm + 1 /\
            b me <= f_msg f.
Proof.
  intros H1 Ep Hin Hl Ea.
  unfold acked in Ea. apply existsb_exists in Ea. destruct Ea as [[e' q] [Hq Hc]]. cbn [fst snd] in Hc.
  apply andb_prop in Hc. destruct Hc as [He Hc]. apply N.eqb_eq in He. subst e'.
  apply existsb_exists in Hc. destruct Hc as [q' [Hq' Heq]]. apply N.eqb_eq in Heq. subst q'.
  destruct (d_acks _ _ _ _ _ H1 e0 r l Hin Hl _ _ Hq) as (rk & m & rq & B1 & B2 & B3 & B4).
  destruct (d_pend _ _ _ _ _ H1 f Ep) as [P1 P2]. destruct (P2 q Hq') as (r' & rq' & R1 & R2 & R3).
  assert (Hsame : (w_epoch sm, rk) = (w_epoch sm, r')).
  { apply (nodup_map_inj rkey nm); [exact (d_uniq _ _ _ _ _ H1) | exact B1 | exact R1 |].
    unfold rkey. cbn [fst snd]. congruence. }
  inversion Hsame; subst r'. rewrite B3 in R3. inversion R3; subst m.
  exists q. repeat (split; [assumption|]).
  pose proof (d_hrecv _ _ _ _ _ H1) as Hh. pose proof (d_epochs _ _ _ _ _ H1) as Hep.
  pose proof (d_wrange _ _ _ _ _ H1). pose proof (d_rrange _ _ _ _ _ H1). lia.
Qed.

End Invariant.

(* ====================================================================== *)
(* 4. records under an epoch that is not (or not yet) authorised           *)
(* ====================================================================== *)

(* no installed generation that the receive epoch authorises holds the record's key *)
Definition no_key (s : sidest) (r : rec) : Prop :=
  forall g, In g (r_gens s) -> g_epoch g <= r_epoch s -> low2 (g_epoch g) = r_elow r -> g_sec g <> r_key r.

Lemma open_rec_no_key s r : no_key s r -> open_rec s r = NoEpoch \/ open_rec s r = BadRecord.
Proof.
  intro H. unfold open_rec.
  set (elig := filter (fun g => g_epoch g <=? r_epoch s) (filter (fun g => low2 (g_epoch g) =? r_elow r) (r_gens s))).
  destruct elig as [|g0 tl] eqn:Eel; [now left|]. rewrite <- Eel. right.
  destruct (find (gen_opens s r) elig) as [g|] eqn:Ef; [|reflexivity]. exfalso.
  apply find_some in Ef. destruct Ef as [Hg Hop]. unfold elig in Hg.
  apply filter_In in Hg. destruct Hg as [Hg H1]. apply filter_In in Hg. destruct Hg as [Hg H2].
  apply N.leb_le in H1. apply N.eqb_eq in H2.
  unfold gen_opens in Hop. apply andb_prop in Hop. destruct Hop as [Hs _]. apply sec_eqb_eq in Hs.
  exact (H g Hg H1 H2 Hs).
Qed.

(* such a record is never delivered and changes nothing, except that the datagram may be parked when
   its epoch bits are those of the next epoch; a parked datagram is only ever re-examined by
   [recv_parked], for which the same holds *)
Theorem unauthorised_epoch_rejected me s r : no_key s r ->
  recv me s r = (s, []) \/
  (recv me s r = (set_futq s (futq s ++ [r]), []) /\ low2 (r_epoch s + 1) = r_elow r).
Proof.
  intro H. unfold recv. destruct (failed s); [now left|].
  destruct (open_rec_no_key s r H) as [-> | ->]; [|now left].
  destruct (low2 (r_epoch s + 1) =? r_elow r) eqn:E; cbn [andb]; [|now left].
  destruct (length (futq s) <? futq_cap)%nat; [|now left].
  right. split; [reflexivity | now apply N.eqb_eq].
Qed.

Theorem unauthorised_parked_rejected me s r : no_key s r -> recv_parked me s r = (s, []).
Proof. intro H. unfold recv_parked. destruct (open_rec_no_key s r H) as [-> | ->]; reflexivity. Qed.

(* with the invariant: a record under the key of an epoch beyond the receive epoch has no key *)
Theorem future_epoch_no_key W b st X e r : GInv W b st ->
  r_key r = secret_of X e -> r_epoch (sd st (other X)) < e -> no_key (sd st (other X)) r.
Proof.
  intros HG Hk He g Hg Hle _ Hs. destruct (GInv_side W b st X HG) as [H1 _].
  rewrite (d_rgens _ _ _ _ _ _ _ H1) in Hg. pose proof (d_rrange _ _ _ _ _ _ _ H1) as Hrr.
  apply gens_down_in in Hg; [|lia]. rewrite Hk in Hs.
  destruct Hg as [-> | (e' & He' & ->)]; cbn [g_sec g_epoch] in *.
  - unfold secret_of in Hs. symmetry in Hs. exact (nx_not_hs _ _ _ Hs).
  - apply secret_of_inj in Hs; [|lia|lia]. lia.
Qed.

(* ====================================================================== *)
(* 5. what a step's events say (trace bookkeeping)                         *)
(* ====================================================================== *)

Fixpoint ev_reads (evs : list event) : list N :=
  match evs with [] => [] | EvRead _ p :: t => p :: ev_reads t | _ :: t => ev_reads t end.

Definition qapps (q : list cmd) : list N := flat_map (fun c => match c with CApp p => [p] | CKU _ _ => [] end) q.

Lemma ev_reads_app e1 e2 : ev_reads (e1 ++ e2) = ev_reads e1 ++ ev_reads e2.
Proof. induction e1 as [|ev e1 IH]; [reflexivity|]. destruct ev; cbn [app ev_reads]; rewrite ?IH; reflexivity. Qed.

Lemma sealed_app n1 n2 : sealed (n1 ++ n2) = sealed n1 ++ sealed n2.
Proof. unfold sealed. apply flat_map_app. Qed.

Lemma qapps_app q1 q2 : qapps (q1 ++ q2) = qapps q1 ++ qapps q2.
Proof. unfold qapps. apply flat_map_app. Qed.

Definition cnt (l : list N) (p : N) : nat := count_occ N.eq_dec l p.
Lemma cnt_app l1 l2 p : cnt (l1 ++ l2) p = (cnt l1 p + cnt l2 p)%nat.
Proof. apply count_occ_app. Qed.

Record Tr (me : side) (s s' : sidest) (evs : list event) : Prop := mkTr {
  t_hrecv : hs_recv s <= hs_recv s' /\ forall m, hs_recv s <= m < hs_recv s' -> In (EvKuIn me m) evs;
  t_pend : forall f' id, pending s' = Some f' -> f_id f' = Some id ->
             (exists f, pending s = Some f /\ f_id f = Some id /\ f_msg f = f_msg f') \/
             In (EvStart me id (f_msg f')) evs;
  t_reads : reads s' = rev (ev_reads evs) ++ reads s
}.

Lemma tr_refl me s : Tr me s s [].
Proof.
  constructor.
  - split; [lia | intros m Hm; lia].
  - intros f' id Hp Hid. left. eauto.
  - reflexivity.
Qed.

Lemma tr_trans me s1 s2 s3 e1 e2 : Tr me s1 s2 e1 -> Tr me s2 s3 e2 -> Tr me s1 s3 (e1 ++ e2).
Proof.
  intros [[A1 A2] B1 C1] [[A3 A4] B2 C2]. constructor.
  - split; [lia|]. intros m Hm. apply in_or_app.
    destruct (N.lt_ge_cases m (hs_recv s2)); [left; apply A2; lia | right; apply A4; lia].
  - intros f' id Hp Hid. destruct (B2 f' id Hp Hid) as [(f & F1 & F2 & F3) | Hin].
    + destruct (B1 f id F1 F2) as [(f0 & G1 & G2 & G3) | Hin].
      * left. exists f0. repeat split; congruence.
      * right. apply in_or_app. left. now rewrite <- F3.
    + right. apply in_or_app. now right.
  - rewrite C2, C1, ev_reads_app, rev_app_distr, app_assoc. reflexivity.
Qed.

(* updates that leave hs_recv, pending and got alone *)
Lemma tr_same me s s' evs :
  hs_recv s' = hs_recv s -> pending s' = pending s -> got s' = got s -> ev_reads evs = [] -> Tr me s s' evs.
Proof.
  intros H1 H2 H3 H4. constructor.
  - rewrite H1. split; [lia | intros m Hm; lia].
  - intros f' id Hp Hid. left. rewrite H2 in Hp. eauto.
  - unfold reads. rewrite H3, H4. reflexivity.
Qed.

Lemma tr_emit_ctl me s k : Tr me s (fst (fst (emit_ctl me s k))) (snd (fst (emit_ctl me s k))).
Proof. unfold emit_ctl, seal. destruct (max_seq48 <? w_seq s); cbn; apply tr_same; reflexivity. Qed.

Lemma tr_emit_app me s p : Tr me s (fst (emit_app me s p)) (snd (emit_app me s p)).
Proof. unfold emit_app, seal. destruct (max_seq48 <? w_seq s); cbn; apply tr_same; reflexivity. Qed.

Lemma tr_start_ku me s req id : pending s = None -> Tr me s (fst (start_ku me s req id)) (snd (start_ku me s req id)).
Proof.
  intro Hp. unfold start_ku. destruct (_ || _); cbn [fst snd]; [apply tr_same; reflexivity|].
  constructor; cbn [hs_recv pending got].
  - split; [lia | intros m Hm; lia].
  - intros f' i Hf Hid. inversion Hf; subst f'. cbn [f_id f_msg] in *. subst id. right. right. now left.
  - unfold reads. cbn [got]. destruct id; reflexivity.
Qed.

Lemma tr_set_queue me s s' evs q : Tr me s s' evs -> Tr me s (set_queue s' q) evs.
Proof. intros [A B C]. constructor; assumption. Qed.

Lemma tr_drain me q : forall s, Tr me s (fst (drain me s q)) (snd (drain me s q)).
Proof.
  induction q as [|c q IH]; intro s; cbn [drain].
  - cbn [fst snd]. apply tr_set_queue, tr_refl.
  - destruct c as [p|req id].
    + pose proof (tr_emit_app me s p) as F1. destruct (emit_app me s p) as [s1 e1]. cbn [fst snd] in F1.
      specialize (IH s1). destruct (drain me s1 q) as [s2 e2]. cbn [fst snd] in *.
      eapply tr_trans; eassumption.
    + destruct (pending s) eqn:Ep.
      * cbn [fst snd]. apply tr_set_queue, tr_refl.
      * pose proof (tr_start_ku me s req id Ep) as F1. destruct (start_ku me s req id) as [s1 e1]. cbn [fst snd] in F1.
        destruct (failed s1).
        -- cbn [fst snd]. now apply tr_set_queue.
        -- specialize (IH s1). destruct (drain me s1 q) as [s2 e2]. cbn [fst snd] in *.
           eapply tr_trans; eassumption.
Qed.

Lemma tr_timer me s : Tr me s (fst (timer me s)) (snd (timer me s)).
Proof.
  unfold timer. destruct (failed s); [apply tr_refl|].
  destruct (pending s) as [f|] eqn:Ep; [|apply tr_refl].
  unfold emit_ctl, seal. destruct (max_seq48 <? w_seq s); cbn [fst snd].
  - apply tr_same; reflexivity.
  - constructor; cbn [hs_recv pending got set_pending set_wseq].
    + split; [lia | intros m Hm; lia].
    + intros f' id Hf Hid. inversion Hf; subst f'. cbn [f_id f_msg] in *. left. eauto.
    + reflexivity.
Qed.

Lemma tr_recv_parked me s r : Tr me s (fst (recv_parked me s r)) (snd (recv_parked me s r)).
Proof.
  unfold recv_parked. destruct (open_rec s r); try apply tr_refl.
  destruct (check max_seq64 (wins s e) (r_seq r)); [|apply tr_refl].
  destruct (r_kind r); cbn [fst snd]; try (apply tr_same; reflexivity).
  constructor; cbn [hs_recv pending got add_got mark].
  - split; [lia | intros m Hm; lia].
  - intros f' id Hp Hid. left. eauto.
  - reflexivity.
Qed.

Lemma tr_recv_parked_all me l : forall s, Tr me s (fst (recv_parked_all me s l)) (snd (recv_parked_all me s l)).
Proof.
  induction l as [|r l IH]; intro s; cbn [recv_parked_all]; [apply tr_refl|].
  pose proof (tr_recv_parked me s r) as F1. destruct (recv_parked me s r) as [s1 e1]. cbn [fst snd] in F1.
  specialize (IH s1). destruct (recv_parked_all me s1 l) as [s2 e2]. cbn [fst snd] in *.
  eapply tr_trans; eassumption.
Qed.

Lemma tr_on_ack me s l : Tr me s (fst (on_ack me s l)) (snd (on_ack me s l)).
Proof.
  unfold on_ack. destruct (pending s) as [f|]; [|apply tr_refl].
  destruct (acked s f l); [|apply tr_refl]. unfold commit. cbn [fst snd].
  constructor; cbn [hs_recv pending got].
  - split; [lia | intros m Hm; lia].
  - intros f' id Hp. discriminate.
  - unfold reads. cbn [got]. destruct (f_id f); reflexivity.
Qed.

Lemma tr_send_ack me s l : Tr me s (fst (send_ack me s l)) (snd (send_ack me s l)).
Proof.
  unfold send_ack. pose proof (tr_emit_ctl me s (Ack l)) as F.
  destruct (emit_ctl me s (Ack l)) as [[s1 evs] o]. exact F.
Qed.

Lemma tr_advance_read me s m req : m = hs_recv s ->
  Tr me s (fst (advance_read me s m req)) (snd (advance_read me s m req)).
Proof.
  intro Hm. unfold advance_read. destruct (r_gens s) as [|cur gs].
  - cbn [fst snd]. apply tr_same; reflexivity.
  - match goal with |- context [recv_parked_all me ?s1 ?l] =>
      pose proof (tr_recv_parked_all me l s1) as F; destruct (recv_parked_all me s1 l) as [s2 e2] end.
    cbn [fst snd] in *. destruct F as [[A1 A2] B C]. cbn [hs_recv pending got] in *. constructor.
    + split; [lia|]. intros m' Hm'. destruct (N.eq_dec m' (hs_recv s)) as [-> | Hne].
      * left. now rewrite Hm.
      * right. apply A2. lia.
    + intros f' id Hp Hid. destruct (B f' id Hp Hid) as [Hl | Hr]; [left; exact Hl | right; now right].
    + cbn [ev_reads]. rewrite C. reflexivity.
Qed.

Lemma tr_set_failed me s s' evs : Tr me s s' evs -> Tr me s (set_failed s') (evs ++ [EvFail me]).
Proof.
  intros [[A1 A2] B C]. constructor; cbn [hs_recv pending got set_failed].
  - split; [exact A1|]. intros m Hm. apply in_or_app. left. now apply A2.
  - intros f' id Hp Hid. destruct (B f' id Hp Hid) as [Hl | Hr]; [now left | right; apply in_or_app; now left].
  - rewrite ev_reads_app. cbn [ev_reads]. rewrite app_nil_r. exact C.
Qed.

Lemma tr_on_ku me s e q m req : Tr me s (fst (on_ku me s e q m req)) (snd (on_ku me s e q m req)).
Proof.
  unfold on_ku. destruct (m <? hs_recv s); [apply tr_send_ack|].
  destruct (m =? hs_recv s) eqn:E; [|apply tr_send_ack]. apply N.eqb_eq in E.
  destruct (negb _); [cbn; apply tr_same; reflexivity|].
  destruct (r_epoch s =? max_epoch); [cbn; apply tr_same; reflexivity|].
  pose proof (tr_advance_read me s m req E) as F1.
  destruct (advance_read me s m req) as [s1 e1]. cbn [fst snd] in F1.
  destruct (failed s1); [exact F1|].
  destruct (max_msg <? hs_recv s1).
  { cbn [fst snd]. now apply tr_set_failed. }
  pose proof (tr_send_ack me s1 [(e, q)]) as F2.
  destruct (send_ack me s1 [(e, q)]) as [s2 e2]. cbn [fst snd] in *.
  eapply tr_trans; eassumption.
Qed.

Lemma tr_mark me s s' evs e q : Tr me (mark s e q) s' evs -> Tr me s s' evs.
Proof. intros [A B C]. constructor; assumption. Qed.

Lemma tr_recv me s r : Tr me s (fst (recv me s r)) (snd (recv me s r)).
Proof.
  unfold recv. destruct (failed s); [apply tr_refl|].
  destruct (open_rec s r) as [| |e].
  - destruct (_ && _); cbn [fst snd]; [apply tr_same; reflexivity | apply tr_refl].
  - apply tr_refl.
  - destruct (negb _); [apply tr_refl|].
    destruct (r_kind r) as [p|m req|l].
    + cbn [fst snd]. constructor; cbn [hs_recv pending got add_got mark].
      * split; [lia | intros m Hm; lia].
      * intros f' id Hp Hid. left. eauto.
      * reflexivity.
    + apply tr_mark with (e := e) (q := r_seq r).
      pose proof (tr_on_ku me (mark s e (r_seq r)) e (r_seq r) m req) as F1.
      destruct (on_ku me (mark s e (r_seq r)) e (r_seq r) m req) as [s2 e2]. cbn [fst snd] in F1.
      destruct (failed s2); [exact F1|].
      pose proof (tr_drain me (queue s2) s2) as F2. unfold run_queue.
      destruct (drain me s2 (queue s2)) as [s3 e3]. cbn [fst snd] in *.
      eapply tr_trans; eassumption.
    + apply tr_mark with (e := e) (q := r_seq r).
      pose proof (tr_on_ack me (mark s e (r_seq r)) l) as F1.
      destruct (on_ack me (mark s e (r_seq r)) l) as [s2 e2]. cbn [fst snd] in F1.
      destruct (failed s2); [exact F1|].
      pose proof (tr_drain me (queue s2) s2) as F2. unfold run_queue.
      destruct (drain me s2 (queue s2)) as [s3 e3]. cbn [fst snd] in *.
      eapply tr_trans; eassumption.
Qed.

Lemma tr_submit me s c : Tr me s (fst (submit me s c)) (snd (submit me s c)).
Proof. unfold submit. destruct (failed s); [apply tr_refl | apply tr_drain]. Qed.

Lemma tr_act st o : Tr (actor o) (sd st (actor o)) (fst (act st o)) (snd (act st o)).
Proof.
  destruct o; cbn [actor act]; [apply tr_submit | apply tr_submit | apply tr_recv | apply tr_timer].
Qed.
