(* C20 - DTLS 1.3 key updates: theorems about the model Ku/C20KeyUpdate.v.
   All statements are over every operation sequence (induction over the op list). *)
From Coq Require Import List NArith Bool Lia.
From Coq Require Import ZifyN ZifyNat ZifyBool.
From DtlsV Require Import Lib.Bytes Rec.Window Rec.WindowSound Ku.C20KeyUpdate.
Import ListNotations.
Open Scope N_scope.

(* ====================================================================== *)
(* 0. basic facts                                                          *)
(* ====================================================================== *)

Lemma side_eqb_refl s : side_eqb s s = true.
Proof. destruct s; reflexivity. Qed.

Lemma side_eqb_eq a b : side_eqb a b = true <-> a = b.
Proof. destruct a, b; cbn; split; congruence. Qed.

Lemma side_eqb_other s : side_eqb (other s) s = false.
Proof. destruct s; reflexivity. Qed.

Lemma side_eqb_other' s : side_eqb s (other s) = false.
Proof. destruct s; reflexivity. Qed.

Lemma other_other s : other (other s) = s.
Proof. destruct s; reflexivity. Qed.

Lemma other_neq s : other s <> s.
Proof. destruct s; discriminate. Qed.

Lemma sec_eqb_eq a b : sec_eqb a b = true <-> a = b.
Proof.
  revert b; induction a as [x|x|k IH]; intros [y|y|k']; cbn; try (split; [discriminate|congruence]).
  - rewrite side_eqb_eq. split; congruence.
  - rewrite side_eqb_eq. split; congruence.
  - rewrite IH. split; congruence.
Qed.

Lemma sec_eqb_refl a : sec_eqb a a = true.
Proof. now apply sec_eqb_eq. Qed.

Lemma nx_inj n m s s' : nx n (Init s) = nx m (Init s') -> n = m /\ s = s'.
Proof.
  revert m; induction n as [|n IH]; intros [|m] H; cbn in H; try discriminate.
  - inversion H. auto.
  - inversion H as [H1]. destruct (IH _ H1). auto.
Qed.

Lemma nx_not_hs n s s' : nx n (Init s) <> Hs s'.
Proof. destruct n; cbn; discriminate. Qed.

Lemma secret_of_inj s s' e e' : 3 <= e -> 3 <= e' -> secret_of s e = secret_of s' e' -> e = e' /\ s = s'.
Proof.
  unfold secret_of. intros He He' H. apply nx_inj in H. destruct H as [H1 H2]. split; [lia|exact H2].
Qed.

Lemma secret_of_succ s e : 3 <= e -> secret_of s (e + 1) = Next (secret_of s e).
Proof.
  intro He. unfold secret_of. replace (N.to_nat (e + 1 - 3)) with (S (N.to_nat (e - 3))) by lia. reflexivity.
Qed.

(* ---------- events ---------- *)

Definition ev_side (ev : event) : side :=
  match ev with
  | EvSent s _ _ | EvRead s _ | EvStart s _ _ | EvDone s _ | EvCommit s _ | EvKuIn s _ | EvFail s => s
  end.

Definition is_commit (me : side) (ev : event) : bool :=
  match ev with EvCommit s _ => side_eqb s me | _ => false end.

Definition commits (me : side) (evs : list event) : N := N.of_nat (length (filter (is_commit me) evs)).

Lemma commits_app me e1 e2 : commits me (e1 ++ e2) = commits me e1 + commits me e2.
Proof. unfold commits. rewrite filter_app, app_length. lia. Qed.

Lemma commits_nil me : commits me [] = 0.
Proof. reflexivity. Qed.

Lemma sent_by_app me e1 e2 : sent_by me (e1 ++ e2) = sent_by me e2 ++ sent_by me e1.
Proof.
  induction e1 as [|ev e1 IH]; cbn [app sent_by]; [now rewrite app_nil_r|].
  destruct ev; try exact IH.
  destruct (side_eqb s me); [|exact IH]. rewrite IH. now rewrite app_assoc.
Qed.

(* ====================================================================== *)
(* 1. the sending epoch never decreases, +1 exactly per committed update   *)
(* ====================================================================== *)

(* what every side function guarantees about the write epoch and its events *)
Definition Frame (me : side) (s s' : sidest) (evs : list event) : Prop :=
  w_epoch s' = w_epoch s + commits me evs /\ Forall (fun ev => ev_side ev = me) evs.

Lemma frame_refl me s : Frame me s s [].
Proof. split; [cbn; lia | constructor]. Qed.

Lemma frame_trans me s1 s2 s3 e1 e2 : Frame me s1 s2 e1 -> Frame me s2 s3 e2 -> Frame me s1 s3 (e1 ++ e2).
Proof.
  intros [H1 F1] [H2 F2]. split; [rewrite commits_app; lia | now apply Forall_app].
Qed.

Lemma frame_same me s s' evs :
  w_epoch s' = w_epoch s -> commits me evs = 0 -> Forall (fun ev => ev_side ev = me) evs -> Frame me s s' evs.
Proof. intros H1 H2 H3. split; [lia | exact H3]. Qed.

Lemma seal_wepoch s k : w_epoch (fst (seal s k)) = w_epoch s.
Proof. unfold seal. destruct (max_seq48 <? w_seq s); reflexivity. Qed.

Lemma frame_emit_ctl me s k : Frame me s (fst (fst (emit_ctl me s k))) (snd (fst (emit_ctl me s k))).
Proof.
  unfold emit_ctl, seal. destruct (max_seq48 <? w_seq s); cbn.
  - apply frame_same; [reflexivity | reflexivity | repeat constructor].
  - apply frame_same; [reflexivity | reflexivity | repeat constructor].
Qed.

Lemma frame_emit_app me s p : Frame me s (fst (emit_app me s p)) (snd (emit_app me s p)).
Proof.
  unfold emit_app, seal. destruct (max_seq48 <? w_seq s); cbn.
  - apply frame_refl || (apply frame_same; [reflexivity | reflexivity | constructor]).
  - apply frame_same; [reflexivity | reflexivity | repeat constructor].
Qed.

Lemma frame_start_ku me s req id : Frame me s (fst (start_ku me s req id)) (snd (start_ku me s req id)).
Proof.
  unfold start_ku.
  destruct ((w_epoch s =? max_epoch) || (max_msg <? hs_send s) || (max_seq48 <? w_seq s)); cbn.
  - apply frame_same; [reflexivity | reflexivity | repeat constructor].
  - destruct id; apply frame_same; try reflexivity; repeat constructor.
Qed.

Lemma frame_set_queue me s s' evs q : Frame me s s' evs -> Frame me s (set_queue s' q) evs.
Proof. intros [H F]. split; [exact H | exact F]. Qed.

Lemma frame_drain me q : forall s, Frame me s (fst (drain me s q)) (snd (drain me s q)).
Proof.
  induction q as [|c q IH]; intro s; cbn [drain].
  - cbn. apply frame_same; [reflexivity | reflexivity | constructor].
  - destruct c as [p|req id].
    + pose proof (frame_emit_app me s p) as F1. destruct (emit_app me s p) as [s1 e1]. cbn [fst snd] in F1.
      specialize (IH s1). destruct (drain me s1 q) as [s2 e2]. cbn [fst snd] in *.
      eapply frame_trans; eassumption.
    + destruct (pending s).
      * cbn. apply frame_same; [reflexivity | reflexivity | constructor].
      * pose proof (frame_start_ku me s req id) as F1. destruct (start_ku me s req id) as [s1 e1]. cbn [fst snd] in F1.
        destruct (failed s1).
        -- cbn [fst snd]. now apply frame_set_queue.
        -- specialize (IH s1). destruct (drain me s1 q) as [s2 e2]. cbn [fst snd] in *.
           eapply frame_trans; eassumption.
Qed.

Lemma frame_timer me s : Frame me s (fst (timer me s)) (snd (timer me s)).
Proof.
  unfold timer. destruct (failed s); [apply frame_refl|].
  destruct (pending s) as [f|]; [|apply frame_refl].
  pose proof (frame_emit_ctl me s (KU (f_msg f) (f_req f))) as F.
  destruct (emit_ctl me s (KU (f_msg f) (f_req f))) as [[s1 evs] [q|]]; cbn [fst snd] in *; [|exact F].
  destruct F as [H1 H2]. split; [exact H1 | exact H2].
Qed.

Lemma frame_recv_parked me s r : Frame me s (fst (recv_parked me s r)) (snd (recv_parked me s r)).
Proof.
  unfold recv_parked. destruct (open_rec s r); try apply frame_refl.
  destruct (check max_seq64 (wins s e) (r_seq r)); [|apply frame_refl].
  destruct (r_kind r); cbn [fst snd]; apply frame_same; try reflexivity; repeat constructor.
Qed.

Lemma frame_recv_parked_all me l : forall s, Frame me s (fst (recv_parked_all me s l)) (snd (recv_parked_all me s l)).
Proof.
  induction l as [|r l IH]; intro s; cbn [recv_parked_all]; [apply frame_refl|].
  pose proof (frame_recv_parked me s r) as F1. destruct (recv_parked me s r) as [s1 e1]. cbn [fst snd] in F1.
  specialize (IH s1). destruct (recv_parked_all me s1 l) as [s2 e2]. cbn [fst snd] in *.
  eapply frame_trans; eassumption.
Qed.

Lemma frame_on_ack me s l : Frame me s (fst (on_ack me s l)) (snd (on_ack me s l)).
Proof.
  unfold on_ack. destruct (pending s) as [f|]; [|apply frame_refl].
  destruct (acked s f l); [|apply frame_refl].
  unfold commit. cbn [fst snd]. split.
  - cbn [w_epoch]. unfold commits. cbn [filter is_commit]. rewrite side_eqb_refl.
    destruct (f_id f); cbn; lia.
  - destruct (f_id f); repeat constructor.
Qed.

Lemma frame_send_ack me s l : Frame me s (fst (send_ack me s l)) (snd (send_ack me s l)).
Proof.
  unfold send_ack. pose proof (frame_emit_ctl me s (Ack l)) as F.
  destruct (emit_ctl me s (Ack l)) as [[s1 evs] o]. exact F.
Qed.

Lemma frame_advance_read me s m req : Frame me s (fst (advance_read me s m req)) (snd (advance_read me s m req)).
Proof.
  unfold advance_read. destruct (r_gens s) as [|cur gs].
  - cbn. apply frame_same; [reflexivity | reflexivity | repeat constructor].
  - match goal with |- context [recv_parked_all me ?s1 ?l] =>
      pose proof (frame_recv_parked_all me l s1) as F; destruct (recv_parked_all me s1 l) as [s2 e2] end.
    cbn [fst snd] in *. destruct F as [H1 H2]. split.
    + cbn [w_epoch] in H1. rewrite H1. unfold commits. cbn [filter is_commit]. reflexivity.
    + constructor; [reflexivity | exact H2].
Qed.

Lemma frame_set_failed me s s' evs : Frame me s s' evs -> Frame me s (set_failed s') (evs ++ [EvFail me]).
Proof.
  intros [H F]. split.
  - rewrite commits_app. cbn [w_epoch set_failed]. unfold commits at 2. cbn. lia.
  - apply Forall_app. split; [exact F | repeat constructor].
Qed.

Lemma frame_on_ku me s e q m req : Frame me s (fst (on_ku me s e q m req)) (snd (on_ku me s e q m req)).
Proof.
  unfold on_ku. destruct (shadowed s m); [apply frame_send_ack|]. unfold on_ku0.
  destruct (m <? hs_recv s); [apply frame_send_ack|].
  destruct (m =? hs_recv s); [|apply frame_send_ack].
  destruct (negb _).
  { cbn. apply frame_same; [reflexivity | reflexivity | repeat constructor]. }
  destruct (r_epoch s =? max_epoch).
  { cbn. apply frame_same; [reflexivity | reflexivity | repeat constructor]. }
  pose proof (frame_advance_read me s m req) as F1.
  destruct (advance_read me s m req) as [s1 e1]. cbn [fst snd] in F1.
  destruct (failed s1); [exact F1|].
  destruct (max_msg <? hs_recv s1).
  { cbn [fst snd]. now apply frame_set_failed. }
  pose proof (frame_send_ack me s1 [(e, q)]) as F2.
  destruct (send_ack me s1 [(e, q)]) as [s2 e2]. cbn [fst snd] in *.
  eapply frame_trans; eassumption.
Qed.

Lemma frame_mark me s s' evs e q : Frame me (mark s e q) s' evs -> Frame me s s' evs.
Proof. intros [H F]. split; [exact H | exact F]. Qed.

Lemma frame_run_queue me s : Frame me s (fst (run_queue me s)) (snd (run_queue me s)).
Proof. apply frame_drain. Qed.

Lemma frame_recv me s r : Frame me s (fst (recv me s r)) (snd (recv me s r)).
Proof.
  unfold recv. destruct (failed s); [apply frame_refl|].
  destruct (open_rec s r) as [| |e].
  - destruct (_ && _); cbn [fst snd]; [|apply frame_refl].
    apply frame_same; [reflexivity | reflexivity | constructor].
  - apply frame_refl.
  - destruct (negb _); [apply frame_refl|].
    destruct (r_kind r) as [p|m req|l].
    + cbn [fst snd]. apply frame_same; [reflexivity | reflexivity | repeat constructor].
    + apply frame_mark with (e := e) (q := r_seq r).
      pose proof (frame_on_ku me (mark s e (r_seq r)) e (r_seq r) m req) as F1.
      destruct (on_ku me (mark s e (r_seq r)) e (r_seq r) m req) as [s2 e2]. cbn [fst snd] in F1.
      destruct (failed s2); [exact F1|].
      pose proof (frame_run_queue me s2) as F2. destruct (run_queue me s2) as [s3 e3]. cbn [fst snd] in *.
      eapply frame_trans; eassumption.
    + apply frame_mark with (e := e) (q := r_seq r).
      pose proof (frame_on_ack me (mark s e (r_seq r)) l) as F1.
      destruct (on_ack me (mark s e (r_seq r)) l) as [s2 e2]. cbn [fst snd] in F1.
      destruct (failed s2); [exact F1|].
      pose proof (frame_run_queue me s2) as F2. destruct (run_queue me s2) as [s3 e3]. cbn [fst snd] in *.
      eapply frame_trans; eassumption.
Qed.

Lemma frame_submit me s c : Frame me s (fst (submit me s c)) (snd (submit me s c)).
Proof. unfold submit. destruct (failed s); [apply frame_refl | apply frame_drain]. Qed.

(* the side an operation acts on and what it does there *)
Definition actor (o : op) : side :=
  match o with OpUpdate s _ _ | OpWrite s _ | OpTimer s => s | OpDeliver to _ => to end.

Definition act (st : gst) (o : op) : sidest * list event :=
  match o with
  | OpUpdate s req id => submit s (sd st s) (CKU req (Some id))
  | OpWrite s p => submit s (sd st s) (CApp p)
  | OpDeliver to r => recv to (sd st to) r
  | OpTimer s => timer s (sd st s)
  end.

Lemma step_act st o : step st o = put st (actor o) (act st o).
Proof. destruct o; reflexivity. Qed.

Lemma frame_act st o : Frame (actor o) (sd st (actor o)) (fst (act st o)) (snd (act st o)).
Proof.
  destruct o; cbn [actor act]; [apply frame_submit | apply frame_submit | apply frame_recv | apply frame_timer].
Qed.

Lemma put_sd_me st me res : sd (fst (put st me res)) me = fst res.
Proof. destruct res. cbn. now rewrite side_eqb_refl. Qed.

Lemma put_sd_other st me res : sd (fst (put st me res)) (other me) = sd st (other me).
Proof. destruct res. cbn. now rewrite side_eqb_other. Qed.

Lemma put_evs st me res : snd (put st me res) = snd res.
Proof. destruct res. reflexivity. Qed.

Lemma put_net_me st me res : net (fst (put st me res)) me = sent_by me (snd res) ++ net st me.
Proof. destruct res. cbn. now rewrite side_eqb_refl. Qed.

Lemma put_net_other st me res : net (fst (put st me res)) (other me) = net st (other me).
Proof. destruct res. cbn. now rewrite side_eqb_other. Qed.

Lemma commits_foreign me x evs : Forall (fun ev => ev_side ev = me) evs -> x <> me -> commits x evs = 0.
Proof.
  intros F Hne. unfold commits. induction evs as [|ev evs IH]; [reflexivity|].
  inversion F as [|? ? Hev F']; subst. cbn [filter].
  assert (Hc : is_commit x ev = false).
  { destruct ev; cbn in *; try reflexivity. subst. destruct s, x; try reflexivity; congruence. }
  rewrite Hc. now apply IH.
Qed.

(* one step: the write epoch of every side grows by exactly the number of its commit events *)
Theorem step_send_epoch st o s :
  w_epoch (sd (fst (step st o)) s) = w_epoch (sd st s) + commits s (snd (step st o)).
Proof.
  rewrite step_act. pose proof (frame_act st o) as [H F]. rewrite put_evs.
  destruct (side_eqb s (actor o)) eqn:E.
  - apply side_eqb_eq in E. subst s. rewrite put_sd_me. exact H.
  - assert (Hne : s <> actor o) by (intro; subst; rewrite side_eqb_refl in E; discriminate).
    assert (Hs : s = other (actor o)) by (destruct s, (actor o); try reflexivity; congruence).
    rewrite Hs at 1. rewrite put_sd_other. rewrite <- Hs.
    rewrite (commits_foreign _ _ _ F Hne). lia.
Qed.

Theorem exec_send_epoch ops : forall st s,
  w_epoch (sd (fst (exec st ops)) s) = w_epoch (sd st s) + commits s (snd (exec st ops)).
Proof.
  induction ops as [|o ops IH]; intros st s; cbn [exec].
  - cbn. lia.
  - pose proof (step_send_epoch st o s) as H1. destruct (step st o) as [st1 e1]. cbn [fst snd] in H1.
    specialize (IH st1 s). destruct (exec st1 ops) as [st2 e2]. cbn [fst snd] in *.
    rewrite commits_app. lia.
Qed.

(* no commit outside on_ack *)
Lemma nc_start_ku me s req id : commits me (snd (start_ku me s req id)) = 0.
Proof.
  unfold start_ku. destruct (_ || _); [reflexivity|]. destruct id; reflexivity.
Qed.

Lemma nc_drain me q : forall s, commits me (snd (drain me s q)) = 0.
Proof.
  induction q as [|c q IH]; intro s; cbn [drain]; [reflexivity|].
  destruct c as [p|rq i].
  - unfold emit_app, seal. destruct (max_seq48 <? w_seq s); cbn [fst snd].
    + match goal with |- context [drain me ?y q] => specialize (IH y); destruct (drain me y q) end. exact IH.
    + match goal with |- context [drain me ?y q] => specialize (IH y); destruct (drain me y q) end. cbn [snd] in *.
      rewrite commits_app, IH. reflexivity.
  - destruct (pending s); [reflexivity|].
    pose proof (nc_start_ku me s rq i) as Hs.
    destruct (start_ku me s rq i) as [s1 e1]. cbn [snd] in Hs.
    destruct (failed s1); [exact Hs|].
    specialize (IH s1). destruct (drain me s1 q). cbn [snd] in *. rewrite commits_app. lia.
Qed.

Lemma nc_recv_parked_all me l : forall s, commits me (snd (recv_parked_all me s l)) = 0.
Proof.
  induction l as [|r0 l IH]; intro y; cbn [recv_parked_all]; [reflexivity|].
  assert (H0 : commits me (snd (recv_parked me y r0)) = 0).
  { unfold recv_parked. destruct (open_rec y r0); try reflexivity.
    destruct (check _ _ _); [|reflexivity]. destruct (r_kind r0); reflexivity. }
  destruct (recv_parked me y r0) as [y1 e1]. specialize (IH y1).
  destruct (recv_parked_all me y1 l). cbn [snd] in *. rewrite commits_app. lia.
Qed.

Lemma nc_send_ack me s l : commits me (snd (send_ack me s l)) = 0.
Proof. unfold send_ack, emit_ctl, seal. destruct (max_seq48 <? w_seq s); reflexivity. Qed.

Lemma nc_advance_read me s m req : commits me (snd (advance_read me s m req)) = 0.
Proof.
  unfold advance_read. destruct (r_gens s); [reflexivity|].
  match goal with |- context [recv_parked_all me ?s1 ?l] =>
    pose proof (nc_recv_parked_all me l s1) as Hp; destruct (recv_parked_all me s1 l) end. cbn [snd] in *.
  unfold commits in *. cbn [filter is_commit]. exact Hp.
Qed.

Lemma nc_on_ku me s e q m req : commits me (snd (on_ku me s e q m req)) = 0.
Proof.
  unfold on_ku. destruct (shadowed s m); [apply nc_send_ack|]. unfold on_ku0.
  destruct (m <? hs_recv s); [apply nc_send_ack|].
  destruct (m =? hs_recv s); [|apply nc_send_ack].
  destruct (negb _); [reflexivity|]. destruct (r_epoch s =? max_epoch); [reflexivity|].
  pose proof (nc_advance_read me s m req) as Hadv.
  destruct (advance_read me s m req) as [s1 e1]. cbn [snd] in Hadv.
  destruct (failed s1); [exact Hadv|].
  destruct (max_msg <? hs_recv s1).
  { cbn [snd]. rewrite commits_app, Hadv. reflexivity. }
  pose proof (nc_send_ack me s1 [(e, q)]) as Ha. destruct (send_ack me s1 [(e, q)]). cbn [snd] in *.
  rewrite commits_app. lia.
Qed.

Lemma on_ack_commit me s l :
  (fst (on_ack me s l) = s /\ snd (on_ack me s l) = []) \/
  (w_epoch (fst (on_ack me s l)) = w_epoch s + 1 /\ In (EvCommit me (w_epoch s + 1)) (snd (on_ack me s l))).
Proof.
  unfold on_ack. destruct (pending s) as [f|]; [|now left].
  destruct (acked s f l); [|now left]. right. cbn. auto.
Qed.

(* never decreases, and a single step raises it by at most one *)
Theorem step_send_epoch_monotone st o s :
  w_epoch (sd (fst (step st o)) s) = w_epoch (sd st s) \/
  (w_epoch (sd (fst (step st o)) s) = w_epoch (sd st s) + 1 /\
   In (EvCommit s (w_epoch (sd st s) + 1)) (snd (step st o))).
Proof.
  rewrite step_act, put_evs.
  destruct (side_eqb s (actor o)) eqn:E.
  2:{ left. assert (Hs : s = other (actor o)).
      { destruct s, (actor o); cbn in E; try discriminate; reflexivity. }
      rewrite Hs. now rewrite put_sd_other. }
  apply side_eqb_eq in E. subst s. rewrite put_sd_me.
  pose proof (frame_act st o) as [H F].
  destruct o as [s req id|s p|to r|s]; cbn [actor act] in *.
  - left. rewrite H. unfold submit. destruct (failed (sd st s)); [cbn; lia|]. rewrite nc_drain. lia.
  - left. rewrite H. unfold submit. destruct (failed (sd st s)); [cbn; lia|]. rewrite nc_drain. lia.
  - clear H F. remember (sd st to) as x eqn:Hx. clear Hx.
    unfold recv. destruct (failed x); [now left|].
    destruct (open_rec x r) as [| |e]; [destruct (_ && _); now left | now left |].
    destruct (negb _); [now left|].
    destruct (r_kind r) as [p|m req|l]; [now left| |].
    + left.
      pose proof (frame_on_ku to (mark x e (r_seq r)) e (r_seq r) m req) as [H1 _].
      pose proof (nc_on_ku to (mark x e (r_seq r)) e (r_seq r) m req) as N1.
      destruct (on_ku to (mark x e (r_seq r)) e (r_seq r) m req) as [s2 e2]. cbn [fst snd] in *.
      rewrite N1 in H1. cbn [w_epoch mark] in H1.
      destruct (failed s2); [cbn [fst]; lia|].
      pose proof (frame_run_queue to s2) as [H2 _]. unfold run_queue in *. rewrite nc_drain in H2.
      destruct (drain to s2 (queue s2)). cbn [fst snd] in *. lia.
    + destruct (on_ack_commit to (mark x e (r_seq r)) l) as [[Ha Hb] | [Ha Hb]];
        destruct (on_ack to (mark x e (r_seq r)) l) as [s2 e2]; cbn [fst snd] in *.
      * subst s2 e2. cbn [failed mark].
        destruct (failed x) eqn:Ef.
        -- now left.
        -- left. pose proof (frame_run_queue to (mark x e (r_seq r))) as [H2 _]. unfold run_queue in *.
           rewrite nc_drain in H2. destruct (drain to (mark x e (r_seq r)) _). cbn [fst snd] in *.
           cbn [w_epoch mark] in H2. lia.
      * cbn [w_epoch mark] in Ha, Hb.
        destruct (failed s2); [right; cbn [fst snd]; auto|].
        pose proof (frame_run_queue to s2) as [H2 _]. unfold run_queue in *. rewrite nc_drain in H2.
        destruct (drain to s2 (queue s2)). cbn [fst snd] in *.
        right. split; [lia | apply in_or_app; now left].
  - left. rewrite H. unfold timer. destruct (failed (sd st s)); [cbn; lia|]. destruct (pending (sd st s)); [|cbn; lia].
    unfold emit_ctl, seal. destruct (max_seq48 <? w_seq (sd st s)); cbn; lia.
Qed.

(* ====================================================================== *)
(* 2. the invariant of authentic runs                                      *)
(* ====================================================================== *)

Lemma gens_down_from_in s n g :
  In g (gens_down_from s n) <->
  g = mkgen 2 (Hs s) \/ exists k, (k < n)%nat /\ g = mkgen (3 + N.of_nat k) (nx k (Init s)).
Proof.
  induction n as [|n IH]; cbn [gens_down_from In].
  - split; [intros [H|[]]; left; now symmetry | intros [H|[k [Hk _]]]; [left; now symmetry | lia]].
  - rewrite IH. split.
    + intros [H | [H | [k [Hk Hg]]]].
      * right. exists n. split; [lia | now symmetry].
      * now left.
      * right. exists k. split; [lia | exact Hg].
    + intros [H | [k [Hk Hg]]]; [right; now left|].
      destruct (Nat.eq_dec k n) as [-> | Hne]; [left; now symmetry|].
      right. right. exists k. split; [lia | exact Hg].
Qed.

Lemma gens_down_in s r g : 2 <= r ->
  In g (gens_down s r) <-> g = mkgen 2 (Hs s) \/ exists e, 3 <= e <= r /\ g = mkgen e (secret_of s e).
Proof.
  intro Hr. unfold gens_down. rewrite gens_down_from_in. split.
  - intros [H | [k [Hk Hg]]]; [now left|]. right. exists (3 + N.of_nat k). split; [lia|].
    unfold secret_of. replace (N.to_nat (3 + N.of_nat k - 3)) with k by lia. exact Hg.
  - intros [H | [e [He Hg]]]; [now left|]. right. exists (N.to_nat (e - 3)). split; [lia|].
    replace (3 + N.of_nat (N.to_nat (e - 3))) with e by lia. exact Hg.
Qed.

Lemma gens_down_succ s r : 3 <= r ->
  gens_down s (r + 1) = mkgen (r + 1) (secret_of s (r + 1)) :: gens_down s r.
Proof.
  intro Hr. unfold gens_down. replace (N.to_nat (r + 1 - 2)) with (S (N.to_nat (r - 2))) by lia.
  cbn [gens_down_from]. f_equal. unfold secret_of. f_equal; [lia|].
  f_equal. lia.
Qed.

Lemma gens_down_head s r : 3 <= r -> exists tl, gens_down s r = mkgen r (secret_of s r) :: tl.
Proof.
  intro Hr. unfold gens_down. replace (N.to_nat (r - 2)) with (S (N.to_nat (r - 3))) by lia.
  cbn [gens_down_from]. eexists. f_equal. unfold secret_of. f_equal. lia.
Qed.

Definition seqs_at (e : N) (l : list (N * N)) : list N := map snd (filter (fun x => fst x =? e) l).
Definition rkey (er : N * rec) : N * N := (fst er, r_seq (snd er)).
Definition gkey (t : N * N * N) : N * N := (fst (fst t), snd (fst t)).

Lemma seqs_at_cons_same e q l : seqs_at e ((e, q) :: l) = q :: seqs_at e l.
Proof. unfold seqs_at. cbn [filter fst]. now rewrite N.eqb_refl. Qed.

Lemma seqs_at_cons_other e e' q l : e' <> e -> seqs_at e ((e', q) :: l) = seqs_at e l.
Proof. intro H. unfold seqs_at. cbn [filter fst]. destruct (N.eqb_spec e' e); [contradiction | reflexivity]. Qed.

Lemma seqs_at_in e q l : In q (seqs_at e l) <-> In (e, q) l.
Proof.
  unfold seqs_at. rewrite in_map_iff. split.
  - intros [[e' q'] [Hq Hin]]. apply filter_In in Hin. destruct Hin as [Hin He]. cbn in *.
    apply N.eqb_eq in He. now subst.
  - intro H. exists (e, q). split; [reflexivity|]. apply filter_In. split; [exact H | cbn; apply N.eqb_refl].
Qed.

Lemma nodup_map_inj {T K : Type} (f : T -> K) (l : list T) x y :
  NoDup (map f l) -> In x l -> In y l -> f x = f y -> x = y.
Proof.
  induction l as [|a l IH]; intros Hnd Hx Hy Hf; [contradiction|].
  cbn [map] in Hnd. inversion Hnd as [|? ? Hn Hnd']; subst.
  destruct Hx as [-> | Hx], Hy as [-> | Hy].
  - reflexivity.
  - exfalso. apply Hn. rewrite Hf. now apply in_map.
  - exfalso. apply Hn. rewrite <- Hf. now apply in_map.
  - now apply IH.
Qed.

Section Invariant.
Variable W : nat.
Variable b : side -> N.
Hypothesis HW : N.of_nat W <= 32767.

Record DInv (X : side) (sx : sidest) (nt : list (N * rec)) (sy : sidest) (ny : list (N * rec)) : Prop := mkDInv {
  d_wrange : 3 <= w_epoch sx <= max_epoch;
  d_wsec : w_sec sx = secret_of X (w_epoch sx);
  d_hsend : hs_send sx = b X + (w_epoch sx - 3) + (match pending sx with Some _ => 1 | None => 0 end);
  d_pend : forall f, pending sx = Some f ->
             f_msg f = b X + (w_epoch sx - 3) /\
             forall q, In q (f_seqs f) ->
               exists r rq, In (w_epoch sx, r) nt /\ r_seq r = q /\ r_kind r = KU (f_msg f) rq;
  d_net : forall e r, In (e, r) nt ->
            3 <= e <= w_epoch sx /\ r_key r = secret_of X e /\ r_elow r = low2 e /\ r_seq r <= max_seq48 /\
            (e = w_epoch sx -> r_seq r < w_seq sx) /\
            (forall m rq, r_kind r = KU m rq -> m = b X + (e - 3) /\ m < hs_send sx);
  d_uniq : NoDup (map rkey nt);
  d_rrange : 3 <= r_epoch sy <= max_epoch;
  d_rgens : r_gens sy = gens_down X (r_epoch sy);
  d_hrecv : hs_recv sy = b X + (r_epoch sy - 3);
  d_epochs : w_epoch sx <= r_epoch sy <= w_epoch sx + 1;
  d_ahead : r_epoch sy = w_epoch sx + 1 -> pending sx <> None;
  d_acks : forall e r l, In (e, r) ny -> r_kind r = Ack l -> forall e' q, In (e', q) l ->
             exists rk m rq, In (e', rk) nt /\ r_seq rk = q /\ r_kind rk = KU m rq /\ m < hs_recv sy;
  d_wins : forall e, Inv W (wins sy e) (seqs_at e (seen sy)) /\ latest (wins sy e) <= max_seq64;
  d_seen : NoDup (seen sy);
  d_got : forall e q p, In (e, q, p) (got sy) ->
            In (e, q) (seen sy) /\ exists r, In (e, r) nt /\ r_seq r = q /\ r_kind r = App p;
  d_gotuniq : NoDup (map gkey (got sy));
  d_futq : futq sy = [];
  d_shadow : shadow sy = []
}.

(* both directions, seen from the acting side *)
Definition PInv (me : side) (sm : sidest) (nm : list (N * rec)) (sp : sidest) (np : list (N * rec)) : Prop :=
  DInv me sm nm sp np /\ DInv (other me) sp np sm nm.

Definition GInv (st : gst) : Prop := PInv A (sd st A) (net st A) (sd st B) (net st B).

Lemma GInv_side st me : GInv st -> PInv me (sd st me) (net st me) (sd st (other me)) (net st (other me)).
Proof. intros [H1 H2]. destruct me; cbn [other]; split; assumption. Qed.

Definition sview (s : sidest) := (w_epoch s, w_sec s, w_seq s, hs_send s, pending s).
Definition rview (s : sidest) := (r_epoch s, r_gens s, hs_recv s, wins s, seen s, got s, futq s, shadow s).

Lemma DInv_sview X sx sx' nt sy ny : sview sx = sview sx' -> DInv X sx nt sy ny -> DInv X sx' nt sy ny.
Proof.
  unfold sview. intros E H. inversion E as [[E1 E2 E3 E4 E5]]. destruct H.
  constructor; rewrite <- ?E1, <- ?E2, <- ?E3, <- ?E4, <- ?E5; assumption.
Qed.

Lemma DInv_rview X sx nt sy sy' ny : rview sy = rview sy' -> DInv X sx nt sy ny -> DInv X sx nt sy' ny.
Proof.
  unfold rview. intros E H. inversion E as [[E1 E2 E3 E4 E5 E6 E7 E8]]. destruct H.
  constructor; rewrite <- ?E1, <- ?E2, <- ?E3, <- ?E4, <- ?E5, <- ?E6, <- ?E7, <- ?E8; assumption.
Qed.

(* an update of the acting side that touches neither view *)
Lemma PInv_views me sm sm' nm sp np :
  sview sm = sview sm' -> rview sm = rview sm' -> PInv me sm nm sp np -> PInv me sm' nm sp np.
Proof.
  intros E1 E2 [H1 H2]. split; [eapply DInv_sview | eapply DInv_rview]; eassumption.
Qed.


(* ---------- sealing one record under the current write generation ---------- *)

Definition ku_ok (X : side) (sx : sidest) (k : kind) : Prop :=
  forall m rq, k = KU m rq -> m = b X + (w_epoch sx - 3) /\ m < hs_send sx.

Definition ack_ok (sm : sidest) (np : list (N * rec)) (k : kind) : Prop :=
  forall l, k = Ack l -> forall e' q, In (e', q) l ->
    exists rk m rq, In (e', rk) np /\ r_seq rk = q /\ r_kind rk = KU m rq /\ m < hs_recv sm.

Definition sealed_net (sm : sidest) (o : option rec) : list (N * rec) :=
  match o with Some r => [(w_epoch sm, r)] | None => [] end.

Lemma dinv_seal_S X sx nt sy ny k :
  DInv X sx nt sy ny -> ku_ok X sx k ->
  DInv X (fst (seal sx k)) (sealed_net sx (snd (seal sx k)) ++ nt) sy ny.
Proof.
  intros H Hk. destruct H. unfold seal. destruct (max_seq48 <? w_seq sx) eqn:E; cbn [fst snd sealed_net app].
  - constructor; cbn [w_epoch w_sec w_seq hs_send pending set_wseq]; try assumption.
    intros e r Hin. destruct (d_net0 e r Hin) as (A1 & A2 & A3 & A4 & A5 & A6).
    refine (conj A1 (conj A2 (conj A3 (conj A4 (conj _ A6))))). intro He. specialize (A5 He). lia.
  - assert (Hq : w_seq sx <= max_seq48) by lia.
    constructor; cbn [w_epoch w_sec w_seq hs_send pending set_wseq]; try assumption.
    + intros f Hf. destruct (d_pend0 f Hf) as [P1 P2]. split; [exact P1|].
      intros q Hqin. destruct (P2 q Hqin) as (r & rq & R1 & R2 & R3). exists r, rq. split; [now right | auto].
    + intros e r [Heq | Hin].
      * inversion Heq; subst e r. cbn [r_key r_elow r_seq r_kind].
        refine (conj _ (conj d_wsec0 (conj eq_refl (conj Hq (conj _ _))))); [lia | intros _; lia |].
        intros m rq Hm. apply (Hk m rq Hm).
      * destruct (d_net0 e r Hin) as (A1 & A2 & A3 & A4 & A5 & A6).
        refine (conj A1 (conj A2 (conj A3 (conj A4 (conj _ A6))))). intro He. specialize (A5 He). lia.
    + cbn [map]. constructor; [|exact d_uniq0].
      intro Hin. apply in_map_iff in Hin. destruct Hin as [[e r] [Hk' Hin]].
      unfold rkey in Hk'. cbn [fst snd r_seq] in Hk'. inversion Hk'; subst e.
      destruct (d_net0 _ r Hin) as (_ & _ & _ & _ & A5 & _). specialize (A5 eq_refl). lia.
    + intros e r l Hin Hl e' q Hq'. destruct (d_acks0 e r l Hin Hl e' q Hq') as (rk & m & rq & B1 & B2 & B3 & B4).
      exists rk, m, rq. split; [now right | auto].
    + intros e q p Hin. destruct (d_got0 e q p Hin) as [G1 (r & G2 & G3 & G4)].
      split; [exact G1|]. exists r. split; [now right | auto].
Qed.

Lemma dinv_seal_R P sp np sm nm k :
  DInv P sp np sm nm -> ack_ok sm np k ->
  DInv P sp np (fst (seal sm k)) (sealed_net sm (snd (seal sm k)) ++ nm).
Proof.
  intros H Hk. unfold seal. destruct (max_seq48 <? w_seq sm) eqn:E; cbn [fst snd sealed_net app].
  - eapply DInv_rview; [|exact H]. reflexivity.
  - apply DInv_rview with (sy := sm); [reflexivity|]. destruct H.
    constructor; try assumption.
    intros e r l [Heq | Hin] Hl e' q Hq.
    + inversion Heq; subst e r. cbn [r_kind] in Hl. exact (Hk l Hl e' q Hq).
    + exact (d_acks0 e r l Hin Hl e' q Hq).
Qed.

Lemma pinv_seal me sm nm sp np k :
  PInv me sm nm sp np -> ku_ok me sm k -> ack_ok sm np k ->
  PInv me (fst (seal sm k)) (sealed_net sm (snd (seal sm k)) ++ nm) sp np.
Proof. intros [H1 H2] K1 K2. split; [now apply dinv_seal_S | now apply dinv_seal_R]. Qed.

Lemma pinv_set_failed me sm nm sp np : PInv me sm nm sp np -> PInv me (set_failed sm) nm sp np.
Proof. apply PInv_views; reflexivity. Qed.

Lemma pinv_set_queue me sm nm sp np q : PInv me sm nm sp np -> PInv me (set_queue sm q) nm sp np.
Proof. apply PInv_views; reflexivity. Qed.

Lemma sent_by_one me e r : sent_by me [EvSent me e r] = [(e, r)].
Proof. cbn. now rewrite side_eqb_refl. Qed.

Lemma seal_fields sm k :
  sview (fst (seal sm k)) = (w_epoch sm, w_sec sm, w_seq sm + 1, hs_send sm, pending sm) /\
  rview (fst (seal sm k)) = rview sm /\ queue (fst (seal sm k)) = queue sm /\ failed (fst (seal sm k)) = failed sm.
Proof. unfold seal. destruct (max_seq48 <? w_seq sm); repeat split. Qed.

Lemma pinv_emit_ctl me sm nm sp np k :
  PInv me sm nm sp np -> ku_ok me sm k -> ack_ok sm np k ->
  PInv me (fst (fst (emit_ctl me sm k))) (sent_by me (snd (fst (emit_ctl me sm k))) ++ nm) sp np.
Proof.
  intros H K1 K2. pose proof (pinv_seal me sm nm sp np k H K1 K2) as HS.
  unfold emit_ctl. destruct (seal sm k) as [s' [r|]]; cbn [fst snd sealed_net] in *.
  - rewrite sent_by_one. exact HS.
  - cbn [sent_by app] in *. now apply pinv_set_failed.
Qed.

Lemma pinv_emit_app me sm nm sp np p :
  PInv me sm nm sp np ->
  PInv me (fst (emit_app me sm p)) (sent_by me (snd (emit_app me sm p)) ++ nm) sp np.
Proof.
  intro H.
  assert (K1 : ku_ok me sm (App p)) by (intros m rq E; discriminate).
  assert (K2 : ack_ok sm np (App p)) by (intros l E; discriminate).
  pose proof (pinv_seal me sm nm sp np _ H K1 K2) as HS.
  unfold emit_app. destruct (seal sm (App p)) as [s' [r|]]; cbn [fst snd sealed_net] in *.
  - rewrite sent_by_one. exact HS.
  - exact HS.
Qed.


(* ---------- starting / retransmitting a KeyUpdate ---------- *)

Lemma dinv_ku_S X sx sx' nt sy ny f' rq :
  DInv X sx nt sy ny -> w_seq sx <= max_seq48 ->
  w_epoch sx' = w_epoch sx -> w_sec sx' = w_sec sx -> w_seq sx' = w_seq sx + 1 ->
  hs_send sx' = b X + (w_epoch sx - 3) + 1 -> pending sx' = Some f' ->
  f_msg f' = b X + (w_epoch sx - 3) ->
  (forall q, In q (f_seqs f') -> q = w_seq sx \/ exists f, pending sx = Some f /\ In q (f_seqs f)) ->
  DInv X sx' ((w_epoch sx, mkrec (w_sec sx) (low2 (w_epoch sx)) (w_seq sx) (KU (f_msg f') rq)) :: nt) sy ny.
Proof.
  intros H Hq E1 E2 E3 E4 E5 Hm Hseqs. destruct H.
  assert (Hhs : hs_send sx <= b X + (w_epoch sx - 3) + 1) by (rewrite d_hsend0; destruct (pending sx); lia).
  constructor; rewrite ?E1, ?E2, ?E3, ?E4, ?E5; try assumption.
  - lia.
  - intros f Hf. inversion Hf; subst f. split; [exact Hm|].
    intros q Hin. destruct (Hseqs q Hin) as [-> | (f0 & Hf0 & Hin0)].
    + eexists _, rq. split; [left; reflexivity|]. split; reflexivity.
    + destruct (d_pend0 f0 Hf0) as [P1 P2]. destruct (P2 q Hin0) as (r & rq0 & R1 & R2 & R3).
      exists r, rq0. split; [now right|]. split; [exact R2|]. rewrite R3. f_equal. lia.
  - intros e r [Heq | Hin].
    + inversion Heq; subst e r. cbn [r_key r_elow r_seq r_kind].
      refine (conj _ (conj d_wsec0 (conj eq_refl (conj Hq (conj _ _))))); [lia | intros _; lia |].
      intros m rq' Hk. inversion Hk; subst. lia.
    + destruct (d_net0 e r Hin) as (A1 & A2 & A3 & A4 & A5 & A6).
      refine (conj A1 (conj A2 (conj A3 (conj A4 (conj _ _))))).
      * intro He. specialize (A5 He). lia.
      * intros m rq' Hk. destruct (A6 m rq' Hk). split; [assumption | lia].
  - cbn [map]. constructor; [|exact d_uniq0].
    intro Hin. apply in_map_iff in Hin. destruct Hin as [[e r] [Hk' Hin]].
    unfold rkey in Hk'. cbn [fst snd r_seq] in Hk'. inversion Hk'; subst e.
    destruct (d_net0 _ r Hin) as (_ & _ & _ & _ & A5 & _). specialize (A5 eq_refl). lia.
  - intros _. discriminate.
  - intros e r l Hin Hl e' q Hq'. destruct (d_acks0 e r l Hin Hl e' q Hq') as (rk & m & rq0 & B1 & B2 & B3 & B4).
    exists rk, m, rq0. split; [now right | auto].
  - intros e q p Hin. destruct (d_got0 e q p Hin) as [G1 (r & G2 & G3 & G4)].
    split; [exact G1|]. exists r. split; [now right | auto].
Qed.

Lemma dinv_net_R P sp np sm sm' nm er :
  DInv P sp np sm nm -> rview sm = rview sm' -> (forall l, r_kind (snd er) <> Ack l) ->
  DInv P sp np sm' (er :: nm).
Proof.
  intros H Hv Hk. apply DInv_rview with (sy := sm); [exact Hv|]. destruct H.
  constructor; try assumption.
  intros e r l [Heq | Hin] Hl e' q Hq.
  - subst er. cbn [snd] in Hk. exfalso. exact (Hk l Hl).
  - exact (d_acks0 e r l Hin Hl e' q Hq).
Qed.

Lemma pinv_start_ku me sm nm sp np req id :
  PInv me sm nm sp np -> pending sm = None ->
  PInv me (fst (start_ku me sm req id)) (sent_by me (snd (start_ku me sm req id)) ++ nm) sp np.
Proof.
  intros [H1 H2] Hp. unfold start_ku.
  destruct ((w_epoch sm =? max_epoch) || (max_msg <? hs_send sm) || (max_seq48 <? w_seq sm)) eqn:E.
  { cbn [fst snd sent_by app]. apply pinv_set_failed. now split. }
  cbn [fst snd].
  assert (Hsent : forall tl, (forall ev, In ev tl -> match ev with EvSent _ _ _ => False | _ => True end) ->
            forall e r, sent_by me (EvSent me e r :: tl) = [(e, r)]).
  { intros tl Htl e r. cbn [sent_by]. rewrite side_eqb_refl.
    assert (Hn : sent_by me tl = []).
    { induction tl as [|ev tl IH]; [reflexivity|]. pose proof (Htl ev (or_introl eq_refl)) as Hev.
      destruct ev; try contradiction; cbn [sent_by]; apply IH; intros ev' Hin; apply Htl; now right. }
    now rewrite Hn. }
  rewrite Hsent by (destruct id; cbn; intros ev Hin; [destruct Hin as [<- | []]; exact I | destruct Hin]). cbn [app].
  assert (Hq : w_seq sm <= max_seq48) by lia.
  assert (Hhs : hs_send sm = b me + (w_epoch sm - 3)) by (destruct H1; rewrite d_hsend0, Hp; lia).
  split.
  - pose proof (dinv_ku_S me sm
      (mkside (failed sm) (w_epoch sm) (w_sec sm) (w_seq sm + 1) (hs_send sm + 1)
              (Some (mkflight (hs_send sm) req id [w_seq sm])) (queue sm) (r_epoch sm) (r_gens sm)
              (hs_recv sm) (wins sm) (futq sm) (seen sm) (got sm) (shadow sm))
      nm sp np (mkflight (hs_send sm) req id [w_seq sm]) req H1 Hq) as HS.
    cbn [w_epoch w_sec w_seq hs_send pending f_msg f_seqs] in HS. apply HS; try reflexivity; try lia.
    intros q [<- | []]. now left.
  - eapply dinv_net_R; [exact H2 | reflexivity |]. cbn [snd r_kind]. intros l; discriminate.
Qed.

(* ---------- the queue ---------- *)

Lemma pinv_drain me q : forall sm nm sp np,
  PInv me sm nm sp np ->
  PInv me (fst (drain me sm q)) (sent_by me (snd (drain me sm q)) ++ nm) sp np.
Proof.
  induction q as [|c q IH]; intros sm nm sp np H; cbn [drain].
  - cbn [fst snd sent_by app]. now apply pinv_set_queue.
  - destruct c as [p|req id].
    + pose proof (pinv_emit_app me sm nm sp np p H) as H1.
      destruct (emit_app me sm p) as [s1 e1]. cbn [fst snd] in H1.
      specialize (IH s1 _ sp np H1). destruct (drain me s1 q) as [s2 e2]. cbn [fst snd] in *.
      rewrite sent_by_app, <- app_assoc. exact IH.
    + destruct (pending sm) eqn:Ep.
      * cbn [fst snd sent_by app]. now apply pinv_set_queue.
      * pose proof (pinv_start_ku me sm nm sp np req id H Ep) as H1.
        destruct (start_ku me sm req id) as [s1 e1]. cbn [fst snd] in H1.
        destruct (failed s1).
        -- cbn [fst snd]. now apply pinv_set_queue.
        -- specialize (IH s1 _ sp np H1). destruct (drain me s1 q) as [s2 e2]. cbn [fst snd] in *.
           rewrite sent_by_app, <- app_assoc. exact IH.
Qed.

Lemma pinv_submit me sm nm sp np c :
  PInv me sm nm sp np ->
  PInv me (fst (submit me sm c)) (sent_by me (snd (submit me sm c)) ++ nm) sp np.
Proof.
  intro H. unfold submit. destruct (failed sm); [exact H|]. now apply pinv_drain.
Qed.

(* ---------- the retransmission timer ---------- *)

Lemma pinv_timer me sm nm sp np :
  PInv me sm nm sp np ->
  PInv me (fst (timer me sm)) (sent_by me (snd (timer me sm)) ++ nm) sp np.
Proof.
  intros [H1 H2]. unfold timer. destruct (failed sm); [now split|].
  destruct (pending sm) as [f|] eqn:Ep; [|now split].
  unfold emit_ctl, seal. destruct (max_seq48 <? w_seq sm) eqn:E; cbn [fst snd].
  - cbn [sent_by app]. apply pinv_set_failed.
    assert (K1 : ku_ok me sm (App 0)) by (intros m rq Hk; discriminate).
    assert (K2 : ack_ok sm np (App 0)) by (intros l Hk; discriminate).
    pose proof (pinv_seal me sm nm sp np (App 0) (conj H1 H2) K1 K2) as HS.
    unfold seal in HS. rewrite E in HS. exact HS.
  - cbn [r_seq]. rewrite sent_by_one. cbn [app].
    assert (Hq : w_seq sm <= max_seq48) by lia.
    destruct (d_pend _ _ _ _ _ H1 f Ep) as [P1 P2].
    assert (Hhs : hs_send sm = b me + (w_epoch sm - 3) + 1) by (rewrite (d_hsend _ _ _ _ _ H1), Ep; reflexivity).
    split.
    + pose proof (dinv_ku_S me sm
        (set_pending (set_wseq sm (w_seq sm + 1)) (Some (mkflight (f_msg f) (f_req f) (f_id f) (w_seq sm :: f_seqs f))))
        nm sp np (mkflight (f_msg f) (f_req f) (f_id f) (w_seq sm :: f_seqs f)) (f_req f) H1 Hq) as HS.
      cbn [w_epoch w_sec w_seq hs_send pending set_pending set_wseq f_msg f_seqs] in HS.
      apply HS; try reflexivity; try assumption.
      intros q [<- | Hin]; [now left | right; eauto].
    + eapply dinv_net_R; [exact H2 | reflexivity |]. cbn [snd r_kind]. intros l; discriminate.
Qed.


(* ---------- receiving: opening an authentic record ---------- *)

Lemma max_seq64_facts : 0 < max_seq64 /\ N.of_nat W <= max_seq64.
Proof. unfold max_seq64. split; lia. Qed.

(* an authentic record is opened by the generation of its own epoch, or not at all *)
Lemma open_rec_authentic P sp np sm nm e0 r :
  DInv P sp np sm nm -> In (e0, r) np ->
  open_rec sm r = BadRecord \/ open_rec sm r = Opened e0.
Proof.
  intros H Hin. destruct (d_net _ _ _ _ _ H e0 r Hin) as (A1 & A2 & A3 & _).
  pose proof (d_epochs _ _ _ _ _ H) as Hep. pose proof (d_rrange _ _ _ _ _ H) as Hrr.
  unfold open_rec. rewrite (d_rgens _ _ _ _ _ H).
  set (elig := filter (fun g => g_epoch g <=? r_epoch sm)
                      (filter (fun g => low2 (g_epoch g) =? r_elow r) (gens_down P (r_epoch sm)))).
  assert (Hmine : In (mkgen e0 (secret_of P e0)) elig).
  { apply filter_In. split; [apply filter_In; split|].
    - apply gens_down_in; [lia|]. right. exists e0. split; [lia | reflexivity].
    - cbn [g_epoch]. rewrite A3. apply N.eqb_refl.
    - cbn [g_epoch]. apply N.leb_le. lia. }
  destruct elig as [|g0 tl] eqn:Eel; [contradiction|]. rewrite <- Eel.
  destruct (find (gen_opens sm r) elig) as [g|] eqn:Ef; [|now left].
  right. apply find_some in Ef. destruct Ef as [Hg Hop].
  unfold elig in Hg. apply filter_In in Hg. destruct Hg as [Hg _]. apply filter_In in Hg. destruct Hg as [Hg _].
  apply gens_down_in in Hg; [|lia].
  unfold gen_opens in Hop. apply andb_prop in Hop. destruct Hop as [Hs _]. apply sec_eqb_eq in Hs.
  destruct Hg as [-> | (e & He & ->)]; cbn [g_sec g_epoch] in *.
  - rewrite A2 in Hs. exfalso. symmetry in Hs. unfold secret_of in Hs. exact (nx_not_hs _ _ _ Hs).
  - rewrite A2 in Hs. apply secret_of_inj in Hs; [|lia|lia]. destruct Hs as [-> _]. reflexivity.
Qed.

(* ---------- the replay window and the delivered log ---------- *)

Lemma check_fresh P sp np sm nm e q :
  DInv P sp np sm nm -> check max_seq64 (wins sm e) q = true -> ~ In (e, q) (seen sm).
Proof.
  intros H Hc Hin. destruct (d_wins _ _ _ _ _ H e) as [HI _].
  apply (check_spec W max_seq64 _ _ q HI) in Hc. destruct Hc as [_ [Hlt | [_ Hn]]].
  - destruct HI as (_ & _ & Hle & _). apply seqs_at_in in Hin. specialize (Hle _ Hin). lia.
  - apply Hn. now apply seqs_at_in.
Qed.

Lemma dinv_mark_R P sp np sm nm e q :
  DInv P sp np sm nm -> check max_seq64 (wins sm e) q = true -> DInv P sp np (mark sm e q) nm.
Proof.
  intros H Hc. pose proof (check_fresh _ _ _ _ _ _ _ H Hc) as Hfresh. destruct H.
  constructor; cbn [r_epoch r_gens hs_recv wins seen got futq mark]; try assumption.
  - intro e'. destruct (N.eqb_spec e' e) as [-> | Hne].
    + rewrite seqs_at_cons_same. destruct (d_wins0 e) as [HI Hl].
      destruct max_seq64_facts as [M1 M2].
      destruct (accept_inv W max_seq64 (wins sm e) _ q M1 M2 HI Hc Hl) as [HI' Hl']. split; assumption.
    + rewrite seqs_at_cons_other by congruence. apply d_wins0.
  - constructor; assumption.
  - intros e' q' p Hin. destruct (d_got0 e' q' p Hin) as [G1 G2]. split; [now right | exact G2].
Qed.

Lemma pinv_mark me sm nm sp np e q :
  PInv me sm nm sp np -> check max_seq64 (wins sm e) q = true -> PInv me (mark sm e q) nm sp np.
Proof.
  intros [H1 H2] Hc. split; [eapply DInv_sview; [|exact H1]; reflexivity | now apply dinv_mark_R].
Qed.

Lemma dinv_addgot_R P sp np sm nm e q p r :
  DInv P sp np sm nm -> In (e, q) (seen sm) -> ~ In (e, q) (map gkey (got sm)) ->
  In (e, r) np -> r_seq r = q -> r_kind r = App p -> DInv P sp np (add_got sm e q p) nm.
Proof.
  intros H Hs Hn Hin Hq Hk. destruct H.
  constructor; cbn [r_epoch r_gens hs_recv wins seen got futq add_got]; try assumption.
  - intros e' q' p' [Heq | Hin'].
    + inversion Heq; subst. split; [exact Hs | eauto].
    + now apply d_got0.
  - cbn [map]. constructor; assumption.
Qed.

(* ---------- ACK: committing the pending generation ---------- *)

Lemma dinv_commit_S X sx nt sy ny :
  DInv X sx nt sy ny -> pending sx <> None -> r_epoch sy = w_epoch sx + 1 ->
  DInv X (mkside (failed sx) (w_epoch sx + 1) (Next (w_sec sx)) 0 (hs_send sx) None (queue sx) (r_epoch sx)
                 (r_gens sx) (hs_recv sx) (wins sx) (futq sx) (seen sx) (got sx) (shadow sx)) nt sy ny.
Proof.
  intros H Hp Hr. destruct H.
  constructor; cbn [w_epoch w_sec w_seq hs_send pending]; try assumption.
  - lia.
  - rewrite d_wsec0. symmetry. apply secret_of_succ. lia.
  - rewrite d_hsend0. destruct (pending sx); [lia | contradiction].
  - intros f Hf. discriminate.
  - intros e r Hin. destruct (d_net0 e r Hin) as (A1 & A2 & A3 & A4 & A5 & A6).
    refine (conj _ (conj A2 (conj A3 (conj A4 (conj _ A6))))); [lia | intro; lia].
  - lia.
  - intro; lia.
Qed.

Lemma pinv_on_ack me sm nm sp np e0 r l :
  PInv me sm nm sp np -> In (e0, r) np -> r_kind r = Ack l ->
  PInv me (fst (on_ack me sm l)) (sent_by me (snd (on_ack me sm l)) ++ nm) sp np.
Proof.
  intros [H1 H2] Hin Hl. unfold on_ack. destruct (pending sm) as [f|] eqn:Ep; [|now split].
  destruct (acked sm f l) eqn:Ea; [|now split].
  assert (Hs : sent_by me (snd (commit me sm f)) = []).
  { unfold commit. cbn [snd sent_by]. destruct (f_id f); reflexivity. }
  rewrite Hs. cbn [app]. unfold commit. cbn [fst].
  (* the acknowledged record is one of the flight's records, so the peer processed the message *)
  unfold acked in Ea. apply existsb_exists in Ea. destruct Ea as [[e' q] [Hq Hc]]. cbn [fst snd] in Hc.
  apply andb_prop in Hc. destruct Hc as [He Hc]. apply N.eqb_eq in He. subst e'.
  apply existsb_exists in Hc. destruct Hc as [q' [Hq' Heq]]. apply N.eqb_eq in Heq. subst q'.
  destruct (d_acks _ _ _ _ _ H1 e0 r l Hin Hl _ _ Hq) as (rk & m & rq & B1 & B2 & B3 & B4).
  destruct (d_pend _ _ _ _ _ H1 f Ep) as [P1 P2]. destruct (P2 q Hq') as (r' & rq' & R1 & R2 & R3).
  assert (Hsame : (w_epoch sm, rk) = (w_epoch sm, r')).
  { apply (nodup_map_inj rkey nm); [exact (d_uniq _ _ _ _ _ H1) | exact B1 | exact R1 |].
    unfold rkey. cbn [fst snd]. congruence. }
  inversion Hsame; subst r'. rewrite B3 in R3. inversion R3; subst m.
  assert (Hr : r_epoch sp = w_epoch sm + 1).
  { pose proof (d_hrecv _ _ _ _ _ H1) as Hh. pose proof (d_epochs _ _ _ _ _ H1) as Hep.
    pose proof (d_wrange _ _ _ _ _ H1). pose proof (d_rrange _ _ _ _ _ H1). lia. }
  split.
  - apply dinv_commit_S; [exact H1 | congruence | exact Hr].
  - eapply DInv_rview; [|exact H2]. reflexivity.
Qed.

(* ---------- KeyUpdate: advancing the read generation ---------- *)

Lemma dinv_advance_R P sp np sm nm cur tl (req : bool) :
  DInv P sp np sm nm -> r_gens sm = cur :: tl ->
  r_epoch sm = w_epoch sp -> pending sp <> None -> r_epoch sm <> max_epoch ->
  DInv P sp np
    (mkside (failed sm) (w_epoch sm) (w_sec sm) (w_seq sm) (hs_send sm) (pending sm)
            (if req then insert_response (queue sm) else queue sm)
            (r_epoch sm + 1) (mkgen (r_epoch sm + 1) (Next (g_sec cur)) :: r_gens sm)
            (hs_recv sm + 1) (wins sm) [] (seen sm) (got sm) (shadow sm)) nm.
Proof.
  intros H Hg Hr Hp Hmax. destruct H.
  constructor; cbn [r_epoch r_gens hs_recv wins seen got futq shadow]; try assumption.
  - unfold max_epoch in *. lia.
  - rewrite gens_down_succ by lia. rewrite <- d_rgens0. f_equal. f_equal.
    destruct (gens_down_head P (r_epoch sm)) as [tl' Htl]; [lia|].
    rewrite d_rgens0, Htl in Hg. inversion Hg; subst cur. cbn [g_sec].
    symmetry. apply secret_of_succ. lia.
  - lia.
  - lia.
  - intros _. exact Hp.
  - intros e r l Hin Hl e' q Hq. destruct (d_acks0 e r l Hin Hl e' q Hq) as (rk & m & rq & B1 & B2 & B3 & B4).
    exists rk, m, rq. repeat (split; [assumption|]). lia.
  - reflexivity.
Qed.

Lemma pinv_on_ku me sm nm sp np e r m req :
  PInv me sm nm sp np -> In (e, r) np -> r_kind r = KU m req ->
  PInv me (fst (on_ku me sm e (r_seq r) m req)) (sent_by me (snd (on_ku me sm e (r_seq r) m req)) ++ nm) sp np.
Proof.
  intros [H1 H2] Hin Hk.
  destruct (d_net _ _ _ _ _ H2 e r Hin) as (A1 & A2 & A3 & A4 & A5 & A6). destruct (A6 m req Hk) as [M1 M2].
  pose proof (d_hrecv _ _ _ _ _ H2) as Hhr. pose proof (d_epochs _ _ _ _ _ H2) as Hep.
  pose proof (d_rrange _ _ _ _ _ H2) as Hrr. pose proof (d_hsend _ _ _ _ _ H2) as Hhs.
  assert (Hack : forall s', PInv me s' nm sp np -> m < hs_recv s' ->
            PInv me (fst (send_ack me s' [(e, r_seq r)])) (sent_by me (snd (send_ack me s' [(e, r_seq r)])) ++ nm) sp np).
  { intros s' HP Hlt. unfold send_ack.
    pose proof (pinv_emit_ctl me s' nm sp np (Ack [(e, r_seq r)]) HP) as HE.
    destruct (emit_ctl me s' (Ack [(e, r_seq r)])) as [[s1 evs] o]. cbn [fst snd] in *. apply HE.
    - intros m' rq' E; discriminate.
    - intros l E e' q Hq. inversion E; subst l. destruct Hq as [Heq | []]. inversion Heq; subst e' q.
      exists r, m, req. auto. }
  unfold on_ku, shadowed. rewrite (d_shadow _ _ _ _ _ H2). cbn [existsb]. unfold on_ku0.
  destruct (m <? hs_recv sm) eqn:E1.
  { apply Hack; [now split | lia]. }
  destruct (m =? hs_recv sm) eqn:E2.
  2:{ exfalso. lia. }
  assert (He : e = r_epoch sm) by lia.
  destruct (gens_down_head (other me) (r_epoch sm)) as [tl Htl]; [lia|].
  pose proof (d_rgens _ _ _ _ _ H2) as Hrg. rewrite Htl in Hrg. rewrite Hrg. cbn [g_epoch].
  replace (r_epoch sm =? e) with true by (symmetry; apply N.eqb_eq; lia). cbn [andb negb].
  destruct (r_epoch sm =? max_epoch) eqn:E3.
  { cbn [fst snd sent_by app]. apply pinv_set_failed. now split. }
  assert (Hrw : r_epoch sm = w_epoch sp) by lia.
  assert (Hpp : pending sp <> None).
  { intro Hn. rewrite Hn in Hhs. lia. }
  unfold advance_read. rewrite Hrg. rewrite (d_futq _ _ _ _ _ H2). cbn [recv_parked_all fst snd].
  set (s1 := mkside _ _ _ _ _ _ _ _ _ _ _ _ _ _ _).
  assert (HP1 : PInv me s1 nm sp np).
  { split.
    - eapply DInv_sview; [|exact H1]. reflexivity.
    - unfold s1. rewrite <- Hrg. eapply dinv_advance_R; try eassumption. apply N.eqb_neq. exact E3. }
  destruct (failed s1) eqn:Ef1.
  { cbn [fst snd sent_by app]. exact HP1. }
  destruct (max_msg <? hs_recv s1).
  { cbn [fst snd]. rewrite sent_by_app. cbn [sent_by app]. now apply pinv_set_failed. }
  assert (Hlt : m < hs_recv s1) by (unfold s1; cbn [hs_recv]; lia).
  specialize (Hack s1 HP1 Hlt).
  destruct (send_ack me s1 [(e, r_seq r)]) as [s2 e2]. cbn [fst snd] in *.
  rewrite sent_by_app. cbn [sent_by app]. rewrite app_nil_r. exact Hack.
Qed.

(* ---------- one arriving datagram ---------- *)

Lemma pinv_recv me sm nm sp np r :
  PInv me sm nm sp np -> In r (map snd np) ->
  PInv me (fst (recv me sm r)) (sent_by me (snd (recv me sm r)) ++ nm) sp np.
Proof.
  intros HP Hin. apply in_map_iff in Hin. destruct Hin as [[e0 r0] [Hr Hin]]. cbn [snd] in Hr. subst r0.
  destruct HP as [H1 H2].
  unfold recv. destruct (failed sm); [now split|].
  destruct (open_rec_authentic _ _ _ _ _ _ _ H2 Hin) as [-> | ->]; [now split|].
  destruct (check max_seq64 (wins sm e0) (r_seq r)) eqn:Ec; cbn [negb]; [|now split].
  pose proof (pinv_mark me sm nm sp np e0 (r_seq r) (conj H1 H2) Ec) as HM.
  destruct (r_kind r) as [p|m req|l] eqn:Ek.
  - cbn [fst snd sent_by app]. destruct HM as [M1 M2]. split.
    + eapply DInv_sview; [|exact M1]. reflexivity.
    + eapply dinv_addgot_R; try eassumption; try reflexivity.
      * cbn [seen mark]. now left.
      * cbn [got mark]. intro Hg. apply in_map_iff in Hg. destruct Hg as [[[e' q'] p'] [Hk' Hg]].
        unfold gkey in Hk'. cbn [fst snd] in Hk'. inversion Hk'; subst e' q'.
        destruct (d_got _ _ _ _ _ H2 _ _ _ Hg) as [Hs _].
        exact (check_fresh _ _ _ _ _ _ _ H2 Ec Hs).
  - pose proof (pinv_on_ku me _ nm sp np e0 r m req HM Hin Ek) as HK.
    destruct (on_ku me (mark sm e0 (r_seq r)) e0 (r_seq r) m req) as [s2 e2]. cbn [fst snd] in HK.
    destruct (failed s2); [exact HK|].
    pose proof (pinv_drain me (queue s2) s2 _ sp np HK) as HD. unfold run_queue.
    destruct (drain me s2 (queue s2)) as [s3 e3]. cbn [fst snd] in *.
    rewrite sent_by_app, <- app_assoc. exact HD.
  - pose proof (pinv_on_ack me _ nm sp np e0 r l HM Hin Ek) as HK.
    destruct (on_ack me (mark sm e0 (r_seq r)) l) as [s2 e2]. cbn [fst snd] in HK.
    destruct (failed s2); [exact HK|].
    pose proof (pinv_drain me (queue s2) s2 _ sp np HK) as HD. unfold run_queue.
    destruct (drain me s2 (queue s2)) as [s3 e3]. cbn [fst snd] in *.
    rewrite sent_by_app, <- app_assoc. exact HD.
Qed.

(* ---------- steps and runs ---------- *)

Lemma PInv_swap me sm nm sp np : PInv me sm nm sp np -> PInv (other me) sp np sm nm.
Proof. intros [H1 H2]. split; [exact H2 | now rewrite other_other]. Qed.

Lemma GInv_of_side st me : PInv me (sd st me) (net st me) (sd st (other me)) (net st (other me)) -> GInv st.
Proof. intro H. destruct me; [exact H | apply PInv_swap in H; exact H]. Qed.

Theorem step_GInv st o : GInv st -> authentic_op st o -> GInv (fst (step st o)).
Proof.
  intros HG Ha. rewrite step_act. set (me := actor o).
  apply (GInv_of_side _ me). rewrite put_sd_me, put_sd_other, put_net_me, put_net_other.
  pose proof (GInv_side st me HG) as HP.
  destruct o as [s req id|s p|to r|s]; cbn [actor act] in *; subst me.
  - now apply pinv_submit.
  - now apply pinv_submit.
  - now apply pinv_recv.
  - now apply pinv_timer.
Qed.

Theorem exec_GInv ops : forall st, GInv st -> authentic st ops -> GInv (fst (exec st ops)).
Proof.
  induction ops as [|o ops IH]; intros st HG Ha; [exact HG|].
  cbn [exec]. destruct Ha as [Ha1 Ha2]. pose proof (step_GInv st o HG Ha1) as H1.
  destruct (step st o) as [st1 e1]. cbn [fst] in *. specialize (IH st1 H1 Ha2).
  destruct (exec st1 ops) as [st2 e2]. exact IH.
Qed.


(* ====================================================================== *)
(* 3. consequences of the invariant                                        *)
(* ====================================================================== *)

(* ---------- successor chain ---------- *)

Theorem successor_chain st X : GInv st ->
  w_sec (sd st X) = secret_of X (w_epoch (sd st X)) /\
  (forall e, 3 <= e <= w_epoch (sd st X) ->
     In (mkgen e (secret_of X e)) (r_gens (sd st (other X))) /\
     (e < w_epoch (sd st X) -> secret_of X (e + 1) = Next (secret_of X e))).
Proof.
  intro HG. destruct (GInv_side st X HG) as [H1 _]. split; [exact (d_wsec _ _ _ _ _ H1)|].
  intros e He. split.
  - rewrite (d_rgens _ _ _ _ _ H1). pose proof (d_epochs _ _ _ _ _ H1). apply gens_down_in; [lia|].
    right. exists e. split; [lia | reflexivity].
  - intros _. apply secret_of_succ. lia.
Qed.

(* every generation ever authorised stays installed (TrafficKeyState never discards one) *)
Theorem all_generations_retained st X : GInv st ->
  forall g, In g (r_gens (sd st (other X))) <->
    g = mkgen 2 (Hs X) \/ exists e, 3 <= e <= r_epoch (sd st (other X)) /\ g = mkgen e (secret_of X e).
Proof.
  intros HG g. destruct (GInv_side st X HG) as [H1 _]. rewrite (d_rgens _ _ _ _ _ H1).
  pose proof (d_rrange _ _ _ _ _ H1). apply gens_down_in. lia.
Qed.

(* the peer never sends under an epoch the receiver has not authorised *)
Theorem sent_epoch_authorised st X e r : GInv st -> In (e, r) (net st X) ->
  3 <= e <= r_epoch (sd st (other X)) /\ r_key r = secret_of X e /\ r_elow r = low2 e.
Proof.
  intros HG Hin. destruct (GInv_side st X HG) as [H1 _].
  destruct (d_net _ _ _ _ _ H1 e r Hin) as (A1 & A2 & A3 & _). pose proof (d_epochs _ _ _ _ _ H1).
  repeat split; try assumption; lia.
Qed.

(* ---------- at most once, unmodified ---------- *)

Definition payload_of (t : N * N * N) : N := snd t.
Definition reads (s : sidest) : list N := map payload_of (got s).
Definition is_app (p : N) (er : N * rec) : bool :=
  match r_kind (snd er) with App p' => p' =? p | _ => false end.
Definition sealed (nt : list (N * rec)) : list N :=
  flat_map (fun er => match r_kind (snd er) with App p => [p] | _ => [] end) nt.

Lemma count_reads_filter (l : list (N * N * N)) p :
  count_occ N.eq_dec (map payload_of l) p = length (filter (fun t => payload_of t =? p) l).
Proof.
  induction l as [|t l IH]; [reflexivity|]. cbn [map count_occ filter].
  destruct (N.eq_dec (payload_of t) p) as [E|E].
  - rewrite (proj2 (N.eqb_eq _ _) E). cbn [length]. now rewrite IH.
  - rewrite (proj2 (N.eqb_neq _ _) E). exact IH.
Qed.

Lemma count_sealed_filter (nt : list (N * rec)) p :
  count_occ N.eq_dec (sealed nt) p = length (filter (is_app p) nt).
Proof.
  induction nt as [|er nt IH]; [reflexivity|]. cbn [sealed flat_map filter]. unfold is_app at 1.
  destruct (r_kind (snd er)) as [p'| |]; cbn [app]; try exact IH.
  cbn [count_occ]. destruct (N.eq_dec p' p) as [E|E].
  - rewrite (proj2 (N.eqb_eq _ _) E). cbn [length]. f_equal. exact IH.
  - rewrite (proj2 (N.eqb_neq _ _) E). exact IH.
Qed.

Lemma NoDup_map_filter {T K : Type} (f : T -> K) (g : T -> bool) (l : list T) :
  NoDup (map f l) -> NoDup (map f (filter g l)).
Proof.
  induction l as [|a l IH]; intro H; [constructor|]. cbn [map] in H. inversion H as [|? ? Hn Hd]; subst.
  cbn [filter]. destruct (g a); [|now apply IH]. cbn [map]. constructor; [|now apply IH].
  intro Hin. apply Hn. apply in_map_iff in Hin. destruct Hin as [x [Hx Hin]]. apply filter_In in Hin.
  apply in_map_iff. exists x. tauto.
Qed.

Theorem at_most_once_unmodified st X : GInv st ->
  forall p, (count_occ N.eq_dec (reads (sd st (other X))) p <= count_occ N.eq_dec (sealed (net st X)) p)%nat.
Proof.
  intros HG p. destruct (GInv_side st X HG) as [H1 _].
  unfold reads. rewrite count_reads_filter, count_sealed_filter.
  set (G := filter (fun t => payload_of t =? p) (got (sd st (other X)))).
  set (Wp := filter (is_app p) (net st X)).
  rewrite <- (map_length gkey G), <- (map_length rkey Wp).
  apply NoDup_incl_length.
  - apply NoDup_map_filter. exact (d_gotuniq _ _ _ _ _ H1).
  - intros k Hk. apply in_map_iff in Hk. destruct Hk as [[[e q] p'] [Hk Hin]].
    unfold G in Hin. apply filter_In in Hin. destruct Hin as [Hin Hp]. unfold payload_of in Hp. cbn [snd] in Hp.
    apply N.eqb_eq in Hp. subst p'. unfold gkey in Hk. cbn [fst snd] in Hk. subst k.
    destruct (d_got _ _ _ _ _ H1 e q p Hin) as [_ (r & R1 & R2 & R3)].
    apply in_map_iff. exists (e, r). split; [unfold rkey; cbn [fst snd]; now rewrite R2|].
    unfold Wp. apply filter_In. split; [exact R1|]. unfold is_app. cbn [snd]. rewrite R3. apply N.eqb_refl.
Qed.

(* every payload handed to Read was sealed by the peer in a record with exactly that content,
   and no record number is delivered twice *)
Theorem delivered_records_genuine st X : GInv st ->
  NoDup (map gkey (got (sd st (other X)))) /\
  forall e q p, In (e, q, p) (got (sd st (other X))) ->
    exists r, In (e, r) (net st X) /\ r_seq r = q /\ r_kind r = App p /\ r_key r = secret_of X e.
Proof.
  intro HG. destruct (GInv_side st X HG) as [H1 _]. split; [exact (d_gotuniq _ _ _ _ _ H1)|].
  intros e q p Hin. destruct (d_got _ _ _ _ _ H1 e q p Hin) as [_ (r & R1 & R2 & R3)].
  exists r. destruct (d_net _ _ _ _ _ H1 e r R1) as (_ & A2 & _). auto.
Qed.

(* ---------- delivered if it arrives in time ---------- *)

Lemma reconstruct_ok q h :
  (h < q <= h + 32768 \/ (q <= h /\ h - q < 32767)) -> reconstruct (q mod seq_bits) h = q.
Proof.
  intro H. unfold reconstruct, seq_bits. change (65536 / 2) with 32768.
  rewrite N.mod_mod by lia.
  destruct ((h + 1) / 65536 * 65536 + q mod 65536 + 32768 <=? h + 1) eqn:E1.
  - apply N.leb_le in E1. lia.
  - apply N.leb_gt in E1.
    destruct ((h + 1 + 32768 <? (h + 1) / 65536 * 65536 + q mod 65536) &&
              (65536 <=? (h + 1) / 65536 * 65536 + q mod 65536)) eqn:E2.
    + apply andb_prop in E2. destruct E2 as [E2 E3]. apply N.ltb_lt in E2. apply N.leb_le in E3. lia.
    + apply andb_false_iff in E2. destruct E2 as [E2 | E2]; [apply N.ltb_ge in E2 | apply N.leb_gt in E2]; lia.
Qed.

Theorem delivered_if_arrives_while_retained st X e r p : GInv st ->
  In (e, r) (net st X) -> r_kind r = App p ->
  let Y := other X in let sy := sd st Y in
  failed sy = false -> ~ In (e, r_seq r) (seen sy) ->
  (latest (wins sy e) < r_seq r <= latest (wins sy e) + 32768 \/
   (r_seq r <= latest (wins sy e) /\ latest (wins sy e) - r_seq r < N.of_nat W)) ->
  recv Y sy r = (add_got (mark sy e (r_seq r)) e (r_seq r) p, [EvRead Y p]).
Proof.
  intros HG Hin Hk Y sy Hf Hns Hwin. destruct (GInv_side st X HG) as [H1 _]. fold Y in H1. fold sy in H1.
  destruct (d_net _ _ _ _ _ H1 e r Hin) as (A1 & A2 & A3 & A4 & _).
  pose proof (d_epochs _ _ _ _ _ H1) as Hep. pose proof (d_rrange _ _ _ _ _ H1) as Hrr.
  unfold recv. rewrite Hf.
  assert (Hop : open_rec sy r = Opened e).
  { destruct (open_rec_authentic _ _ _ _ _ _ _ H1 Hin) as [Hb | Ho]; [|exact Ho]. exfalso.
    unfold open_rec in Hb. rewrite (d_rgens _ _ _ _ _ H1) in Hb.
    set (elig := filter (fun g => g_epoch g <=? r_epoch sy)
                        (filter (fun g => low2 (g_epoch g) =? r_elow r) (gens_down X (r_epoch sy)))) in Hb.
    assert (Hmine : In (mkgen e (secret_of X e)) elig).
    { apply filter_In. split; [apply filter_In; split|].
      - apply gens_down_in; [lia|]. right. exists e. split; [lia | reflexivity].
      - cbn [g_epoch]. rewrite A3. apply N.eqb_refl.
      - cbn [g_epoch]. apply N.leb_le. lia. }
    destruct elig as [|g0 tl] eqn:Eel; [contradiction|]. rewrite <- Eel in Hb.
    destruct (find (gen_opens sy r) elig) eqn:Ef; [discriminate|].
    rewrite <- Eel in Hmine. pose proof (find_none _ _ Ef _ Hmine) as Hno.
    unfold gen_opens in Hno. cbn [g_sec g_epoch] in Hno. rewrite A2, sec_eqb_refl in Hno. cbn [andb] in Hno.
    rewrite reconstruct_ok in Hno by lia. rewrite N.eqb_refl in Hno. discriminate. }
  rewrite Hop.
  assert (Hc : check max_seq64 (wins sy e) (r_seq r) = true).
  { destruct (d_wins _ _ _ _ _ H1 e) as [HI _]. apply (check_spec W max_seq64 _ _ _ HI).
    split; [unfold max_seq64, max_seq48 in *; lia|].
    destruct Hwin as [[Hl _] | [Hl1 Hl2]]; [now left|].
    destruct (N.ltb_spec (latest (wins sy e)) (r_seq r)); [now left|].
    right. split; [exact Hl2|]. intro Hs. apply Hns. now apply seqs_at_in. }
  rewrite Hc. cbn [negb]. rewrite Hk. reflexivity.
Qed.


(* the ACK that completes a flight names one of its records, and the peer has processed the message *)
Lemma acked_processed me sm nm sp np f e0 r l :
  DInv me sm nm sp np -> pending sm = Some f -> In (e0, r) np -> r_kind r = Ack l -> acked sm f l = true ->
  exists q, In q (f_seqs f) /\ In (w_epoch sm, q) l /\ f_msg f < hs_recv sp /\ r_epoch sp = w_epoch sm + 1 /\
            b me <= f_msg f.
Proof.
  intros H1 Ep Hin Hl Ea.
  unfold acked in Ea. apply existsb_exists in Ea. destruct Ea as [[e' q] [Hq Hc]]. cbn [fst snd] in Hc.
  apply andb_prop in Hc. destruct Hc as [He Hc]. apply N.eqb_eq in He. subst e'.
  apply existsb_exists in Hc. destruct Hc as [q' [Hq' Heq]]. apply N.eqb_eq in Heq. subst q'.
  destruct (d_acks _ _ _ _ _ H1 e0 r l Hin Hl _ _ Hq) as (rk & m & rq & B1 & B2 & B3 & B4).
  destruct (d_pend _ _ _ _ _ H1 f Ep) as [P1 P2]. destruct (P2 q Hq') as (r' & rq' & R1 & R2 & R3).
  assert (Hsame : (w_epoch sm, rk) = (w_epoch sm, r')).
  { apply (nodup_map_inj rkey nm); [exact (d_uniq _ _ _ _ _ H1) | exact B1 | exact R1 |].
    unfold rkey. cbn [fst snd]. congruence. }
  inversion Hsame; subst r'. rewrite B3 in R3. inversion R3; subst m.
  exists q. repeat (split; [assumption|]).
  pose proof (d_hrecv _ _ _ _ _ H1) as Hh. pose proof (d_epochs _ _ _ _ _ H1) as Hep.
  pose proof (d_wrange _ _ _ _ _ H1). pose proof (d_rrange _ _ _ _ _ H1). lia.
Qed.

End Invariant.

(* ====================================================================== *)
(* 4. records under an epoch that is not (or not yet) authorised           *)
(* ====================================================================== *)

(* no installed generation that the receive epoch authorises holds the record's key *)
Definition no_key (s : sidest) (r : rec) : Prop :=
  forall g, In g (r_gens s) -> g_epoch g <= r_epoch s -> low2 (g_epoch g) = r_elow r -> g_sec g <> r_key r.

Lemma open_rec_no_key s r : no_key s r -> open_rec s r = NoEpoch \/ open_rec s r = BadRecord.
Proof.
  intro H. unfold open_rec.
  set (elig := filter (fun g => g_epoch g <=? r_epoch s) (filter (fun g => low2 (g_epoch g) =? r_elow r) (r_gens s))).
  destruct elig as [|g0 tl] eqn:Eel; [now left|]. rewrite <- Eel. right.
  destruct (find (gen_opens s r) elig) as [g|] eqn:Ef; [|reflexivity]. exfalso.
  apply find_some in Ef. destruct Ef as [Hg Hop]. unfold elig in Hg.
  apply filter_In in Hg. destruct Hg as [Hg H1]. apply filter_In in Hg. destruct Hg as [Hg H2].
  apply N.leb_le in H1. apply N.eqb_eq in H2.
  unfold gen_opens in Hop. apply andb_prop in Hop. destruct Hop as [Hs _]. apply sec_eqb_eq in Hs.
  exact (H g Hg H1 H2 Hs).
Qed.

(* such a record is never delivered and changes nothing, except that the datagram may be parked when
   its epoch bits are those of the next epoch; a parked datagram is only ever re-examined by
   [recv_parked], for which the same holds *)
Theorem unauthorised_epoch_rejected me s r : no_key s r ->
  recv me s r = (s, []) \/
  (recv me s r = (set_futq s (futq s ++ [r]), []) /\ low2 (r_epoch s + 1) = r_elow r).
Proof.
  intro H. unfold recv. destruct (failed s); [now left|].
  destruct (open_rec_no_key s r H) as [-> | ->]; [|now left].
  destruct (low2 (r_epoch s + 1) =? r_elow r) eqn:E; cbn [andb]; [|now left].
  destruct (length (futq s) <? futq_cap)%nat; [|now left].
  right. split; [reflexivity | now apply N.eqb_eq].
Qed.

Theorem unauthorised_parked_rejected me s r : no_key s r -> recv_parked me s r = (s, []).
Proof. intro H. unfold recv_parked. destruct (open_rec_no_key s r H) as [-> | ->]; reflexivity. Qed.

(* with the invariant: a record under the key of an epoch beyond the receive epoch has no key *)
Theorem future_epoch_no_key W b st X e r : GInv W b st ->
  r_key r = secret_of X e -> r_epoch (sd st (other X)) < e -> no_key (sd st (other X)) r.
Proof.
  intros HG Hk He g Hg Hle _ Hs. destruct (GInv_side W b st X HG) as [H1 _].
  rewrite (d_rgens _ _ _ _ _ _ _ H1) in Hg. pose proof (d_rrange _ _ _ _ _ _ _ H1) as Hrr.
  apply gens_down_in in Hg; [|lia]. rewrite Hk in Hs.
  destruct Hg as [-> | (e' & He' & ->)]; cbn [g_sec g_epoch] in *.
  - unfold secret_of in Hs. symmetry in Hs. exact (nx_not_hs _ _ _ Hs).
  - apply secret_of_inj in Hs; [|lia|lia]. lia.
Qed.

(* ====================================================================== *)
(* 5. what a step's events say (trace bookkeeping)                         *)
(* ====================================================================== *)

Fixpoint ev_reads (evs : list event) : list N :=
  match evs with [] => [] | EvRead _ p :: t => p :: ev_reads t | _ :: t => ev_reads t end.

Definition qapps (q : list cmd) : list N := flat_map (fun c => match c with CApp p => [p] | CKU _ _ => [] end) q.

Lemma ev_reads_app e1 e2 : ev_reads (e1 ++ e2) = ev_reads e1 ++ ev_reads e2.
Proof. induction e1 as [|ev e1 IH]; [reflexivity|]. destruct ev; cbn [app ev_reads]; rewrite ?IH; reflexivity. Qed.

Lemma sealed_app n1 n2 : sealed (n1 ++ n2) = sealed n1 ++ sealed n2.
Proof. unfold sealed. apply flat_map_app. Qed.

Lemma qapps_app q1 q2 : qapps (q1 ++ q2) = qapps q1 ++ qapps q2.
Proof. unfold qapps. apply flat_map_app. Qed.

Definition cnt (l : list N) (p : N) : nat := count_occ N.eq_dec l p.
Lemma cnt_app l1 l2 p : cnt (l1 ++ l2) p = (cnt l1 p + cnt l2 p)%nat.
Proof. apply count_occ_app. Qed.

Record Tr (me : side) (s s' : sidest) (evs : list event) : Prop := mkTr {
  t_hrecv : hs_recv s <= hs_recv s' /\ forall m, hs_recv s <= m < hs_recv s' -> In (EvKuIn me m) evs;
  t_pend : forall f' id, pending s' = Some f' -> f_id f' = Some id ->
             (exists f, pending s = Some f /\ f_id f = Some id /\ f_msg f = f_msg f') \/
             In (EvStart me id (f_msg f')) evs;
  t_reads : reads s' = rev (ev_reads evs) ++ reads s
}.

Lemma tr_refl me s : Tr me s s [].
Proof.
  constructor.
  - split; [lia | intros m Hm; lia].
  - intros f' id Hp Hid. left. eauto.
  - reflexivity.
Qed.

Lemma tr_trans me s1 s2 s3 e1 e2 : Tr me s1 s2 e1 -> Tr me s2 s3 e2 -> Tr me s1 s3 (e1 ++ e2).
Proof.
  intros [[A1 A2] B1 C1] [[A3 A4] B2 C2]. constructor.
  - split; [lia|]. intros m Hm. apply in_or_app.
    destruct (N.lt_ge_cases m (hs_recv s2)); [left; apply A2; lia | right; apply A4; lia].
  - intros f' id Hp Hid. destruct (B2 f' id Hp Hid) as [(f & F1 & F2 & F3) | Hin].
    + destruct (B1 f id F1 F2) as [(f0 & G1 & G2 & G3) | Hin].
      * left. exists f0. repeat split; congruence.
      * right. apply in_or_app. left. now rewrite <- F3.
    + right. apply in_or_app. now right.
  - rewrite C2, C1, ev_reads_app, rev_app_distr, app_assoc. reflexivity.
Qed.

(* updates that leave hs_recv, pending and got alone *)
Lemma tr_same me s s' evs :
  hs_recv s' = hs_recv s -> pending s' = pending s -> got s' = got s -> ev_reads evs = [] -> Tr me s s' evs.
Proof.
  intros H1 H2 H3 H4. constructor.
  - rewrite H1. split; [lia | intros m Hm; lia].
  - intros f' id Hp Hid. left. rewrite H2 in Hp. eauto.
  - unfold reads. rewrite H3, H4. reflexivity.
Qed.

Lemma tr_emit_ctl me s k : Tr me s (fst (fst (emit_ctl me s k))) (snd (fst (emit_ctl me s k))).
Proof. unfold emit_ctl, seal. destruct (max_seq48 <? w_seq s); cbn; apply tr_same; reflexivity. Qed.

Lemma tr_emit_app me s p : Tr me s (fst (emit_app me s p)) (snd (emit_app me s p)).
Proof. unfold emit_app, seal. destruct (max_seq48 <? w_seq s); cbn; apply tr_same; reflexivity. Qed.

Lemma tr_start_ku me s req id : pending s = None -> Tr me s (fst (start_ku me s req id)) (snd (start_ku me s req id)).
Proof.
  intro Hp. unfold start_ku. destruct (_ || _); cbn [fst snd]; [apply tr_same; reflexivity|].
  constructor; cbn [hs_recv pending got].
  - split; [lia | intros m Hm; lia].
  - intros f' i Hf Hid. inversion Hf; subst f'. cbn [f_id f_msg] in *. subst id. right. right. now left.
  - unfold reads. cbn [got]. destruct id; reflexivity.
Qed.

Lemma tr_set_queue me s s' evs q : Tr me s s' evs -> Tr me s (set_queue s' q) evs.
Proof. intros [A B C]. constructor; assumption. Qed.

Lemma tr_drain me q : forall s, Tr me s (fst (drain me s q)) (snd (drain me s q)).
Proof.
  induction q as [|c q IH]; intro s; cbn [drain].
  - cbn [fst snd]. apply tr_set_queue, tr_refl.
  - destruct c as [p|req id].
    + pose proof (tr_emit_app me s p) as F1. destruct (emit_app me s p) as [s1 e1]. cbn [fst snd] in F1.
      specialize (IH s1). destruct (drain me s1 q) as [s2 e2]. cbn [fst snd] in *.
      eapply tr_trans; eassumption.
    + destruct (pending s) eqn:Ep.
      * cbn [fst snd]. apply tr_set_queue, tr_refl.
      * pose proof (tr_start_ku me s req id Ep) as F1. destruct (start_ku me s req id) as [s1 e1]. cbn [fst snd] in F1.
        destruct (failed s1).
        -- cbn [fst snd]. now apply tr_set_queue.
        -- specialize (IH s1). destruct (drain me s1 q) as [s2 e2]. cbn [fst snd] in *.
           eapply tr_trans; eassumption.
Qed.

Lemma tr_timer me s : Tr me s (fst (timer me s)) (snd (timer me s)).
Proof.
  unfold timer. destruct (failed s); [apply tr_refl|].
  destruct (pending s) as [f|] eqn:Ep; [|apply tr_refl].
  unfold emit_ctl, seal. destruct (max_seq48 <? w_seq s); cbn [fst snd].
  - apply tr_same; reflexivity.
  - constructor; cbn [hs_recv pending got set_pending set_wseq].
    + split; [lia | intros m Hm; lia].
    + intros f' id Hf Hid. inversion Hf; subst f'. cbn [f_id f_msg] in *. left. eauto.
    + reflexivity.
Qed.

Lemma tr_recv_parked me s r : Tr me s (fst (recv_parked me s r)) (snd (recv_parked me s r)).
Proof.
  unfold recv_parked. destruct (open_rec s r); try apply tr_refl.
  destruct (check max_seq64 (wins s e) (r_seq r)); [|apply tr_refl].
  destruct (r_kind r); cbn [fst snd]; try (apply tr_same; reflexivity).
  constructor; cbn [hs_recv pending got add_got mark].
  - split; [lia | intros m Hm; lia].
  - intros f' id Hp Hid. left. eauto.
  - reflexivity.
Qed.

Lemma tr_recv_parked_all me l : forall s, Tr me s (fst (recv_parked_all me s l)) (snd (recv_parked_all me s l)).
Proof.
  induction l as [|r l IH]; intro s; cbn [recv_parked_all]; [apply tr_refl|].
  pose proof (tr_recv_parked me s r) as F1. destruct (recv_parked me s r) as [s1 e1]. cbn [fst snd] in F1.
  specialize (IH s1). destruct (recv_parked_all me s1 l) as [s2 e2]. cbn [fst snd] in *.
  eapply tr_trans; eassumption.
Qed.

Lemma tr_on_ack me s l : Tr me s (fst (on_ack me s l)) (snd (on_ack me s l)).
Proof.
  unfold on_ack. destruct (pending s) as [f|]; [|apply tr_refl].
  destruct (acked s f l); [|apply tr_refl]. unfold commit. cbn [fst snd].
  constructor; cbn [hs_recv pending got].
  - split; [lia | intros m Hm; lia].
  - intros f' id Hp. discriminate.
  - unfold reads. cbn [got]. destruct (f_id f); reflexivity.
Qed.

Lemma tr_send_ack me s l : Tr me s (fst (send_ack me s l)) (snd (send_ack me s l)).
Proof.
  unfold send_ack. pose proof (tr_emit_ctl me s (Ack l)) as F.
  destruct (emit_ctl me s (Ack l)) as [[s1 evs] o]. exact F.
Qed.

Lemma tr_advance_read me s m req : m = hs_recv s ->
  Tr me s (fst (advance_read me s m req)) (snd (advance_read me s m req)).
Proof.
  intro Hm. unfold advance_read. destruct (r_gens s) as [|cur gs].
  - cbn [fst snd]. apply tr_same; reflexivity.
  - match goal with |- context [recv_parked_all me ?s1 ?l] =>
      pose proof (tr_recv_parked_all me l s1) as F; destruct (recv_parked_all me s1 l) as [s2 e2] end.
    cbn [fst snd] in *. destruct F as [[A1 A2] B C]. cbn [hs_recv pending got] in *. constructor.
    + split; [lia|]. intros m' Hm'. destruct (N.eq_dec m' (hs_recv s)) as [-> | Hne].
      * left. now rewrite Hm.
      * right. apply A2. lia.
    + intros f' id Hp Hid. destruct (B f' id Hp Hid) as [Hl | Hr]; [left; exact Hl | right; now right].
    + cbn [ev_reads]. rewrite C. reflexivity.
Qed.

Lemma tr_set_failed me s s' evs : Tr me s s' evs -> Tr me s (set_failed s') (evs ++ [EvFail me]).
Proof.
  intros [[A1 A2] B C]. constructor; cbn [hs_recv pending got set_failed].
  - split; [exact A1|]. intros m Hm. apply in_or_app. left. now apply A2.
  - intros f' id Hp Hid. destruct (B f' id Hp Hid) as [Hl | Hr]; [now left | right; apply in_or_app; now left].
  - rewrite ev_reads_app. cbn [ev_reads]. rewrite app_nil_r. exact C.
Qed.

Lemma tr_on_ku me s e q m req : Tr me s (fst (on_ku me s e q m req)) (snd (on_ku me s e q m req)).
Proof.
  unfold on_ku. destruct (shadowed s m); [apply tr_send_ack|]. unfold on_ku0.
  destruct (m <? hs_recv s); [apply tr_send_ack|].
  destruct (m =? hs_recv s) eqn:E; [|apply tr_send_ack]. apply N.eqb_eq in E.
  destruct (negb _); [cbn; apply tr_same; reflexivity|].
  destruct (r_epoch s =? max_epoch); [cbn; apply tr_same; reflexivity|].
  pose proof (tr_advance_read me s m req E) as F1.
  destruct (advance_read me s m req) as [s1 e1]. cbn [fst snd] in F1.
  destruct (failed s1); [exact F1|].
  destruct (max_msg <? hs_recv s1).
  { cbn [fst snd]. now apply tr_set_failed. }
  pose proof (tr_send_ack me s1 [(e, q)]) as F2.
  destruct (send_ack me s1 [(e, q)]) as [s2 e2]. cbn [fst snd] in *.
  eapply tr_trans; eassumption.
Qed.

Lemma tr_mark me s s' evs e q : Tr me (mark s e q) s' evs -> Tr me s s' evs.
Proof. intros [A B C]. constructor; assumption. Qed.

Lemma tr_recv me s r : Tr me s (fst (recv me s r)) (snd (recv me s r)).
Proof.
  unfold recv. destruct (failed s); [apply tr_refl|].
  destruct (open_rec s r) as [| |e].
  - destruct (_ && _); cbn [fst snd]; [apply tr_same; reflexivity | apply tr_refl].
  - apply tr_refl.
  - destruct (negb _); [apply tr_refl|].
    destruct (r_kind r) as [p|m req|l].
    + cbn [fst snd]. constructor; cbn [hs_recv pending got add_got mark].
      * split; [lia | intros m Hm; lia].
      * intros f' id Hp Hid. left. eauto.
      * reflexivity.
    + apply tr_mark with (e := e) (q := r_seq r).
      pose proof (tr_on_ku me (mark s e (r_seq r)) e (r_seq r) m req) as F1.
      destruct (on_ku me (mark s e (r_seq r)) e (r_seq r) m req) as [s2 e2]. cbn [fst snd] in F1.
      destruct (failed s2); [exact F1|].
      pose proof (tr_drain me (queue s2) s2) as F2. unfold run_queue.
      destruct (drain me s2 (queue s2)) as [s3 e3]. cbn [fst snd] in *.
      eapply tr_trans; eassumption.
    + apply tr_mark with (e := e) (q := r_seq r).
      pose proof (tr_on_ack me (mark s e (r_seq r)) l) as F1.
      destruct (on_ack me (mark s e (r_seq r)) l) as [s2 e2]. cbn [fst snd] in F1.
      destruct (failed s2); [exact F1|].
      pose proof (tr_drain me (queue s2) s2) as F2. unfold run_queue.
      destruct (drain me s2 (queue s2)) as [s3 e3]. cbn [fst snd] in *.
      eapply tr_trans; eassumption.
Qed.

Lemma tr_submit me s c : Tr me s (fst (submit me s c)) (snd (submit me s c)).
Proof. unfold submit. destruct (failed s); [apply tr_refl | apply tr_drain]. Qed.

Lemma tr_act st o : Tr (actor o) (sd st (actor o)) (fst (act st o)) (snd (act st o)).
Proof.
  destruct o; cbn [actor act]; [apply tr_submit | apply tr_submit | apply tr_recv | apply tr_timer].
Qed.

(* ====================================================================== *)
(* 6. UpdateKeys returns only after the peer processed the KeyUpdate and    *)
(*    its ACK was delivered                                                *)
(* ====================================================================== *)

Fixpoint ev_dones (evs : list event) : list (side * N) :=
  match evs with [] => [] | EvDone s i :: t => (s, i) :: ev_dones t | _ :: t => ev_dones t end.

Lemma ev_dones_app e1 e2 : ev_dones (e1 ++ e2) = ev_dones e1 ++ ev_dones e2.
Proof. induction e1 as [|ev e1 IH]; [reflexivity|]. destruct ev; cbn [app ev_dones]; rewrite ?IH; reflexivity. Qed.

Lemma ev_dones_in s id evs : In (EvDone s id) evs <-> In (s, id) (ev_dones evs).
Proof.
  induction evs as [|ev evs IH]; [tauto|]. destruct ev; cbn [In ev_dones]; rewrite IH;
    try (split; [intros [H|H]; [discriminate | exact H] | intro H; now right]).
  split; (intros [H|H]; [left; congruence | now right]).
Qed.

Lemma nd_start_ku me s req id : ev_dones (snd (start_ku me s req id)) = [].
Proof. unfold start_ku. destruct (_ || _); [reflexivity|]. destruct id; reflexivity. Qed.

Lemma nd_drain me q : forall s, ev_dones (snd (drain me s q)) = [].
Proof.
  induction q as [|c q IH]; intro s; cbn [drain]; [reflexivity|].
  destruct c as [p|rq i].
  - unfold emit_app, seal. destruct (max_seq48 <? w_seq s); cbn [fst snd].
    + match goal with |- context [drain me ?y q] => specialize (IH y); destruct (drain me y q) end. exact IH.
    + match goal with |- context [drain me ?y q] => specialize (IH y); destruct (drain me y q) end. cbn [snd] in *.
      rewrite ev_dones_app, IH. reflexivity.
  - destruct (pending s); [reflexivity|].
    pose proof (nd_start_ku me s rq i) as Hs.
    destruct (start_ku me s rq i) as [s1 e1]. cbn [snd] in Hs.
    destruct (failed s1); [exact Hs|].
    specialize (IH s1). destruct (drain me s1 q). cbn [snd] in *. rewrite ev_dones_app, Hs, IH. reflexivity.
Qed.

Lemma nd_recv_parked_all me l : forall s, ev_dones (snd (recv_parked_all me s l)) = [].
Proof.
  induction l as [|r0 l IH]; intro y; cbn [recv_parked_all]; [reflexivity|].
  assert (H0 : ev_dones (snd (recv_parked me y r0)) = []).
  { unfold recv_parked. destruct (open_rec y r0); try reflexivity.
    destruct (check _ _ _); [|reflexivity]. destruct (r_kind r0); reflexivity. }
  destruct (recv_parked me y r0) as [y1 e1]. specialize (IH y1).
  destruct (recv_parked_all me y1 l). cbn [snd] in *. rewrite ev_dones_app, H0, IH. reflexivity.
Qed.

Lemma nd_send_ack me s l : ev_dones (snd (send_ack me s l)) = [].
Proof. unfold send_ack, emit_ctl, seal. destruct (max_seq48 <? w_seq s); reflexivity. Qed.

Lemma nd_on_ku me s e q m req : ev_dones (snd (on_ku me s e q m req)) = [].
Proof.
  unfold on_ku. destruct (shadowed s m); [apply nd_send_ack|]. unfold on_ku0.
  destruct (m <? hs_recv s); [apply nd_send_ack|].
  destruct (m =? hs_recv s); [|apply nd_send_ack].
  destruct (negb _); [reflexivity|]. destruct (r_epoch s =? max_epoch); [reflexivity|].
  assert (Hadv : ev_dones (snd (advance_read me s m req)) = []).
  { unfold advance_read. destruct (r_gens s); [reflexivity|].
    match goal with |- context [recv_parked_all me ?s1 ?l] =>
      pose proof (nd_recv_parked_all me l s1) as Hp; destruct (recv_parked_all me s1 l) end. cbn [snd] in *.
    cbn [ev_dones]. exact Hp. }
  destruct (advance_read me s m req) as [s1 e1]. cbn [snd] in Hadv.
  destruct (failed s1); [exact Hadv|].
  destruct (max_msg <? hs_recv s1).
  { cbn [snd]. rewrite ev_dones_app, Hadv. reflexivity. }
  pose proof (nd_send_ack me s1 [(e, q)]) as Ha. destruct (send_ack me s1 [(e, q)]). cbn [snd] in *.
  rewrite ev_dones_app, Hadv, Ha. reflexivity.
Qed.

Lemma nd_timer me s : ev_dones (snd (timer me s)) = [].
Proof.
  unfold timer. destruct (failed s); [reflexivity|]. destruct (pending s); [|reflexivity].
  unfold emit_ctl, seal. destruct (max_seq48 <? w_seq s); reflexivity.
Qed.

Lemma nd_submit me s c : ev_dones (snd (submit me s c)) = [].
Proof. unfold submit. destruct (failed s); [reflexivity | apply nd_drain]. Qed.

(* a completion event can only come out of the ACK branch of [recv] *)
Lemma recv_done me s r s0 id : In (EvDone s0 id) (snd (recv me s r)) ->
  s0 = me /\ exists e l f, failed s = false /\ open_rec s r = Opened e /\ r_kind r = Ack l /\
    pending s = Some f /\ acked s f l = true /\ f_id f = Some id.
Proof.
  rewrite ev_dones_in. unfold recv. destruct (failed s) eqn:Ef; [intros []|].
  destruct (open_rec s r) as [| |e] eqn:Eo; [destruct (_ && _); intros [] | intros [] |].
  destruct (negb _); [intros []|].
  destruct (r_kind r) as [p|m req|l] eqn:Ek; [intros [] | |].
  - pose proof (nd_on_ku me (mark s e (r_seq r)) e (r_seq r) m req) as N1.
    destruct (on_ku me (mark s e (r_seq r)) e (r_seq r) m req) as [s2 e2]. cbn [snd] in N1.
    destruct (failed s2); cbn [snd]; [rewrite N1; intros []|].
    pose proof (nd_drain me (queue s2) s2) as N2. unfold run_queue.
    destruct (drain me s2 (queue s2)). cbn [snd] in *. rewrite ev_dones_app, N1, N2. intros [].
  - assert (Hq : forall s2, ev_dones (snd (run_queue me s2)) = []) by (intro; apply nd_drain).
    unfold on_ack. cbn [pending mark].
    destruct (pending s) as [f|] eqn:Ep.
    2:{ cbn [fst snd failed mark]. rewrite Ef. specialize (Hq (mark s e (r_seq r))).
        destruct (run_queue me (mark s e (r_seq r))). cbn [snd app] in *. rewrite Hq. intros []. }
    assert (Hacked : acked (mark s e (r_seq r)) f l = acked s f l) by reflexivity.
    rewrite Hacked. destruct (acked s f l) eqn:Ea.
    2:{ cbn [fst snd failed mark]. rewrite Ef. specialize (Hq (mark s e (r_seq r))).
        destruct (run_queue me (mark s e (r_seq r))). cbn [snd app] in *. rewrite Hq. intros []. }
    unfold commit. cbn [fst snd failed mark]. rewrite Ef.
    match goal with |- context [run_queue me ?s2] => specialize (Hq s2); destruct (run_queue me s2) end.
    cbn [snd] in *. rewrite ev_dones_app, Hq, app_nil_r. cbn [ev_dones].
    destruct (f_id f) as [i|] eqn:Ei; cbn [ev_dones]; [|intros []].
    intros [Heq | []]. inversion Heq; subst. split; [reflexivity|].
    exists e, l, f. repeat split; assumption.
Qed.

Section Completion.
Variable W : nat.
Variable b : side -> N.
Hypothesis HW : N.of_nat W <= 32767.

Theorem done_after_ack st o s id :
  GInv W b st -> authentic_op st o -> In (EvDone s id) (snd (step st o)) ->
  exists r l f q,
    o = OpDeliver s r /\ r_kind r = Ack l /\ In r (map snd (net st (other s))) /\
    pending (sd st s) = Some f /\ f_id f = Some id /\
    In q (f_seqs f) /\ In (w_epoch (sd st s), q) l /\
    b s <= f_msg f < hs_recv (sd st (other s)) /\ r_epoch (sd st (other s)) = w_epoch (sd st s) + 1.
Proof.
  intros HG Ha Hin. rewrite step_act, put_evs in Hin.
  destruct o as [s1 req i|s1 p|to r|s1]; cbn [actor act] in Hin.
  - apply ev_dones_in in Hin. rewrite nd_submit in Hin. destruct Hin.
  - apply ev_dones_in in Hin. rewrite nd_submit in Hin. destruct Hin.
  - apply recv_done in Hin. destruct Hin as [-> (e & l & f & Hf & Ho & Hk & Hp & Hac & Hid)].
    cbn [authentic_op] in Ha. pose proof Ha as Ha'. apply in_map_iff in Ha'. destruct Ha' as [[e0 r0] [Hr Hnet]].
    cbn [snd] in Hr. subst r0.
    destruct (GInv_side W b st to HG) as [H1 _].
    destruct (acked_processed W b HW to _ _ _ _ f e0 r l H1 Hp Hnet Hk Hac) as (q & Q1 & Q2 & Q3 & Q4 & Q5).
    exists r, l, f, q. repeat split; try assumption.
  - apply ev_dones_in in Hin. rewrite nd_timer in Hin. destruct Hin.
Qed.

(* trace coherence: processed KeyUpdate messages and started UpdateKeys calls are in the event log *)
Definition TCoh (st : gst) (evs : list event) : Prop :=
  (forall X m, b X <= m < hs_recv (sd st (other X)) -> In (EvKuIn (other X) m) evs) /\
  (forall X f id, pending (sd st X) = Some f -> f_id f = Some id -> In (EvStart X id (f_msg f)) evs).

Lemma step_TCoh st o evs : TCoh st evs -> TCoh (fst (step st o)) (evs ++ snd (step st o)).
Proof.
  intros [T1 T2]. rewrite step_act, put_evs. pose proof (tr_act st o) as [[A1 A2] B C].
  set (me := actor o) in *. split.
  - intros X m Hm. apply in_or_app.
    destruct (side_eqb (other X) me) eqn:E.
    + apply side_eqb_eq in E. rewrite E in *. rewrite put_sd_me in Hm.
      destruct (N.lt_ge_cases m (hs_recv (sd st me))) as [Hlt | Hge].
      * left. rewrite <- E. apply T1. rewrite E. lia.
      * right. apply A2. lia.
    + left. apply T1.
      assert (Hx : other X = other me).
      { destruct X, me; cbn in *; try discriminate; reflexivity. }
      rewrite Hx in *. rewrite put_sd_other in Hm. exact Hm.
  - intros X f id Hp Hid. apply in_or_app.
    destruct (side_eqb X me) eqn:E.
    + apply side_eqb_eq in E. subst X. rewrite put_sd_me in Hp.
      destruct (B f id Hp Hid) as [(f0 & F1 & F2 & F3) | Hin]; [|now right].
      left. rewrite <- F3. now apply T2.
    + left. apply T2; [|exact Hid].
      assert (Hx : X = other me).
      { destruct X, me; cbn in *; try discriminate; reflexivity. }
      rewrite Hx in *. rewrite put_sd_other in Hp. exact Hp.
Qed.

Lemma exec_TCoh ops : forall st evs, TCoh st evs -> TCoh (fst (exec st ops)) (evs ++ snd (exec st ops)).
Proof.
  induction ops as [|o ops IH]; intros st evs HT; cbn [exec].
  - cbn [fst snd]. now rewrite app_nil_r.
  - pose proof (step_TCoh st o evs HT) as H1. destruct (step st o) as [st1 e1]. cbn [fst snd] in H1.
    specialize (IH st1 _ H1). destruct (exec st1 ops) as [st2 e2]. cbn [fst snd] in *.
    now rewrite app_assoc.
Qed.

Lemma authentic_app ops1 : forall st ops2,
  authentic st (ops1 ++ ops2) <-> authentic st ops1 /\ authentic (fst (exec st ops1)) ops2.
Proof.
  induction ops1 as [|o ops1 IH]; intros st ops2; cbn [app authentic exec].
  - cbn [fst]. tauto.
  - rewrite IH. destruct (step st o) as [st1 e1]. cbn [fst]. destruct (exec st1 ops1) as [st2 e2]. cbn [fst]. tauto.
Qed.

(* trace form: when the step [o] after the prefix [ops1] makes UpdateKeys call [id] of [s] return,
   then [o] is the delivery to [s] of an ACK the peer really sent, and strictly earlier in the run
   the call's KeyUpdate (message m) was sent and the peer processed message m *)
Theorem update_returns_after_ack st0 ops1 o s id :
  GInv W b st0 -> TCoh st0 [] -> authentic st0 (ops1 ++ [o]) ->
  In (EvDone s id) (snd (step (fst (exec st0 ops1)) o)) ->
  exists m r l,
    In (EvStart s id m) (snd (exec st0 ops1)) /\ In (EvKuIn (other s) m) (snd (exec st0 ops1)) /\
    o = OpDeliver s r /\ r_kind r = Ack l /\ In r (map snd (net (fst (exec st0 ops1)) (other s))).
Proof.
  intros HG HT Ha Hin. apply authentic_app in Ha. destruct Ha as [Ha1 [Ha2 _]].
  pose proof (exec_GInv W b HW ops1 st0 HG Ha1) as HG1.
  pose proof (exec_TCoh ops1 st0 [] HT) as [T1 T2]. cbn [app] in T1, T2.
  destruct (done_after_ack _ o s id HG1 Ha2 Hin) as (r & l & f & q & E1 & E2 & E3 & E4 & E5 & _ & _ & E8 & _).
  exists (f_msg f), r, l. repeat split; try assumption.
  - now apply T2.
  - apply T1. exact E8.
Qed.

End Completion.

(* ====================================================================== *)
(* 7. the initial state satisfies the invariant                            *)
(* ====================================================================== *)

Lemma seqs_at_map3 e l : seqs_at e (map (fun q => (3, q)) l) = if e =? 3 then l else [].
Proof.
  unfold seqs_at. induction l as [|q l IH]; [now destruct (e =? 3)|].
  cbn [map filter fst]. rewrite (N.eqb_sym 3 e). destruct (e =? 3); cbn [map snd]; [now rewrite IH | exact IH].
Qed.

Lemma init_DInv c X : N.of_nat (c_window c) <= 32767 -> no_shadow c ->
  DInv (c_window c) (c_base c) X (init_side c X) [] (init_side c (other X)) [].
Proof.
  intros HW Hns.
  assert (M1 : 0 < max_seq64) by (unfold max_seq64; lia).
  assert (M2 : N.of_nat (c_window c) <= max_seq64) by (unfold max_seq64; lia).
  pose proof (run_inv (c_window c) max_seq64 M1 M2 (c_pre c (other X)) (win_init (c_window c)) []
                      (inv_init (c_window c)) (NoDup_nil N)) as HR.
  cbn [win_init latest] in HR. specialize (HR ltac:(lia)).
  constructor; cbn [init_side w_epoch w_sec w_seq hs_send pending r_epoch r_gens hs_recv wins seen got futq shadow].
  - unfold max_epoch. lia.
  - reflexivity.
  - lia.
  - intros f Hf. discriminate.
  - intros e r [].
  - constructor.
  - unfold max_epoch. lia.
  - now rewrite other_other.
  - rewrite other_other. lia.
  - lia.
  - intro; lia.
  - intros e r l [].
  - intro e. rewrite seqs_at_map3.
    destruct (run max_seq64 (win_init (c_window c)) (c_pre c (other X))) as [s' acc]. cbn [fst snd].
    destruct HR as (HI & Hl & _). rewrite app_nil_r in HI.
    destruct (e =? 3); [split; assumption|].
    split; [apply inv_init | cbn; unfold max_seq64; lia].
  - destruct (run max_seq64 (win_init (c_window c)) (c_pre c (other X))) as [s' acc]. cbn [snd].
    destruct HR as (_ & _ & Hnd). rewrite app_nil_r in Hnd.
    clear -Hnd. induction Hnd as [|x l Hx _ IH]; cbn [map]; constructor; [|exact IH].
    intro Hin. apply Hx. apply in_map_iff in Hin. destruct Hin as [y [Hy Hin]]. inversion Hy. now subst.
  - intros e q p [].
  - constructor.
  - reflexivity.
  - apply Hns.
Qed.

Theorem init_GInv c : N.of_nat (c_window c) <= 32767 -> no_shadow c -> GInv (c_window c) (c_base c) (init c).
Proof.
  intros HW Hns. unfold GInv, PInv. cbn [init sd net other]. split.
  - exact (init_DInv c A HW Hns).
  - exact (init_DInv c B HW Hns).
Qed.

Lemma init_TCoh c : TCoh (c_base c) (init c) [].
Proof.
  split.
  - intros X m Hm. cbn [init sd init_side hs_recv] in Hm. rewrite other_other in Hm. lia.
  - intros X f id Hp. cbn [init sd init_side pending] in Hp. discriminate.
Qed.

(* ====================================================================== *)
(* 8. Read returns exactly the EvRead events; sealed payloads were written  *)
(* ====================================================================== *)

Fixpoint reads_of (s : side) (evs : list event) : list N :=
  match evs with
  | [] => []
  | EvRead s' p :: t => if side_eqb s' s then p :: reads_of s t else reads_of s t
  | _ :: t => reads_of s t
  end.

Lemma reads_of_app s e1 e2 : reads_of s (e1 ++ e2) = reads_of s e1 ++ reads_of s e2.
Proof.
  induction e1 as [|ev e1 IH]; [reflexivity|]. destruct ev; cbn [app reads_of]; rewrite ?IH; try reflexivity.
  destruct (side_eqb s0 s); [now rewrite <- app_comm_cons | reflexivity].
Qed.

Lemma reads_of_mine me evs : Forall (fun ev => ev_side ev = me) evs -> reads_of me evs = ev_reads evs.
Proof.
  induction 1 as [|ev evs Hev _ IH]; [reflexivity|]. destruct ev; cbn [reads_of ev_reads]; try exact IH.
  cbn in Hev. subst s. rewrite side_eqb_refl. now rewrite IH.
Qed.

Lemma reads_of_foreign me x evs : Forall (fun ev => ev_side ev = me) evs -> x <> me -> reads_of x evs = [].
Proof.
  intros F Hne. induction F as [|ev evs Hev _ IH]; [reflexivity|]. destruct ev; cbn [reads_of]; try exact IH.
  cbn in Hev. subst s. destruct (side_eqb me x) eqn:E; [apply side_eqb_eq in E; congruence | exact IH].
Qed.

Theorem step_reads st o s :
  reads (sd (fst (step st o)) s) = rev (reads_of s (snd (step st o))) ++ reads (sd st s).
Proof.
  rewrite step_act, put_evs. pose proof (frame_act st o) as [_ F]. pose proof (tr_act st o) as [_ _ C].
  destruct (side_eqb s (actor o)) eqn:E.
  - apply side_eqb_eq in E. subst s. rewrite put_sd_me, (reads_of_mine _ _ F). exact C.
  - assert (Hne : s <> actor o) by (intro; subst; rewrite side_eqb_refl in E; discriminate).
    assert (Hs : s = other (actor o)) by (destruct s, (actor o); try reflexivity; congruence).
    rewrite (reads_of_foreign _ _ _ F Hne). rewrite Hs. now rewrite put_sd_other.
Qed.

Theorem exec_reads ops : forall st s,
  reads (sd (fst (exec st ops)) s) = rev (reads_of s (snd (exec st ops))) ++ reads (sd st s).
Proof.
  induction ops as [|o ops IH]; intros st s; cbn [exec]; [reflexivity|].
  pose proof (step_reads st o s) as H1. destruct (step st o) as [st1 e1]. cbn [fst snd] in H1.
  specialize (IH st1 s). destruct (exec st1 ops) as [st2 e2]. cbn [fst snd] in *.
  rewrite IH, H1, reads_of_app, rev_app_distr, app_assoc. reflexivity.
Qed.

(* application records only come out of the command queue, which only Write fills *)
Definition Qm (me : side) (q : list cmd) (s' : sidest) (evs : list event) : Prop :=
  forall p, (cnt (sealed (sent_by me evs)) p + cnt (qapps (queue s')) p <= cnt (qapps q) p)%nat.

Lemma qm_same me s s' evs : queue s' = queue s -> sealed (sent_by me evs) = [] -> Qm me (queue s) s' evs.
Proof. intros H1 H2 p. rewrite H1, H2. cbn. lia. Qed.

Lemma qm_trans me q s1 e1 s2 e2 : Qm me q s1 e1 -> Qm me (queue s1) s2 e2 -> Qm me q s2 (e1 ++ e2).
Proof.
  intros H1 H2 p. specialize (H1 p). specialize (H2 p). rewrite sent_by_app, sealed_app, cnt_app. lia.
Qed.

Lemma qapps_insert_response q : qapps (insert_response q) = qapps q.
Proof.
  induction q as [|c q IH]; [reflexivity|]. destruct c as [p|req id]; cbn [insert_response]; [reflexivity|].
  cbn [qapps flat_map app] in *. exact IH.
Qed.

Lemma sealed_sent_start_ku me s req id : sealed (sent_by me (snd (start_ku me s req id))) = [] /\
  queue (fst (start_ku me s req id)) = queue s.
Proof.
  unfold start_ku. destruct (_ || _); cbn [fst snd]; [split; reflexivity|].
  split; [|reflexivity]. cbn [sent_by]. rewrite side_eqb_refl. destruct id; reflexivity.
Qed.

Lemma qm_drain me q : forall s, Qm me q (fst (drain me s q)) (snd (drain me s q)).
Proof.
  induction q as [|c q IH]; intros s p; cbn [drain].
  - cbn. lia.
  - destruct c as [p'|req id].
    + unfold emit_app, seal. destruct (max_seq48 <? w_seq s); cbn [fst snd].
      * match goal with |- context [drain me ?y q] => specialize (IH y p); destruct (drain me y q) as [s2 e2] end.
        cbn [fst snd app] in *. cbn [qapps flat_map]. fold (qapps q). rewrite cnt_app. lia.
      * match goal with |- context [drain me ?y q] => specialize (IH y p); destruct (drain me y q) as [s2 e2] end.
        cbn [fst snd] in *. rewrite sent_by_app, sealed_app, cnt_app. cbn [sent_by]. rewrite side_eqb_refl.
        cbn [app sealed flat_map snd r_kind]. cbn [qapps flat_map]. fold (qapps q). rewrite cnt_app. lia.
    + destruct (pending s).
      * cbn [fst snd sent_by sealed flat_map queue set_queue]. unfold cnt. cbn [count_occ]. lia.
      * destruct (sealed_sent_start_ku me s req id) as [H1 H2].
        destruct (start_ku me s req id) as [s1 e1]. cbn [fst snd] in *.
        destruct (failed s1).
        -- cbn [fst snd queue set_queue]. rewrite H1. cbn [qapps flat_map app]. fold (qapps q). cbn. lia.
        -- specialize (IH s1 p). destruct (drain me s1 q) as [s2 e2]. cbn [fst snd] in *.
           rewrite sent_by_app, sealed_app, cnt_app, H1. cbn [qapps flat_map app]. fold (qapps q). cbn. lia.
Qed.

Lemma qm_ctl me s k : (forall p, k <> App p) ->
  queue (fst (fst (emit_ctl me s k))) = queue s /\ sealed (sent_by me (snd (fst (emit_ctl me s k)))) = [].
Proof.
  intro Hk. unfold emit_ctl, seal. destruct (max_seq48 <? w_seq s); cbn [fst snd]; [split; reflexivity|].
  split; [reflexivity|]. cbn [sent_by]. rewrite side_eqb_refl. cbn [app sealed flat_map snd r_kind].
  destruct k; try reflexivity. exfalso. now apply (Hk p).
Qed.

Lemma qm_recv_parked_all me l : forall s,
  queue (fst (recv_parked_all me s l)) = queue s /\ sealed (sent_by me (snd (recv_parked_all me s l))) = [].
Proof.
  induction l as [|r l IH]; intro s; cbn [recv_parked_all]; [split; reflexivity|].
  assert (H0 : queue (fst (recv_parked me s r)) = queue s /\ sent_by me (snd (recv_parked me s r)) = []).
  { unfold recv_parked. destruct (open_rec s r); try (split; reflexivity).
    destruct (check _ _ _); [|split; reflexivity]. destruct (r_kind r); split; reflexivity. }
  destruct (recv_parked me s r) as [s1 e1]. cbn [fst snd] in H0. destruct H0 as [H1 H2].
  specialize (IH s1). destruct (recv_parked_all me s1 l) as [s2 e2]. cbn [fst snd] in *. destruct IH as [I1 I2].
  split; [congruence|]. rewrite sent_by_app, sealed_app, I2, H2. reflexivity.
Qed.

Lemma qm_on_ku me s e q m req : Qm me (queue s) (fst (on_ku me s e q m req)) (snd (on_ku me s e q m req)).
Proof.
  assert (Hack : forall s' l, Qm me (queue s') (fst (send_ack me s' l)) (snd (send_ack me s' l))).
  { intros s' l. unfold send_ack. destruct (qm_ctl me s' (Ack l)) as [H1 H2]; [intros p; discriminate|].
    destruct (emit_ctl me s' (Ack l)) as [[s1 evs] o]. cbn [fst snd] in *. now apply qm_same. }
  unfold on_ku. destruct (shadowed s m); [apply Hack|]. unfold on_ku0.
  destruct (m <? hs_recv s); [apply Hack|].
  destruct (m =? hs_recv s); [|apply Hack].
  destruct (negb _); [cbn [fst snd]; apply qm_same; reflexivity|].
  destruct (r_epoch s =? max_epoch); [cbn [fst snd]; apply qm_same; reflexivity|].
  assert (Hadv : Qm me (queue s) (fst (advance_read me s m req)) (snd (advance_read me s m req))).
  { unfold advance_read. destruct (r_gens s); [cbn [fst snd]; apply qm_same; reflexivity|].
    match goal with |- context [recv_parked_all me ?s1 ?l] =>
      destruct (qm_recv_parked_all me l s1) as [H1 H2]; destruct (recv_parked_all me s1 l) as [s2 e2] end.
    cbn [fst snd queue] in *. intro p. cbn [sent_by]. rewrite H2, H1.
    destruct req; rewrite ?qapps_insert_response; cbn; lia. }
  destruct (advance_read me s m req) as [s1 e1]. cbn [fst snd] in Hadv.
  destruct (failed s1); [exact Hadv|].
  destruct (max_msg <? hs_recv s1).
  { cbn [fst snd]. intro p. specialize (Hadv p). rewrite sent_by_app, sealed_app, cnt_app. cbn [sent_by sealed flat_map queue set_failed].
    cbn. lia. }
  specialize (Hack s1 [(e, q)]). destruct (send_ack me s1 [(e, q)]) as [s2 e2]. cbn [fst snd] in *.
  eapply qm_trans; eassumption.
Qed.

Lemma qm_recv me s r : Qm me (queue s) (fst (recv me s r)) (snd (recv me s r)).
Proof.
  unfold recv. destruct (failed s); [apply qm_same; reflexivity|].
  destruct (open_rec s r) as [| |e].
  - destruct (_ && _); cbn [fst snd]; apply qm_same; reflexivity.
  - apply qm_same; reflexivity.
  - destruct (negb _); [apply qm_same; reflexivity|].
    destruct (r_kind r) as [p|m req|l].
    + cbn [fst snd]. apply qm_same; reflexivity.
    + pose proof (qm_on_ku me (mark s e (r_seq r)) e (r_seq r) m req) as F1.
      destruct (on_ku me (mark s e (r_seq r)) e (r_seq r) m req) as [s2 e2]. cbn [fst snd queue mark] in F1.
      destruct (failed s2); [exact F1|].
      pose proof (qm_drain me (queue s2) s2) as F2. unfold run_queue.
      destruct (drain me s2 (queue s2)) as [s3 e3]. cbn [fst snd] in *.
      eapply qm_trans; eassumption.
    + assert (F1 : Qm me (queue s) (fst (on_ack me (mark s e (r_seq r)) l)) (snd (on_ack me (mark s e (r_seq r)) l))).
      { unfold on_ack. destruct (pending _) as [f|]; [|apply qm_same; reflexivity].
        destruct (acked _ f l); [|apply qm_same; reflexivity].
        unfold commit. cbn [fst snd]. apply qm_same; [reflexivity|]. cbn [sent_by]. destruct (f_id f); reflexivity. }
      destruct (on_ack me (mark s e (r_seq r)) l) as [s2 e2]. cbn [fst snd] in F1.
      destruct (failed s2); [exact F1|].
      pose proof (qm_drain me (queue s2) s2) as F2. unfold run_queue.
      destruct (drain me s2 (queue s2)) as [s3 e3]. cbn [fst snd] in *.
      eapply qm_trans; eassumption.
Qed.

Lemma qm_timer me s : Qm me (queue s) (fst (timer me s)) (snd (timer me s)).
Proof.
  unfold timer. destruct (failed s); [apply qm_same; reflexivity|].
  destruct (pending s) as [f|]; [|apply qm_same; reflexivity].
  destruct (qm_ctl me s (KU (f_msg f) (f_req f))) as [H1 H2]; [intros p; discriminate|].
  destruct (emit_ctl me s (KU (f_msg f) (f_req f))) as [[s1 evs] [q|]]; cbn [fst snd] in *; now apply qm_same.
Qed.

Fixpoint writes_of (s : side) (ops : list op) : list N :=
  match ops with
  | [] => []
  | OpWrite s' p :: t => if side_eqb s' s then p :: writes_of s t else writes_of s t
  | _ :: t => writes_of s t
  end.

Definition written_op (s : side) (o : op) : list N := writes_of s [o].

Lemma step_sealed st o s p :
  (cnt (sealed (net (fst (step st o)) s)) p + cnt (qapps (queue (sd (fst (step st o)) s))) p <=
   cnt (sealed (net st s)) p + cnt (qapps (queue (sd st s))) p + cnt (written_op s o) p)%nat.
Proof.
  rewrite step_act.
  destruct (side_eqb s (actor o)) eqn:E.
  2:{ assert (Hs : s = other (actor o)) by (destruct s, (actor o); cbn in E; try discriminate; reflexivity).
      rewrite Hs. rewrite put_sd_other, put_net_other. lia. }
  apply side_eqb_eq in E. subst s. rewrite put_sd_me, put_net_me, sealed_app, cnt_app.
  destruct o as [s req id|s p'|to r|s]; cbn [actor act written_op writes_of].
  - unfold submit. destruct (failed (sd st s)); [cbn; lia|].
    pose proof (qm_drain s (queue (sd st s) ++ [CKU req (Some id)]) (sd st s) p) as H.
    rewrite qapps_app, cnt_app in H. cbn in H. cbn. lia.
  - rewrite side_eqb_refl. unfold submit. destruct (failed (sd st s)); [cbn; lia|].
    pose proof (qm_drain s (queue (sd st s) ++ [CApp p']) (sd st s) p) as H.
    rewrite qapps_app, cnt_app in H. cbn [qapps flat_map app] in H. lia.
  - pose proof (qm_recv to (sd st to) r p) as H. cbn. lia.
  - pose proof (qm_timer s (sd st s) p) as H. cbn. lia.
Qed.

Lemma writes_of_cons s o ops : writes_of s (o :: ops) = written_op s o ++ writes_of s ops.
Proof. unfold written_op. destruct o; cbn [writes_of]; try reflexivity. destruct (side_eqb s0 s); reflexivity. Qed.

Theorem exec_sealed ops : forall st s p,
  (cnt (sealed (net (fst (exec st ops)) s)) p + cnt (qapps (queue (sd (fst (exec st ops)) s))) p <=
   cnt (sealed (net st s)) p + cnt (qapps (queue (sd st s))) p + cnt (writes_of s ops) p)%nat.
Proof.
  induction ops as [|o ops IH]; intros st s p; cbn [exec]; [cbn; lia|].
  pose proof (step_sealed st o s p) as H1. destruct (step st o) as [st1 e1]. cbn [fst] in H1.
  specialize (IH st1 s p). destruct (exec st1 ops) as [st2 e2]. cbn [fst] in *.
  rewrite writes_of_cons, cnt_app. lia.
Qed.

(* ====================================================================== *)
(* 9. the statements for runs from the initial state                       *)
(* ====================================================================== *)

Lemma cnt_rev l p : cnt (rev l) p = cnt l p.
Proof.
  induction l as [|x l IH]; [reflexivity|]. cbn [rev]. rewrite cnt_app, IH. unfold cnt. cbn [count_occ].
  destruct (N.eq_dec x p); lia.
Qed.

Section FromInit.
Variable c : config.
Hypothesis HW : N.of_nat (c_window c) <= 32767.
Hypothesis Hns : no_shadow c.

Lemma run_GInv ops : authentic (init c) ops -> GInv (c_window c) (c_base c) (fst (exec (init c) ops)).
Proof. intro Ha. apply exec_GInv; [exact HW | now apply init_GInv | exact Ha]. Qed.

(* every payload is handed to Read at most as often as the peer's application wrote it *)
Theorem run_at_most_once ops X p : authentic (init c) ops ->
  (cnt (reads_of (other X) (snd (exec (init c) ops))) p <= cnt (writes_of X ops) p)%nat.
Proof.
  intro Ha. pose proof (run_GInv ops Ha) as HG.
  pose proof (at_most_once_unmodified _ _ _ X HG p) as H1.
  pose proof (exec_reads ops (init c) (other X)) as H2.
  pose proof (exec_sealed ops (init c) X p) as H3.
  assert (H0 : reads (sd (init c) (other X)) = []) by reflexivity.
  rewrite H0, app_nil_r in H2. fold (cnt (reads (sd (fst (exec (init c) ops)) (other X))) p) in H1.
  rewrite H2, cnt_rev in H1. fold (cnt (sealed (net (fst (exec (init c) ops)) X)) p) in H1.
  cbn [init net sd init_side queue sealed flat_map qapps] in H3. unfold cnt in *. cbn [count_occ] in H3. lia.
Qed.

Theorem run_update_returns_after_ack ops1 o s id :
  authentic (init c) (ops1 ++ [o]) ->
  In (EvDone s id) (snd (step (fst (exec (init c) ops1)) o)) ->
  exists m r l,
    In (EvStart s id m) (snd (exec (init c) ops1)) /\ In (EvKuIn (other s) m) (snd (exec (init c) ops1)) /\
    o = OpDeliver s r /\ r_kind r = Ack l /\ In r (map snd (net (fst (exec (init c) ops1)) (other s))).
Proof.
  intros Ha Hin. eapply update_returns_after_ack; try eassumption.
  - now apply init_GInv.
  - apply init_TCoh.
Qed.

End FromInit.

(* the receiver's authorised epoch is the sender's epoch, or one ahead while a KeyUpdate is in flight *)
Theorem epochs_in_step W b st X : GInv W b st ->
  w_epoch (sd st X) <= r_epoch (sd st (other X)) <= w_epoch (sd st X) + 1 /\
  (r_epoch (sd st (other X)) = w_epoch (sd st X) + 1 -> pending (sd st X) <> None) /\
  futq (sd st (other X)) = [].
Proof.
  intro HG. destruct (GInv_side W b st X HG) as [H1 _].
  split; [exact (d_epochs _ _ _ _ _ _ _ H1)|]. split; [exact (d_ahead _ _ _ _ _ _ _ H1) | exact (d_futq _ _ _ _ _ _ _ H1)].
Qed.

(* ====================================================================== *)
(* 10. known finding K-C20-1: the premise [no_shadow] is necessary          *)
(* ====================================================================== *)

(* One unauthenticated fragment numbered like A's SECOND post-handshake message (3 + 1) was left in B's
   reassembly buffer during the handshake.  Every record below is authentic and the network loses
   nothing, yet A's second UpdateKeys returns nil although B never processed that KeyUpdate, A then
   writes under epoch 5 while B's receive epoch stays 4, and the payload A writes afterwards reaches B
   and is never read.  (Contrast: run_update_returns_after_ack, epochs_in_step,
   delivered_if_arrives_while_retained, all of which need [no_shadow] through [GInv].) *)
Definition shadow_cfg : config :=
  mkcfg 64 (fun s => match s with A => 3 | B => 7 end) (fun s => match s with A => 1 | B => 2 end)
        (fun s => match s with A => [0; 1] | B => [0] end) (fun s => match s with A => [] | B => [4] end).

Definition shadow_ops : list op :=
  [ OpUpdate A false 0;                                          (* KeyUpdate 3 in (3,1) *)
    OpDeliver B (mkrec (secret_of A 3) 3 1 (KU 3 false));        (* B: receive epoch 4, ACK [(3,1)] in (3,2) *)
    OpDeliver A (mkrec (secret_of B 3) 3 2 (Ack [(3, 1)]));      (* A: send epoch 4, call 0 returns *)
    OpUpdate A false 1;                                          (* KeyUpdate 4 in (4,0) *)
    OpDeliver B (mkrec (secret_of A 4) 0 0 (KU 4 false));        (* B: "already assembled": ACK [(4,0)] only *)
    OpDeliver A (mkrec (secret_of B 3) 3 3 (Ack [(4, 0)]));      (* A: send epoch 5, call 1 returns *)
    OpWrite A 9;                                                 (* (5,0) *)
    OpDeliver B (mkrec (secret_of A 5) 1 0 (App 9)) ].           (* B holds no generation for epoch 5 *)

Theorem shadowed_keyupdate_refuted :
  exists (c : config) (ops : list op),
    N.of_nat (c_window c) <= 32767 /\ authentic (init c) ops /\
    (forall s, c_shadow c s = [] \/ c_shadow c s = [c_base c (other s) + 1]) /\
    let st := fst (exec (init c) ops) in
    let evs := snd (exec (init c) ops) in
    In (EvStart A 1 4) evs /\ In (EvDone A 1) evs /\ ~ In (EvKuIn B 4) evs /\
    w_epoch (sd st A) = 5 /\ r_epoch (sd st B) = 4 /\
    In (EvSent A 5 (mkrec (secret_of A 5) 1 0 (App 9))) evs /\ reads_of B evs = [].
Proof.
  exists shadow_cfg, shadow_ops. split; [vm_compute; discriminate|].
  split; [vm_compute; repeat split; tauto|].
  split; [intros [|]; [now left | now right]|].
  vm_compute. repeat split; try tauto.
  intro H. repeat (destruct H as [H | H]; [discriminate H|]). exact H.
Qed.
