(* C20 - the post-handshake queue of ONE endpoint made explicit (definitions only; proofs in
   C20PendingSound.v).  Complements Ku/C20KeyUpdate.v, whose [pending : option flight] starts from a
   connection whose NewSessionTicket flight is already acknowledged.

   Modelled (internal/handshake/post_handshake.go): postHandshake.queue / postHandshake.flights,
   startQueuedPostHandshake (a reliable command - NewSessionTicket or KeyUpdate - at the head of the
   queue waits while ANY reliable flight is unacknowledged; application data never waits),
   buildKeyUpdateFlight / the ticket flight (packets are stamped with the write epoch current when the
   flight is built), retransmitPostHandshakeFlight (re-sends the stored packets unchanged),
   applyACK + completePostHandshakeFlight (+ conn.go commitLocalKeyUpdate: the write epoch advances by
   one when a KeyUpdate flight is acknowledged, then the queue is started again).
   Loss, duplication and reordering are the absence / arbitrary placement of [OpAck] and [OpRetx] in the
   history.  The switch [overtake] is NOT the code: it is the variant in which a queued KeyUpdate is
   only serialised with other KeyUpdates and may start while a ticket flight is still pending.
   Not modelled here (see C20KeyUpdate.v): sequence numbers, the peer, the epoch limit 65535. *)
From Coq Require Import List NArith Bool.
Import ListNotations.
Open Scope N_scope.

Inductive fkind := FTicket | FKeyUpdate.
Definition fkind_eqb (a b : fkind) : bool :=
  match a, b with FTicket, FTicket => true | FKeyUpdate, FKeyUpdate => true | _, _ => false end.

Inductive pcmd := PApp (p : N) | PRel (k : fkind).

(* an unacknowledged reliable flight: what it is and the epoch its packets were sealed under *)
Record pflight := mkpf { pf_kind : fkind; pf_epoch : N }.

Record pstate := mkps {
  ps_epoch : N;                    (* LocalEpoch: current write generation *)
  ps_flights : list pflight;       (* postHandshake.flights *)
  ps_queue : list pcmd;            (* postHandshake.queue *)
  ps_out : list (N * pcmd)         (* emitted records (epoch, what), NEWEST FIRST *)
}.

Definition pinit (e0 : N) : pstate := mkps e0 [] [] [].

Definition nonempty {X : Type} (l : list X) : bool := match l with [] => false | _ => true end.
Definition has_kind (k : fkind) (fl : list pflight) : bool :=
  existsb (fun f => fkind_eqb (pf_kind f) k) fl.

Definition blocked (overtake : bool) (fl : list pflight) (c : pcmd) : bool :=
  match c with
  | PApp _ => false
  | PRel FKeyUpdate => if overtake then has_kind FKeyUpdate fl else nonempty fl
  | PRel FTicket => nonempty fl
  end.

Record started := mkst { st_flights : list pflight; st_queue : list pcmd; st_out : list (N * pcmd) }.

(* startQueuedPostHandshake under write epoch e (the epoch cannot change while it runs) *)
Fixpoint start_queued (ov : bool) (e : N) (fl : list pflight) (q : list pcmd) (out : list (N * pcmd))
  : started :=
  match q with
  | [] => mkst fl [] out
  | c :: q' =>
    if blocked ov fl c then mkst fl q out
    else match c with
         | PApp _ => start_queued ov e fl q' ((e, c) :: out)
         | PRel k => start_queued ov e (fl ++ [mkpf k e]) q' ((e, c) :: out)
         end
  end.

Fixpoint remove_first (k : fkind) (fl : list pflight) : list pflight :=
  match fl with
  | [] => []
  | f :: r => if fkind_eqb (pf_kind f) k then r else f :: remove_first k r
  end.

(* retransmission timer: every unacknowledged flight goes out again, packets unchanged *)
Definition retx_out (fl : list pflight) (out : list (N * pcmd)) : list (N * pcmd) :=
  fold_left (fun o f => (pf_epoch f, PRel (pf_kind f)) :: o) fl out.

Inductive pop :=
| OpEnq (c : pcmd)     (* Write / UpdateKeys / peer asked for an update / ticket issued *)
| OpAck (k : fkind)    (* an ACK naming a record of the pending flight of kind k arrives *)
| OpRetx.              (* retransmission timer fires *)

Definition pstep (ov : bool) (st : pstate) (op : pop) : pstate :=
  match op with
  | OpEnq c =>
    let r := start_queued ov (ps_epoch st) (ps_flights st) (ps_queue st ++ [c]) (ps_out st) in
    mkps (ps_epoch st) (st_flights r) (st_queue r) (st_out r)
  | OpAck k =>
    if has_kind k (ps_flights st) then
      let e := match k with FKeyUpdate => ps_epoch st + 1 | FTicket => ps_epoch st end in
      let r := start_queued ov e (remove_first k (ps_flights st)) (ps_queue st) (ps_out st) in
      mkps e (st_flights r) (st_queue r) (st_out r)
    else st
  | OpRetx => mkps (ps_epoch st) (ps_flights st) (ps_queue st) (retx_out (ps_flights st) (ps_out st))
  end.

Definition prun (ov : bool) (st : pstate) (ops : list pop) : pstate := fold_left (pstep ov) ops st.

(* epochs of the emitted records in emission order *)
Definition emitted_epochs (st : pstate) : list N := rev (map fst (ps_out st)).

Definition nondecreasing (l : list N) : Prop :=
  forall pre a mid b post, l = pre ++ a :: mid ++ b :: post -> a <= b.

(* ticket lost, UpdateKeys, its ACK arrives before the ticket's timer, data, then the timer *)
Definition overtake_witness : list pop :=
  [OpEnq (PRel FTicket); OpEnq (PRel FKeyUpdate); OpAck FKeyUpdate; OpEnq (PApp 1); OpRetx].
