(* C20 - proofs about the explicit post-handshake queue (Ku/C20Pending.v). *)
From Coq Require Import List NArith Bool Lia ZifyN ZifyNat ZifyBool.
From DtlsV Require Import Ku.C20Pending.
Import ListNotations.
Open Scope N_scope.

(* newest-first list of epochs: every element bounds everything emitted before it *)
Fixpoint desc (l : list N) : Prop :=
  match l with [] => True | x :: r => (forall y, In y r -> y <= x) /\ desc r end.

Lemma desc_app_r : forall a b, desc (a ++ b) -> desc b.
Proof.
  induction a as [|x a IH]; intros b H; cbn in *; [exact H|].
  destruct H as [_ H]. apply IH; exact H.
Qed.

Lemma desc_rev_nondecreasing : forall l, desc l -> nondecreasing (rev l).
Proof.
  intros l Hd pre a mid b post Heq.
  assert (Hl : l = rev post ++ b :: rev mid ++ a :: rev pre).
  { rewrite <- (rev_involutive l), Heq.
    rewrite !rev_app_distr. cbn [rev]. rewrite !rev_app_distr. cbn [rev].
    rewrite <- !app_assoc. cbn. reflexivity. }
  rewrite Hl in Hd. apply desc_app_r in Hd. cbn in Hd. destruct Hd as [Hb _].
  apply Hb. apply in_or_app. right. left. reflexivity.
Qed.

(* invariant of the code's policy: at most one active reliable flight, sealed under the CURRENT
   write epoch; nothing was ever emitted above the current write epoch; emissions are ordered *)
Record PInv (e : N) (fl : list pflight) (out : list (N * pcmd)) : Prop := mkPInv {
  pi_cur : forall f, In f fl -> pf_epoch f = e;
  pi_one : (length fl <= 1)%nat;
  pi_le : forall x, In x out -> fst x <= e;
  pi_desc : desc (map fst out)
}.

Lemma desc_cons_bound : forall e (out : list (N * pcmd)) c,
  (forall x, In x out -> fst x <= e) -> desc (map fst out) -> desc (map fst ((e, c) :: out)).
Proof.
  intros e out c Hle Hd. cbn. split; [|exact Hd].
  intros y Hy. apply in_map_iff in Hy. destruct Hy as [x [Hx Hin]]. subst y. apply Hle; exact Hin.
Qed.

Lemma start_queued_inv : forall q e fl out,
  PInv e fl out ->
  PInv e (st_flights (start_queued false e fl q out)) (st_out (start_queued false e fl q out)).
Proof.
  induction q as [|c q IH]; intros e fl out HI; cbn [start_queued].
  - cbn. exact HI.
  - destruct (blocked false fl c) eqn:Hb.
    + cbn. exact HI.
    + destruct HI as [Hcur Hone Hle Hd].
      assert (Hle' : forall x, In x ((e, c) :: out) -> fst x <= e).
      { intros x [Hx|Hx]; [subst x; cbn; lia|apply Hle; exact Hx]. }
      destruct c as [p|k].
      * apply IH. constructor; try assumption. apply desc_cons_bound; assumption.
      * assert (Hnil : fl = []).
        { destruct k; cbn in Hb; destruct fl; cbn in Hb; congruence. }
        subst fl. apply IH. constructor.
        -- intros f [Hf|[]]. subst f. reflexivity.
        -- cbn. lia.
        -- exact Hle'.
        -- apply desc_cons_bound; assumption.
Qed.

Lemma retx_out_inv : forall fl e out,
  (forall f, In f fl -> pf_epoch f = e) ->
  (forall x, In x out -> fst x <= e) -> desc (map fst out) ->
  (forall x, In x (retx_out fl out) -> fst x <= e) /\ desc (map fst (retx_out fl out)).
Proof.
  unfold retx_out. induction fl as [|f fl IH]; intros e out Hcur Hle Hd; cbn [fold_left].
  - split; assumption.
  - assert (Hf : pf_epoch f = e) by (apply Hcur; left; reflexivity).
    apply IH.
    + intros g Hg. apply Hcur. right. exact Hg.
    + intros x [Hx|Hx]; [subst x; cbn; lia|apply Hle; exact Hx].
    + rewrite Hf. apply desc_cons_bound; assumption.
Qed.

Definition SInv (st : pstate) : Prop := PInv (ps_epoch st) (ps_flights st) (ps_out st).

Lemma pstep_inv : forall st op, SInv st -> SInv (pstep false st op).
Proof.
  intros st op HI. unfold SInv in *. destruct op as [c|k|]; cbn [pstep].
  - cbn. apply start_queued_inv. exact HI.
  - destruct (has_kind k (ps_flights st)) eqn:Hk; [|exact HI].
    cbn [ps_epoch ps_flights ps_out]. apply start_queued_inv.
    destruct HI as [Hcur Hone Hle Hd].
    assert (Hrm : remove_first k (ps_flights st) = []).
    { destruct (ps_flights st) as [|f [|g r]]; cbn in *.
      - reflexivity.
      - rewrite orb_false_r in Hk. rewrite Hk. reflexivity.
      - lia. }
    rewrite Hrm. constructor.
    + intros f [].
    + cbn. lia.
    + intros x Hx. specialize (Hle x Hx). destruct k; lia.
    + exact Hd.
  - cbn. destruct HI as [Hcur Hone Hle Hd].
    destruct (retx_out_inv (ps_flights st) (ps_epoch st) (ps_out st) Hcur Hle Hd) as [H1 H2].
    constructor; assumption.
Qed.

Lemma prun_inv : forall ops st, SInv st -> SInv (prun false st ops).
Proof.
  unfold prun. induction ops as [|op ops IH]; intros st HI; cbn [fold_left]; [exact HI|].
  apply IH. apply pstep_inv. exact HI.
Qed.

Lemma pinit_inv : forall e0, SInv (pinit e0).
Proof.
  intros e0. unfold SInv, pinit. cbn. constructor; cbn; try tauto. lia.
Qed.

(* for every history of commands, ACKs (or their absence) and retransmission timers the epochs of the
   emitted records never decrease in emission order *)
Lemma send_epoch_monotone_with_pending_flights : forall e0 ops,
  nondecreasing (emitted_epochs (prun false (pinit e0) ops)).
Proof.
  intros e0 ops. unfold emitted_epochs. apply desc_rev_nondecreasing.
  apply (pi_desc _ _ _ (prun_inv ops (pinit e0) (pinit_inv e0))).
Qed.

(* ... because at most one reliable flight is ever unacknowledged and its packets carry the
   current write epoch; and no record was emitted under an epoch above the current one *)
Lemma one_active_reliable_flight : forall e0 ops,
  let st := prun false (pinit e0) ops in
  (length (ps_flights st) <= 1)%nat /\
  (forall f, In f (ps_flights st) -> pf_epoch f = ps_epoch st) /\
  (forall e, In e (emitted_epochs st) -> e <= ps_epoch st).
Proof.
  intros e0 ops st. destruct (prun_inv ops (pinit e0) (pinit_inv e0)) as [Hcur Hone Hle Hd].
  fold st in Hcur, Hone, Hle, Hd. split; [exact Hone|]. split; [exact Hcur|].
  intros e He. unfold emitted_epochs in He. apply in_rev in He. apply in_map_iff in He.
  destruct He as [x [Hx Hin]]. subst e. apply Hle. exact Hin.
Qed.

(* the variant in which a KeyUpdate may overtake a pending NewSessionTicket flight (whose packets keep
   the epoch they were sealed under): the ticket's retransmission goes out under epoch 3 after data
   under epoch 4 *)
Lemma send_epoch_monotone_with_pending_flights_refuted :
  exists ops, ~ nondecreasing (emitted_epochs (prun true (pinit 3) ops)).
Proof.
  exists overtake_witness. intros H.
  specialize (H [3; 3] 4 [] 3 [] eq_refl). lia.
Qed.

(* the same history under the code's policy: the KeyUpdate waits, nothing goes out of order *)
Lemma overtake_witness_code :
  emitted_epochs (prun false (pinit 3) overtake_witness) = [3; 3].
Proof. vm_compute. reflexivity. Qed.
