(* C20: executable comparison of an observed implementation trace with the model
   (evaluated with vm_compute on the cases printed by checks/c20.py). *)
From Coq Require Import List NArith Bool.
From DtlsV Require Import Lib.Bytes Rec.Window Rec.WindowRun Ku.C20KeyUpdate.
Import ListNotations.
Open Scope N_scope.

Fixpoint nn_eqb (a b : list (N * N)) : bool :=
  match a, b with
  | [], [] => true
  | (x1, x2) :: a', (y1, y2) :: b' => (x1 =? y1) && (x2 =? y2) && nn_eqb a' b'
  | _, _ => false
  end.

Definition kind_eqb (a b : kind) : bool :=
  match a, b with
  | App p, App q => p =? q
  | KU m r, KU m' r' => (m =? m') && Bool.eqb r r'
  | Ack l, Ack l' => nn_eqb l l'
  | _, _ => false
  end.

(* what the harness sees of one step *)
Record obs := mkobs {
  o_sent : list (side * N * N * kind);   (* emitted records in order: sender, epoch, seq, content *)
  o_read : list (side * N);              (* payloads returned by Read during the step *)
  o_done : list (side * N);              (* UpdateKeys calls that returned nil during the step *)
  o_epochs : N * N * N * N               (* after the step: LocalEpoch A, RemoteEpoch A, LocalEpoch B, RemoteEpoch B *)
}.

Fixpoint ev_sent (evs : list event) : list (side * N * N * kind) :=
  match evs with
  | [] => []
  | EvSent s e r :: t => (s, e, r_seq r, r_kind r) :: ev_sent t
  | _ :: t => ev_sent t
  end.
Fixpoint ev_read (evs : list event) : list (side * N) :=
  match evs with [] => [] | EvRead s p :: t => (s, p) :: ev_read t | _ :: t => ev_read t end.
Fixpoint ev_done (evs : list event) : list (side * N) :=
  match evs with [] => [] | EvDone s i :: t => (s, i) :: ev_done t | _ :: t => ev_done t end.

Fixpoint sent_eqb (a b : list (side * N * N * kind)) : bool :=
  match a, b with
  | [], [] => true
  | (s, e, q, k) :: a', (s', e', q', k') :: b' =>
      side_eqb s s' && (e =? e') && (q =? q') && kind_eqb k k' && sent_eqb a' b'
  | _, _ => false
  end.
Fixpoint sn_eqb (a b : list (side * N)) : bool :=
  match a, b with
  | [], [] => true
  | (s, p) :: a', (s', p') :: b' => side_eqb s s' && (p =? p') && sn_eqb a' b'
  | _, _ => false
  end.

(* the key a sender's records carry is determined by the epoch the harness decrypted them under *)
Fixpoint keys_ok (evs : list event) : bool :=
  match evs with
  | [] => true
  | EvSent s e r :: t => sec_eqb (r_key r) (secret_of s e) && (r_elow r =? low2 e) && keys_ok t
  | _ :: t => keys_ok t
  end.

Definition step_ok (st : gst) (evs : list event) (o : obs) : bool :=
  sent_eqb (ev_sent evs) (o_sent o) && sn_eqb (ev_read evs) (o_read o) &&
  sn_eqb (ev_done evs) (o_done o) && keys_ok evs &&
  (let '(wa, ra, wb, rb) := o_epochs o in
   (w_epoch (sd st A) =? wa) && (r_epoch (sd st A) =? ra) &&
   (w_epoch (sd st B) =? wb) && (r_epoch (sd st B) =? rb)).

(* 0 = the whole trace agrees; k+1 = step k is the first that differs *)
Fixpoint trace_bad_from (i : N) (st : gst) (tr : list (op * obs)) : N :=
  match tr with
  | [] => 0
  | (o, ob) :: tr' =>
      let '(st1, evs) := step st o in
      if step_ok st1 evs ob then trace_bad_from (i + 1) st1 tr' else i + 1
  end.

Definition trace_case := (config * list (op * obs))%type.
Definition trace_bad (c : trace_case) : N := trace_bad_from 0 (init (fst c)) (snd c).
Definition trace_ok (c : trace_case) : bool := trace_bad c =? 0.

(* what the model predicts for the first differing step (for the report) *)
Fixpoint trace_predict (st : gst) (tr : list (op * obs))
  : option (list (side * N * N * kind) * list (side * N) * list (side * N) * (N * N * N * N)) :=
  match tr with
  | [] => None
  | (o, ob) :: tr' =>
      let '(st1, evs) := step st o in
      if step_ok st1 evs ob then trace_predict st1 tr'
      else Some (ev_sent evs, ev_read evs, ev_done evs,
                 (w_epoch (sd st1 A), r_epoch (sd st1 A), w_epoch (sd st1 B), r_epoch (sd st1 B)))
  end.

(* helpers for the case printer *)
Definition cfgs (w : nat) (baseA baseB wseqA wseqB : N) (preA preB shA shB : list N) : config :=
  mkcfg w (fun s => match s with A => baseA | B => baseB end)
        (fun s => match s with A => wseqA | B => wseqB end)
        (fun s => match s with A => preA | B => preB end)
        (fun s => match s with A => shA | B => shB end).
Definition cfg (w : nat) (baseA baseB wseqA wseqB : N) (preA preB : list N) : config :=
  cfgs w baseA baseB wseqA wseqB preA preB [] [].
Definition rc (s : side) (e elow q : N) (k : kind) : rec := mkrec (secret_of s e) elow q k.
