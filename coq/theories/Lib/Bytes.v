(* Bytes: byte strings as [list N] (each element intended < 256), big-endian
   unsigned integers of a fixed number of bytes, and the basic list helpers
   shared by every model.  Stdlib + lia only. *)
From Coq Require Export List NArith ZArith Bool Lia.
From Coq Require Import ZifyN ZifyNat ZifyBool.
Export ListNotations.
Open Scope N_scope.

Ltac Zify.zify_post_hook ::= Z.div_mod_to_equations.

Definition bytes := list N.

Definition byte_ok (b : N) : bool := b <? 256.
Definition bytes_ok (l : bytes) : bool := forallb byte_ok l.

Lemma bytes_ok_app l1 l2 : bytes_ok (l1 ++ l2) = bytes_ok l1 && bytes_ok l2.
Proof. unfold bytes_ok. apply forallb_app. Qed.

(* length as N *)
Definition len (l : bytes) : N := N.of_nat (length l).

Lemma len_app (l1 l2 : bytes) : len (l1 ++ l2) = len l1 + len l2.
Proof. unfold len. rewrite app_length. lia. Qed.

Lemma len_nil : len [] = 0. Proof. reflexivity. Qed.
Lemma len_cons b (l : bytes) : len (b :: l) = 1 + len l.
Proof. unfold len. cbn [length]. lia. Qed.

(* ---------- big-endian encode / decode of k-byte unsigned integers ---------- *)

Fixpoint be_enc (k : nat) (n : N) : bytes :=
  match k with
  | O => []
  | S k' => (n / 256 ^ N.of_nat k') mod 256 :: be_enc k' n
  end.

Fixpoint be_dec_acc (acc : N) (l : bytes) : N :=
  match l with
  | [] => acc
  | b :: l' => be_dec_acc (acc * 256 + b) l'
  end.

Definition be_dec (l : bytes) : N := be_dec_acc 0 l.

Lemma be_enc_length k n : length (be_enc k n) = k.
Proof. revert n; induction k as [|k IH]; intro n; cbn [be_enc length]; [reflexivity|]. now rewrite IH. Qed.

Lemma be_enc_ok k n : bytes_ok (be_enc k n) = true.
Proof.
  revert n; induction k as [|k IH]; intro n; cbn [be_enc]; [reflexivity|].
  unfold bytes_ok in *. cbn [forallb]. rewrite IH. unfold byte_ok.
  assert (H : (n / 256 ^ N.of_nat k) mod 256 < 256) by (apply N.mod_lt; lia).
  apply N.ltb_lt in H. now rewrite H.
Qed.

Lemma be_dec_acc_app acc l1 l2 :
  be_dec_acc acc (l1 ++ l2) = be_dec_acc (be_dec_acc acc l1) l2.
Proof. revert acc; induction l1 as [|b l1 IH]; intro acc; cbn [app be_dec_acc]; [reflexivity|]. apply IH. Qed.

Lemma pow256_pos k : 0 < 256 ^ k.
Proof. apply N.neq_0_lt_0. apply N.pow_nonzero. lia. Qed.

Lemma be_dec_acc_enc k : forall acc n, n < 256 ^ N.of_nat k ->
  be_dec_acc acc (be_enc k n) = acc * 256 ^ N.of_nat k + n.
Proof.
  induction k as [|k IH]; intros acc n Hn.
  - cbn [be_enc be_dec_acc]. cbn in Hn. change (256 ^ N.of_nat 0) with 1. lia.
  - cbn [be_enc be_dec_acc].
    replace (N.of_nat (S k)) with (N.succ (N.of_nat k)) in * by lia.
    rewrite N.pow_succ_r' in *.
    set (p := 256 ^ N.of_nat k) in *.
    assert (Hp : 0 < p) by (apply pow256_pos).
    assert (Hq : n / p < 256) by (apply N.div_lt_upper_bound; lia).
    rewrite (N.mod_small (n / p) 256) by exact Hq.
    (* remaining bytes encode n mod p : be_enc k n = be_enc k (n mod p) *)
    assert (Henc : forall j m, (j <= k)%nat -> be_enc j m = be_enc j (m mod p)).
    { clear - Hp. subst p. induction j as [|j IHj]; intros m Hj; cbn [be_enc]; [reflexivity|].
      f_equal.
      - (* (m / 256^j) mod 256 = ((m mod 256^k) / 256^j) mod 256 *)
        assert (Hsplit : 256 ^ N.of_nat k = 256 ^ N.of_nat j * 256 ^ (N.of_nat k - N.of_nat j)).
        { rewrite <- N.pow_add_r. f_equal. lia. }
        set (a := 256 ^ N.of_nat j) in *.
        set (bq := 256 ^ (N.of_nat k - N.of_nat j)) in *.
        assert (Ha : 0 < a) by apply pow256_pos.
        assert (Hb : 0 < bq) by apply pow256_pos.
        rewrite Hsplit.
        rewrite N.mod_mul_r by lia.
        rewrite (N.mul_comm a ((m / a) mod bq)).
        rewrite N.div_add by lia.
        rewrite (N.div_small (m mod a) a) by (apply N.mod_lt; lia).
        rewrite N.add_0_l.
        (* ((m/a) mod bq) mod 256 = (m/a) mod 256 since 256 | bq (k-j >= 1) *)
        assert (Hb256 : bq = 256 * 256 ^ (N.of_nat k - N.of_nat j - 1)).
        { subst bq. rewrite <- N.pow_succ_r'. f_equal. lia. }
        rewrite Hb256. rewrite N.mod_mul_r by (try lia; apply N.pow_nonzero; lia).
        rewrite N.mul_comm. rewrite N.mod_add by lia. rewrite N.mod_mod by lia. reflexivity.
      - apply IHj. lia. }
    rewrite (Henc k n) by lia.
    rewrite IH by (apply N.mod_lt; lia).
    pose proof (N.div_mod' n p). lia.
Qed.

Lemma be_dec_enc k n : n < 256 ^ N.of_nat k -> be_dec (be_enc k n) = n.
Proof. intro H. unfold be_dec. rewrite be_dec_acc_enc by exact H. lia. Qed.

Lemma be_dec_acc_bound l : forall acc, bytes_ok l = true ->
  be_dec_acc acc l < (acc + 1) * 256 ^ N.of_nat (length l).
Proof.
  induction l as [|b l IH]; intros acc Hok.
  - cbn. lia.
  - cbn [be_dec_acc length]. unfold bytes_ok in Hok. cbn [forallb] in Hok.
    apply andb_prop in Hok. destruct Hok as [Hb Hl]. unfold byte_ok in Hb. apply N.ltb_lt in Hb.
    specialize (IH (acc * 256 + b) Hl).
    replace (N.of_nat (S (length l))) with (N.succ (N.of_nat (length l))) by lia.
    rewrite N.pow_succ_r'.
    pose proof (pow256_pos (N.of_nat (length l))) as Hp.
    eapply N.lt_le_trans; [exact IH|]. nia.
Qed.

Lemma be_dec_bound l : bytes_ok l = true -> be_dec l < 256 ^ N.of_nat (length l).
Proof. intro H. pose proof (be_dec_acc_bound l 0 H). unfold be_dec. lia. Qed.

(* decoding then re-encoding gives back the same bytes (for well-formed bytes) *)
Lemma be_enc_dec l : bytes_ok l = true -> be_enc (length l) (be_dec l) = l.
Proof.
  (* generalise over an accumulator: be_enc k (acc*256^k + v) where v < 256^k ends with enc of v *)
  assert (Hgen : forall m acc, bytes_ok m = true ->
     be_enc (length m) (be_dec_acc acc m) = m).
  { clear l. induction m as [|b l' IH]; intros acc Hok; [reflexivity|].
    cbn [length be_enc be_dec_acc].
    unfold bytes_ok in Hok. cbn [forallb] in Hok. apply andb_prop in Hok. destruct Hok as [Hb Hl].
    unfold byte_ok in Hb. apply N.ltb_lt in Hb.
    rewrite (IH _ Hl). f_equal.
    (* be_dec_acc (acc*256+b) l' = (acc*256+b) * 256^|l'| + be_dec l' *)
    assert (Hlin : forall l0 a, be_dec_acc a l0 = a * 256 ^ N.of_nat (length l0) + be_dec_acc 0 l0).
    { induction l0 as [|c l0 IH0]; intro a.
      - cbn. lia.
      - cbn [be_dec_acc length]. rewrite (IH0 (a * 256 + c)). rewrite (IH0 (0 * 256 + c)).
        replace (N.of_nat (S (length l0))) with (N.succ (N.of_nat (length l0))) by lia.
        rewrite N.pow_succ_r'. lia. }
    rewrite Hlin.
    pose proof (be_dec_acc_bound l' 0 Hl) as Hbd.
    set (p := 256 ^ N.of_nat (length l')) in *.
    assert (Hp : 0 < p) by apply pow256_pos.
    rewrite N.div_add_l by lia.
    rewrite (N.div_small (be_dec_acc 0 l') p) by lia.
    rewrite N.add_0_r.
    replace (acc * 256 + b) with (b + acc * 256) by lia.
    rewrite N.mod_add by lia. apply N.mod_small. exact Hb. }
  intro H. unfold be_dec. apply Hgen. exact H.
Qed.

(* ---------- list helpers ---------- *)

Definition take (n : N) (l : bytes) : bytes := firstn (N.to_nat n) l.
Definition drop (n : N) (l : bytes) : bytes := skipn (N.to_nat n) l.

Lemma take_drop n l : take n l ++ drop n l = l.
Proof. apply firstn_skipn. Qed.

Lemma take_app_exact (l1 l2 : bytes) : take (len l1) (l1 ++ l2) = l1.
Proof.
  unfold take, len. rewrite Nat2N.id.
  rewrite firstn_app, Nat.sub_diag. cbn [firstn]. rewrite firstn_all. apply app_nil_r.
Qed.

Lemma drop_app_exact (l1 l2 : bytes) : drop (len l1) (l1 ++ l2) = l2.
Proof.
  unfold drop, len. rewrite Nat2N.id.
  rewrite skipn_app, Nat.sub_diag, skipn_all. reflexivity.
Qed.

Lemma len_take n l : n <= len l -> len (take n l) = n.
Proof. unfold len, take. intro H. rewrite firstn_length. lia. Qed.

Lemma len_drop n l : len (drop n l) = len l - n.
Proof. unfold len, drop. rewrite skipn_length. lia. Qed.

Fixpoint bytes_eqb (a b : bytes) : bool :=
  match a, b with
  | [], [] => true
  | x :: a', y :: b' => (x =? y) && bytes_eqb a' b'
  | _, _ => false
  end.

Lemma bytes_eqb_eq a b : bytes_eqb a b = true <-> a = b.
Proof.
  revert b; induction a as [|x a IH]; intros [|y b]; cbn [bytes_eqb]; split; intro H; try discriminate; try reflexivity.
  - apply andb_prop in H. destruct H as [H1 H2]. apply N.eqb_eq in H1. apply IH in H2. now subst.
  - inversion H; subst. rewrite N.eqb_refl. cbn. now apply IH.
Qed.

Lemma bytes_eqb_refl a : bytes_eqb a a = true.
Proof. now apply bytes_eqb_eq. Qed.
