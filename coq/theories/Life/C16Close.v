(* C16 - lifecycle: executable model of the close state machine of pion/dtls conn.go at the
   granularity of its lock regions / atomic effects.  Definitions only; proofs are in
   Life/C16CloseSound.v, statements in Properties/C16.v.

   What is modelled (names follow /repo/conn.go):
     conn.closed (closer.Closer)            -> closed          (Close() is idempotent: a flag)
     conn.connectionClosedByUser            -> by_user
     conn.handshakeEstablished              -> est             (monotone)
     conn.handshakeDone (non-nil, not yet closed) -> hs_open
     conn.cancelHandshaker / cancelHandshakeReader installed by handshake() -> installed,
        and whether the two contexts have been cancelled       -> can_hs / can_rd
     conn.nextConn.Close()                  -> sock_closed, sock_closes (number of calls)
     close_notify records written by close()            -> cn_close
     close_notify records written by the read loop as the reply to a received close_notify
        (processIncomingPacket: responseAlert)          -> cn_reply
     conn.closeNotifyOnce (sendCloseNotify, shared by both writers) -> cn_once
     the handshake's firstErr channel (capacity 1)      -> first_err
     close(conn.decrypted) by the exiting read loop     -> dec_closed
     readDeadline / writeDeadline expired               -> rd_dl / wr_dl
     the HandshakeContext ctx is done                   -> hctx
     the socket does not take writes (blocking transport whose peer stopped reading) -> wr_blk

   Threads: any number of goroutines calling Close() (list [us]), the read-loop goroutine of
   handshake() ([rd]) and the goroutine inside HandshakeContext ([hs]).  Every constructor of
   [cpc]/[upc]/[rpc]/[hpc] is a program point between two atomic effects; [exec] performs one
   atomic effect of one thread, so an interleaving is a [list op] and "every interleaving
   consistent with program order" is "every list of ops" (program order is kept by the
   program counters; a step of a blocked or finished thread is a no-op).

   Socket writes that block: close() gives its close_notify write closeNotifyTimeout (5 s, commit
   8ae01eb) and then goes on to nextConn.Close(), so under [wr_blk] the step completes without a
   record; the read loop's close_notify reply is written under ctxRead and waits until that is
   cancelled or the socket is closed.  (Before 8ae01eb the write of close() had
   context.Background(): the CNotify step was not enabled under [wr_blk] and Close() never
   returned - finding F81.)

   Not modelled (environment assumptions, named in the report): the handshake FSM goroutine
   (assumed to leave when its context is cancelled - abstracted by can_hs), application-data and
   flight writes that block for ever, a second HandshakeContext call after a failed one. *)
From Coq Require Import List Bool Arith Lia.
Import ListNotations.

(* ------------------------------------------------------------------ shared state *)

(* why the read loop left ReadFromContext / processIncomingPacket with an error *)
Inductive rerr :=
| RCn        (* received close_notify alert *)
| RFatal     (* received fatal alert *)
| RCanceled  (* ctxRead cancelled *)
| RSockClosed(* nextConn closed: net.ErrClosed *)
| ROther.    (* any other error (decode, temporary network error, ...) *)

Record conn := mkConn {
  closed : bool;
  by_user : bool;
  est : bool;
  hs_open : bool;
  installed : bool;
  can_hs : bool;
  can_rd : bool;
  sock_closed : bool;
  sock_closes : nat;
  cn_close : nat;
  cn_reply : nat;
  cn_once : bool;   (* conn.closeNotifyOnce consumed (sendCloseNotify ran) *)
  first_err : option rerr;
  dec_closed : bool;
  rd_dl : bool;
  wr_dl : bool;
  hctx : bool;
  wr_blk : bool; (* the socket does not take writes (peer application not reading on a net.Pipe-like
                    transport, full buffer): a socket write blocks until its context ends *)
  dual : bool;   (* static: dual-stack configuration (version negotiation before the FSM starts) *)
  v13 : bool     (* static: DTLS 1.3 (Write goes through the FSM) *)
}.

Definition conn0 (d v : bool) : conn :=
  mkConn false false false false false false false false 0 0 0 false None false false false false false d v.

Definition set_closed_user (bu : bool) (c : conn) : conn :=
  mkConn true (by_user c || bu) (est c) (hs_open c) (installed c) (can_hs c) (can_rd c)
    (sock_closed c) (sock_closes c) (cn_close c) (cn_reply c) (cn_once c) (first_err c) (dec_closed c)
    (rd_dl c) (wr_dl c) (hctx c) (wr_blk c) (dual c) (v13 c).
Definition set_can_hs (c : conn) : conn :=
  mkConn (closed c) (by_user c) (est c) (hs_open c) (installed c) true (can_rd c)
    (sock_closed c) (sock_closes c) (cn_close c) (cn_reply c) (cn_once c) (first_err c) (dec_closed c)
    (rd_dl c) (wr_dl c) (hctx c) (wr_blk c) (dual c) (v13 c).
Definition set_can_rd (c : conn) : conn :=
  mkConn (closed c) (by_user c) (est c) (hs_open c) (installed c) (can_hs c) true
    (sock_closed c) (sock_closes c) (cn_close c) (cn_reply c) (cn_once c) (first_err c) (dec_closed c)
    (rd_dl c) (wr_dl c) (hctx c) (wr_blk c) (dual c) (v13 c).
(* sendCloseNotify: closeNotifyOnce.Do(notify(warning, close_notify)).  sync.Once runs the
   function once and makes concurrent callers wait for it, so "test the flag, set it, write the
   record" is one atomic effect.  Called by close() (application Close of an established
   connection) and by the read loop (reply to a received close_notify). *)
(* Under [wr_blk] the write of close() ends with its 5 s context: the Once is consumed, no record. *)
Definition send_cn_close (c : conn) : conn :=
  if cn_once c then c else
  mkConn (closed c) (by_user c) (est c) (hs_open c) (installed c) (can_hs c) (can_rd c)
    (sock_closed c) (sock_closes c) (if wr_blk c then cn_close c else S (cn_close c)) (cn_reply c) true
    (first_err c) (dec_closed c)
    (rd_dl c) (wr_dl c) (hctx c) (wr_blk c) (dual c) (v13 c).
(* the reply is not written when the socket is already closed (netctx: ErrClosing), but the
   Once is consumed all the same *)
Definition send_cn_reply (c : conn) : conn :=
  if cn_once c then c else
  mkConn (closed c) (by_user c) (est c) (hs_open c) (installed c) (can_hs c) (can_rd c)
    (sock_closed c) (sock_closes c) (cn_close c)
    (if sock_closed c || wr_blk c then cn_reply c else S (cn_reply c)) true (first_err c) (dec_closed c)
    (rd_dl c) (wr_dl c) (hctx c) (wr_blk c) (dual c) (v13 c).
Definition close_sock (c : conn) : conn :=
  mkConn (closed c) (by_user c) (est c) (hs_open c) (installed c) (can_hs c) (can_rd c)
    true (S (sock_closes c)) (cn_close c) (cn_reply c) (cn_once c) (first_err c) (dec_closed c)
    (rd_dl c) (wr_dl c) (hctx c) (wr_blk c) (dual c) (v13 c).
(* firstErr is a channel of capacity 1 written with select/default: the first error stays *)
Definition put_first_err (k : rerr) (c : conn) : conn :=
  mkConn (closed c) (by_user c) (est c) (hs_open c) (installed c) (can_hs c) (can_rd c)
    (sock_closed c) (sock_closes c) (cn_close c) (cn_reply c) (cn_once c)
    (match first_err c with Some e => Some e | None => Some k end) (dec_closed c)
    (rd_dl c) (wr_dl c) (hctx c) (wr_blk c) (dual c) (v13 c).
Definition reader_exit (c : conn) : conn :=
  mkConn (closed c) (by_user c) (est c) (hs_open c) (installed c) true (can_rd c)
    (sock_closed c) (sock_closes c) (cn_close c) (cn_reply c) (cn_once c) (first_err c)
    (dec_closed c || est c)
    (rd_dl c) (wr_dl c) (hctx c) (wr_blk c) (dual c) (v13 c).
Definition set_est (c : conn) : conn :=
  mkConn (closed c) (by_user c) true (hs_open c) (installed c) (can_hs c) (can_rd c)
    (sock_closed c) (sock_closes c) (cn_close c) (cn_reply c) (cn_once c) (first_err c) (dec_closed c)
    (rd_dl c) (wr_dl c) (hctx c) (wr_blk c) (dual c) (v13 c).
Definition set_hs_open (b : bool) (c : conn) : conn :=
  mkConn (closed c) (by_user c) (est c) b (installed c) (can_hs c) (can_rd c)
    (sock_closed c) (sock_closes c) (cn_close c) (cn_reply c) (cn_once c) (first_err c) (dec_closed c)
    (rd_dl c) (wr_dl c) (hctx c) (wr_blk c) (dual c) (v13 c).
(* handshake(): fresh ctxHs/ctxRead, cancel functions stored under closeLock *)
Definition install (c : conn) : conn :=
  mkConn (closed c) (by_user c) (est c) (hs_open c) true false false
    (sock_closed c) (sock_closes c) (cn_close c) (cn_reply c) (cn_once c) (first_err c) (dec_closed c)
    (rd_dl c) (wr_dl c) (hctx c) (wr_blk c) (dual c) (v13 c).
Definition set_rd_dl (c : conn) : conn :=
  mkConn (closed c) (by_user c) (est c) (hs_open c) (installed c) (can_hs c) (can_rd c)
    (sock_closed c) (sock_closes c) (cn_close c) (cn_reply c) (cn_once c) (first_err c) (dec_closed c)
    true (wr_dl c) (hctx c) (wr_blk c) (dual c) (v13 c).
Definition set_wr_dl (c : conn) : conn :=
  mkConn (closed c) (by_user c) (est c) (hs_open c) (installed c) (can_hs c) (can_rd c)
    (sock_closed c) (sock_closes c) (cn_close c) (cn_reply c) (cn_once c) (first_err c) (dec_closed c)
    (rd_dl c) true (hctx c) (wr_blk c) (dual c) (v13 c).
Definition set_wr_blk (c : conn) : conn :=
  mkConn (closed c) (by_user c) (est c) (hs_open c) (installed c) (can_hs c) (can_rd c)
    (sock_closed c) (sock_closes c) (cn_close c) (cn_reply c) (cn_once c) (first_err c) (dec_closed c)
    (rd_dl c) (wr_dl c) (hctx c) true (dual c) (v13 c).
Definition set_hctx (c : conn) : conn :=
  mkConn (closed c) (by_user c) (est c) (hs_open c) (installed c) (can_hs c) (can_rd c)
    (sock_closed c) (sock_closes c) (cn_close c) (cn_reply c) (cn_once c) (first_err c) (dec_closed c)
    (rd_dl c) (wr_dl c) true (wr_blk c) (dual c) (v13 c).

(* ------------------------------------------------------------------ close(byUser) *)

(* program points of conn.go close(byUser).  [w] = "this activation goes on after the early
   return" = not (closedByUser || isClosed) as read in the closeLock region; [i] = the cancel
   functions read in the closeLock region are the installed ones (else the no-op defaults). *)
Inductive cpc :=
| CLock                   (* before the closeLock region *)
| CCan1 (w i : bool)      (* before cancelHandshaker() *)
| CCan2 (w i : bool)      (* before cancelHandshakeReader(); then "if closedByUser||isClosed return" *)
| CEst                    (* before reading isHandshakeCompletedSuccessfully() *)
| CNotify (e : bool)      (* before sendCloseNotify() (only if e && byUser) *)
| CSock                   (* before nextConn.Close() *)
| CRet.                   (* returned *)

Definition close_step (byUser : bool) (p : cpc) (c : conn) : cpc * conn :=
  match p with
  | CLock => (CCan1 (negb (by_user c || closed c)) (installed c), set_closed_user byUser c)
  | CCan1 w i => (CCan2 w i, if i then set_can_hs c else c)
  | CCan2 w i => (if w then CEst else CRet, if i then set_can_rd c else c)
  | CEst => (CNotify (est c), c)
  | CNotify e => (CSock, if e && byUser then send_cn_close c else c)
  | CSock => (CRet, close_sock c)
  | CRet => (CRet, c)
  end.

(* ------------------------------------------------------------------ Close() callers *)

Inductive upc :=
| UC (p : cpc)   (* inside close(true); at UC CRet: about to read c.handshakeDone under closeLock *)
| UWait          (* blocked in <-handshakeDone *)
| UDone.         (* Close() returned (nil) *)

Definition user_step (u : upc) (c : conn) : upc * conn :=
  match u with
  | UC CRet => (if hs_open c then UWait else UDone, c)
  | UC p => let '(p', c') := close_step true p c in (UC p', c')
  | UWait => (if hs_open c then UWait else UDone, c)
  | UDone => (UDone, c)
  end.

(* ------------------------------------------------------------------ read loop goroutine *)

Inductive rpc :=
| RNone                (* not started (handshake() not reached) *)
| RRead                (* blocked in nextConn.ReadFromContext(ctxRead) *)
| RReply               (* holds a received close_notify: about to write the close_notify reply *)
| RClassify (k : rerr) (* has error k: classifyReadLoopError (reads closed / established) *)
| RClose (p : cpc)     (* inside close(false) *)
| RExit                (* deferred exit: close(decrypted) if established; cancel() *)
| RDone
| RHand (failed : bool)
| RReplyF.
    (* RReplyF: holds a received close_notify and the transport refuses the write of the close_notify
       reply (ECONNREFUSED on a UDP socket whose peer is gone, EPERM, ENETUNREACH, a closed pipe):
       sendCloseNotify returns the write error at once.  processIncomingPacket keeps the error of the
       packet that provoked the alert ("if alertErr != nil && err == nil { err = alertErr }"), so the
       read loop still classifies the received close_notify: readLoopCloseAndStop -> close(false). *)
    (* RHand: readAndBuffer handed a handshake/ACK datagram to the state machine ("c.handshakeRecv <- s") and
       is parked on "<-s.Done".  [failed]: the state machine fails while it handles it (the ACK of a
       peer's post-handshake KeyUpdate/NewSessionTicket cannot be written, the message is refused,
       Close cancels ctxHs inside that write).  The lease is released on every path - fsm13.finish:
       "s.received.retain(received); defer s.received.release()" - so the step below is always enabled;
       a failing state machine reports into firstErr and ends (readAndBuffer then goes by fsm.Done()). *)

Definition reader_step (r : rpc) (c : conn) : rpc * conn :=
  match r with
  | RNone => (RNone, c)
  | RRead => if can_rd c then (RClassify RCanceled, c)
             else if sock_closed c then (RClassify RSockClosed, c)
             else (RRead, c)
  | RReply =>
      (* the reply is written under ctxRead: on a socket that does not take writes it waits until
         ctxRead is cancelled or the socket is closed, then gives up (Once consumed, no record) *)
      if wr_blk c && negb (can_rd c || sock_closed c) then (RReply, c)
      else (RClassify RCn, send_cn_reply c)
  | RClassify RCn => (RClose CLock, put_first_err RCn c)
  | RClassify RFatal => (RClose CLock, put_first_err RFatal c)
  | RClassify RCanceled =>
      if closed c then (RExit, put_first_err RCanceled c) else (RClose CLock, put_first_err RCanceled c)
  | RClassify RSockClosed => (RExit, put_first_err RSockClosed c)
  | RClassify ROther => if est c then (RRead, c) else (RExit, put_first_err ROther c)
  | RClose CRet => (RExit, c)
  | RClose p => let '(p', c') := close_step false p c in (RClose p', c')
  | RExit => (RDone, reader_exit c)
  | RDone => (RDone, c)
  | RHand f => (RRead, if f then put_first_err ROther c else c)
  | RReplyF =>
      (* the write fails at once (no waiting, unlike RReply under a blocking socket): the Once is
         consumed, no record ([wr_blk] was set by the event), the classification stays "peer closed" *)
      (RClassify RCn, send_cn_reply c)
  end.

(* VARIANT (refuted, seeded change C16g): the write error of the reply REPLACES the error of the packet
   that provoked the alert ("if alertErr != nil { err = alertErr }"): the read loop sees a bare transport
   error, which on an established connection is readLoopDeliverAndContinue - handed to Read, loop goes on *)
Definition reader_step_sw (r : rpc) (c : conn) : rpc * conn :=
  match r with
  | RReplyF => (RClassify ROther, send_cn_reply c)
  | _ => reader_step r c
  end.

(* ------------------------------------------------------------------ HandshakeContext caller *)

(* HClosed: handshake() got context.Canceled out of firstErr while the connection is closed and
   the caller's ctx is not done: Close() interrupted the handshake -> ErrConnClosed (commit
   83f5bff; before, "handshake failed: context canceled" - finding F66) *)
Inductive hres := HOk | HErr (k : rerr) | HCtx | HClosed.

(* the test made after handshakeLoopsFinished.Wait():
   "if errors.Is(err, context.Canceled) && ctx.Err() == nil && c.isConnectionClosed() { err = ErrConnClosed }" *)
Definition resolve (x : hres) (c : conn) : hres :=
  match x with
  | HErr RCanceled => if closed c && negb (hctx c) then HClosed else x
  | _ => x
  end.

Inductive hpc :=
| HIdle                 (* HandshakeContext not called *)
| HBegun                (* handshakeDone installed; before prepareHandshakeStart *)
| HNeg                  (* dual-stack: blocked reading during version negotiation (no FSM, no cancels) *)
| HSelect               (* handshake(): cancels installed, loops started; in the final select *)
| HWait (r : hres)      (* cancelRead(); cancel(); handshakeLoopsFinished.Wait() *)
| HRet (r : hres).      (* returned; handshakeDone closed *)

(* branch of handshake()'s select the scheduler lets win (Go picks any ready branch) *)
Inductive hbranch := BErr | BCtx | BEst.

(* HandshakeContext after a failed prepareHandshakeStart (dual-stack version negotiation, no state
   machine yet): "if ctx.Err() == nil && c.isConnectionClosed() { return ErrConnClosed }" (commit
   0805f5b; before, the closed transport's own error - EOF / use of closed network connection) *)
Definition resolve_neg (x : hres) (c : conn) : hres :=
  if closed c && negb (hctx c) then HClosed else x.

Definition hs_step (b : hbranch) (h : hpc) (r : rpc) (c : conn) : hpc * rpc * conn :=
  match h with
  | HIdle => (HIdle, r, c)
  | HBegun => if dual c then (HNeg, r, c) else (HSelect, RRead, install c)
  | HNeg => if hctx c then (HRet HCtx, r, set_hs_open false c)
            else if sock_closed c then (HRet (resolve_neg (HErr RSockClosed) c), r, set_hs_open false c)
            else (HNeg, r, c)
  | HSelect =>
      match b with
      | BEst => if est c then (HRet HOk, r, set_hs_open false c) else (HSelect, r, c)
      | BErr => match first_err c with
                | Some k => (HWait (HErr k), r, set_can_hs (set_can_rd c))
                | None => (HSelect, r, c)
                end
      | BCtx => if hctx c then (HWait HCtx, r, set_can_hs (set_can_rd c)) else (HSelect, r, c)
      end
  | HWait x => match r with
               | RDone => (HRet (resolve x c), r, set_hs_open false c)
               | _ => (HWait x, r, c)
               end
  | HRet x => (HRet x, r, c)
  end.

(* ------------------------------------------------------------------ configurations, ops *)

Record cfg := mkCfg { cn : conn; hs : hpc; rd : rpc; us : list upc }.

Definition cfg0 (d v : bool) : cfg := mkCfg (conn0 d v) HIdle RNone [].

Inductive env :=
| ECallHandshake  (* the application calls HandshakeContext *)
| ENegDone        (* dual-stack negotiation finished: go on to handshake() *)
| EEstablish      (* the FSM reaches FINISHED: establishment.mark() *)
| ERecvCN         (* a close_notify alert is read by the read loop *)
| ERecvFatal      (* a fatal alert is read *)
| ERecvOther      (* some other read/processing error *)
| EFsmErr         (* the FSM goroutine fails and reports into firstErr *)
| ERdDeadline | EWrDeadline  (* SetReadDeadline/SetWriteDeadline in the past *)
| EHsCtx          (* the context passed to HandshakeContext is done *)
| EWrBlock        (* from now on the socket does not take writes *)
| ERecvHs (failed : bool)
    (* a handshake / ACK datagram is read and handed to the state machine, which handles it or fails *)
| ERecvCNF.
    (* a close_notify alert is read by the read loop while the reply cannot be written: the transport
       refuses writes (from now on the socket does not take them: [wr_blk], here as an immediate error) *)

Inductive op :=
| SpawnClose             (* one more goroutine calls Close() *)
| StepUser (i : nat)     (* closer i performs its next atomic effect *)
| StepReader
| StepHs (b : hbranch)
| Env (e : env).

Fixpoint upd {A} (l : list A) (i : nat) (x : A) : list A :=
  match l, i with
  | [], _ => []
  | _ :: t, O => x :: t
  | h :: t, S j => h :: upd t j x
  end.

Definition env_step (e : env) (g : cfg) : cfg :=
  let c := cn g in
  match e with
  | ECallHandshake =>
      match hs g with
      | HIdle => if est c then g else mkCfg (set_hs_open true c) HBegun (rd g) (us g)
      | _ => g
      end
  | ENegDone =>
      match hs g with
      | HNeg => mkCfg (install c) HSelect RRead (us g)
      | _ => g
      end
  | EEstablish => if installed c then mkCfg (set_est c) (hs g) (rd g) (us g) else g
  | ERecvCN =>
      match rd g with
      | RRead => if sock_closed c then g else mkCfg c (hs g) RReply (us g)
      | _ => g
      end
  | ERecvFatal =>
      match hs g, rd g with
      | HNeg, _ => mkCfg (set_hs_open false c) (HRet (resolve_neg (HErr RFatal) c)) (rd g) (us g)
      | _, RRead => if sock_closed c then g else mkCfg c (hs g) (RClassify RFatal) (us g)
      | _, _ => g
      end
  | ERecvOther =>
      match rd g with
      | RRead => mkCfg c (hs g) (RClassify ROther) (us g)
      | _ => g
      end
  | EFsmErr => if installed c then mkCfg (put_first_err ROther c) (hs g) (rd g) (us g) else g
  | ERdDeadline => mkCfg (set_rd_dl c) (hs g) (rd g) (us g)
  | EWrDeadline => mkCfg (set_wr_dl c) (hs g) (rd g) (us g)
  | EHsCtx => mkCfg (set_hctx c) (hs g) (rd g) (us g)
  | EWrBlock => mkCfg (set_wr_blk c) (hs g) (rd g) (us g)
  | ERecvHs f =>
      match rd g with
      | RRead => if sock_closed c then g else mkCfg c (hs g) (RHand f) (us g)
      | _ => g
      end
  | ERecvCNF =>
      match rd g with
      | RRead => if sock_closed c then g else mkCfg (set_wr_blk c) (hs g) RReplyF (us g)
      | _ => g
      end
  end.

Definition exec (o : op) (g : cfg) : cfg :=
  match o with
  | SpawnClose => mkCfg (cn g) (hs g) (rd g) (us g ++ [UC CLock])
  | StepUser i =>
      match nth_error (us g) i with
      | Some u => let '(u', c') := user_step u (cn g) in mkCfg c' (hs g) (rd g) (upd (us g) i u')
      | None => g
      end
  | StepReader => let '(r', c') := reader_step (rd g) (cn g) in mkCfg c' (hs g) r' (us g)
  | StepHs b => let '(h', r', c') := hs_step b (hs g) (rd g) (cn g) in mkCfg c' h' r' (us g)
  | Env e => env_step e g
  end.

Fixpoint run (ops : list op) (g : cfg) : cfg :=
  match ops with
  | [] => g
  | o :: ops' => run ops' (exec o g)
  end.

(* the same machine with the variant read loop [reader_step_sw] *)
Definition exec_sw (o : op) (g : cfg) : cfg :=
  match o with
  | StepReader => let '(r', c') := reader_step_sw (rd g) (cn g) in mkCfg c' (hs g) r' (us g)
  | _ => exec o g
  end.
Fixpoint run_sw (ops : list op) (g : cfg) : cfg :=
  match ops with
  | [] => g
  | o :: ops' => run_sw ops' (exec_sw o g)
  end.

(* number of atomic effects the read-loop goroutine performs in a history *)
Fixpoint reader_steps (ops : list op) : nat :=
  match ops with
  | [] => 0
  | StepReader :: t => S (reader_steps t)
  | _ :: t => reader_steps t
  end.

(* the read loop holds a received close_notify / fatal alert and is [k] of its own steps away from
   the closeLock region of close(false) that signals conn.closed *)
Definition togo (r : rpc) : option nat :=
  match r with
  | RReplyF => Some 3
  | RClassify RCn | RClassify RFatal => Some 2
  | RClose CLock => Some 1
  | _ => None
  end.

(* ------------------------------------------------------------------ blocked calls *)

(* result classes of the public calls (errors.Is projection used by the harness) *)
Inductive rclass := KOk | KEof | KClosed | KDeadline | KAlert | KCanceled | KNetClosed | KOther.

(* conn.go Read: "select { case <-c.closed.Done(): EOF; case <-c.readDeadline.Done():
   ErrDeadlineExceeded; case out, ok := <-c.decrypted: !ok -> EOF ... }": the branches that are
   ready without new data from the peer *)
Definition read_ready (c : conn) : list rclass :=
  (if closed c then [KEof] else []) ++ (if rd_dl c then [KDeadline] else []) ++
  (if dec_closed c then [KEof] else []).

(* conn.go Write blocked below writeApplicationData(contextWithClose(writeDeadline)):
   cause DeadlineExceeded -> ErrDeadlineExceeded; "errors.Is(err, context.Canceled) &&
   c.isConnectionClosed() -> ErrConnClosed" (in writePacketsWithResultLocked for DTLS 1.2 and in
   Write itself for both versions, so also for the ctx.Err() that DTLS 1.3's
   fsm13.waitPostHandshakeCompletion returns); the socket closed under the write -> net error. *)
Definition write_ready (c : conn) : list rclass :=
  (if closed c then [KClosed] else []) ++
  (if wr_dl c then [KDeadline] else []) ++
  (if sock_closed c then [KNetClosed] else []).

(* handshake()'s select: "case err := <-firstErr / case <-ctx.Done() / case <-established" *)
Definition hs_select_ready (c : conn) : bool :=
  match first_err c with Some _ => true | None => false end || hctx c || est c.

Definition close_class (k : rclass) : bool :=
  match k with KEof | KClosed | KNetClosed => true | _ => false end.

(* translateHandshakeCtxError + the classes the harness sees *)
Definition hres_class (e : bool) (r : hres) : rclass :=
  match r with
  | HOk => KOk
  | HCtx => if e then KOk else KCanceled
  | HErr RCanceled => if e then KOk else KCanceled
  | HErr RSockClosed => KNetClosed
  | HErr RCn | HErr RFatal => KAlert
  | HErr ROther => KOther
  | HClosed => KClosed
  end.

(* ------------------------------------------------------------------ enabledness, quiescence *)

Definition user_enabled (u : upc) (c : conn) : bool :=
  match u with
  | UC _ => true
  | UWait => negb (hs_open c)
  | UDone => false
  end.

Definition reader_enabled (r : rpc) (c : conn) : bool :=
  match r with
  | RNone | RDone => false
  | RRead => can_rd c || sock_closed c
  | RReply => negb (wr_blk c) || can_rd c || sock_closed c
  | _ => true
  end.

(* the branch of the select that is ready, if any *)
Definition hs_branch (c : conn) : option hbranch :=
  match first_err c with
  | Some _ => Some BErr
  | None => if hctx c then Some BCtx else if est c then Some BEst else None
  end.

Definition hs_enabled (h : hpc) (r : rpc) (c : conn) : bool :=
  match h with
  | HIdle | HRet _ => false
  | HBegun => true
  | HNeg => hctx c || sock_closed c
  | HSelect => hs_select_ready c
  | HWait _ => match r with RDone => true | _ => false end
  end.

Definition u_done (u : upc) : bool := match u with UDone => true | _ => false end.

(* no goroutine of the connection is left and every Close() has returned *)
Definition quiet (g : cfg) : bool :=
  forallb u_done (us g) &&
  match rd g with RNone | RDone => true | _ => false end &&
  match hs g with HIdle | HRet _ => true | _ => false end.

(* termination measure of the internal steps *)
Definition rank_c (p : cpc) : nat :=
  match p with CLock => 7 | CCan1 _ _ => 6 | CCan2 _ _ => 5 | CEst => 4 | CNotify _ => 3 | CSock => 2 | CRet => 1 end.
Definition rank_u (u : upc) : nat :=
  match u with UC p => 2 + rank_c p | UWait => 1 | UDone => 0 end.
Definition rank_r (r : rpc) : nat :=
  match r with
  | RNone => 20 | RReply => 19 | RClassify ROther => 18 | RRead => 17 | RClassify _ => 16
  | RClose p => 8 + rank_c p | RExit => 2 | RDone => 0 | RHand _ => 18 | RReplyF => 19
  end.
Definition rank_h (h : hpc) : nat :=
  match h with HIdle => 5 | HBegun => 4 | HNeg => 3 | HSelect => 2 | HWait _ => 1 | HRet _ => 0 end.
Definition mu (g : cfg) : nat :=
  list_sum (map rank_u (us g)) + rank_r (rd g) + 21 * rank_h (hs g).

(* internal ops: steps of the three kinds of goroutines (no environment input) *)
Definition internal (o : op) : bool :=
  match o with StepUser _ | StepReader | StepHs _ => true | _ => false end.

Definition op_enabled (o : op) (g : cfg) : bool :=
  match o with
  | StepUser i => match nth_error (us g) i with Some u => user_enabled u (cn g) | None => false end
  | StepReader => reader_enabled (rd g) (cn g)
  | StepHs b =>
      match hs g with
      | HSelect => match b with
                   | BErr => match first_err (cn g) with Some _ => true | None => false end
                   | BCtx => hctx (cn g)
                   | BEst => est (cn g)
                   end
      | h => hs_enabled h (rd g) (cn g)
      end
  | _ => false
  end.
