(* C16 - proofs about the close state machine model Life/C16Close.v: an inductive invariant
   over every interleaving (every [list op]), and from it: close_notify from close() at most
   once, nextConn.Close() exactly once, exactly one close_notify when the application closes an
   established open connection, idempotence, wake conditions, deadlock freedom / termination of
   the internal steps, and the equivalence of alert-triggered and user-triggered closing. *)
From DtlsV Require Import Life.C16Close.
From Coq Require Import List Bool Arith Lia.
Import ListNotations.

(* ------------------------------------------------------------------ list helpers *)

Lemma list_sum_app_ (a b : list nat) : list_sum (a ++ b) = list_sum a + list_sum b.
Proof. apply list_sum_app. Qed.

Lemma list_sum_one x : list_sum [x] = x.
Proof. cbn. lia. Qed.

Lemma list_sum_cons_ x l : list_sum (x :: l) = x + list_sum l.
Proof. reflexivity. Qed.

Lemma upd_sum {A} (f : A -> nat) (l : list A) (i : nat) (u x : A) :
  nth_error l i = Some u ->
  list_sum (map f (upd l i x)) + f u = list_sum (map f l) + f x.
Proof.
  revert i; induction l as [|a l IH]; intros [|i] H; cbn [nth_error upd map] in *; try discriminate.
  - inversion H; subst. rewrite !list_sum_cons_. lia.
  - specialize (IH i H). rewrite !list_sum_cons_. lia.
Qed.

Lemma upd_length {A} (l : list A) i x : length (upd l i x) = length l.
Proof. revert i; induction l as [|a l IH]; intros [|i]; cbn; auto. Qed.

Lemma upd_nth_same {A} (l : list A) i u x :
  nth_error l i = Some u -> nth_error (upd l i x) i = Some x.
Proof.
  revert i; induction l as [|a l IH]; intros [|i] H; cbn in *; try discriminate; auto.
Qed.

Lemma upd_nth_other {A} (l : list A) i j x :
  i <> j -> nth_error (upd l i x) j = nth_error l j.
Proof.
  revert i j; induction l as [|a l IH]; intros [|i] [|j] H; cbn; auto; try congruence.
Qed.

Lemma forallb_nth {A} (f : A -> bool) l i u :
  forallb f l = true -> nth_error l i = Some u -> f u = true.
Proof.
  revert i; induction l as [|a l IH]; intros [|i] H E; cbn in *; try discriminate;
    apply andb_true_iff in H as [H1 H2].
  - inversion E; subst; auto.
  - eauto.
Qed.

Lemma forallb_upd {A} (f : A -> bool) l i x :
  forallb f l = true -> f x = true -> forallb f (upd l i x) = true.
Proof.
  revert i; induction l as [|a l IH]; intros [|i] H E; cbn in *; auto;
    apply andb_true_iff in H as [H1 H2]; apply andb_true_iff; auto.
Qed.

Lemma forallb_sum0 {A} (p : A -> bool) (f : A -> nat) l :
  (forall x, p x = true -> f x = 0) -> forallb p l = true -> list_sum (map f l) = 0.
Proof.
  intros Hp; induction l as [|a l IH]; cbn [forallb map]; intro H; [reflexivity|].
  apply andb_true_iff in H as [H1 H2]. rewrite list_sum_cons_, (Hp _ H1), IH; auto.
Qed.

Global Arguments list_sum : simpl never.

(* ------------------------------------------------------------------ the invariant *)

(* a close() activation that goes on past the early return and has not yet passed the
   close_notify step / the nextConn.Close() step *)
Definition cpc_w (p : cpc) : nat :=
  match p with CCan1 true _ | CCan2 true _ | CEst | CNotify _ => 1 | _ => 0 end.
Definition cpc_s (p : cpc) : nat :=
  match p with CCan1 true _ | CCan2 true _ | CEst | CNotify _ | CSock => 1 | _ => 0 end.
Definition u_w (u : upc) : nat := match u with UC p => cpc_w p | _ => 0 end.
Definition u_s (u : upc) : nat := match u with UC p => cpc_s p | _ => 0 end.
Definition r_w (r : rpc) : nat := match r with RClose p => cpc_w p | _ => 0 end.
Definition r_s (r : rpc) : nat := match r with RClose p => cpc_s p | _ => 0 end.
Definition winners (g : cfg) : nat := list_sum (map u_w (us g)) + r_w (rd g).
Definition sockers (g : cfg) : nat := list_sum (map u_s (us g)) + r_s (rd g).

Definition u_pre (u : upc) : bool := match u with UC CLock => true | _ => false end.
Definition r_pre (r : rpc) : bool :=
  match r with RClose CLock => true | RClose _ => false | _ => true end.
Definition r_can_reply (r : rpc) : nat :=
  match r with RNone | RRead | RReply | RClassify ROther | RHand _ | RReplyF => 1 | _ => 0 end.
Definition r_late (r : rpc) : bool :=
  match r with RClose _ | RExit | RDone => true | _ => false end.
Definition r_none (r : rpc) : bool := match r with RNone => true | _ => false end.
Definition h_mid (h : hpc) : bool :=
  match h with HBegun | HNeg | HSelect | HWait _ => true | _ => false end.
Definition h_pre (h : hpc) : bool := match h with HIdle | HBegun | HNeg => true | _ => false end.
Definition h_run (h : hpc) : bool := match h with HSelect | HWait _ => true | _ => false end.
Definition h_wait (h : hpc) : bool := match h with HWait _ => true | _ => false end.

Record Inv (g : cfg) : Prop := mkInv {
  i_user : by_user (cn g) = true -> closed (cn g) = true;
  i_open : closed (cn g) = false ->
           forallb u_pre (us g) = true /\ r_pre (rd g) = true /\
           cn_close (cn g) = 0 /\ sock_closes (cn g) = 0;
  i_sock : closed (cn g) = true -> sock_closes (cn g) + sockers g = 1;
  i_cn : cn_close (cn g) + winners g <= 1;
  i_sc : sock_closed (cn g) = (0 <? sock_closes (cn g));
  i_reply : cn_reply (cn g) + r_can_reply (rd g) <= 1;
  i_once : cn_close (cn g) + cn_reply (cn g) <= (if cn_once (cn g) then 1 else 0);
  i_once2 : cn_once (cn g) = true ->
            1 <= cn_close (cn g) + cn_reply (cn g) \/ sock_closed (cn g) = true \/ wr_blk (cn g) = true;
  i_hsopen : hs_open (cn g) = h_mid (hs g);
  i_pre : h_pre (hs g) = true -> installed (cn g) = false;
  i_run : h_run (hs g) = true -> installed (cn g) = true;
  i_rd : installed (cn g) = negb (r_none (rd g));
  i_ferr : r_late (rd g) = true -> first_err (cn g) <> None;
  i_wait : h_wait (hs g) = true -> can_rd (cn g) = true
}.

Lemma pre_sum_w l : forallb u_pre l = true -> list_sum (map u_w l) = 0.
Proof. apply forallb_sum0. intros [[]| |]; cbn; congruence. Qed.
Lemma pre_sum_s l : forallb u_pre l = true -> list_sum (map u_s l) = 0.
Proof. apply forallb_sum0. intros [[]| |]; cbn; congruence. Qed.
Lemma r_pre_w r : r_pre r = true -> r_w r = 0.
Proof. destruct r as [| | | |[]| | | |]; cbn; congruence. Qed.
Lemma r_pre_s r : r_pre r = true -> r_s r = 0.
Proof. destruct r as [| | | |[]| | | |]; cbn; congruence. Qed.

Lemma inv0 d v : Inv (cfg0 d v).
Proof. constructor; cbn; intros; try congruence; try lia; auto. Qed.

(* ---------- preservation, one lemma per kind of op ---------- *)

Lemma inv_spawn g : Inv g -> Inv (exec SpawnClose g).
Proof.
  intros [H1 H2 H3 H4 H5 H6 HO HO2 H7 H8 H9 H10 H11 H12].
  destruct g as [c h r l]; cbn in *.
  constructor; cbn; auto.
  - intro E. destruct (H2 E) as (A & B & C & D). repeat split; auto.
    rewrite forallb_app, A. reflexivity.
  - intro E. specialize (H3 E). unfold sockers in *; cbn in *.
    rewrite map_app, list_sum_app_. cbn [map]. rewrite list_sum_one. cbn. lia.
  - unfold winners in *; cbn in *. rewrite map_app, list_sum_app_. cbn [map]. rewrite list_sum_one. cbn. lia.
Qed.

Lemma inv_env e g : Inv g -> Inv (exec (Env e) g).
Proof.
  intros [H1 H2 H3 H4 H5 H6 HO HO2 H7 H8 H9 H10 H11 H12].
  destruct g as [c h r l]. destruct c. cbn in *.
  destruct e; cbn.
  - (* ECallHandshake *)
    destruct h; cbn; try (constructor; cbn; auto; fail).
    destruct est; constructor; cbn in *; auto; congruence.
  - (* ENegDone *)
    destruct h; cbn; try (constructor; cbn; auto; fail).
    assert (installed = false) by auto. subst installed.
    destruct r; cbn in *; try discriminate.
    constructor; cbn in *; auto; try congruence.
  - (* EEstablish *)
    destruct installed; constructor; cbn in *; auto.
  - (* ERecvCN *)
    destruct r; cbn; try (constructor; cbn; auto; fail).
    destruct sock_closed; constructor; cbn in *; auto; try congruence.
  - (* ERecvFatal *)
    destruct h; cbn; destruct r; cbn; try (constructor; cbn in *; auto; congruence);
      destruct sock_closed; constructor; cbn in *; auto; try congruence; try lia.
  - (* ERecvOther *)
    destruct r; cbn; solve [constructor; cbn in *; auto; try congruence].
  - (* EFsmErr *)
    destruct installed; constructor; cbn in *; auto.
    intro E. destruct first_err; congruence.
  - constructor; cbn in *; auto.
  - constructor; cbn in *; auto.
  - constructor; cbn in *; auto.
  - constructor; cbn in *; auto.
  - (* ERecvHs *)
    destruct r; cbn; try (constructor; cbn; auto; fail).
    destruct sock_closed; constructor; cbn in *; auto; try congruence.
  - (* ERecvCNF *)
    destruct r; cbn; try (constructor; cbn; auto; fail).
    destruct sock_closed; constructor; cbn in *; auto; try congruence.
Qed.

Lemma inv_hs b g : Inv g -> Inv (exec (StepHs b) g).
Proof.
  intros [H1 H2 H3 H4 H5 H6 HO HO2 H7 H8 H9 H10 H11 H12].
  destruct g as [c h r l]. destruct c. cbn in *.
  destruct h as [| | | |x|x]; cbn.
  - constructor; cbn; auto.
  - (* HBegun *)
    assert (installed = false) by auto. subst installed.
    destruct r; cbn in *; try discriminate.
    destruct dual; constructor; cbn in *; auto; try congruence.
  - (* HNeg *)
    destruct hctx; [|destruct sock_closed]; constructor; cbn in *; auto.
  - (* HSelect *)
    destruct b; cbn.
    + destruct first_err; constructor; cbn in *; auto; congruence.
    + destruct hctx; constructor; cbn in *; auto.
    + destruct est; constructor; cbn in *; auto; congruence.
  - (* HWait *)
    destruct r; cbn; constructor; cbn in *; auto; try congruence.
  - constructor; cbn; auto.
Qed.

Lemma inv_reader g : Inv g -> Inv (exec StepReader g).
Proof.
  intros [H1 H2 H3 H4 H5 H6 HO HO2 H7 H8 H9 H10 H11 H12].
  destruct g as [c h r l]. destruct c. unfold winners, sockers in *. cbn in *.
  destruct r as [| | |k|p| | |f|]; cbn.
  - constructor; cbn; auto.
  - (* RRead *)
    destruct can_rd; [|destruct sock_closed]; constructor; unfold winners, sockers; cbn in *; auto;
      try congruence; try lia.
  - (* RReply *)
    destruct wr_blk, can_rd, sock_closed, cn_once; cbn;
      constructor; unfold winners, sockers; cbn in *; auto; try congruence; try lia.
  - (* RClassify *)
    destruct k; cbn; [| |destruct closed| |destruct est];
      constructor; unfold winners, sockers; cbn in *; auto; try congruence; try lia;
      try (intros _; destruct first_err; congruence).
  - (* RClose *)
    destruct p as [|w i|w i| |e| |]; cbn.
    + (* CLock *)
      destruct closed eqn:Ecl.
      * assert (Hw : negb (by_user || true) = false) by (destruct by_user; reflexivity).
        rewrite Hw. constructor; unfold winners, sockers; cbn in *; auto; try congruence; try lia.
      * destruct (H2 eq_refl) as (A & B & C & D).
        assert (by_user = false) by (destruct by_user; auto; specialize (H1 eq_refl); congruence).
        subst. cbn.
        pose proof (pre_sum_w _ A). pose proof (pre_sum_s _ A).
        constructor; unfold winners, sockers; cbn in *; auto; try congruence; try lia.
    + destruct i; constructor; unfold winners, sockers; cbn in *; auto; try congruence; try lia;
        intro E; specialize (H2 E); cbn in H2; destruct H2 as (? & ? & ?); discriminate.
    + destruct i, w; constructor; unfold winners, sockers; cbn in *; auto; try congruence; try lia;
        intro E; specialize (H2 E); cbn in H2; destruct H2 as (? & ? & ?); discriminate.
    + constructor; unfold winners, sockers; cbn in *; auto; try congruence; try lia;
        intro E; specialize (H2 E); cbn in H2; destruct H2 as (? & ? & ?); discriminate.
    + rewrite andb_false_r.
      constructor; unfold winners, sockers; cbn in *; auto; try congruence; try lia;
        intro E; specialize (H2 E); cbn in H2; destruct H2 as (? & ? & ?); discriminate.
    + assert (Ecl : closed = true).
      { destruct closed; auto. specialize (H2 eq_refl). cbn in H2. destruct H2 as (? & ? & ?); discriminate. }
      subst. specialize (H3 eq_refl).
      constructor; unfold winners, sockers; cbn in *; auto; try congruence; try lia.
    + constructor; unfold winners, sockers; cbn in *; auto; try congruence; try lia;
        intro E; specialize (H2 E); cbn in H2; destruct H2 as (? & ? & ?); discriminate.
  - (* RExit *)
    constructor; unfold winners, sockers; cbn in *; auto; try congruence; try lia.
  - constructor; cbn; auto.
  - (* RHand *)
    destruct f; constructor; unfold winners, sockers; cbn in *; auto; try congruence; try lia.
  - (* RReplyF *)
    destruct wr_blk, sock_closed, cn_once; cbn;
      constructor; unfold winners, sockers; cbn in *; auto; try congruence; try lia.
Qed.

Lemma inv_user i g : Inv g -> Inv (exec (StepUser i) g).
Proof.
  intros HI. pose proof HI as [H1 H2 H3 H4 H5 H6 HO HO2 H7 H8 H9 H10 H11 H12].
  destruct g as [c h r l]. cbn in *.
  destruct (nth_error l i) as [u|] eqn:En; [|exact HI].
  pose proof (upd_sum u_w l i u) as SW. pose proof (upd_sum u_s l i u) as SS.
  destruct c. unfold winners, sockers in *. cbn in *.
  assert (Hopen : closed = false -> u = UC CLock).
  { intro E. destruct (H2 E) as (A & _). pose proof (forallb_nth _ _ _ _ A En) as P.
    destruct u as [[]| |]; cbn in P; congruence. }
  destruct u as [p| |]; cbn.
  - destruct p as [|w j|w j| |e| |]; cbn.
    + (* CLock *)
      specialize (SW (UC (CCan1 (negb (by_user || closed)) installed)) En).
      specialize (SS (UC (CCan1 (negb (by_user || closed)) installed)) En).
      destruct closed eqn:Ecl.
      * assert (Hw : negb (by_user || true) = false) by (destruct by_user; reflexivity).
        rewrite Hw in *. cbn in *.
        constructor; unfold winners, sockers; cbn in *; auto; try congruence; try lia.
      * destruct (H2 eq_refl) as (A & B & C & D).
        assert (by_user = false) by (destruct by_user; auto; specialize (H1 eq_refl); congruence).
        subst. cbn in *.
        pose proof (pre_sum_w _ A). pose proof (pre_sum_s _ A).
        pose proof (r_pre_w _ B). pose proof (r_pre_s _ B).
        constructor; unfold winners, sockers; cbn in *; auto; try congruence; try lia.
    + specialize (SW (UC (CCan2 w j)) En). specialize (SS (UC (CCan2 w j)) En).
      assert (closed = true) by (destruct closed; auto; specialize (Hopen eq_refl); discriminate).
      subst. specialize (H3 eq_refl).
      destruct j, w; constructor; unfold winners, sockers; cbn in *; auto; try congruence; try lia.
    + assert (closed = true) by (destruct closed; auto; specialize (Hopen eq_refl); discriminate).
      subst. specialize (H3 eq_refl).
      destruct w.
      * specialize (SW (UC CEst) En). specialize (SS (UC CEst) En).
        destruct j; constructor; unfold winners, sockers; cbn in *; auto; try congruence; try lia.
      * specialize (SW (UC CRet) En). specialize (SS (UC CRet) En).
        destruct j; constructor; unfold winners, sockers; cbn in *; auto; try congruence; try lia.
    + specialize (SW (UC (CNotify est)) En). specialize (SS (UC (CNotify est)) En).
      assert (closed = true) by (destruct closed; auto; specialize (Hopen eq_refl); discriminate).
      subst. specialize (H3 eq_refl).
      constructor; unfold winners, sockers; cbn in *; auto; try congruence; try lia.
    + specialize (SW (UC CSock) En). specialize (SS (UC CSock) En).
      assert (closed = true) by (destruct closed; auto; specialize (Hopen eq_refl); discriminate).
      subst. specialize (H3 eq_refl). rewrite andb_true_r.
      destruct e, cn_once, wr_blk; constructor; unfold winners, sockers; cbn in *; auto; try congruence; try lia.
    + specialize (SW (UC CRet) En). specialize (SS (UC CRet) En).
      assert (closed = true) by (destruct closed; auto; specialize (Hopen eq_refl); discriminate).
      subst. specialize (H3 eq_refl).
      constructor; unfold winners, sockers; cbn in *; auto; try congruence; try lia.
    + assert (closed = true) by (destruct closed; auto; specialize (Hopen eq_refl); discriminate).
      subst. specialize (H3 eq_refl).
      destruct (h_mid h) eqn:Eh.
      * specialize (SW UWait En). specialize (SS UWait En).
        constructor; unfold winners, sockers; cbn in *; auto; try congruence; try lia.
      * specialize (SW UDone En). specialize (SS UDone En).
        constructor; unfold winners, sockers; cbn in *; auto; try congruence; try lia.
  - assert (closed = true) by (destruct closed; auto; specialize (Hopen eq_refl); discriminate).
    subst. specialize (H3 eq_refl).
    destruct (h_mid h) eqn:Eh.
    + specialize (SW UWait En). specialize (SS UWait En).
      constructor; unfold winners, sockers; cbn in *; auto; try congruence; try lia.
    + specialize (SW UDone En). specialize (SS UDone En).
      constructor; unfold winners, sockers; cbn in *; auto; try congruence; try lia.
  - assert (closed = true) by (destruct closed; auto; specialize (Hopen eq_refl); discriminate).
    subst. specialize (H3 eq_refl).
    specialize (SW UDone En). specialize (SS UDone En).
    constructor; unfold winners, sockers; cbn in *; auto; try congruence; try lia.
Qed.

Lemma inv_exec o g : Inv g -> Inv (exec o g).
Proof.
  destruct o; [apply inv_spawn|apply inv_user|apply inv_reader|apply inv_hs|apply inv_env].
Qed.

Lemma inv_run ops g : Inv g -> Inv (run ops g).
Proof. revert g; induction ops as [|o ops IH]; intros g H; cbn; auto using inv_exec. Qed.

Theorem inv_reachable d v ops : Inv (run ops (cfg0 d v)).
Proof. apply inv_run, inv0. Qed.

(* ================================================================== safety theorems *)

(* close() writes close_notify at most once, over every interleaving, any number of callers *)
Theorem cn_close_le1 d v ops : cn_close (cn (run ops (cfg0 d v))) <= 1.
Proof. pose proof (i_cn _ (inv_reachable d v ops)). lia. Qed.

Theorem cn_reply_le1 d v ops : cn_reply (cn (run ops (cfg0 d v))) <= 1.
Proof. pose proof (i_reply _ (inv_reachable d v ops)). lia. Qed.

(* nextConn.Close() is called at most once, and exactly once as soon as no close() activation
   that passed the early return is still under way *)
Theorem sock_closes_le1 d v ops : sock_closes (cn (run ops (cfg0 d v))) <= 1.
Proof.
  pose proof (inv_reachable d v ops) as I.
  destruct (closed (cn (run ops (cfg0 d v)))) eqn:E.
  - pose proof (i_sock _ I E). lia.
  - destruct (i_open _ I E) as (_ & _ & _ & H). lia.
Qed.

Theorem sock_closed_once_when_settled d v ops :
  let g := run ops (cfg0 d v) in
  closed (cn g) = true -> sockers g = 0 -> sock_closes (cn g) = 1 /\ sock_closed (cn g) = true.
Proof.
  intros g E S. pose proof (inv_reachable d v ops) as I. fold g in I.
  pose proof (i_sock _ I E). pose proof (i_sc _ I) as Hs. rewrite Hs.
  split; [lia|]. apply Nat.ltb_lt. lia.
Qed.

(* the witness of the two-record schedule: established connection, the peer's close_notify is
   read, the reply is written, the application's Close() runs its closeLock region before the
   read loop's close(false) does, and goes on to write its own close_notify. *)
Definition ops_established : list op :=
  [Env ECallHandshake; StepHs BEst; Env EEstablish; StepHs BEst].
Definition ops_two_close_notify : list op :=
  ops_established ++
  [Env ERecvCN; StepReader;                       (* reply written *)
   SpawnClose; StepUser 0;                        (* application Close(): closeLock region *)
   StepReader; StepReader;                        (* read loop: classify, close(false) loses *)
   StepUser 0; StepUser 0; StepUser 0; StepUser 0 (* cancels, established?, close_notify *)].

(* One endpoint writes close_notify at most once in total - the reply of the read loop and the
   close_notify of the application's Close() go through the same sync.Once - over every
   interleaving and any number of callers. *)
Theorem close_notify_total_le1 d v ops :
  let c := cn (run ops (cfg0 d v)) in cn_close c + cn_reply c <= 1.
Proof.
  cbn. pose proof (i_once _ (inv_reachable d v ops)) as H.
  destruct (cn_once (cn (run ops (cfg0 d v)))); lia.
Qed.

(* The schedule that used to put two records on the wire before sendCloseNotify existed
   (reply written, application Close() wins the closeLock region, goes on to its own
   close_notify step): now one record. *)
Example former_two_close_notify_schedule :
  let c := cn (run ops_two_close_notify (cfg0 false false)) in
  cn_close c = 0 /\ cn_reply c = 1 /\ cn_once c = true /\ closed c = true.
Proof. vm_compute. auto. Qed.

(* ---------- monotonicity facts used below ---------- *)

Definition total (c : conn) : nat := cn_close c + cn_reply c.
(* "if the Once is consumed then a record is on the wire" - unless the socket did not take it *)
Definition once_sent (c : conn) : Prop := cn_once c = true -> wr_blk c = false -> 1 <= total c.

Ltac mono :=
  cbn; unfold send_cn_close, send_cn_reply, once_sent, total;
  repeat match goal with
         | |- context [if ?b then _ else _] => destruct b eqn:?
         | |- context [match ?x with Some _ => _ | None => _ end] => destruct x eqn:?
         end;
  cbn; repeat split; auto; try congruence; try lia; intros; try congruence; try lia.

Lemma user_step_mono u c :
  let c' := snd (user_step u c) in
  est c' = est c /\ cn_close c <= cn_close c' /\ (closed c = true -> closed c' = true) /\
  total c <= total c' /\ (once_sent c -> once_sent c') /\ wr_blk c' = wr_blk c.
Proof.
  destruct u as [p| |]; [destruct p as [|w i|w i| |e| |]| |]; mono.
  all: unfold once_sent, total in *; cbn in *; try (specialize (H eq_refl)); try lia; auto.
Qed.

Lemma reader_step_mono r c :
  let c' := snd (reader_step r c) in
  est c' = est c /\ cn_close c <= cn_close c' /\ (closed c = true -> closed c' = true) /\
  total c <= total c' /\ (sock_closed c = false -> once_sent c -> once_sent c') /\ wr_blk c' = wr_blk c.
Proof.
  destruct r as [| | |k|p| | |f|]; [| | |destruct k|destruct p as [|w i|w i| |e| |]| | | |]; mono.
  all: unfold once_sent, total in *; cbn in *; try lia; auto.
  all: try (rewrite H, H2 in *; discriminate).
Qed.

Lemma hs_step_mono b h r c :
  let c' := snd (hs_step b h r c) in
  est c' = est c /\ cn_close c' = cn_close c /\ closed c' = closed c /\
  total c' = total c /\ cn_once c' = cn_once c /\ wr_blk c' = wr_blk c.
Proof.
  destruct h as [| | | |x|x]; [| | |destruct b|destruct r|]; mono.
Qed.

Lemma env_step_mono e g :
  let g' := env_step e g in
  (est (cn g) = true -> est (cn g') = true) /\ cn_close (cn g') = cn_close (cn g) /\
  closed (cn g') = closed (cn g) /\ us g' = us g /\
  total (cn g') = total (cn g) /\ cn_once (cn g') = cn_once (cn g) /\
  (wr_blk (cn g') = false -> wr_blk (cn g) = false).
Proof.
  destruct g as [c h r l]; destruct e; cbn;
    try (destruct h; cbn); try (destruct r; cbn); mono.
Qed.

(* ---------- exactly one close_notify on the wire when the application closes an established
   open connection ---------- *)

Lemma nth_le_sum {A} (f : A -> nat) l i u : nth_error l i = Some u -> f u <= list_sum (map f l).
Proof.
  revert i; induction l as [|a l IH]; intros [|i] H; cbn [nth_error map] in *; try discriminate;
    rewrite list_sum_cons_.
  - inversion H; subst. lia.
  - specialize (IH i H). lia.
Qed.

(* a record is on the wire - unless the socket did not take writes *)
Definition sent_or_blk (c : conn) : Prop := wr_blk c = false -> 1 <= total c.

Lemma sob_mono c c' :
  total c <= total c' -> (wr_blk c' = false -> wr_blk c = false) -> sent_or_blk c -> sent_or_blk c'.
Proof. unfold sent_or_blk. intros A B W X. specialize (W (B X)). lia. Qed.

Lemma once_sent_mono c c' :
  total c = total c' -> cn_once c' = cn_once c -> (wr_blk c' = false -> wr_blk c = false) ->
  once_sent c -> once_sent c'.
Proof. unfold once_sent. intros A B C W X Y. rewrite B in X. specialize (W X (C Y)). lia. Qed.

(* thread i went on past the early return of close(true) on an established connection *)
Definition won (i : nat) (g : cfg) : Prop :=
  est (cn g) = true /\
  match nth_error (us g) i with
  | Some (UC (CCan1 true _)) | Some (UC (CCan2 true _)) | Some (UC CEst)
  | Some (UC (CNotify true)) => once_sent (cn g)
  | Some (UC CSock) | Some (UC CRet) | Some UWait | Some UDone => sent_or_blk (cn g)
  | _ => False
  end.

(* while such a thread has not reached nextConn.Close() the socket is open *)
Lemma winner_sock_open i g u :
  Inv g -> nth_error (us g) i = Some u -> u_s u = 1 -> sock_closed (cn g) = false.
Proof.
  intros I N U.
  destruct (closed (cn g)) eqn:C.
  - pose proof (i_sock _ I C) as S. unfold sockers in S.
    pose proof (nth_le_sum u_s _ _ _ N) as L. rewrite (i_sc _ I).
    replace (sock_closes (cn g)) with 0 by lia. reflexivity.
  - destruct (i_open _ I C) as (_ & _ & _ & Z). rewrite (i_sc _ I), Z. reflexivity.
Qed.

Lemma won_exec i o g : Inv g -> won i g -> won i (exec o g).
Proof.
  intros HI [E W]. pose proof (winner_sock_open i g) as SO. specialize (SO).
  destruct g as [c h r l]. cbn in *.
  destruct o as [|j| |b|e]; cbn.
  - unfold won; cbn. split; auto.
    destruct (nth_error l i) eqn:En; [|contradiction].
    rewrite nth_error_app1; [rewrite En; auto|]. apply nth_error_Some. congruence.
  - destruct (nth_error l j) as [u|] eqn:Ej; [|split; auto].
    destruct (user_step u c) as [u' c'] eqn:Es.
    pose proof (user_step_mono u c) as M. rewrite Es in M. cbn in M.
    destruct M as (M1 & M2 & _ & M4 & M5 & M6).
    assert (SB : sent_or_blk c -> sent_or_blk c').
    { apply sob_mono; auto. rewrite M6. auto. }
    unfold won; cbn. split; [congruence|].
    destruct (Nat.eq_dec j i) as [->|Hne].
    + rewrite (upd_nth_same _ _ _ _ Ej). rewrite Ej in W.
      destruct u as [p| |]; cbn in Es.
      * destruct p as [|w k|w k| |e| |]; try contradiction.
        -- destruct w; try contradiction. inversion Es; subst. auto.
        -- destruct w; try contradiction. inversion Es; subst. auto.
        -- inversion Es; subst. rewrite E. auto.
        -- destruct e; try contradiction. inversion Es; subst. cbn.
           unfold send_cn_close, once_sent, sent_or_blk, total in *.
           destruct (cn_once c) eqn:O; cbn; [auto|]. intro B. rewrite B. lia.
        -- inversion Es; subst. auto.
        -- destruct (hs_open c); inversion Es; subst; auto.
      * destruct (hs_open c); inversion Es; subst; auto.
      * inversion Es; subst. auto.
    + rewrite (upd_nth_other _ _ _ _ Hne).
      destruct (nth_error l i) as [[[|[] ?|[] ?| |[]| |]| |]|]; auto.
  - destruct (reader_step r c) as [r' c'] eqn:Es.
    pose proof (reader_step_mono r c) as M. rewrite Es in M. cbn in M.
    destruct M as (M1 & M2 & _ & M4 & M5 & M6).
    assert (SB : sent_or_blk c -> sent_or_blk c').
    { apply sob_mono; auto. rewrite M6. auto. }
    unfold won; cbn. split; [congruence|].
    destruct (nth_error l i) as [[[|[] ?|[] ?| |[]| |]| |]|] eqn:En; auto;
      apply M5; auto; eapply SO; eauto.
  - destruct (hs_step b h r c) as [[h' r'] c'] eqn:Es.
    pose proof (hs_step_mono b h r c) as M. rewrite Es in M. cbn in M.
    destruct M as (M1 & _ & _ & M4 & M5 & M6).
    assert (SB : sent_or_blk c -> sent_or_blk c').
    { apply sob_mono; [lia|rewrite M6; auto]. }
    assert (OS : once_sent c -> once_sent c').
    { apply once_sent_mono; auto. rewrite M6. auto. }
    unfold won; cbn. split; [congruence|].
    destruct (nth_error l i) as [[[|[] ?|[] ?| |[]| |]| |]|] eqn:En; auto.
  - pose proof (env_step_mono e (mkCfg c h r l)) as M. cbn in M.
    destruct M as (M1 & _ & _ & M4 & M5 & M6 & M7).
    assert (SB : sent_or_blk c -> sent_or_blk (cn (env_step e (mkCfg c h r l)))).
    { apply sob_mono; [lia|auto]. }
    assert (OS : once_sent c -> once_sent (cn (env_step e (mkCfg c h r l)))).
    { apply once_sent_mono; auto. }
    unfold won. split; [auto|]. rewrite M4. cbn.
    destruct (nth_error l i) as [[[|[] ?|[] ?| |[]| |]| |]|] eqn:En; auto.
Qed.

Lemma won_run i ops g : Inv g -> won i g -> won i (run ops g).
Proof.
  revert g; induction ops as [|o ops IH]; intros g I H; cbn; auto.
  apply IH; [apply inv_exec, I|apply won_exec; auto].
Qed.

(* A Close() that starts on an established, not yet closed connection and returns, on a socket that
   took writes all along: exactly one close_notify record of this endpoint is on the wire - its
   own, or the read loop's reply to the peer's close_notify if that got to the sync.Once first.
   (Without the premise the write of close() is abandoned after closeNotifyTimeout: see
   close_with_blocked_socket below.) *)
Theorem sent_when_user_closes_established_open d v ops1 ops2 i :
  let g1 := run ops1 (cfg0 d v) in
  est (cn g1) = true -> closed (cn g1) = false -> nth_error (us g1) i = Some (UC CLock) ->
  let g2 := run (StepUser i :: ops2) g1 in
  nth_error (us g2) i = Some UDone -> wr_blk (cn g2) = false ->
  cn_close (cn g2) + cn_reply (cn g2) = 1.
Proof.
  intros g1 E C N g2 D WB.
  pose proof (inv_reachable d v ops1) as I1. fold g1 in I1.
  assert (B : by_user (cn g1) = false).
  { destruct (by_user (cn g1)) eqn:B; auto. pose proof (i_user _ I1 B). congruence. }
  assert (O : once_sent (cn g1)).
  { intros O1 W1. unfold total. destruct (i_once2 _ I1 O1) as [X|[X|X]]; [exact X| |congruence].
    (* the socket of a connection that is not closed has never been closed *)
    destruct (i_open _ I1 C) as (_ & _ & _ & Z). rewrite (i_sc _ I1), Z in X. discriminate. }
  assert (W : won i (exec (StepUser i) g1)).
  { clear D WB g2. destruct g1 as [c h r l]. cbn in *. rewrite N. cbn. rewrite B, C. cbn.
    unfold won; cbn. split; [exact E|]. rewrite (upd_nth_same _ _ _ _ N). exact O. }
  pose proof (won_run i ops2 _ (inv_exec _ _ I1) W) as [_ W2].
  unfold g2 in D, WB. cbn [run] in D, WB. rewrite D in W2. specialize (W2 WB).
  assert (I2 : Inv (run ops2 (exec (StepUser i) g1))) by (apply inv_run, inv_exec, I1).
  pose proof (i_once _ I2) as X. unfold g2. cbn [run]. unfold total in W2.
  destruct (cn_once (cn (run ops2 (exec (StepUser i) g1)))); lia.
Qed.

(* ---------- close_notify from close() only for an application Close() on an established
   connection ---------- *)

Definition u_est_ok (e : bool) (u : upc) : bool :=
  match u with UC (CNotify true) => e | _ => true end.

Record Inv2 (g : cfg) : Prop := mkInv2 {
  j_notify : forallb (u_est_ok (est (cn g))) (us g) = true;
  j_cn : 1 <= cn_close (cn g) -> by_user (cn g) = true /\ est (cn g) = true;
  j_past : forallb (fun u => implb (negb (u_pre u)) (by_user (cn g))) (us g) = true
}.

Lemma forallb_impl {A} (p q : A -> bool) l :
  (forall x, p x = true -> q x = true) -> forallb p l = true -> forallb q l = true.
Proof.
  intros H; induction l as [|a l IH]; cbn; auto. intro E.
  apply andb_true_iff in E as [E1 E2]. rewrite (H _ E1), IH; auto.
Qed.

Lemma inv2_exec o g : Inv2 g -> Inv2 (exec o g).
Proof.
  intros [J1 J2 J3]. destruct g as [c h r l]. cbn in *.
  destruct o as [|i| |b|e]; cbn.
  - constructor; cbn; auto; rewrite forallb_app; cbn.
    + rewrite J1. destruct (est c); reflexivity.
    + rewrite J3. reflexivity.
  - destruct (nth_error l i) as [u|] eqn:En; [|constructor; auto].
    pose proof (forallb_nth _ _ _ _ J1 En) as P1. pose proof (forallb_nth _ _ _ _ J3 En) as P3.
    destruct u as [p| |]; [destruct p as [|w k|w k| |e| |]| |]; cbn in *.
    1: { constructor; cbn; auto.
      * apply forallb_upd; auto.
      * intro H. destruct (J2 H) as [-> ->]. auto.
      * apply forallb_upd; cbn; [|rewrite orb_true_r; reflexivity].
        eapply forallb_impl; [|exact J3]. intros x. destruct (u_pre x); cbn; auto.
        intros _. apply orb_true_r. }
    all: rewrite ?andb_true_r; unfold send_cn_close;
      repeat match goal with |- context [if ?b then _ else _] => destruct b eqn:? end;
      constructor; cbn in *; auto; try (apply forallb_upd; auto);
      try exact J2; try (intros _; split; [exact P3|exact P1]);
      try (cbn; destruct (est c); reflexivity).
  - destruct r as [| | |k|p| | |f|]; [| | |destruct k|destruct p as [|w i|w i| |e| |]| | | |]; cbn;
      rewrite ?andb_false_r; unfold send_cn_reply;
      repeat match goal with
             | |- context [if ?b then _ else _] => destruct b eqn:?
             end; constructor; cbn in *; auto; try congruence.
    all: try (eapply forallb_impl; [|exact J3]; intros x; destruct (u_pre x); cbn; auto;
              intros ->; apply orb_true_l).
    all: try (rewrite orb_false_r; auto).
    all: try (intro H'; destruct (J2 H'); split; auto; congruence).
  - destruct h as [| | | |x|x]; [| | |destruct b|destruct r|]; cbn;
      repeat match goal with
             | |- context [if ?b then _ else _] => destruct b eqn:?
             | |- context [match ?x with Some _ => _ | None => _ end] => destruct x eqn:?
             end; constructor; cbn in *; auto.
    all: try (rewrite Heqb; exact J1).
    all: try (intro H'; destruct (J2 H'); split; auto; congruence).
  - destruct e; cbn; try (destruct h; cbn); try (destruct r; cbn);
      repeat match goal with
             | |- context [if ?b then _ else _] => destruct b eqn:?
             end; constructor; cbn in *; auto.
    all: try (eapply forallb_impl; [|exact J1]; intros [[| | | |[]| |]| |]; cbn; auto; congruence).
    all: intros H; destruct (J2 H); split; auto; congruence.
Qed.

Lemma inv2_run ops g : Inv2 g -> Inv2 (run ops g).
Proof. revert g; induction ops as [|o ops IH]; intros g H; cbn; auto using inv2_exec. Qed.

Theorem cn_close_only_user_established d v ops :
  let c := cn (run ops (cfg0 d v)) in
  1 <= cn_close c -> by_user c = true /\ est c = true /\ closed c = true.
Proof.
  cbn. intro H.
  assert (J : Inv2 (run ops (cfg0 d v))).
  { apply inv2_run. constructor; cbn; auto. lia. }
  destruct (j_cn _ J H) as [A B]. repeat split; auto.
  apply (i_user _ (inv_reachable d v ops) A).
Qed.

(* ================================================================== idempotence *)

(* what the API, the wire and the peer can observe of a connection *)
Definition obs (c : conn) :=
  (closed c, est c, sock_closed c, sock_closes c, cn_close c, cn_reply c, first_err c,
   dec_closed c, hs_open c).

(* A Close() that starts on a closed connection (any reachable configuration, other threads at
   any program point) performs four atomic steps - closeLock region, the two cancel calls,
   read of handshakeDone - returns nil (or waits for the running HandshakeContext, then
   returns nil) and changes nothing observable: no record, no second nextConn.Close(). *)
Theorem close_idempotent g i :
  closed (cn g) = true -> nth_error (us g) i = Some (UC CLock) ->
  let g' := run [StepUser i; StepUser i; StepUser i; StepUser i] g in
  obs (cn g') = obs (cn g) /\ hs g' = hs g /\ rd g' = rd g /\
  nth_error (us g') i = Some (if hs_open (cn g) then UWait else UDone) /\
  (forall j, j <> i -> nth_error (us g') j = nth_error (us g) j).
Proof.
  intros C N. destruct g as [c h r l]. cbn in C, N.
  cbn [run exec us cn hs rd]. rewrite N. cbn [user_step close_step].
  rewrite C, orb_true_r. cbn [negb].
  cbn [us cn hs rd]. rewrite (upd_nth_same _ _ _ _ N). cbn [user_step close_step].
  cbn [us cn hs rd].
  rewrite (upd_nth_same _ _ (UC (CCan1 false (installed c))) (UC (CCan2 false (installed c))))
    by (eapply upd_nth_same; eauto).
  cbn [user_step close_step us cn hs rd].
  match goal with |- context [nth_error ?L i] =>
    assert (E3 : nth_error L i = Some (UC CRet))
  end.
  { eapply upd_nth_same. eapply upd_nth_same. eapply upd_nth_same. eauto. }
  rewrite E3. cbn [user_step].
  destruct c; cbn in *. subst.
  destruct installed, hs_open; cbn; repeat split; auto;
    try (erewrite upd_nth_same; [reflexivity|];
         eapply upd_nth_same; eapply upd_nth_same; eapply upd_nth_same; eauto);
    intros j Hj; rewrite !upd_nth_other by auto; reflexivity.
Qed.

(* on a settled closed connection (cancel functions already called, closed by the application)
   a further Close() leaves the whole connection state as it is *)
Theorem close_idempotent_settled g i :
  closed (cn g) = true -> by_user (cn g) = true -> can_hs (cn g) = true -> can_rd (cn g) = true ->
  nth_error (us g) i = Some (UC CLock) ->
  cn (run [StepUser i; StepUser i; StepUser i; StepUser i] g) = cn g.
Proof.
  intros C B H1 H2 N. destruct g as [c h r l]. cbn in C, B, H1, H2, N.
  cbn [run exec us cn hs rd]. rewrite N. cbn [user_step close_step].
  rewrite C, orb_true_r. cbn [negb us cn hs rd].
  rewrite (upd_nth_same _ _ _ _ N). cbn [user_step close_step us cn hs rd].
  rewrite (upd_nth_same _ _ (UC (CCan1 false (installed c))) (UC (CCan2 false (installed c))))
    by (eapply upd_nth_same; eauto).
  cbn [user_step close_step us cn hs rd].
  match goal with |- context [nth_error ?L i] =>
    assert (E3 : nth_error L i = Some (UC CRet))
  end.
  { eapply upd_nth_same. eapply upd_nth_same. eapply upd_nth_same. eauto. }
  rewrite E3. cbn [user_step].
  destruct c; cbn in *. subst. destruct installed, hs_open; reflexivity.
Qed.

(* ================================================================== wake conditions *)

(* Read: the select is ready as soon as closed holds, and without an expired read deadline
   every ready branch yields io.EOF *)
Theorem read_unblocks c :
  closed c = true ->
  In KEof (read_ready c) /\
  (rd_dl c = false -> forall k, In k (read_ready c) -> k = KEof).
Proof.
  intro C. unfold read_ready. rewrite C. split; [left; reflexivity|].
  intros D k. rewrite D. cbn. destruct (dec_closed c); cbn; intuition.
Qed.

(* Write (DTLS 1.2 and 1.3): ready as soon as closed holds; without an expired write deadline
   every ready branch yields a closed-class error (ErrConnClosed / net closed) *)
Theorem write_unblocks c :
  closed c = true ->
  In KClosed (write_ready c) /\
  (wr_dl c = false -> forall k, In k (write_ready c) -> close_class k = true).
Proof.
  intros C. unfold write_ready. rewrite C. cbn. split; [left; reflexivity|].
  intros D k. rewrite D. cbn. destruct (sock_closed c); cbn; intuition; subst; reflexivity.
Qed.

(* HandshakeContext: the result classes after close; the select itself is woken by the read
   loop's firstErr (see no_deadlock / close_returns below) *)
Theorem handshake_result_after_close_class r :
  In (hres_class false r) [KOk; KCanceled; KNetClosed; KAlert; KOther; KClosed].
Proof. destruct r as [|[]| |]; cbn; intuition. Qed.

(* ================================================================== deadlock freedom *)

Definition pending (g : cfg) : bool := closed (cn g) || negb (forallb u_done (us g)).

Lemma exists_not_done l :
  forallb u_done l = false -> exists i u, nth_error l i = Some u /\ u_done u = false.
Proof.
  induction l as [|a l IH]; cbn; [discriminate|].
  destruct (u_done a) eqn:E; cbn.
  - intro H. destruct (IH H) as (i & u & A & B). exists (S i), u. auto.
  - intros _. exists 0, a. auto.
Qed.

Lemma no_uc_sum_s l :
  forallb (fun u => match u with UC _ => false | _ => true end) l = true ->
  list_sum (map u_s l) = 0.
Proof. apply forallb_sum0. intros [p| |]; cbn; congruence. Qed.

Lemma find_uc l :
  forallb (fun u => match u with UC _ => false | _ => true end) l = false ->
  exists i p, nth_error l i = Some (UC p).
Proof.
  induction l as [|a l IH]; cbn; [discriminate|].
  destruct a as [p| |]; cbn.
  - intros _. exists 0, p. reflexivity.
  - intro H. destruct (IH H) as (i & p & E). exists (S i), p. exact E.
  - intro H. destruct (IH H) as (i & p & E). exists (S i), p. exact E.
Qed.

Lemma find_wait l :
  forallb (fun u => match u with UC _ => false | _ => true end) l = true ->
  forallb u_done l = false -> exists i, nth_error l i = Some UWait.
Proof.
  induction l as [|a l IH]; cbn; [discriminate|].
  destruct a as [p| |]; cbn; try discriminate.
  - intros _ _. exists 0. reflexivity.
  - intros A B. destruct (IH A B) as (i & E). exists (S i). exact E.
Qed.

(* Every reachable configuration in which a Close() is under way or the connection is closed,
   and which is not yet quiet (some Close() has not returned, or the read loop or the
   HandshakeContext call is still there), has an enabled internal step: no such configuration
   is a deadlock. *)
Theorem no_deadlock g :
  Inv g -> pending g = true -> quiet g = false ->
  exists o, internal o = true /\ op_enabled o g = true.
Proof.
  intros I P Q. destruct g as [c h r l]. unfold pending, quiet in *. cbn in *.
  destruct (forallb (fun u => match u with UC _ => false | _ => true end) l) eqn:EU.
  2:{ destruct (find_uc _ EU) as (i & p & E). exists (StepUser i). cbn. rewrite E. auto. }
  (* no closer inside close(): all are waiting or done *)
  assert (Cl : closed c = true).
  { destruct (closed c) eqn:Ec; auto. cbn in P. apply negb_true_iff in P.
    destruct (find_wait _ EU P) as (i & E).
    destruct (i_open _ I Ec) as (A & _). cbn in A.
    pose proof (forallb_nth _ _ _ _ A E) as X. discriminate. }
  destruct r as [| | |k|p| | |f|] eqn:Er;
    try (exists StepReader; cbn; auto; fail).
  - (* RNone *)
    pose proof (i_rd _ I) as Hrd. cbn in Hrd.
    destruct h as [| | | |x|x] eqn:Eh.
    + (* HIdle *) cbn in Q. rewrite !andb_true_r in Q.
      destruct (find_wait _ EU Q) as (i & E). exists (StepUser i). cbn. rewrite E. cbn.
      pose proof (i_hsopen _ I) as Ho. cbn in Ho. rewrite Ho. auto.
    + exists (StepHs BErr). cbn. auto.
    + (* HNeg *) exists (StepHs BErr). cbn. split; auto.
      pose proof (i_sock _ I Cl) as S. unfold sockers in S. cbn in S.
      rewrite (no_uc_sum_s _ EU) in S. pose proof (i_sc _ I) as Sc. cbn in Sc.
      rewrite Sc. replace (sock_closes c) with 1 by lia. apply orb_true_r.
    + pose proof (i_run _ I eq_refl) as X. cbn in X. rewrite X in Hrd. discriminate.
    + pose proof (i_run _ I eq_refl) as X. cbn in X. rewrite X in Hrd. discriminate.
    + (* HRet *) cbn in Q. rewrite !andb_true_r in Q.
      destruct (find_wait _ EU Q) as (i & E). exists (StepUser i). cbn. rewrite E. cbn.
      pose proof (i_hsopen _ I) as Ho. cbn in Ho. rewrite Ho. auto.
  - (* RRead: the socket has been closed *)
    exists StepReader. cbn. split; auto.
    pose proof (i_sock _ I Cl) as S. unfold sockers in S. cbn in S.
    rewrite (no_uc_sum_s _ EU) in S. pose proof (i_sc _ I) as Sc. cbn in Sc.
    rewrite Sc. replace (sock_closes c) with 1 by lia. apply orb_true_r.
  - (* RReply on a socket that does not take writes: the socket has been closed *)
    exists StepReader. cbn. split; auto.
    pose proof (i_sock _ I Cl) as S. unfold sockers in S. cbn in S.
    rewrite (no_uc_sum_s _ EU) in S. pose proof (i_sc _ I) as Sc. cbn in Sc.
    rewrite Sc. replace (sock_closes c) with 1 by lia. apply orb_true_r.
  - (* RDone *)
    pose proof (i_ferr _ I eq_refl) as Fe. cbn in Fe.
    destruct h as [| | | |x|x] eqn:Eh.
    + cbn in Q. rewrite !andb_true_r in Q.
      destruct (find_wait _ EU Q) as (i & E). exists (StepUser i). cbn. rewrite E. cbn.
      pose proof (i_hsopen _ I) as Ho. cbn in Ho. rewrite Ho. auto.
    + exists (StepHs BErr). cbn. auto.
    + pose proof (i_pre _ I eq_refl) as X. pose proof (i_rd _ I) as Y. cbn in X, Y. congruence.
    + exists (StepHs BErr). cbn. destruct (first_err c); auto; congruence.
    + exists (StepHs BErr). cbn. auto.
    + cbn in Q. rewrite !andb_true_r in Q.
      destruct (find_wait _ EU Q) as (i & E). exists (StepUser i). cbn. rewrite E. cbn.
      pose proof (i_hsopen _ I) as Ho. cbn in Ho. rewrite Ho. auto.
Qed.

(* every enabled internal step strictly decreases the measure: internal activity is finite *)
Theorem enabled_decreases o g :
  internal o = true -> op_enabled o g = true -> mu (exec o g) < mu g.
Proof.
  destruct g as [c h r l]. destruct o as [|i| |b|e]; cbn; try discriminate; intros _.
  - destruct (nth_error l i) as [u|] eqn:E; [|discriminate].
    intro En. pose proof (upd_sum rank_u l i u) as S.
    destruct u as [p| |]; cbn in En.
    + destruct p as [|w k|w k| |e| |]; cbn.
      * specialize (S (UC (CCan1 (negb (by_user c || closed c)) (installed c))) E).
        unfold mu; cbn in *. lia.
      * specialize (S (UC (CCan2 w k)) E). destruct k; unfold mu; cbn in *; lia.
      * destruct w.
        -- specialize (S (UC CEst) E). destruct k; unfold mu; cbn in *; lia.
        -- specialize (S (UC CRet) E). destruct k; unfold mu; cbn in *; lia.
      * specialize (S (UC (CNotify (est c))) E). unfold mu; cbn in *; lia.
      * specialize (S (UC CSock) E). destruct (e && true); unfold mu; cbn in *; lia.
      * specialize (S (UC CRet) E). unfold mu; cbn in *; lia.
      * destruct (hs_open c).
        -- specialize (S UWait E). unfold mu; cbn in *; lia.
        -- specialize (S UDone E). unfold mu; cbn in *; lia.
    + apply negb_true_iff in En. cbn. rewrite En. specialize (S UDone E). unfold mu; cbn in *; lia.
    + discriminate.
  - destruct r as [| | |k|p| | |f|]; cbn; try discriminate.
    + intro En. destruct (can_rd c); [unfold mu; cbn; lia|].
      cbn in En. rewrite En. unfold mu; cbn; lia.
    + intro En. destruct (wr_blk c), (can_rd c), (sock_closed c); cbn in *; try discriminate;
        unfold mu; cbn; lia.
    + intros _. destruct k; cbn; try destruct (closed c); try destruct (est c); unfold mu; cbn; lia.
    + intros _. destruct p as [|w k|w k| |e| |]; cbn; try destruct k; try destruct w;
        try destruct (e && false); unfold mu; cbn; lia.
    + intros _. unfold mu; cbn; lia.
    + intros _. unfold mu; cbn; lia.
    + intros _. unfold mu; cbn; lia.
  - destruct h as [| | | |x|x]; cbn; try discriminate.
    + intros _. destruct (dual c); unfold mu; cbn; [lia|].
      destruct r as [| | |k|p| | |f|]; cbn; try lia; try (destruct k; lia); try (destruct p; cbn; lia).
    + intro En. destruct (hctx c); [unfold mu; cbn; lia|].
      cbn in En. rewrite En. unfold mu; cbn; lia.
    + destruct b.
      * destruct (first_err c); [intros _; unfold mu; cbn; lia|discriminate].
      * intro En. rewrite En. unfold mu; cbn; lia.
      * intro En. rewrite En. unfold mu; cbn; lia.
    + destruct r; try discriminate. intros _. unfold mu; cbn; lia.
Qed.

Lemma pending_step o g :
  Inv g -> internal o = true -> pending g = true -> pending (exec o g) = true.
Proof.
  intros I Io P. unfold pending in *.
  destruct (closed (cn g)) eqn:C.
  - assert (closed (cn (exec o g)) = true); [|rewrite H; reflexivity].
    destruct g as [c h r l]. destruct o as [|i| |b|e]; cbn in *; try discriminate.
    + destruct (nth_error l i) as [u|]; auto.
      pose proof (user_step_mono u c) as M. destruct (user_step u c). cbn in *. tauto.
    + pose proof (reader_step_mono r c) as M. destruct (reader_step r c). cbn in *. tauto.
    + pose proof (hs_step_mono b h r c) as M. destruct (hs_step b h r c) as [[? ?] ?]. cbn in *.
      destruct M as (_ & _ & M & _). congruence.
  - cbn in P. destruct g as [c h r l]. cbn in *.
    destruct (i_open _ I C) as (A & _). cbn in A.
    destruct o as [|i| |b|e]; cbn in *; try discriminate.
    + destruct (nth_error l i) as [u|] eqn:E; [|cbn; rewrite C; auto].
      pose proof (forallb_nth _ _ _ _ A E) as X. destruct u as [[]| |]; try discriminate. cbn. reflexivity.
    + destruct (reader_step r c) as [r' c']. cbn. rewrite P. apply orb_true_r.
    + destruct (hs_step b h r c) as [[h' r'] c']. cbn. rewrite P. apply orb_true_r.
Qed.

(* Close() returns and no goroutine is left behind: from every reachable configuration in
   which a Close() is under way (or the connection is closed) the internal steps alone - no
   help from the peer or the application - lead to a quiet configuration; together with
   [no_deadlock] and [enabled_decreases] every maximal internal run does. *)
Theorem close_returns g :
  Inv g -> pending g = true ->
  exists ops, Forall (fun o => internal o = true) ops /\ quiet (run ops g) = true /\
              length ops <= mu g.
Proof.
  remember (mu g) as n eqn:En. revert g En.
  induction n as [n IH] using lt_wf_ind. intros g En I P.
  destruct (quiet g) eqn:Q.
  - exists []. cbn. repeat split; auto. lia.
  - destruct (no_deadlock g I P Q) as (o & Io & Eo).
    pose proof (enabled_decreases o g Io Eo) as D.
    destruct (IH (mu (exec o g)) ltac:(lia) (exec o g) eq_refl (inv_exec o g I)
                 (pending_step o g I Io P)) as (ops & F & Qf & L).
    exists (o :: ops). cbn. repeat split; auto. lia.
Qed.

Corollary close_returns_reachable d v ops :
  let g := run ops (cfg0 d v) in
  pending g = true ->
  exists ops', Forall (fun o => internal o = true) ops' /\ quiet (run ops' g) = true.
Proof.
  intros g P. destruct (close_returns g (inv_reachable d v ops) P) as (o & A & B & _). eauto.
Qed.

(* in a quiet closed configuration the socket is closed exactly once and every Close() got nil *)
Theorem quiet_closed_settled g :
  Inv g -> closed (cn g) = true -> quiet g = true ->
  sock_closes (cn g) = 1 /\ sock_closed (cn g) = true /\ forallb u_done (us g) = true.
Proof.
  intros I C Q. unfold quiet in Q. apply andb_true_iff in Q as [Q Q3]. apply andb_true_iff in Q as [Q1 Q2].
  pose proof (i_sock _ I C) as S. unfold sockers in S.
  assert (list_sum (map u_s (us g)) = 0).
  { apply (forallb_sum0 u_done); auto. intros [| |]; cbn; congruence. }
  assert (r_s (rd g) = 0) by (destruct (rd g); cbn in *; auto; discriminate).
  pose proof (i_sc _ I) as Sc. rewrite Sc. replace (sock_closes (cn g)) with 1 by lia. auto.
Qed.

(* ================================================================== alerts close like Close() *)

(* an established, open, idle connection: handshake returned, read loop blocked in the socket *)
Definition open_established (g : cfg) : Prop :=
  closed (cn g) = false /\ by_user (cn g) = false /\ est (cn g) = true /\ hs_open (cn g) = false /\
  installed (cn g) = true /\ can_hs (cn g) = false /\ can_rd (cn g) = false /\
  sock_closed (cn g) = false /\ sock_closes (cn g) = 0 /\ cn_close (cn g) = 0 /\
  cn_reply (cn g) = 0 /\ cn_once (cn g) = false /\ first_err (cn g) = None /\ dec_closed (cn g) = false /\
  wr_blk (cn g) = false /\
  hs g = HRet HOk /\ rd g = RRead /\ us g = [].

Definition run_user_close : list op :=
  SpawnClose :: repeat (StepUser 0) 7 ++ repeat StepReader 3.
Definition run_recv_fatal : list op := Env ERecvFatal :: repeat StepReader 10.
Definition run_recv_close_notify : list op := Env ERecvCN :: repeat StepReader 11.

(* everything except who closed, the close_notify counters and the recorded first error *)
Definition strip (c : conn) : conn :=
  mkConn (closed c) false (est c) (hs_open c) (installed c) (can_hs c) (can_rd c)
    (sock_closed c) (sock_closes c) 0 0 false None (dec_closed c)
    (rd_dl c) (wr_dl c) (hctx c) (wr_blk c) (dual c) (v13 c).

Definition oe_cfg (a b c d e : bool) : cfg :=
  mkCfg (mkConn false false true false true false false false 0 0 0 false None false a b c false d e)
        (HRet HOk) RRead [].

Lemma open_established_shape g :
  open_established g -> exists a b c d e, g = oe_cfg a b c d e.
Proof.
  intros (H1 & H2 & H3 & H4 & H5 & H6 & H7 & H8 & H9 & H10 & H11 & H11b & H12 & H13 & H13b & H14 & H15 & H16).
  destruct g as [c h r l]. destruct c as [f1 f2 f3 f4 f5 f6 f7 f8 f9 f10 f11 f11b f12 f13 f14 f15 f16 f16b f17 f18].
  unfold cn, hs, rd, us, closed, by_user, est, hs_open, installed, can_hs, can_rd, sock_closed,
    sock_closes, cn_close, cn_reply, cn_once, first_err, dec_closed, wr_blk in *.
  subst. exists f14, f15, f16, f17, f18. reflexivity.
Qed.

Theorem alert_closes_like_user g :
  open_established g ->
  let gu := run run_user_close g in
  let gf := run run_recv_fatal g in
  let gc := run run_recv_close_notify g in
  strip (cn gu) = strip (cn gf) /\ strip (cn gf) = strip (cn gc) /\
  closed (cn gf) = true /\ sock_closes (cn gf) = 1 /\ dec_closed (cn gf) = true /\
  quiet gu = true /\ quiet gf = true /\ quiet gc = true /\
  (* the differences: who closed, and which close_notify went out *)
  by_user (cn gu) = true /\ by_user (cn gf) = false /\ by_user (cn gc) = false /\
  (cn_close (cn gu), cn_reply (cn gu)) = (1, 0) /\
  (cn_close (cn gf), cn_reply (cn gf)) = (0, 0) /\
  (cn_close (cn gc), cn_reply (cn gc)) = (0, 1) /\
  (* a blocked Read is woken with io.EOF in all three *)
  In KEof (read_ready (cn gu)) /\ In KEof (read_ready (cn gf)) /\ In KEof (read_ready (cn gc)).
Proof.
  intro H. destruct (open_established_shape g H) as (a & b & c & d & e & ->).
  vm_compute. repeat split; auto.
Qed.

(* ================================================================== who cancelled *)

Definition h_late (h : hpc) : bool := match h with HWait _ | HRet _ => true | _ => false end.

(* ctxRead is cancelled by close() (then the connection is closed) or by handshake() itself once
   its select has fired; context.Canceled reaches firstErr only from the read loop *)
Record Inv3 (g : cfg) : Prop := mkInv3 {
  k_can : can_rd (cn g) = true -> closed (cn g) = true \/ h_late (hs g) = true;
  k_rc : rd g = RClassify RCanceled -> closed (cn g) = true \/ h_late (hs g) = true;
  k_fe : first_err (cn g) = Some RCanceled -> closed (cn g) = true \/ h_late (hs g) = true;
  k_w : hs g = HWait (HErr RCanceled) -> closed (cn g) = true;
  k_wc : hs g = HWait HCtx -> hctx (cn g) = true;
  k_r : hs g = HRet (HErr RCanceled) -> hctx (cn g) = true;
  k_rx : hs g = HRet HCtx -> hctx (cn g) = true
}.

Lemma inv3_0 d v : Inv3 (cfg0 d v).
Proof. constructor; cbn; intros; discriminate. Qed.

Ltac k3 :=
  constructor; cbn in *; intros;
  repeat match goal with
         | H : _ = true -> _ |- _ => specialize (H eq_refl)
         | H : ?x = ?x -> _ |- _ => specialize (H eq_refl)
         end;
  try discriminate; try congruence; auto; try tauto.

Ltac fin :=
  repeat match goal with H : ?x = ?x -> _ |- _ => specialize (H eq_refl) end;
  try tauto; try (intuition congruence).

Lemma inv3_exec o g : Inv g -> Inv3 g -> Inv3 (exec o g).
Proof.
  intros I [K1 K2 K3 K4 K5 K6 K7]. destruct g as [c h r l]. cbn in *.
  destruct o as [|i| |b|e]; cbn.
  - constructor; cbn; auto.
  - destruct (nth_error l i) as [u|] eqn:En; [|constructor; auto].
    assert (Hopen : closed c = false -> u = UC CLock).
    { intro E. destruct (i_open _ I E) as (A & _). cbn in A.
      pose proof (forallb_nth _ _ _ _ A En) as P. destruct u as [[]| |]; cbn in P; congruence. }
    destruct u as [p| |]; [destruct p as [|w k|w k| |e| |]| |]; cbn.
    + constructor; cbn; auto.
    + destruct k; constructor; cbn; auto.
    + assert (closed c = true) by (destruct (closed c); auto; specialize (Hopen eq_refl); discriminate).
      destruct k, w; constructor; cbn; auto.
    + constructor; cbn; auto.
    + unfold send_cn_close. destruct (e && true), (cn_once c); constructor; cbn; auto.
    + constructor; cbn; auto.
    + destruct (hs_open c); constructor; cbn; auto.
    + destruct (hs_open c); constructor; cbn; auto.
    + constructor; cbn; auto.
  - destruct r as [| | |k|p| | |f|]; cbn.
    + constructor; cbn; auto.
    + destruct (can_rd c) eqn:Ec; [|destruct (sock_closed c)]; constructor; cbn; auto;
        intros; try discriminate; try congruence; auto; fin.
    + unfold send_cn_reply.
      destruct (wr_blk c && negb (can_rd c || sock_closed c)); [constructor; cbn; auto; try discriminate; try congruence; fin|].
      destruct (cn_once c); constructor; cbn; auto; try discriminate; try congruence; fin.
    + destruct k; cbn; [| |destruct (closed c) eqn:Ecl| |destruct (est c)];
        constructor; cbn; auto; try discriminate;
        unfold put_first_err; cbn; destruct (first_err c) eqn:Ef; intros; try discriminate; try congruence; auto; fin.
    + assert (Hopen : closed c = false -> p = CLock).
      { intro E. destruct (i_open _ I E) as (_ & B & _). cbn in B. destruct p; try discriminate. reflexivity. }
      destruct p as [|w k|w k| |e| |]; cbn.
      * constructor; cbn; auto; try discriminate; try congruence; fin.
      * destruct k; constructor; cbn; auto; try discriminate; try congruence; fin.
      * assert (closed c = true) by (destruct (closed c); auto; specialize (Hopen eq_refl); discriminate).
        destruct k, w; constructor; cbn; auto; try discriminate; try congruence; fin.
      * constructor; cbn; auto; try discriminate; try congruence; fin.
      * rewrite andb_false_r. constructor; cbn; auto; try discriminate; try congruence; fin.
      * constructor; cbn; auto; try discriminate; try congruence; fin.
      * constructor; cbn; auto; try discriminate; try congruence; fin.
    + constructor; cbn; auto; try discriminate; try congruence; fin.
    + constructor; cbn; auto.
    + destruct f; constructor; cbn; auto; try discriminate; try congruence;
        unfold put_first_err; cbn; destruct (first_err c) eqn:Ef; intros; try discriminate; try congruence; auto; fin.
    + unfold send_cn_reply.
      destruct (cn_once c); constructor; cbn; auto; try discriminate; try congruence; fin.
  - destruct h as [| | | |x|x]; cbn.
    + constructor; cbn; auto.
    + destruct (dual c); constructor; cbn; auto; try discriminate; try congruence; fin.
    + unfold resolve_neg. destruct (hctx c) eqn:Eh; [|destruct (sock_closed c), (closed c) eqn:Ec]; cbn;
        constructor; cbn; auto; try discriminate; try congruence; fin.
    + destruct b; cbn.
      * destruct (first_err c) as [k|] eqn:Ef; constructor; cbn; auto; try discriminate; try congruence.
        intro Hk. inversion Hk; subst. destruct (K3 eq_refl); auto. discriminate.
      * destruct (hctx c) eqn:Eh; constructor; cbn; auto; try discriminate; try congruence; fin.
      * destruct (est c); constructor; cbn; auto; try discriminate; try congruence; fin.
    + destruct r; cbn; try (constructor; cbn; auto; fail).
      constructor; cbn; auto; try discriminate.
      * unfold resolve. destruct x as [|[]| |]; try discriminate.
        specialize (K4 eq_refl). rewrite K4. destruct (hctx c); cbn; auto. discriminate.
      * unfold resolve. destruct x as [|[]| |]; try discriminate; auto.
        destruct (closed c && negb (hctx c)); discriminate.
    + constructor; cbn; auto.
  - destruct e; cbn.
    + destruct h; cbn; try (constructor; cbn; auto; fail).
      destruct (est c); constructor; cbn; auto; try discriminate; try congruence; fin.
    + destruct h; cbn; try (constructor; cbn; auto; fail).
      constructor; cbn; auto; try discriminate; try congruence; fin.
    + destruct (installed c); constructor; cbn; auto.
    + destruct r; cbn; try (constructor; cbn; auto; fail).
      destruct (sock_closed c); constructor; cbn; auto; try discriminate; try congruence; fin.
    + unfold resolve_neg. destruct (closed c) eqn:Ec, (hctx c) eqn:Eh; cbn;
        destruct h; cbn; destruct r; cbn; try destruct (sock_closed c);
        constructor; cbn; auto; try discriminate; try congruence; fin.
    + destruct r; cbn; constructor; cbn; auto; try discriminate; try congruence; fin.
    + destruct (installed c); [|constructor; cbn; auto].
      constructor; cbn; auto. unfold put_first_err; cbn.
      destruct (first_err c) eqn:Ef; intros; try discriminate; try congruence; auto; fin.
    + constructor; cbn; auto.
    + constructor; cbn; auto.
    + constructor; cbn; auto.
    + constructor; cbn; auto.
    + destruct r; cbn; try (constructor; cbn; auto; fail).
      destruct (sock_closed c); constructor; cbn; auto; try discriminate; try congruence; fin.
    + destruct r; cbn; try (constructor; cbn; auto; fail).
      destruct (sock_closed c); constructor; cbn; auto; try discriminate; try congruence; fin.
Qed.

Lemma inv3_run ops g : Inv g -> Inv3 g -> Inv3 (run ops g).
Proof.
  revert g; induction ops as [|o ops IH]; intros g I K; cbn; auto.
  apply IH; [apply inv_exec, I|apply inv3_exec; auto].
Qed.

Theorem inv3_reachable d v ops : Inv3 (run ops (cfg0 d v)).
Proof. apply inv3_run; [apply inv0|apply inv3_0]. Qed.

(* HandshakeContext reports a cancellation only when the context its caller passed is done: a
   handshake interrupted by Close() ends with a closed-connection class (ErrConnClosed, or the
   closed socket's error during version negotiation), never with "context canceled" *)
Theorem handshake_canceled_only_by_caller d v ops r :
  let g := run ops (cfg0 d v) in
  hs g = HRet r -> hres_class (est (cn g)) r = KCanceled -> hctx (cn g) = true.
Proof.
  intros g H C. pose proof (inv3_reachable d v ops) as K. fold g in K.
  destruct r as [|[]| |]; cbn in C; try discriminate;
    destruct (est (cn g)); try discriminate.
  - exact (k_r _ K H).
  - exact (k_rx _ K H).
Qed.

Theorem handshake_result_without_caller_cancel d v ops r :
  let g := run ops (cfg0 d v) in
  hctx (cn g) = false -> hs g = HRet r ->
  In (hres_class (est (cn g)) r) [KOk; KNetClosed; KAlert; KOther; KClosed].
Proof.
  intros g X H. pose proof (handshake_canceled_only_by_caller d v ops r H) as C. fold g in C.
  destruct (hres_class (est (cn g)) r) eqn:E; cbn; auto 7.
  - destruct r as [|[]| |]; cbn in E; destruct (est (cn g)); discriminate.
  - destruct r as [|[]| |]; cbn in E; destruct (est (cn g)); discriminate.
  - specialize (C eq_refl). congruence.
Qed.

(* ================================================================== non-vacuity *)

(* four goroutines call Close() on an established connection, steps interleaved round-robin
   with the read loop: one close_notify, one nextConn.Close(), all four return, nothing left *)
Definition ops_four_closers : list op :=
  ops_established ++ [SpawnClose; SpawnClose; SpawnClose; SpawnClose] ++
  concat (repeat [StepUser 3; StepUser 1; StepReader; StepUser 0; StepUser 2] 8).

Example four_closers :
  let g := run ops_four_closers (cfg0 false false) in
  cn_close (cn g) = 1 /\ cn_reply (cn g) = 0 /\ sock_closes (cn g) = 1 /\ quiet g = true /\
  us g = [UDone; UDone; UDone; UDone].
Proof. vm_compute. auto. Qed.

(* Close() while HandshakeContext is blocked in its select (not established): no close_notify,
   the read loop delivers context.Canceled into firstErr, the handshake sees that the connection
   is closed and that its caller cancelled nothing and returns "handshake failed: conn is closed"
   (ErrConnClosed; before commit 83f5bff "handshake failed: context canceled", finding F66),
   then Close() returns *)
Definition ops_close_during_handshake : list op :=
  [Env ECallHandshake; StepHs BEst; SpawnClose] ++
  repeat (StepUser 0) 7 ++ repeat StepReader 3 ++ [StepHs BErr; StepHs BErr; StepUser 0].

Example close_during_handshake :
  let g := run ops_close_during_handshake (cfg0 false false) in
  cn_close (cn g) = 0 /\ sock_closes (cn g) = 1 /\ quiet g = true /\
  hs g = HRet HClosed /\ hres_class (est (cn g)) HClosed = KClosed.
Proof. vm_compute. auto. Qed.

(* the same with the caller's context done before the loops have finished: the caller's own
   cancellation is reported *)
Definition ops_close_and_ctx_during_handshake : list op :=
  [Env ECallHandshake; StepHs BEst; SpawnClose] ++
  repeat (StepUser 0) 7 ++ repeat StepReader 3 ++ [StepHs BErr; Env EHsCtx; StepHs BErr; StepUser 0].

Example close_and_ctx_during_handshake :
  let g := run ops_close_and_ctx_during_handshake (cfg0 false false) in
  quiet g = true /\ hs g = HRet (HErr RCanceled) /\
  hres_class (est (cn g)) (HErr RCanceled) = KCanceled.
Proof. vm_compute. auto. Qed.

(* Close() of an established connection whose socket does not take writes (finding F81): the
   close_notify write is abandoned after closeNotifyTimeout, the socket is closed once, Close()
   returns, nothing is left - and no close_notify record is on the wire, which is why
   sent_when_user_closes_established_open has its wr_blk premise *)
Definition ops_close_with_blocked_socket : list op :=
  ops_established ++ [Env EWrBlock; SpawnClose] ++ repeat (StepUser 0) 7 ++ repeat StepReader 3.

Example close_with_blocked_socket :
  let g := run ops_close_with_blocked_socket (cfg0 false false) in
  cn_close (cn g) = 0 /\ cn_reply (cn g) = 0 /\ cn_once (cn g) = true /\ closed (cn g) = true /\
  sock_closes (cn g) = 1 /\ quiet g = true /\ us g = [UDone].
Proof. vm_compute. repeat split; reflexivity. Qed.

(* the peer's close_notify has been read, the reply cannot be written: the read loop waits in
   the write (no internal step is enabled) until the application's Close() cancels ctxRead;
   then everything ends, without any record *)
Definition ops_reply_blocked : list op := ops_established ++ [Env EWrBlock; Env ERecvCN].

Example reply_blocked_until_close :
  let g := run ops_reply_blocked (cfg0 false false) in
  rd g = RReply /\ reader_enabled (rd g) (cn g) = false /\ closed (cn g) = false /\
  let g' := run (SpawnClose :: repeat (StepUser 0) 7 ++ repeat StepReader 10) g in
  quiet g' = true /\ cn_close (cn g') + cn_reply (cn g') = 0 /\ sock_closes (cn g') = 1.
Proof. vm_compute. repeat split; reflexivity. Qed.

(* ================================================================== the state machine fails *)

(* The read loop parked on "<-s.Done" is released whatever the state machine does with the datagram:
   the step is enabled in every configuration (so no_deadlock / close_returns cover it) and leads
   back to the socket read.  A state machine that released the lease only on success would leave
   [RHand true] without an enabled step: the peer's close_notify is never read, the reader
   outlives Close() (seeded change C16d). *)
Theorem fsm_failure_releases_reader g f :
  rd g = RHand f ->
  op_enabled StepReader g = true /\ rd (exec StepReader g) = RRead /\
  closed (cn (exec StepReader g)) = closed (cn g).
Proof.
  destruct g as [c h r l]. cbn. intros ->. cbn. destruct f; auto.
Qed.

(* established; the ACK of the peer's KeyUpdate cannot be written and the state machine ends;
   then the peer closes: the close_notify is read, answered once, Read gets io.EOF, nothing is left *)
Definition ops_failed_post_handshake_then_peer_close : list op :=
  ops_established ++ [Env (ERecvHs true); StepReader; Env ERecvCN] ++ repeat StepReader 11.

Example failed_post_handshake_then_peer_close :
  let g := run ops_failed_post_handshake_then_peer_close (cfg0 false true) in
  closed (cn g) = true /\ cn_reply (cn g) = 1 /\ cn_close (cn g) = 0 /\ dec_closed (cn g) = true /\
  sock_closes (cn g) = 1 /\ quiet g = true /\ In KEof (read_ready (cn g)).
Proof. vm_compute. repeat split; auto. Qed.

(* ... then the application closes while the read loop is still parked: Close() returns, the read
   loop is released and ends *)
Definition ops_failed_post_handshake_then_close : list op :=
  ops_established ++ [Env (ERecvHs true); SpawnClose] ++ repeat (StepUser 0) 7 ++ repeat StepReader 4.

Example failed_post_handshake_then_close :
  let g := run ops_failed_post_handshake_then_close (cfg0 false true) in
  closed (cn g) = true /\ cn_close (cn g) = 1 /\ sock_closes (cn g) = 1 /\ quiet g = true /\
  us g = [UDone] /\ rd g = RDone.
Proof. vm_compute. repeat split; auto. Qed.

(* ================================================================== known gap K-C16-1 *)

(* conn.go Read/Write call c.Handshake() = HandshakeContext(context.Background()) when the
   connection is not established: in the model the blocked call is the handshake caller, whose
   select looks at firstErr, ctx and established only.  An expired read/write deadline enables
   nothing: the call stays blocked although its deadline has passed.  (The property's "deadlines
   interrupt blocked calls" therefore holds for the data-phase Read/Write - read_ready /
   write_ready - and not for a Read/Write blocked in the implicit handshake.) *)
Theorem deadline_wakes_handshake_refuted :
  let g := run [Env ECallHandshake; StepHs BEst; Env ERdDeadline; Env EWrDeadline] (cfg0 false false) in
  rd_dl (cn g) = true /\ wr_dl (cn g) = true /\ hs g = HSelect /\
  forall o, internal o = true -> op_enabled o g = false.
Proof.
  vm_compute. repeat split; auto.
  intros [|i| |b|e]; try discriminate; intros _; auto.
  - destruct i; reflexivity.
  - destruct b; reflexivity.
Qed.

Lemma deadlines_not_in_handshake_select c :
  hs_select_ready (set_rd_dl (set_wr_dl c)) = hs_select_ready c.
Proof. reflexivity. Qed.

(* Close() during the dual-stack version negotiation (no state machine, no cancel functions yet):
   the pending HandshakeContext is woken by the closed socket and reports ErrConnClosed (commit
   0805f5b; before, the closed transport's own error) *)
Definition ops_close_during_negotiation : list op :=
  [Env ECallHandshake; StepHs BEst; SpawnClose] ++ repeat (StepUser 0) 6 ++ [StepHs BErr; StepUser 0].

Example close_during_negotiation :
  let g := run ops_close_during_negotiation (cfg0 true false) in
  cn_close (cn g) = 0 /\ sock_closes (cn g) = 1 /\ quiet g = true /\
  hs g = HRet HClosed /\ hres_class (est (cn g)) HClosed = KClosed.
Proof. vm_compute. repeat split; auto. Qed.

(* the race of close() with handshake(): the closeLock region of Close() runs before the cancel
   functions are installed, so its cancel calls are the no-op defaults; the read loop is
   stopped by nextConn.Close() instead *)
Definition ops_close_before_install : list op :=
  [Env ECallHandshake; SpawnClose; StepUser 0; StepHs BEst] ++
  repeat (StepUser 0) 6 ++ repeat StepReader 3 ++ [StepHs BErr; StepHs BErr; StepUser 0].

Example close_before_install :
  let g := run ops_close_before_install (cfg0 false false) in
  can_rd (cn g) = true (* set by handshake() on firstErr, not by close() *) /\
  hs g = HRet (HErr RSockClosed) /\ quiet g = true /\ sock_closes (cn g) = 1.
Proof. vm_compute. auto. Qed.

(* ================================================================== reachable-state forms *)

Theorem no_deadlock_reachable d v ops :
  let g := run ops (cfg0 d v) in
  pending g = true -> quiet g = false ->
  exists o, internal o = true /\ op_enabled o g = true.
Proof. intros g. apply no_deadlock, inv_reachable. Qed.

Theorem close_idempotent_reachable d v ops i :
  let g := run ops (cfg0 d v) in
  closed (cn g) = true -> nth_error (us g) i = Some (UC CLock) ->
  let g' := run [StepUser i; StepUser i; StepUser i; StepUser i] g in
  obs (cn g') = obs (cn g) /\ hs g' = hs g /\ rd g' = rd g /\
  nth_error (us g') i = Some (if hs_open (cn g) then UWait else UDone) /\
  (forall j, j <> i -> nth_error (us g') j = nth_error (us g) j).
Proof. intros g. apply close_idempotent. Qed.

Theorem quiet_closed_settled_reachable d v ops :
  let g := run ops (cfg0 d v) in
  closed (cn g) = true -> quiet g = true ->
  sock_closes (cn g) = 1 /\ sock_closed (cn g) = true /\ forallb u_done (us g) = true.
Proof. intros g. apply quiet_closed_settled, inv_reachable. Qed.

Example open_established_reachable : open_established (run ops_established (cfg0 false false)).
Proof. vm_compute. repeat split; reflexivity. Qed.

(* ================================================================== the reply cannot be written *)

(* conn.closed is never taken back, by any step of any goroutine or of the environment *)
Lemma closed_exec o g : closed (cn g) = true -> closed (cn (exec o g)) = true.
Proof.
  destruct g as [c h r l]. destruct o as [|i| |b|e]; cbn; auto.
  - destruct (nth_error l i) as [u|]; auto.
    pose proof (user_step_mono u c) as M. destruct (user_step u c). cbn in *. tauto.
  - pose proof (reader_step_mono r c) as M. destruct (reader_step r c). cbn in *. tauto.
  - pose proof (hs_step_mono b h r c) as M. destruct (hs_step b h r c) as [[? ?] ?]. cbn in *.
    destruct M as (_ & _ & M & _). congruence.
  - pose proof (env_step_mono e (mkCfg c h r l)) as M. cbn in M.
    destruct M as (_ & _ & M & _). intro C. rewrite M. exact C.
Qed.

(* [closing n g]: conn.closed is signalled, or the read loop holds a received close_notify / fatal alert
   and is at most n of its own steps away from the closeLock region of close(false) *)
Definition closing (n : nat) (g : cfg) : Prop :=
  closed (cn g) = true \/ exists k, togo (rd g) = Some k /\ k <= n.

(* a read loop that holds the alert never waits: its step is enabled whatever the transport does *)
Lemma togo_enabled g k : togo (rd g) = Some k -> op_enabled StepReader g = true.
Proof. destruct g as [c h r l]. cbn. destruct r as [| | |[]|[]| | | |]; cbn; auto; discriminate. Qed.

(* one step of the read loop brings it one step nearer *)
Lemma closing_reader n g : closing (S n) g -> closing n (exec StepReader g).
Proof.
  intros [C|(k & T & L)]; [left; apply closed_exec; exact C|].
  destruct g as [c h r l]. cbn in *.
  destruct r as [| | |[]|[]| | | |]; cbn in *; try discriminate; inversion T; subst.
  - right. exists 1. split; auto. lia.
  - right. exists 1. split; auto. lia.
  - left. reflexivity.
  - right. exists 2. split; auto. lia.
Qed.

(* no step of another goroutine and no event of the environment takes the alert away from it *)
Lemma closing_other n o g :
  Inv g -> o <> StepReader -> closing n g -> closing n (exec o g).
Proof.
  intros I No [C|(k & T & L)]; [left; apply closed_exec; exact C|].
  destruct g as [c h r l]. cbn in T.
  destruct o as [|i| |b|e]; cbn.
  - right. exists k. auto.
  - destruct (nth_error l i) as [u|]; [|right; exists k; auto].
    destruct (user_step u c). right. exists k. auto.
  - congruence.
  - (* HandshakeContext: it (re)starts the read loop only before the loops exist *)
    pose proof (i_pre _ I) as P. pose proof (i_rd _ I) as R. cbn in P, R.
    destruct h as [| | | |x|x]; cbn.
    + right. exists k. auto.
    + specialize (P eq_refl). rewrite P in R. destruct r; cbn in *; discriminate.
    + specialize (P eq_refl). rewrite P in R. destruct r; cbn in *; discriminate.
    + destruct b; [destruct (first_err c)|destruct (hctx c)|destruct (est c)]; right; exists k; auto.
    + destruct r as [| | |[]|[]| | | |]; cbn in *; try discriminate; right; exists k; auto.
    + right. exists k. auto.
  - (* the environment acts on a read loop blocked in the socket read only *)
    pose proof (i_pre _ I) as P. pose proof (i_rd _ I) as R. cbn in P, R.
    destruct e; cbn;
      try (destruct h; cbn); try (destruct (est c)); try (destruct (installed c));
      try (right; exists k; cbn; auto; fail);
      try (specialize (P eq_refl); rewrite P in R; destruct r; cbn in *; discriminate);
      destruct r as [| | |[]|[]| | | |]; cbn in *; try discriminate;
      try (right; eexists; cbn; split; [reflexivity|]; inversion T; subst; lia).
Qed.

Lemma closing_run ops : forall g n,
  Inv g -> closing n g -> n <= reader_steps ops -> closed (cn (run ops g)) = true.
Proof.
  induction ops as [|o ops IH]; intros g n I C L; cbn in *.
  - destruct C as [C|(k & T & Lk)]; auto.
    destruct (rd g) as [| | |[]|[]| | | |]; cbn in T; try discriminate; inversion T; subst; lia.
  - destruct o as [|i| |b|e];
      try (apply (IH _ n); [apply inv_exec; auto|apply closing_other; auto; discriminate|exact L]).
    destruct n as [|n].
    + apply (IH _ 0); [apply inv_exec; auto| |lia].
      destruct C as [C|(k & T & Lk)]; [left; apply closed_exec; exact C|].
      destruct (rd g) as [| | |[]|[]| | | |]; cbn in T; try discriminate; inversion T; subst; lia.
    + apply (IH _ n); [apply inv_exec; auto|apply closing_reader; auto|lia].
Qed.

Lemma run_app ops1 ops2 g : run (ops1 ++ ops2) g = run ops2 (run ops1 g).
Proof. revert g; induction ops1 as [|o ops1 IH]; intro g; cbn; auto. Qed.

(* THE PEER'S CLOSE SURVIVES A REPLY THAT CANNOT BE WRITTEN.  For every history ops1 after which the
   read loop holds the peer's close_notify while the transport refuses the write of the reply, and
   for every continuation ops2 (any interleaving of Close() callers, the HandshakeContext goroutine
   and environment events) in which the read loop performs three steps - it is enabled all along -:
   conn.closed is signalled, a pending and every later Read finds a ready branch and (without an
   expired read deadline) every ready branch is io.EOF, Write gets a closed-class error, no
   close_notify record went out for the consumed Once only because the socket refused it, and the
   internal steps alone lead to a configuration in which no goroutine of the connection is left. *)
Theorem peer_close_survives_reply_write_failure d v ops1 ops2 :
  let g1 := run ops1 (cfg0 d v) in
  rd g1 = RReplyF ->
  op_enabled StepReader g1 = true /\
  (3 <= reader_steps ops2 ->
   let g2 := run ops2 g1 in
   closed (cn g2) = true /\
   In KEof (read_ready (cn g2)) /\
   (rd_dl (cn g2) = false -> forall k, In k (read_ready (cn g2)) -> k = KEof) /\
   In KClosed (write_ready (cn g2)) /\
   (wr_dl (cn g2) = false -> forall k, In k (write_ready (cn g2)) -> close_class k = true) /\
   exists ops3, Forall (fun o => internal o = true) ops3 /\ quiet (run ops3 g2) = true).
Proof.
  intros g1 R. split; [apply (togo_enabled g1 3); rewrite R; reflexivity|].
  intros L g2.
  assert (C : closed (cn g2) = true).
  { apply (closing_run ops2 g1 3); auto; [apply inv_reachable|].
    right. exists 3. rewrite R. cbn. auto. }
  destruct (read_unblocks _ C) as (R1 & R2). destruct (write_unblocks _ C) as (W1 & W2).
  repeat split; auto.
  unfold g2, g1. rewrite <- run_app. apply close_returns_reachable.
  unfold pending. rewrite run_app. fold g1. fold g2. rewrite C. reflexivity.
Qed.

(* the event is reachable: established, the peer closes, the reply cannot be written - and the whole
   run of the read loop: closed, Read = EOF, socket closed once, no record, nothing left *)
Definition ops_peer_close_reply_refused : list op :=
  ops_established ++ [Env ERecvCNF] ++ repeat StepReader 11.

Example peer_close_reply_refused :
  rd (run (ops_established ++ [Env ERecvCNF]) (cfg0 false false)) = RReplyF /\
  let g := run ops_peer_close_reply_refused (cfg0 false false) in
  closed (cn g) = true /\ cn_reply (cn g) = 0 /\ cn_close (cn g) = 0 /\ cn_once (cn g) = true /\
  dec_closed (cn g) = true /\ sock_closes (cn g) = 1 /\ quiet g = true /\ read_ready (cn g) = [KEof; KEof].
Proof. vm_compute. repeat split; auto. Qed.

(* REFUTED VARIANT (seeded change C16g): when the write error of the reply replaces the peer-closed
   classification ([reader_step_sw]), the same history leaves the connection open for ever: the read
   loop is back in the socket read, no internal step is enabled, conn.closed is not signalled and a
   Read has no ready branch (it blocks for ever), however many steps the read loop is given. *)
Theorem peer_close_survives_reply_write_failure_refuted :
  exists ops1 ops2,
    rd (run_sw ops1 (cfg0 false false)) = RReplyF /\ 3 <= reader_steps ops2 /\
    let g2 := run_sw ops2 (run_sw ops1 (cfg0 false false)) in
    closed (cn g2) = false /\ read_ready (cn g2) = [] /\ est (cn g2) = true /\
    rd g2 = RRead /\ us g2 = [] /\ op_enabled StepReader g2 = false /\
    (forall b, op_enabled (StepHs b) g2 = false).
Proof.
  exists (ops_established ++ [Env ERecvCNF]), (repeat StepReader 11).
  vm_compute. repeat split; auto; try lia. all: try (intros []; reflexivity).
  all: match goal with b : hbranch |- _ => destruct b; reflexivity end.
Qed.
