(* C16 - proofs about the close state machine model Life/C16Close.v: an inductive invariant
   over every interleaving (every [list op]), and from it: close_notify from close() at most
   once, nextConn.Close() exactly once, exactly one close_notify when the application closes an
   established open connection, idempotence, wake conditions, deadlock freedom / termination of
   the internal steps, and the equivalence of alert-triggered and user-triggered closing. *)
From DtlsV Require Import Life.C16Close.
From Coq Require Import List Bool Arith Lia.
Import ListNotations.

(* ------------------------------------------------------------------ list helpers *)

Lemma list_sum_app_ (a b : list nat) : list_sum (a ++ b) = list_sum a + list_sum b.
Proof. apply list_sum_app. Qed.

Lemma list_sum_one x : list_sum [x] = x.
Proof. cbn. lia. Qed.

Lemma list_sum_cons_ x l : list_sum (x :: l) = x + list_sum l.
Proof. reflexivity. Qed.

Lemma upd_sum {A} (f : A -> nat) (l : list A) (i : nat) (u x : A) :
  nth_error l i = Some u ->
  list_sum (map f (upd l i x)) + f u = list_sum (map f l) + f x.
Proof.
  revert i; induction l as [|a l IH]; intros [|i] H; cbn [nth_error upd map] in *; try discriminate.
  - inversion H; subst. rewrite !list_sum_cons_. lia.
  - specialize (IH i H). rewrite !list_sum_cons_. lia.
Qed.

Lemma upd_length {A} (l : list A) i x : length (upd l i x) = length l.
Proof. revert i; induction l as [|a l IH]; intros [|i]; cbn; auto. Qed.

Lemma upd_nth_same {A} (l : list A) i u x :
  nth_error l i = Some u -> nth_error (upd l i x) i = Some x.
Proof.
  revert i; induction l as [|a l IH]; intros [|i] H; cbn in *; try discriminate; auto.
Qed.

Lemma upd_nth_other {A} (l : list A) i j x :
  i <> j -> nth_error (upd l i x) j = nth_error l j.
Proof.
  revert i j; induction l as [|a l IH]; intros [|i] [|j] H; cbn; auto; try congruence.
Qed.

Lemma forallb_nth {A} (f : A -> bool) l i u :
  forallb f l = true -> nth_error l i = Some u -> f u = true.
Proof.
  revert i; induction l as [|a l IH]; intros [|i] H E; cbn in *; try discriminate;
    apply andb_true_iff in H as [H1 H2].
  - inversion E; subst; auto.
  - eauto.
Qed.

Lemma forallb_upd {A} (f : A -> bool) l i x :
  forallb f l = true -> f x = true -> forallb f (upd l i x) = true.
Proof.
  revert i; induction l as [|a l IH]; intros [|i] H E; cbn in *; auto;
    apply andb_true_iff in H as [H1 H2]; apply andb_true_iff; auto.
Qed.

Lemma forallb_sum0 {A} (p : A -> bool) (f : A -> nat) l :
  (forall x, p x = true -> f x = 0) -> forallb p l = true -> list_sum (map f l) = 0.
Proof.
  intros Hp; induction l as [|a l IH]; cbn [forallb map]; intro H; [reflexivity|].
  apply andb_true_iff in H as [H1 H2]. rewrite list_sum_cons_, (Hp _ H1), IH; auto.
Qed.

Global Arguments list_sum : simpl never.

(* ------------------------------------------------------------------ the invariant *)

(* a close() activation that goes on past the early return and has not yet passed the
   close_notify step / the nextConn.Close() step *)
Definition cpc_w (p : cpc) : nat :=
  match p with CCan1 true _ | CCan2 true _ | CEst | CNotify _ => 1 | _ => 0 end.
Definition cpc_s (p : cpc) : nat :=
  match p with CCan1 true _ | CCan2 true _ | CEst | CNotify _ | CSock => 1 | _ => 0 end.
Definition u_w (u : upc) : nat := match u with UC p => cpc_w p | _ => 0 end.
Definition u_s (u : upc) : nat := match u with UC p => cpc_s p | _ => 0 end.
Definition r_w (r : rpc) : nat := match r with RClose p => cpc_w p | _ => 0 end.
Definition r_s (r : rpc) : nat := match r with RClose p => cpc_s p | _ => 0 end.
Definition winners (g : cfg) : nat := list_sum (map u_w (us g)) + r_w (rd g).
Definition sockers (g : cfg) : nat := list_sum (map u_s (us g)) + r_s (rd g).

Definition u_pre (u : upc) : bool := match u with UC CLock => true | _ => false end.
Definition r_pre (r : rpc) : bool :=
  match r with RClose CLock => true | RClose _ => false | _ => true end.
Definition r_can_reply (r : rpc) : nat :=
  match r with RNone | RRead | RReply | RClassify ROther => 1 | _ => 0 end.
Definition r_late (r : rpc) : bool :=
  match r with RClose _ | RExit | RDone => true | _ => false end.
Definition r_none (r : rpc) : bool := match r with RNone => true | _ => false end.
Definition h_mid (h : hpc) : bool :=
  match h with HBegun | HNeg | HSelect | HWait _ => true | _ => false end.
Definition h_pre (h : hpc) : bool := match h with HIdle | HBegun | HNeg => true | _ => false end.
Definition h_run (h : hpc) : bool := match h with HSelect | HWait _ => true | _ => false end.
Definition h_wait (h : hpc) : bool := match h with HWait _ => true | _ => false end.

Record Inv (g : cfg) : Prop := mkInv {
  i_user : by_user (cn g) = true -> closed (cn g) = true;
  i_open : closed (cn g) = false ->
           forallb u_pre (us g) = true /\ r_pre (rd g) = true /\
           cn_close (cn g) = 0 /\ sock_closes (cn g) = 0;
  i_sock : closed (cn g) = true -> sock_closes (cn g) + sockers g = 1;
  i_cn : cn_close (cn g) + winners g <= 1;
  i_sc : sock_closed (cn g) = (0 <? sock_closes (cn g));
  i_reply : cn_reply (cn g) + r_can_reply (rd g) <= 1;
  i_hsopen : hs_open (cn g) = h_mid (hs g);
  i_pre : h_pre (hs g) = true -> installed (cn g) = false;
  i_run : h_run (hs g) = true -> installed (cn g) = true;
  i_rd : installed (cn g) = negb (r_none (rd g));
  i_ferr : r_late (rd g) = true -> first_err (cn g) <> None;
  i_wait : h_wait (hs g) = true -> can_rd (cn g) = true
}.

Lemma pre_sum_w l : forallb u_pre l = true -> list_sum (map u_w l) = 0.
Proof. apply forallb_sum0. intros [[]| |]; cbn; congruence. Qed.
Lemma pre_sum_s l : forallb u_pre l = true -> list_sum (map u_s l) = 0.
Proof. apply forallb_sum0. intros [[]| |]; cbn; congruence. Qed.
Lemma r_pre_w r : r_pre r = true -> r_w r = 0.
Proof. destruct r as [| | | |[]| |]; cbn; congruence. Qed.
Lemma r_pre_s r : r_pre r = true -> r_s r = 0.
Proof. destruct r as [| | | |[]| |]; cbn; congruence. Qed.

Lemma inv0 d v : Inv (cfg0 d v).
Proof. constructor; cbn; intros; try congruence; try lia; auto. Qed.

(* ---------- preservation, one lemma per kind of op ---------- *)

Ltac bool_cases :=
  repeat match goal with
         | b : bool |- _ => destruct b
         end.

Lemma inv_spawn g : Inv g -> Inv (exec SpawnClose g).
Proof.
  intros [H1 H2 H3 H4 H5 H6 H7 H8 H9 H10 H11 H12].
  destruct g as [c h r l]; cbn in *.
  constructor; cbn; auto.
  - intro E. destruct (H2 E) as (A & B & C & D). repeat split; auto.
    rewrite forallb_app, A. reflexivity.
  - intro E. specialize (H3 E). unfold sockers in *; cbn in *.
    rewrite map_app, list_sum_app_. cbn [map]. rewrite list_sum_one. cbn. lia.
  - unfold winners in *; cbn in *. rewrite map_app, list_sum_app_. cbn [map]. rewrite list_sum_one. cbn. lia.
Qed.

Lemma inv_env e g : Inv g -> Inv (exec (Env e) g).
Proof.
  intros [H1 H2 H3 H4 H5 H6 H7 H8 H9 H10 H11 H12].
  destruct g as [c h r l]. destruct c. cbn in *.
  destruct e; cbn.
  - (* ECallHandshake *)
    destruct h; cbn; try (constructor; cbn; auto; fail).
    destruct est; constructor; cbn in *; auto; congruence.
  - (* ENegDone *)
    destruct h; cbn; try (constructor; cbn; auto; fail).
    assert (installed = false) by auto. subst installed.
    destruct r; cbn in *; try discriminate.
    constructor; cbn in *; auto; try congruence.
  - (* EEstablish *)
    destruct installed; constructor; cbn in *; auto.
  - (* ERecvCN *)
    destruct r; cbn; try (constructor; cbn; auto; fail).
    destruct sock_closed; constructor; cbn in *; auto; try congruence.
  - (* ERecvFatal *)
    destruct h; cbn; destruct r; cbn; try (constructor; cbn in *; auto; congruence);
      destruct sock_closed; constructor; cbn in *; auto; try congruence; try lia.
  - (* ERecvOther *)
    destruct r; cbn; solve [constructor; cbn in *; auto; try congruence].
  - (* EFsmErr *)
    destruct installed; constructor; cbn in *; auto.
    intro E. destruct first_err; congruence.
  - constructor; cbn in *; auto.
  - constructor; cbn in *; auto.
  - constructor; cbn in *; auto.
Qed.

Lemma inv_hs b g : Inv g -> Inv (exec (StepHs b) g).
Proof.
  intros [H1 H2 H3 H4 H5 H6 H7 H8 H9 H10 H11 H12].
  destruct g as [c h r l]. destruct c. cbn in *.
  destruct h; cbn.
  - constructor; cbn; auto.
  - (* HBegun *)
    assert (installed = false) by auto. subst installed.
    destruct r; cbn in *; try discriminate.
    destruct dual; constructor; cbn in *; auto; try congruence.
  - (* HNeg *)
    destruct hctx; [|destruct sock_closed]; constructor; cbn in *; auto.
  - (* HSelect *)
    destruct b; cbn.
    + destruct first_err; constructor; cbn in *; auto; congruence.
    + destruct hctx; constructor; cbn in *; auto.
    + destruct est; constructor; cbn in *; auto; congruence.
  - (* HWait *)
    destruct r0; cbn; constructor; cbn in *; auto; congruence.
  - constructor; cbn; auto.
Qed.

Lemma inv_reader g : Inv g -> Inv (exec StepReader g).
Proof.
  intros [H1 H2 H3 H4 H5 H6 H7 H8 H9 H10 H11 H12].
  destruct g as [c h r l]. destruct c. unfold winners, sockers in *. cbn in *.
  destruct r as [| | |k|p| |]; cbn.
  - constructor; cbn; auto.
  - (* RRead *)
    destruct can_rd; [|destruct sock_closed]; constructor; unfold winners, sockers; cbn in *; auto;
      try congruence; try lia.
  - (* RReply *)
    destruct sock_closed; constructor; unfold winners, sockers; cbn in *; auto; try congruence; try lia.
  - (* RClassify *)
    destruct k; cbn; [| |destruct closed| |destruct est];
      constructor; unfold winners, sockers; cbn in *; auto; try congruence; try lia;
      try (intros _; destruct first_err; congruence).
  - (* RClose *)
    destruct p as [|w i|w i| |e| |]; cbn.
    + (* CLock *)
      destruct closed eqn:Ecl.
      * assert (Hw : negb (by_user || true) = false) by (destruct by_user; reflexivity).
        rewrite Hw. constructor; unfold winners, sockers; cbn in *; auto; try congruence; try lia.
        -- intros _. rewrite orb_false_r. auto.
        -- intros _. specialize (H3 eq_refl). lia.
      * destruct (H2 eq_refl) as (A & B & C & D).
        assert (by_user = false) by (destruct by_user; auto; specialize (H1 eq_refl); congruence).
        subst. cbn.
        pose proof (pre_sum_w _ A). pose proof (pre_sum_s _ A).
        constructor; unfold winners, sockers; cbn in *; auto; try congruence; try lia.
    + destruct i; constructor; unfold winners, sockers; cbn in *; auto; try congruence; try lia;
        intro E; specialize (H2 E); cbn in H2; destruct H2 as (? & ? & ?); discriminate.
    + destruct i, w; constructor; unfold winners, sockers; cbn in *; auto; try congruence; try lia;
        intro E; specialize (H2 E); cbn in H2; destruct H2 as (? & ? & ?); discriminate.
    + constructor; unfold winners, sockers; cbn in *; auto; try congruence; try lia;
        intro E; specialize (H2 E); cbn in H2; destruct H2 as (? & ? & ?); discriminate.
    + rewrite andb_false_r.
      constructor; unfold winners, sockers; cbn in *; auto; try congruence; try lia;
        intro E; specialize (H2 E); cbn in H2; destruct H2 as (? & ? & ?); discriminate.
    + assert (Ecl : closed = true).
      { destruct closed; auto. specialize (H2 eq_refl). cbn in H2. destruct H2 as (? & ? & ?); discriminate. }
      subst. specialize (H3 eq_refl).
      constructor; unfold winners, sockers; cbn in *; auto; try congruence; try lia.
    + constructor; unfold winners, sockers; cbn in *; auto; try congruence; try lia;
        intro E; specialize (H2 E); cbn in H2; destruct H2 as (? & ? & ?); discriminate.
  - (* RExit *)
    constructor; unfold winners, sockers; cbn in *; auto; try congruence; try lia.
  - constructor; cbn; auto.
Qed.

Lemma inv_user i g : Inv g -> Inv (exec (StepUser i) g).
Proof.
  intros HI. pose proof HI as [H1 H2 H3 H4 H5 H6 H7 H8 H9 H10 H11 H12].
  destruct g as [c h r l]. cbn in *.
  destruct (nth_error l i) as [u|] eqn:En; [|exact HI].
  pose proof (upd_sum u_w l i u) as SW. pose proof (upd_sum u_s l i u) as SS.
  destruct c. unfold winners, sockers in *. cbn in *.
  assert (Hopen : closed = false -> u = UC CLock).
  { intro E. destruct (H2 E) as (A & _). pose proof (forallb_nth _ _ _ _ A En) as P.
    destruct u as [[]| |]; cbn in P; congruence. }
  destruct u as [p| |]; cbn.
  - destruct p as [|w j|w j| |e| |]; cbn.
    + (* CLock *)
      specialize (SW (UC (CCan1 (negb (by_user || closed)) installed)) En).
      specialize (SS (UC (CCan1 (negb (by_user || closed)) installed)) En).
      destruct closed eqn:Ecl.
      * assert (Hw : negb (by_user || true) = false) by (destruct by_user; reflexivity).
        rewrite Hw in *. cbn in *.
        constructor; unfold winners, sockers; cbn in *; auto; try congruence; try lia.
        intros _. specialize (H3 eq_refl). lia.
      * destruct (H2 eq_refl) as (A & B & C & D).
        assert (by_user = false) by (destruct by_user; auto; specialize (H1 eq_refl); congruence).
        subst. cbn in *.
        pose proof (pre_sum_w _ A). pose proof (pre_sum_s _ A).
        pose proof (r_pre_w _ B). pose proof (r_pre_s _ B).
        constructor; unfold winners, sockers; cbn in *; auto; try congruence; try lia.
    + specialize (SW (UC (CCan2 w j)) En). specialize (SS (UC (CCan2 w j)) En).
      assert (closed = true) by (destruct closed; auto; specialize (Hopen eq_refl); discriminate).
      subst. specialize (H3 eq_refl).
      destruct j, w; constructor; unfold winners, sockers; cbn in *; auto; try congruence; try lia.
    + assert (closed = true) by (destruct closed; auto; specialize (Hopen eq_refl); discriminate).
      subst. specialize (H3 eq_refl).
      destruct w.
      * specialize (SW (UC CEst) En). specialize (SS (UC CEst) En).
        destruct j; constructor; unfold winners, sockers; cbn in *; auto; try congruence; try lia.
      * specialize (SW (UC CRet) En). specialize (SS (UC CRet) En).
        destruct j; constructor; unfold winners, sockers; cbn in *; auto; try congruence; try lia.
    + specialize (SW (UC (CNotify est)) En). specialize (SS (UC (CNotify est)) En).
      assert (closed = true) by (destruct closed; auto; specialize (Hopen eq_refl); discriminate).
      subst. specialize (H3 eq_refl).
      constructor; unfold winners, sockers; cbn in *; auto; try congruence; try lia.
    + specialize (SW (UC CSock) En). specialize (SS (UC CSock) En).
      assert (closed = true) by (destruct closed; auto; specialize (Hopen eq_refl); discriminate).
      subst. specialize (H3 eq_refl). rewrite andb_true_r.
      destruct e; constructor; unfold winners, sockers; cbn in *; auto; try congruence; try lia.
    + specialize (SW (UC CRet) En). specialize (SS (UC CRet) En).
      assert (closed = true) by (destruct closed; auto; specialize (Hopen eq_refl); discriminate).
      subst. specialize (H3 eq_refl).
      constructor; unfold winners, sockers; cbn in *; auto; try congruence; try lia.
    + assert (closed = true) by (destruct closed; auto; specialize (Hopen eq_refl); discriminate).
      subst. specialize (H3 eq_refl).
      destruct hs_open.
      * specialize (SW UWait En). specialize (SS UWait En).
        constructor; unfold winners, sockers; cbn in *; auto; try congruence; try lia.
      * specialize (SW UDone En). specialize (SS UDone En).
        constructor; unfold winners, sockers; cbn in *; auto; try congruence; try lia.
  - assert (closed = true) by (destruct closed; auto; specialize (Hopen eq_refl); discriminate).
    subst. specialize (H3 eq_refl).
    destruct hs_open.
    + specialize (SW UWait En). specialize (SS UWait En).
      constructor; unfold winners, sockers; cbn in *; auto; try congruence; try lia.
    + specialize (SW UDone En). specialize (SS UDone En).
      constructor; unfold winners, sockers; cbn in *; auto; try congruence; try lia.
  - assert (closed = true) by (destruct closed; auto; specialize (Hopen eq_refl); discriminate).
    subst. specialize (H3 eq_refl).
    specialize (SW UDone En). specialize (SS UDone En).
    constructor; unfold winners, sockers; cbn in *; auto; try congruence; try lia.
Qed.

Lemma inv_exec o g : Inv g -> Inv (exec o g).
Proof.
  destruct o; [apply inv_spawn|apply inv_user|apply inv_reader|apply inv_hs|apply inv_env].
Qed.

Lemma inv_run ops g : Inv g -> Inv (run ops g).
Proof. revert g; induction ops as [|o ops IH]; intros g H; cbn; auto using inv_exec. Qed.

Theorem inv_reachable d v ops : Inv (run ops (cfg0 d v)).
Proof. apply inv_run, inv0. Qed.
