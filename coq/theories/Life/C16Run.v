(* Executable comparison functions of the C16 correspondence check: the lock-region model
   Life/C16Close.v predicts, for every harness scenario (phase at the injection, event, number
   of concurrent Close() callers, blocked calls present), the number of close_notify records
   and the result class of every call; evaluated with vm_compute on the observed cases. *)
From DtlsV Require Import Life.C16Close.
From Coq Require Import List Bool Arith NArith.
Import ListNotations.

(* result-class codes shared with the harness / checks/c16.py *)
Definition code (k : rclass) : N :=
  match k with
  | KOk => 1 | KEof => 2 | KClosed => 3 | KDeadline => 4 | KAlert => 5 | KCanceled => 6
  | KNetClosed => 7 | KOther => 8
  end%N.
(* 0 = call not made, 9 = call did not return *)

Definition memN (x : N) (l : list N) : bool := existsb (N.eqb x) l.

(* canonical fair schedule: every closer, the read loop and the handshake caller in turn *)
Definition rr (n rounds : nat) : list op :=
  concat (repeat (map StepUser (seq 0 n) ++ [StepReader; StepHs BErr; StepHs BCtx; StepHs BEst]) rounds).

(* phase of X at the injection *)
Definition pre_ops (hs_called est_x : bool) : list op :=
  if est_x then [Env ECallHandshake; StepHs BEst; Env EEstablish; StepHs BEst]
  else if hs_called then [Env ECallHandshake; StepHs BEst]
  else [].

(* events: 0 close, 1 fatal alert received, 2 deadlines expired, 3 handshake ctx done,
   4 close placed between the read loop's close_notify reply and its close(false),
   5 close before any Handshake call (then Handshake is called),
   6 nothing (a delivered alert was not accepted); the later Close() is the first one,
   7 close on a socket that does not take writes (the close_notify write runs into its limit),
   8 / 9 / 10 the state machine fails on a received post-handshake message (the read loop is
   released), then the peer's close_notify / a fatal alert is read / Close() is called,
   11 Close() while the state machine is still inside the blocked ACK write (read loop parked),
   12 the peer's close_notify is read while the transport refuses the write of the reply (write fault
   leg; Close() with a refused close_notify write is event 7 with one closer),
   14 the state machine fails on a received post-handshake message (ACK refused), then 12 *)
Definition event_ops (ev : N) (closers : nat) : list op :=
  match ev with
  | 0 => repeat SpawnClose closers
  | 1 => [Env ERecvFatal]
  | 2 => [Env ERdDeadline; Env EWrDeadline]
  | 3 => [Env EHsCtx]
  | 4 => [Env ERecvCN; StepReader] ++ repeat SpawnClose closers ++ map StepUser (seq 0 closers)
  | 5 => repeat SpawnClose closers
  | 7 => Env EWrBlock :: repeat SpawnClose closers
  | 8 => [Env (ERecvHs true); StepReader; Env ERecvCN]
  | 9 => [Env (ERecvHs true); StepReader; Env ERecvFatal]
  | 10 => [Env (ERecvHs true); StepReader] ++ repeat SpawnClose closers
  | 11 => [Env EWrBlock; Env (ERecvHs true)] ++ repeat SpawnClose closers
  | 12 => [Env ERecvCNF]
  | 14 => [Env (ERecvHs true); StepReader; Env ERecvCNF]
  | _ => []
  end%N.

(* scenario and observation of the event side X:
   ((ev, v13, negotiating, hs_pending, est_x, closers), (rd_pending, wr_pending),
    (close results, hs class, rd class, wr class), (close_notify records of X, closed after),
    (second Close, Write after, Read after)) *)
Definition e2e_case :=
  ((N * bool * bool * bool * bool * N) * (bool * bool) *
   (list N * N * N * N) * (N * bool) * (N * N * N))%type.

Definition all_done (l : list upc) : bool :=
  forallb (fun u => match u with UDone => true | _ => false end) l.

Definition e2e_ok (c : e2e_case) : bool :=
  let '((ev, v13f, neg, hs_pend, est_x, closersN), (rd_pend, wr_pend),
        (close_res, hs_c, rd_c, wr_c), (cn_x, closed_x), (close2, wr_aft, rd_aft)) := c in
  let closers := N.to_nat closersN in
  let g0 := cfg0 neg v13f in
  let g1 := run (pre_ops (hs_pend || est_x) est_x) g0 in
  let g2 := run (event_ops ev closers ++ rr closers 14) g1 in
  (* event 5: the Handshake call comes after the Close *)
  let g3 := if (ev =? 5)%N then run ([Env ECallHandshake] ++ rr closers 8) g2 else g2 in
  (* a further Close() afterwards (idempotence), except after the deadline / ctx events *)
  let no_after := memN ev [2; 3]%N in
  let g4 := if no_after then g3
            else run (SpawnClose :: rr (S closers) 8) g3 in
  let cf := cn g4 in
  (* every Close() returned nil *)
  forallb (N.eqb 1) close_res && (length close_res =? (if memN ev [0; 4; 5; 7; 10; 11]%N then closers else 0))%nat &&
  all_done (us g4) &&
  (* close_notify records on the wire *)
  (cn_x =? N.of_nat (cn_close cf + cn_reply cf))%N &&
  Bool.eqb closed_x (closed (cn g3)) &&
  (* HandshakeContext *)
  (if hs_pend || (ev =? 5)%N then
     match hs g4 with
     | HRet r => (hs_c =? code (hres_class (est cf) r))%N
     | HSelect | HNeg => (ev =? 2)%N && (memN hs_c [1; 9]%N)   (* a deadline does not touch it *)
     | _ => false
     end
   else true) &&
  (* blocked Read / Write: the observed class is one of the ready branches *)
  (if rd_pend then memN rd_c (map code (read_ready (cn g3))) else true) &&
  (if wr_pend then memN wr_c (map code (write_ready (cn g3))) else true) &&
  (* after-calls *)
  (if no_after then true
   else (close2 =? 1)%N &&
        (if closed cf then (wr_aft =? 3)%N else true) &&
        (if est_x && closed cf then memN rd_aft [0; 2]%N else true)).

(* the peer P of a Close() by X when both were established: P reads close_notify, replies once,
   is closed; its blocked Read gets EOF, a later Write ErrConnClosed, its own Close() nil and
   no further record.  (rd_pending, rd class, close_notify records of P, closed, write after, close) *)
Definition peer_case := (bool * N * N * bool * N * N)%type.

Definition peer_ok (c : peer_case) : bool :=
  let '(rd_pend, rd_c, cn_p, closed_p, wr_aft, close_p) := c in
  let g := run ([Env ECallHandshake; StepHs BEst; Env EEstablish; StepHs BEst; Env ERecvCN] ++
                rr 0 14 ++ SpawnClose :: rr 1 8) (cfg0 false false) in
  (cn_p =? N.of_nat (cn_close (cn g) + cn_reply (cn g)))%N &&
  Bool.eqb closed_p (closed (cn g)) &&
  (if rd_pend then memN rd_c (map code (read_ready (cn g))) else true) &&
  (wr_aft =? 3)%N && (close_p =? 1)%N && all_done (us g).

Fixpoint mismatches_from {A} (ok : A -> bool) (i : N) (l : list A) : list N :=
  match l with
  | [] => []
  | c :: l' => if ok c then mismatches_from ok (i + 1) l' else i :: mismatches_from ok (i + 1) l'
  end.
Definition mismatches {A} (ok : A -> bool) (l : list A) : list N := mismatches_from ok 0 l.

(* non-vacuity of the comparison: one accepted and one rejected prediction *)
Example e2e_ok_accepts :
  e2e_ok ((0, false, false, false, true, 2), (true, false), ([1; 1], 1, 2, 0), (1, true), (1, 3, 2))%N = true.
Proof. vm_compute. reflexivity. Qed.
Example e2e_ok_rejects_second_close_notify :
  e2e_ok ((0, false, false, false, true, 2), (true, false), ([1; 1], 1, 2, 0), (2, true), (1, 3, 2))%N = false.
Proof. vm_compute. reflexivity. Qed.
(* Close placed between the read loop's close_notify reply and its close(false): one record *)
Example e2e_ok_simul_predicts_one :
  e2e_ok ((4, false, false, false, true, 1), (false, false), ([1], 1, 0, 0), (1, true), (1, 3, 2))%N = true.
Proof. vm_compute. reflexivity. Qed.
Example e2e_ok_simul_rejects_two :
  e2e_ok ((4, false, false, false, true, 1), (false, false), ([1], 1, 0, 0), (2, true), (1, 3, 2))%N = false.
Proof. vm_compute. reflexivity. Qed.
(* a DTLS 1.3 Write blocked in the socket and interrupted by Close: ErrConnClosed, not Canceled *)
Example e2e_ok_write13_closed :
  e2e_ok ((0, true, false, false, true, 2), (true, true), ([1; 1], 1, 2, 3), (1, true), (1, 3, 2))%N = true.
Proof. vm_compute. reflexivity. Qed.
Example e2e_ok_write13_rejects_canceled :
  e2e_ok ((0, true, false, false, true, 2), (true, true), ([1; 1], 1, 2, 6), (1, true), (1, 3, 2))%N = false.
Proof. vm_compute. reflexivity. Qed.
(* Close() during the handshake: the pending HandshakeContext ends with ErrConnClosed (3), not
   with context.Canceled (6) - commit 83f5bff *)
Example e2e_ok_close_during_handshake_closed :
  e2e_ok ((0, false, false, true, false, 1), (false, false), ([1], 3, 0, 0), (0, true), (1, 3, 0))%N = true.
Proof. vm_compute. reflexivity. Qed.
Example e2e_ok_close_during_handshake_rejects_canceled :
  e2e_ok ((0, false, false, true, false, 1), (false, false), ([1], 6, 0, 0), (0, true), (1, 3, 0))%N = false.
Proof. vm_compute. reflexivity. Qed.
(* Close() on a socket that does not take writes: returns, no close_notify record - commit 8ae01eb;
   a Close() that did not return (code 9) is rejected *)
Example e2e_ok_close_blocked_socket :
  e2e_ok ((7, false, false, false, true, 2), (true, false), ([1; 1], 1, 2, 0), (0, true), (1, 3, 2))%N = true.
Proof. vm_compute. reflexivity. Qed.
Example e2e_ok_close_blocked_socket_rejects_stuck :
  e2e_ok ((7, false, false, false, true, 2), (true, false), ([9; 1], 1, 2, 0), (0, true), (1, 3, 2))%N = false.
Proof. vm_compute. reflexivity. Qed.
(* the state machine failed on the peer's KeyUpdate, then the peer closes: the close_notify is read
   (closed, one reply, blocked Read = EOF); a connection that stays open is rejected (seed C16d) *)
Example e2e_ok_failed_post_handshake_peer_close :
  e2e_ok ((8, true, false, false, true, 0), (true, false), ([], 1, 2, 0), (1, true), (1, 3, 2))%N = true.
Proof. vm_compute. reflexivity. Qed.
Example e2e_ok_failed_post_handshake_rejects_deaf_reader :
  e2e_ok ((8, true, false, false, true, 0), (true, false), ([], 1, 9, 0), (0, false), (1, 3, 2))%N = false.
Proof. vm_compute. reflexivity. Qed.
Example e2e_ok_failed_post_handshake_close_racing :
  e2e_ok ((11, true, false, false, true, 2), (true, false), ([1; 1], 1, 2, 0), (0, true), (1, 3, 2))%N = true.
Proof. vm_compute. reflexivity. Qed.
(* Close() during the dual-stack version negotiation: ErrConnClosed (3), not the closed
   transport's own error (7) - commit 0805f5b *)
Example e2e_ok_close_during_negotiation_closed :
  e2e_ok ((0, false, true, true, false, 1), (false, false), ([1], 3, 0, 0), (0, true), (1, 3, 0))%N = true.
Proof. vm_compute. reflexivity. Qed.
Example e2e_ok_close_during_negotiation_rejects_transport_error :
  e2e_ok ((0, false, true, true, false, 1), (false, false), ([1], 7, 0, 0), (0, true), (1, 3, 0))%N = false.
Proof. vm_compute. reflexivity. Qed.
(* the peer's close_notify while the reply cannot be written: closed, no record, blocked Read = EOF, later
   Write = ErrConnClosed, later Read = EOF; a connection that stays open with the transport's error handed
   to Read (8) is rejected (seed C16g) *)
Example e2e_ok_peer_close_reply_refused :
  e2e_ok ((12, false, false, false, true, 0), (true, false), ([], 1, 2, 0), (0, true), (1, 3, 2))%N = true.
Proof. vm_compute. reflexivity. Qed.
Example e2e_ok_peer_close_reply_refused_rejects_open :
  e2e_ok ((12, false, false, false, true, 0), (true, false), ([], 1, 8, 0), (0, false), (1, 1, 9))%N = false.
Proof. vm_compute. reflexivity. Qed.
Example e2e_ok_ack_and_reply_refused :
  e2e_ok ((14, true, false, false, true, 0), (true, false), ([], 1, 2, 0), (0, true), (1, 3, 2))%N = true.
Proof. vm_compute. reflexivity. Qed.
