(* C01 - what each endpoint commits as "the session", as functions of the two messages that carry
   the negotiation: the client's (final) ClientHello [h] and the server's answer [f] (ServerHello and,
   on DTLS 1.3, EncryptedExtensions), plus the certificate chains and randoms that travel with them.
   Definitions only.

   Code followed: flight12 flight4Generate / flight4bGenerate (server commits: CommitNegotiatedExtensions,
   CommitSRTP, NegotiatedProtocol), flight3Parse (client commits after validating the answer against its
   own offer), flight13 flight4Generate / flight3Parse, internal/state Common.CommitNegotiatedExtensions
   (local/remote CID by role), state.go generateState / ExportKeyingMaterial. *)
From DtlsV Require Import Lib.Bytes Gen.GeneratedC11 Neg.C11Negotiate.
Open Scope N_scope.

(* the public snapshot of one endpoint (ConnectionState + the selected-profile accessors + the
   in-package fields the harness reads) *)
Record view := mkView {
  w_version : N;
  w_suite : N;
  w_ems : bool;                  (* extended master secret in force (DTLS 1.2) *)
  w_alpn : N;
  w_srtp : N;
  w_peer_mki : list N;           (* RemoteSRTPMasterKeyIdentifier *)
  w_local_cid : list N;
  w_remote_cid : list N;
  w_rrc : bool;
  w_peer_chain : list (list N);  (* PeerCertificates *)
  w_client_random : list N;
  w_server_random : list N
}.

(* what travels besides [h] and [f] *)
Record wire := mkWire {
  x_client_random : list N;          (* in the ClientHello *)
  x_server_random : list N;          (* in the ServerHello *)
  x_server_chain : list (list N);    (* Certificate message of the server, when it sends one *)
  x_client_chain : list (list N)     (* Certificate message of the client, when it sends one *)
}.

Definition cid_pair (d : option (list N * list N * bool)) : list N * list N * bool :=
  match d with Some t => t | None => ([], [], false) end.

(* ---- the server: everything is committed while generating its flight, from the hello it RECEIVED
   and the flight it SENDS; the client's chain is stored when its last flight is parsed *)
Definition server_view (h : hello) (f : server_flight) (x : wire) (client_presented : bool) : view :=
  let '(cc, sc, rrc) := cid_pair (decide_cid h (f_cid_ext f) (f_rrc_ext f)) in
  mkView (f_version f) (f_suite f) (f_ems f) (f_alpn f) (f_srtp f) (f_mki_peer f)
         sc cc rrc
         (if f_cert_req f && client_presented then x_client_chain x else [])
         (x_client_random x) (x_server_random x).

(* ---- the client: commits what its checks of the answer return ([o] is the result of client12 / client13
   of Neg/C11Negotiate.v on the hello it SENT and the flight it RECEIVED) *)
Definition client_view (h : hello) (o : outcome) (x : wire) : view :=
  let '(cc, sc, rrc) := cid_pair (o_cid o) in
  mkView (o_version o) (o_suite o) (o_ems o) (o_alpn o) (o_srtp o) (o_mki_client o)
         cc sc rrc
         (if o_server_cert o then x_server_chain x else [])
         (x_client_random x) (x_server_random x).

(* the two snapshots describe one session: equal negotiated values, mirrored connection IDs *)
Definition mirrored (vc vs : view) : Prop :=
  w_version vc = w_version vs /\ w_suite vc = w_suite vs /\ w_ems vc = w_ems vs /\
  w_alpn vc = w_alpn vs /\ w_srtp vc = w_srtp vs /\
  w_local_cid vc = w_remote_cid vs /\ w_remote_cid vc = w_local_cid vs /\ w_rrc vc = w_rrc vs /\
  w_client_random vc = w_client_random vs /\ w_server_random vc = w_server_random vs.

(* ---- exported keying material (state.go ExportKeyingMaterial).  The pseudo-random function and the
   suite -> hash map are parameters: the statements hold for every choice. *)
Section Exporter.
  Variable prf : N -> list N -> list N -> nat -> list N.   (* hash, secret, seed, length *)
  Variable hash_of_suite : N -> N.

  (* one endpoint's inputs: its view, its secret (master secret on 1.2, exporter master secret on 1.3), its role *)
  Definition export12 (is_client : bool) (v : view) (secret : list N) (label : list N) (n : nat) : list N :=
    let local := if is_client then w_client_random v else w_server_random v in
    let remote := if is_client then w_server_random v else w_client_random v in
    let seed := if is_client then label ++ local ++ remote else label ++ remote ++ local in
    prf (hash_of_suite (w_suite v)) secret seed n.

  (* RFC 8446 7.5 shape: the randoms do not enter *)
  Definition export13 (v : view) (secret : list N) (label : list N) (n : nat) : list N :=
    prf (hash_of_suite (w_suite v)) secret label n.

  Definition export (is_client : bool) (v : view) (secret label : list N) (n : nat) : list N :=
    if w_version v =? v13 then export13 v secret label n else export12 is_client v secret label n.
End Exporter.

(* ---- as coded: State.ExportKeyingMaterial looks the negotiated suite up again with ciphersuite.ForID(id, nil) -
   the built-in table only, the suites of WithCustomCipherSuites are not consulted - and fails ("cipher suite not
   set") when the lookup does.  None = that failure. *)
Section ExporterAsCoded.
  Variable prf : N -> list N -> list N -> nat -> list N.
  Variable hash_of_suite : N -> N.

  Definition export_as_coded (is_client : bool) (v : view) (secret label : list N) (n : nat) : option (list N) :=
    if known_suite (w_suite v) then Some (export prf hash_of_suite is_client v secret label n) else None.
End ExporterAsCoded.

(* ---- the name of the session (State.SessionID, the key of the session stores) on a full DTLS 1.2 handshake.
   [generated] = the id the server drew before the ServerHello message hook ran, [sh_id] = the id in the ServerHello
   that LEFT the server.  The client (flight3Parse) names the session by the message.
   THE SWITCH for F82's session-id leg (repaired in /repo by 6fdd853): [true] = commitFinalServerHello reads the id
   back from the final message; [false] = the server kept the id it had generated. *)
Definition server_names_session_as_final_server_hello : bool := true.

Definition client_session_name (sh_id : list N) : list N := sh_id.
Definition server_session_name_sw (from_final : bool) (generated sh_id : list N) : list N :=
  if from_final then sh_id else generated.
Definition server_session_name : list N -> list N -> list N :=
  server_session_name_sw server_names_session_as_final_server_hello.
