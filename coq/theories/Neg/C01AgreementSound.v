(* C01 - agreement theorems over Neg/C01Agreement.v (views) and Neg/C11Negotiate.v (the checks).

   Reading of the statements: [h] and [f] are the SAME two messages on both sides.  That the hello the
   server acted on is the hello the client sent, and the answer the client validated is the answer the
   server sent, is exactly what the Finished exchange over the handshake transcript establishes (C04);
   it enters here as the shared variables h, f, x.  Likewise "both hold the same master secret" is the
   hypothesis [secret_c = secret_s] of the exporter theorems - also C04 (a Finished computed under a
   different master secret does not verify), with C10 for the derivation itself. *)
From DtlsV Require Import Lib.Bytes Gen.GeneratedC11 Neg.C11Negotiate Neg.C11NegotiateSound Neg.C01Agreement.
From Coq Require Import ZifyN ZifyNat ZifyBool.
Open Scope N_scope.

Definition pion_hello (ck : conn) (h : hello) : Prop :=
  h = client_hello13 ck \/ exists b, h = client_hello12 ck b.

Definition ems_valid (c : cfg) : Prop :=
  c_ems c = g11_ems_request \/ c_ems c = g11_ems_require \/ c_ems c = g11_ems_disable.

(* the exact EMS flags of the DTLS 1.2 server flight *)
Lemma server12_ems k ss h r f :
  server12 k ss h r = ROk f ->
  f_ems f = h_ems h && negb (c_ems (k_cfg k) =? g11_ems_disable) /\
  f_ems_ext f = ems_requested (c_ems (k_cfg k)) && f_ems f.
Proof.
  unfold server12. cbv zeta. intro H.
  rstepn H ch E00. destruct ch as [[suite group] ems0]. cbn beta iota in H.
  unfold hello12_choices in E00. cbv zeta in E00.
  rstepn E00 u0 E. rstepn E00 suite' E0. rstepn E00 group' E1. rstepn E00 u2 E2.
  inversion E00; subst suite' group' ems0; clear E00.
  rstepn H tr E3.
  destruct tr as [[profile echo] peer]. cbn beta iota in H.
  rstepn H proto E4. rstepn H u5 E5.
  destruct (r && h_session h && c_store (k_cfg k)).
  - inversion H; subst. cbn. now split.
  - destruct (s_auth suite =? g11_auth_certificate).
    + rstepn H u6 E6. rstepn H sg E7. inversion H; subst. cbn. now split.
    + inversion H; subst. cbn. now split.
Qed.

Lemma ems_flags_agree (c s : cfg) (hems fems fext : bool) :
  ems_valid s ->
  hems = ems_requested (c_ems c) ->
  fems = hems && negb (c_ems s =? g11_ems_disable) ->
  fext = ems_requested (c_ems s) && fems ->
  fext && negb (c_ems c =? g11_ems_disable) = fems.
Proof.
  intros Hv H1 H2 H3. subst.
  unfold ems_valid, ems_requested, g11_ems_request, g11_ems_require, g11_ems_disable in *.
  destruct Hv as [Hv|[Hv|Hv]]; rewrite Hv; cbn;
    destruct (c_ems c =? 0) eqn:A; destruct (c_ems c =? 1) eqn:B; destruct (c_ems c =? 2) eqn:C; cbn; try reflexivity; lia.
Qed.

Lemma pion_hello_ems ck h : pion_hello ck h -> h_ems h = ems_requested (c_ems (k_cfg ck)).
Proof. intro Hh. now destruct (hello_fields ck h Hh) as [_ [_ [_ [_ [F5 _]]]]]. Qed.

(* ------------------------------------------------------------------ DTLS 1.2 (full, PSK, ECDHE-PSK, resumed) *)

(* what the agreement needs of the server's answer [f]: it is a DTLS 1.2 answer, its EMS flags follow the hello,
   and it selects an SRTP profile only when one was offered.  (True of [server12]'s answer and preserved by the
   ServerHello hook of the steered leg.) *)
Definition answer12_wf (sk : conn) (h : hello) (f : server_flight) : Prop :=
  f_version f = v12 /\
  f_ems f = h_ems h && negb (c_ems (k_cfg sk) =? g11_ems_disable) /\
  f_ems_ext f = ems_requested (c_ems (k_cfg sk)) && f_ems f /\
  (f_srtp f <> 0 -> exists ps mk, h_srtp h = Some (ps, mk)).

Lemma server12_answer_wf sk ss h r f : server12 sk ss h r = ROk f -> answer12_wf sk h f.
Proof.
  intro Hs. pose proof (server12_ems _ _ _ _ _ Hs) as [Em1 Em2]. apply server12_spec in Hs.
  repeat split; try assumption; [exact (s12_version _ _ _ _ Hs)|].
  intro Hn. destruct (s12_srtp _ _ _ _ Hs Hn) as [_ [ps [mk [Ho _]]]]. eauto.
Qed.

Theorem agreement12_gen ck sk cs h f o x p :
  pion_hello ck h -> ems_valid (k_cfg sk) -> answer12_wf sk h f ->
  client12 ck sk cs h f = ROk o ->
  mirrored (client_view h o x) (server_view h f x p).
Proof.
  intros Hh Hv [S1 [Em1 [Em2 S7b]]] Hc. apply client12_spec in Hc.
  pose proof (cl_version _ _ _ _ _ _ _ Hc) as cl_version0. pose proof (cl_suite _ _ _ _ _ _ _ Hc) as cl_suite0. pose proof (cl_group _ _ _ _ _ _ _ Hc) as cl_group0. pose proof (cl_sig _ _ _ _ _ _ _ Hc) as cl_sig0. pose proof (cl_chain _ _ _ _ _ _ _ Hc) as cl_chain0. pose proof (cl_csig _ _ _ _ _ _ _ Hc) as cl_csig0. pose proof (cl_srtp _ _ _ _ _ _ _ Hc) as cl_srtp0. pose proof (cl_srtp_none _ _ _ _ _ _ _ Hc) as cl_srtp_none0. pose proof (cl_mki_server _ _ _ _ _ _ _ Hc) as cl_mki_server0. pose proof (cl_alpn _ _ _ _ _ _ _ Hc) as cl_alpn0. pose proof (cl_ems _ _ _ _ _ _ _ Hc) as cl_ems0. pose proof (cl_ems_required _ _ _ _ _ _ _ Hc) as cl_ems_required0. pose proof (cl_cid _ _ _ _ _ _ _ Hc) as cl_cid0. pose proof (cl_exts _ _ _ _ _ _ _ Hc) as cl_exts0. pose proof (cl_flags _ _ _ _ _ _ _ Hc) as cl_flags0.
  unfold client_view, server_view, mirrored. rewrite cl_cid0.
  destruct (cid_pair (decide_cid h (f_cid_ext f) (f_rrc_ext f))) as [[cc sc] rrc]. cbn.
  destruct cl_suite0 as [Q1 _].
  repeat split; try reflexivity; try assumption; try congruence.
  - (* EMS flag *)
    rewrite cl_ems0. change (v12 =? v13) with false. cbv iota.
    exact (ems_flags_agree (k_cfg ck) (k_cfg sk) (h_ems h) (f_ems f) (f_ems_ext f) Hv (pion_hello_ems _ _ Hh) Em1 Em2).
  - (* SRTP profile *)
    destruct (N.eq_dec (o_srtp o) 0) as [Hz|Hz].
    + rewrite Hz. destruct (cl_srtp_none0 Hz) as [Hf|Hn]; [congruence|].
      destruct (N.eq_dec (f_srtp f) 0) as [Hf|Hf]; [congruence|].
      destruct (S7b Hf) as [ps [mk Ho]]. congruence.
    + now destruct (cl_srtp0 Hz).
Qed.

Theorem agreement12 ck sk ss cs h r f o x p :
  pion_hello ck h -> ems_valid (k_cfg sk) ->
  server12 sk ss h r = ROk f -> client12 ck sk cs h f = ROk o ->
  mirrored (client_view h o x) (server_view h f x p).
Proof.
  intros Hh Hv Hs Hc. exact (agreement12_gen ck sk cs h f o x p Hh Hv (server12_answer_wf _ _ _ _ _ Hs) Hc).
Qed.

(* the ServerHello message hook: the server commits what its FINAL ServerHello says ([steer_flight t f0] - the hook's
   ALPN selection; another cipher suite is refused), so the two views still agree whatever protocol the hook names *)
Theorem agreement12_hooked ck sk ss cs h r f0 t o x p :
  pion_hello ck h -> ems_valid (k_cfg sk) ->
  server12 sk ss h r = ROk f0 -> client12 ck sk cs h (steer_flight t f0) = ROk o ->
  mirrored (client_view h o x) (server_view h (steer_flight t f0) x p) /\
  (t_sh_alpn t <> 0 -> w_alpn (server_view h (steer_flight t f0) x p) = t_sh_alpn t).
Proof.
  intros Hh Hv Hs Hc. split.
  - apply (agreement12_gen ck sk cs h (steer_flight t f0) o x p Hh Hv); [|exact Hc].
    pose proof (server12_answer_wf _ _ _ _ _ Hs) as W. unfold steer_flight.
    destruct (t_sh_alpn t =? 0); [exact W | exact W].
  - intro Hn. unfold server_view, steer_flight. apply N.eqb_neq in Hn. rewrite Hn.
    destruct (cid_pair _) as [[a b] c]. reflexivity.
Qed.

(* hello verification: the first ClientHello is in no Finished transcript and may have been rewritten on path
   ([h1] is whatever the server was shown first); the two sides still agree, on the hello that echoes the cookie *)
Theorem agreement12_first_hello_rewritten ck sk ss cs h1 h2 r f o x p :
  pion_hello ck h2 -> ems_valid (k_cfg sk) ->
  server12_verified sk ss h1 h2 r = ROk f -> client12 ck sk cs h2 f = ROk o ->
  mirrored (client_view h2 o x) (server_view h2 f x p).
Proof.
  intros Hh Hv Hs Hc. apply server12_verified_final in Hs. exact (agreement12 _ _ _ _ _ _ _ _ x p Hh Hv Hs Hc).
Qed.

(* the SRTP master key identifiers: each side reports exactly what the OTHER side sent *)
Theorem mki_as_sent12 ck sk ss cs h r f o x p :
  server12 sk ss h r = ROk f -> client12 ck sk cs h f = ROk o -> o_srtp o <> 0 ->
  exists profiles mki,
    h_srtp h = Some (profiles, mki) /\
    w_peer_mki (server_view h f x p) = mki /\              (* the server holds the client's offer *)
    w_peer_mki (client_view h o x) = f_mki_echo f /\       (* the client holds the server's echo ... *)
    (f_mki_echo f = [] \/ f_mki_echo f = mki).             (* ... which is empty or its own identifier *)
Proof.
  intros Hs Hc Hn. apply server12_spec in Hs. apply client12_spec in Hc.
  pose proof (s12_version _ _ _ _ Hs) as S1. pose proof (s12_srtp _ _ _ _ Hs) as S7b. pose proof (s12_resumed _ _ _ _ Hs) as S12.
  pose proof (cl_version _ _ _ _ _ _ _ Hc) as cl_version0. pose proof (cl_suite _ _ _ _ _ _ _ Hc) as cl_suite0. pose proof (cl_group _ _ _ _ _ _ _ Hc) as cl_group0. pose proof (cl_sig _ _ _ _ _ _ _ Hc) as cl_sig0. pose proof (cl_chain _ _ _ _ _ _ _ Hc) as cl_chain0. pose proof (cl_csig _ _ _ _ _ _ _ Hc) as cl_csig0. pose proof (cl_srtp _ _ _ _ _ _ _ Hc) as cl_srtp0. pose proof (cl_srtp_none _ _ _ _ _ _ _ Hc) as cl_srtp_none0. pose proof (cl_mki_server _ _ _ _ _ _ _ Hc) as cl_mki_server0. pose proof (cl_alpn _ _ _ _ _ _ _ Hc) as cl_alpn0. pose proof (cl_ems _ _ _ _ _ _ _ Hc) as cl_ems0. pose proof (cl_ems_required _ _ _ _ _ _ _ Hc) as cl_ems_required0. pose proof (cl_cid _ _ _ _ _ _ _ Hc) as cl_cid0. pose proof (cl_exts _ _ _ _ _ _ _ Hc) as cl_exts0. pose proof (cl_flags _ _ _ _ _ _ _ Hc) as cl_flags0.
  destruct (cl_srtp0 Hn) as [Y1 [Y2 [Y3 _]]]. rewrite Y1 in Hn.
  destruct (S7b Hn) as [_ [ps [mk [Ho [_ [Hm He]]]]]].
  exists ps, mk. unfold client_view, server_view.
  destruct (cid_pair (o_cid o)) as [[a b] c]. destruct (cid_pair (decide_cid h (f_cid_ext f) (f_rrc_ext f))) as [[a' b'] c'].
  cbn. repeat split; assumption.
Qed.

(* peer certificate chains: the stored chain is the presented chain, and nothing is stored when nothing is presented *)
Theorem chains_as_presented12 ck sk ss cs h r f o x p :
  server12 sk ss h r = ROk f -> client12 ck sk cs h f = ROk o ->
  w_peer_chain (client_view h o x) = (if f_cert f then x_server_chain x else []) /\
  w_peer_chain (server_view h f x p) = (if f_cert_req f && p then x_client_chain x else []) /\
  (f_resumed f = true -> w_peer_chain (client_view h o x) = [] /\ w_peer_chain (server_view h f x p) = []).
Proof.
  intros Hs Hc. apply server12_spec in Hs. apply client12_spec in Hc.
  pose proof (s12_version _ _ _ _ Hs) as S1. pose proof (s12_srtp _ _ _ _ Hs) as S7b. pose proof (s12_resumed _ _ _ _ Hs) as S12.
  pose proof (cl_version _ _ _ _ _ _ _ Hc) as cl_version0. pose proof (cl_suite _ _ _ _ _ _ _ Hc) as cl_suite0. pose proof (cl_group _ _ _ _ _ _ _ Hc) as cl_group0. pose proof (cl_sig _ _ _ _ _ _ _ Hc) as cl_sig0. pose proof (cl_chain _ _ _ _ _ _ _ Hc) as cl_chain0. pose proof (cl_csig _ _ _ _ _ _ _ Hc) as cl_csig0. pose proof (cl_srtp _ _ _ _ _ _ _ Hc) as cl_srtp0. pose proof (cl_srtp_none _ _ _ _ _ _ _ Hc) as cl_srtp_none0. pose proof (cl_mki_server _ _ _ _ _ _ _ Hc) as cl_mki_server0. pose proof (cl_alpn _ _ _ _ _ _ _ Hc) as cl_alpn0. pose proof (cl_ems _ _ _ _ _ _ _ Hc) as cl_ems0. pose proof (cl_ems_required _ _ _ _ _ _ _ Hc) as cl_ems_required0. pose proof (cl_cid _ _ _ _ _ _ _ Hc) as cl_cid0. pose proof (cl_exts _ _ _ _ _ _ _ Hc) as cl_exts0. pose proof (cl_flags _ _ _ _ _ _ _ Hc) as cl_flags0.
  destruct cl_flags0 as [K1 [K2 K3]].
  unfold client_view, server_view.
  destruct (cid_pair (o_cid o)) as [[a b] c]. destruct (cid_pair (decide_cid h (f_cid_ext f) (f_rrc_ext f))) as [[a' b'] c'].
  cbn. rewrite K2. repeat split; try reflexivity.
  - destruct (S12 H) as [_ [_ [Hcc _]]]. now rewrite Hcc.
  - destruct (S12 H) as [_ [_ [_ Hq]]]. now rewrite Hq.
Qed.

(* ------------------------------------------------------------------ DTLS 1.3 *)

Theorem agreement13 ck sk ss cs h f o x p :
  server13 sk ss h = ROk f -> client13 ck sk cs h f = ROk o ->
  mirrored (client_view h o x) (server_view h f x p).
Proof.
  intros Hs Hc. apply server13_spec in Hs.
  pose proof (s13_version _ _ _ _ Hs) as S1. pose proof (s13_srtp _ _ _ _ Hs) as S6. pose proof (s13_alpn _ _ _ _ Hs) as S8. destruct (s13_flags _ _ _ _ Hs) as [R1 [R2 [R3 R4]]].
  apply (client13_spec ck sk cs h f o S8 R1 R2) in Hc. destruct Hc as [C _].
  pose proof (cl_version _ _ _ _ _ _ _ C) as cl_version0. pose proof (cl_suite _ _ _ _ _ _ _ C) as cl_suite0. pose proof (cl_group _ _ _ _ _ _ _ C) as cl_group0. pose proof (cl_sig _ _ _ _ _ _ _ C) as cl_sig0. pose proof (cl_chain _ _ _ _ _ _ _ C) as cl_chain0. pose proof (cl_csig _ _ _ _ _ _ _ C) as cl_csig0. pose proof (cl_srtp _ _ _ _ _ _ _ C) as cl_srtp0. pose proof (cl_srtp_none _ _ _ _ _ _ _ C) as cl_srtp_none0. pose proof (cl_mki_server _ _ _ _ _ _ _ C) as cl_mki_server0. pose proof (cl_alpn _ _ _ _ _ _ _ C) as cl_alpn0. pose proof (cl_ems _ _ _ _ _ _ _ C) as cl_ems0. pose proof (cl_ems_required _ _ _ _ _ _ _ C) as cl_ems_required0. pose proof (cl_cid _ _ _ _ _ _ _ C) as cl_cid0. pose proof (cl_exts _ _ _ _ _ _ _ C) as cl_exts0. pose proof (cl_flags _ _ _ _ _ _ _ C) as cl_flags0.
  unfold client_view, server_view, mirrored. rewrite cl_cid0.
  destruct (cid_pair (decide_cid h (f_cid_ext f) (f_rrc_ext f))) as [[cc sc] rrc]. cbn.
  destruct cl_suite0 as [Q1 _].
  repeat split; try reflexivity; try assumption; try congruence.
  - rewrite cl_ems0. now rewrite R3.
  - destruct (N.eq_dec (o_srtp o) 0) as [Hz|Hz].
    + rewrite Hz. destruct (cl_srtp_none0 Hz) as [Hf|Hn]; [congruence|].
      destruct (N.eq_dec (f_srtp f) 0) as [Hf|Hf]; [congruence|].
      destruct (S6 Hf) as [_ [ps [mk [Ho _]]]]. congruence.
    + now destruct (cl_srtp0 Hz).
Qed.

Theorem chains_as_presented13 ck sk ss cs h f o x p :
  server13 sk ss h = ROk f -> client13 ck sk cs h f = ROk o ->
  w_peer_chain (client_view h o x) = x_server_chain x /\
  w_peer_chain (server_view h f x p) = (if f_cert_req f && p then x_client_chain x else []).
Proof.
  intros Hs Hc. apply server13_spec in Hs.
  pose proof (s13_version _ _ _ _ Hs) as S1. pose proof (s13_srtp _ _ _ _ Hs) as S6. pose proof (s13_alpn _ _ _ _ Hs) as S8. destruct (s13_flags _ _ _ _ Hs) as [R1 [R2 [R3 R4]]].
  apply (client13_spec ck sk cs h f o S8 R1 R2) in Hc. destruct Hc as [C _].
  pose proof (cl_version _ _ _ _ _ _ _ C) as cl_version0. pose proof (cl_suite _ _ _ _ _ _ _ C) as cl_suite0. pose proof (cl_group _ _ _ _ _ _ _ C) as cl_group0. pose proof (cl_sig _ _ _ _ _ _ _ C) as cl_sig0. pose proof (cl_chain _ _ _ _ _ _ _ C) as cl_chain0. pose proof (cl_csig _ _ _ _ _ _ _ C) as cl_csig0. pose proof (cl_srtp _ _ _ _ _ _ _ C) as cl_srtp0. pose proof (cl_srtp_none _ _ _ _ _ _ _ C) as cl_srtp_none0. pose proof (cl_mki_server _ _ _ _ _ _ _ C) as cl_mki_server0. pose proof (cl_alpn _ _ _ _ _ _ _ C) as cl_alpn0. pose proof (cl_ems _ _ _ _ _ _ _ C) as cl_ems0. pose proof (cl_ems_required _ _ _ _ _ _ _ C) as cl_ems_required0. pose proof (cl_cid _ _ _ _ _ _ _ C) as cl_cid0. pose proof (cl_exts _ _ _ _ _ _ _ C) as cl_exts0. pose proof (cl_flags _ _ _ _ _ _ _ C) as cl_flags0.
  destruct cl_flags0 as [K1 [K2 K3]].
  unfold client_view, server_view.
  destruct (cid_pair (o_cid o)) as [[a b] c]. destruct (cid_pair (decide_cid h (f_cid_ext f) (f_rrc_ext f))) as [[a' b'] c'].
  cbn. rewrite K2, R2. now split.
Qed.

(* ------------------------------------------------------------------ on the composition: every established association *)

Theorem agreement ck sk seeded o x p :
  ems_valid (k_cfg sk) -> negotiate_conn ck sk seeded = Ok o ->
  exists h f ss, pion_hello ck h /\
    (server13 sk ss h = ROk f \/ server12 sk ss h seeded = ROk f) /\     (* f is the flight the server built on h *)
    mirrored (client_view h o x) (server_view h f x p).
Proof.
  intros Hv H. apply negotiate_conn_inv in H.
  destruct H as [h [v [ss [Hh [_ [_ Hcase]]]]]]. apply hello_kind_weaken in Hh.
  exists h.
  destruct Hcase as [[_ [f [Hf H]]]|[_ [f [Hf H]]]]; exists f, ss; (split; [exact Hh|]); (split; [auto|]).
  - unfold client_tail13 in H. cbv zeta in H.
    apply lift_ok in H. destruct H as [cv [_ H]].
    destruct (nonempty (filter_for_version v13 (k_suites ck))); cbn [negb] in H; [|discriminate].
    apply lift_ok in H. destruct H as [o1 [Ho1 H]].
    apply lift_ok in H. destruct H as [o2 [Ho2 H]]. inversion H; subst o2; clear H.
    apply server_finish_ok in Ho2. subst o1. exact (agreement13 _ _ _ _ _ _ _ x p Hf Ho1).
  - unfold client_tail12 in H. cbv zeta in H.
    apply lift_ok in H. destruct H as [cv [_ H]].
    destruct (nonempty (filter_for_version v12 (k_suites ck))); cbn [negb] in H; [|discriminate].
    apply lift_ok in H. destruct H as [o1 [Ho1 H]].
    apply lift_ok in H. destruct H as [o2 [Ho2 H]]. inversion H; subst o2; clear H.
    apply server_finish_ok in Ho2. subst o1. exact (agreement12 _ _ _ _ _ _ _ _ x p Hh Hv Hf Ho1).
Qed.

(* ------------------------------------------------------------------ exported keying material *)

Section ExporterAgreement.
  Variable prf : N -> list N -> list N -> nat -> list N.
  Variable hash_of_suite : N -> N.

  (* for EVERY pseudo-random function, hash assignment, label and length: two endpoints whose snapshots are
     mirrored and whose secrets are equal export the same bytes *)
  Theorem exporter_agreement vc vs secret_c secret_s label n :
    mirrored vc vs -> secret_c = secret_s ->
    export prf hash_of_suite true vc secret_c label n = export prf hash_of_suite false vs secret_s label n.
  Proof.
    intros [M1 [M2 [_ [_ [_ [_ [_ [_ [M9 M10]]]]]]]]] Hs. subst secret_s.
    unfold export, export12, export13. rewrite M1, M2, M9, M10. reflexivity.
  Qed.

  (* the client's and the server's seed orders are the same byte string: label || client_random || server_random *)
  Theorem exporter_seed_order v secret label n :
    w_version v <> v13 ->
    export prf hash_of_suite true v secret label n =
    prf (hash_of_suite (w_suite v)) secret (label ++ w_client_random v ++ w_server_random v) n /\
    export prf hash_of_suite false v secret label n =
    prf (hash_of_suite (w_suite v)) secret (label ++ w_client_random v ++ w_server_random v) n.
  Proof.
    intro Hv. unfold export, export12. apply N.eqb_neq in Hv. rewrite Hv. now split.
  Qed.
End ExporterAgreement.

(* ------------------------------------------------------------------ the exporter as coded: the suite lookup *)

Section ExporterAsCodedFacts.
  Variable prf : N -> list N -> list N -> nat -> list N.
  Variable hash_of_suite : N -> N.

  (* the two sides still agree - on the bytes, or on the failure *)
  Theorem export_as_coded_agreement vc vs secret_c secret_s label n :
    mirrored vc vs -> secret_c = secret_s ->
    export_as_coded prf hash_of_suite true vc secret_c label n = export_as_coded prf hash_of_suite false vs secret_s label n.
  Proof.
    intros M Hs. unfold export_as_coded. pose proof M as [_ [M2 _]]. rewrite M2.
    destruct (known_suite (w_suite vs)); [|reflexivity]. f_equal. now apply exporter_agreement.
  Qed.

  (* keying material is available exactly for the built-in suites ... *)
  Theorem export_as_coded_available is_client v secret label n :
    export_as_coded prf hash_of_suite is_client v secret label n <> None <-> known_suite (w_suite v) = true.
  Proof. unfold export_as_coded. destruct (known_suite (w_suite v)); split; congruence. Qed.

  (* ... so "exported keying material for every label" fails for a session negotiated on a user-supplied suite
     (WithCustomCipherSuites; 0xFFFE is the private identifier the harness uses): both sides get an error *)
  Theorem export_unavailable_on_custom_suite_refuted :
    exists suite, known_suite suite = false /\
      forall is_client v secret label n, w_suite v = suite ->
        export_as_coded prf hash_of_suite is_client v secret label n = None.
  Proof.
    exists 65534. split; [vm_compute; reflexivity|].
    intros is_client v secret label n Hs. unfold export_as_coded. rewrite Hs. reflexivity.
  Qed.
End ExporterAsCodedFacts.

(* ------------------------------------------------------------------ the session's name under a ServerHello hook *)

(* whatever id the hook writes, both sides name (and store) the session alike: the next ClientHello offers an id the
   server's store knows *)
Theorem session_named_alike generated sh_id :
  server_session_name generated sh_id = client_session_name sh_id.
Proof. reflexivity. Qed.

(* before 6fdd853: the server kept the id it generated *)
Theorem session_named_before_the_hook_refuted :
  exists generated sh_id, server_session_name_sw false generated sh_id <> client_session_name sh_id.
Proof. exists [1], [2]. discriminate. Qed.

Theorem session_name_as_coded :
  if server_names_session_as_final_server_hello
  then forall generated sh_id, server_session_name generated sh_id = client_session_name sh_id
  else exists generated sh_id, server_session_name generated sh_id <> client_session_name sh_id.
Proof. cbv iota beta delta [server_names_session_as_final_server_hello]. exact session_named_alike. Qed.
