(* C01 - agreement on the VALUE of a negotiated name (ALPN protocol), at the level of bytes.
   Names are byte strings; what each endpoint commits is a function of the BYTES of the ServerHello's
   application_layer_protocol_negotiation extension.  Definitions only.

   Code followed: pkg/protocol/extension/alpn.go ALPNProtocolSelection (server: the first entry of its OWN list
   that occurs in the client's offer, returned as the server spells it), flight12 flight4Generate /
   flight4bGenerate + commitFinalServerHello (the server stores the bytes its final ServerHello carries),
   flight3Parse (client: the selected bytes must occur in cfg.SupportedProtocols - slices.Contains, byte
   equality - and exactly these bytes are stored).  flight13 does not negotiate ALPN at all (both sides keep "").

   The comparison [eqv] used for matching and the switch [own_spelling] (true = an endpoint stores the entry of
   its own list that matched, false = the client stores the bytes it received) are parameters: the code is
   [name_eqb] / [false]; the refuted variant is a case-insensitive match with [own_spelling = true]. *)
From Coq Require Import List NArith Bool.
Import ListNotations.
From DtlsV Require Import Lib.Bytes.
Open Scope N_scope.

Definition name := list N.

Fixpoint name_eqb (a b : name) : bool :=
  match a, b with
  | [], [] => true
  | x :: a', y :: b' => (x =? y) && name_eqb a' b'
  | _, _ => false
  end.

(* a normalisation: ASCII letter case (strings.EqualFold restricted to ASCII) *)
Definition fold_byte (b : N) : N := if (65 <=? b) && (b <=? 90) then b + 32 else b.
Definition fold_name (n : name) : name := map fold_byte n.
Definition fold_eqb (a b : name) : bool := name_eqb (fold_name a) (fold_name b).

Section Matching.
  Variable eqv : name -> name -> bool.

  (* the entry of [l] that matches [n], as spelled in [l] *)
  Fixpoint lookup (l : list name) (n : name) : option name :=
    match l with
    | [] => None
    | p :: l' => if eqv p n then Some p else lookup l' n
    end.

  (* ALPNProtocolSelection own peer: server order, server's spelling *)
  Fixpoint select (own peer : list name) : option name :=
    match own with
    | [] => None
    | s :: own' => match lookup peer s with Some _ => Some s | None => select own' peer end
    end.

  (* what the server's hello carries: None = refuse (no_application_protocol), Some None = no extension *)
  Definition server_hello_alpn (sl offer : list name) : option (option name) :=
    match sl, offer with
    | [], _ => Some None
    | _, [] => Some None
    | _, _ => match select sl offer with Some n => Some (Some n) | None => None end
    end.

  (* flight3Parse on the selected bytes [sel] *)
  Definition client_commit (own_spelling : bool) (cl : list name) (sel : name) : option name :=
    match lookup cl sel with
    | Some p => Some (if own_spelling then p else sel)
    | None => None
    end.
End Matching.

(* commitFinalServerHello: the bytes of the ServerHello that left the server *)
Definition server_commit (sel : name) : name := sel.

Inductive alpn_result :=
| AlpnNone                              (* both complete, no protocol negotiated *)
| AlpnDone (client server : name)       (* both complete; what each side reports *)
| AlpnRefusedByServer                   (* no_application_protocol (120) *)
| AlpnRefusedByClient.                  (* illegal_parameter (47) *)

(* the client's side of any ServerHello (honest, hooked or rogue): [sel] = the bytes on the wire *)
Definition alpn12_on_wire (eqv : name -> name -> bool) (own : bool) (cl : list name) (sel : option name) : alpn_result :=
  match sel with
  | None => AlpnNone
  | Some s => match client_commit eqv own cl s with
              | Some c => AlpnDone c (server_commit s)
              | None => AlpnRefusedByClient
              end
  end.

Definition alpn12 (eqv : name -> name -> bool) (own : bool) (cl sl : list name) : alpn_result :=
  match server_hello_alpn eqv sl cl with
  | None => AlpnRefusedByServer
  | Some sel => alpn12_on_wire eqv own cl sel
  end.

(* as coded *)
Definition alpn12_as_coded : list name -> list name -> alpn_result := alpn12 name_eqb false.
(* DTLS 1.3 as coded: the offer is recorded, nothing is selected *)
Definition alpn13_as_coded (cl sl : list name) : alpn_result := AlpnNone.

Definition agree (r : alpn_result) : Prop :=
  match r with AlpnDone c s => c = s | _ => True end.
