(* Comparison function evaluated by checks/c01.py on the observations of
   harness/overlay/root/zz_verif_c01_names_test.go (vm_compute, vlib.coq_mismatches): the two ALPN lists as
   configured (real bytes), the version the pair can only negotiate, how the association ended and the bytes of
   ConnectionState().NegotiatedProtocol on each side. *)
From Coq Require Import List NArith Bool.
Import ListNotations.
From DtlsV Require Import Lib.Bytes Neg.C01Names.
Open Scope N_scope.

(* client list, server list, version (2/3), class (0 both ok, 1 client sent an alert, 2 server sent an alert, other),
   alert, client's name, server's name *)
Definition c01n_case := (list name * list name * N * N * N * name * name)%type.

Definition c01n_predict (cl sl : list name) (v : N) : alpn_result :=
  if v =? 3 then alpn13_as_coded cl sl else alpn12_as_coded cl sl.

Definition c01n_ok (c : c01n_case) : bool :=
  let '(cl, sl, v, k, a, oc, os) := c in
  match c01n_predict cl sl v with
  | AlpnNone => (k =? 0) && name_eqb oc [] && name_eqb os []
  | AlpnDone pc ps => (k =? 0) && name_eqb pc oc && name_eqb ps os
  | AlpnRefusedByServer => (k =? 2) && (a =? 120)
  | AlpnRefusedByClient => (k =? 1) && (a =? 47)
  end.

Fixpoint mismatches_from {A} (ok : A -> bool) (i : N) (l : list A) : list N :=
  match l with
  | [] => []
  | c :: l' => if ok c then mismatches_from ok (i + 1) l' else i :: mismatches_from ok (i + 1) l'
  end.
Definition mismatches {A} (ok : A -> bool) (l : list A) : list N := mismatches_from ok 0 l.
