(* Proofs about Neg/C01Names.v (byte-level agreement on the negotiated ALPN name). *)
From Coq Require Import List NArith Bool Lia.
Import ListNotations.
From DtlsV Require Import Lib.Bytes Neg.C01Names.
Open Scope N_scope.

Lemma name_eqb_eq : forall a b, name_eqb a b = true <-> a = b.
Proof.
  induction a as [|x a IH]; destruct b as [|y b]; cbn [name_eqb]; split; intro H; try reflexivity; try discriminate.
  - apply andb_true_iff in H. destruct H as [H1 H2]. apply N.eqb_eq in H1. apply IH in H2. now subst.
  - inversion H; subst. apply andb_true_iff. split; [apply N.eqb_refl | now apply IH].
Qed.

Lemma name_eqb_refl : forall a, name_eqb a a = true.
Proof. intro a. now apply name_eqb_eq. Qed.

(* ---- lookup / select *)
Lemma lookup_in : forall eqv l n p, lookup eqv l n = Some p -> In p l /\ eqv p n = true.
Proof.
  intros eqv l n p. induction l as [|q l IH]; cbn [lookup]; intro H; [discriminate|].
  destruct (eqv q n) eqn:E.
  - inversion H; subst. split; [now left | exact E].
  - destruct (IH H) as [H1 H2]. split; [now right | exact H2].
Qed.

Lemma lookup_none : forall eqv l n, lookup eqv l n = None -> forall p, In p l -> eqv p n = false.
Proof.
  intros eqv l n. induction l as [|q l IH]; cbn [lookup]; intros H p Hin; [destruct Hin|].
  destruct (eqv q n) eqn:E; [discriminate|].
  destruct Hin as [->|Hin]; [exact E | now apply IH].
Qed.

Lemma lookup_exact : forall l n p, lookup name_eqb l n = Some p -> p = n /\ In n l.
Proof.
  intros l n p H. apply lookup_in in H. destruct H as [H1 H2]. apply name_eqb_eq in H2. subst. now split.
Qed.

Lemma lookup_exact_in : forall l n, In n l -> lookup name_eqb l n = Some n.
Proof.
  intros l n. induction l as [|q l IH]; cbn [lookup]; intro Hin; [destruct Hin|].
  destruct (name_eqb q n) eqn:E.
  - apply name_eqb_eq in E. now subst.
  - destruct Hin as [->|Hin]; [rewrite name_eqb_refl in E; discriminate | now apply IH].
Qed.

Lemma select_in : forall eqv own peer s, select eqv own peer = Some s ->
  In s own /\ exists p, In p peer /\ eqv p s = true.
Proof.
  intros eqv own peer s. induction own as [|q own IH]; cbn [select]; intro H; [discriminate|].
  destruct (lookup eqv peer q) as [p|] eqn:E.
  - inversion H; subst. apply lookup_in in E. split; [now left | now exists p].
  - destruct (IH H) as [H1 H2]. split; [now right | exact H2].
Qed.

Lemma select_none : forall eqv own peer, select eqv own peer = None ->
  forall s p, In s own -> In p peer -> eqv p s = false.
Proof.
  intros eqv own peer. induction own as [|q own IH]; cbn [select]; intros H s p Hs Hp; [destruct Hs|].
  destruct (lookup eqv peer q) eqn:E; [discriminate|].
  destruct Hs as [->|Hs].
  - now apply (lookup_none _ _ _ E).
  - now apply (IH H).
Qed.

(* ---- agreement: whatever is used for matching, a client that stores the BYTES it received holds what the server holds *)
Theorem alpn_bytes_agree_on_any_server_hello : forall eqv cl sel, agree (alpn12_on_wire eqv false cl sel).
Proof.
  intros eqv cl [s|]; cbn [alpn12_on_wire agree]; [|exact I].
  unfold client_commit. destruct (lookup eqv cl s); cbn [agree]; [reflexivity | exact I].
Qed.

Theorem alpn_bytes_agree_any_matching : forall eqv cl sl c s, alpn12 eqv false cl sl = AlpnDone c s -> c = s.
Proof.
  intros eqv cl sl c s H. unfold alpn12 in H.
  destruct (server_hello_alpn eqv sl cl) as [sel|]; [|discriminate].
  pose proof (alpn_bytes_agree_on_any_server_hello eqv cl sel) as A. rewrite H in A. exact A.
Qed.

(* the statement asked for: as coded, for every pair of lists *)
Theorem alpn_bytes_agree : forall cl sl c s, alpn12_as_coded cl sl = AlpnDone c s ->
  c = s /\ In c cl /\ In s sl.
Proof.
  intros cl sl c s H. pose proof (alpn_bytes_agree_any_matching _ _ _ _ _ H) as E.
  unfold alpn12_as_coded, alpn12 in H.
  destruct (server_hello_alpn name_eqb sl cl) as [sel|] eqn:SH; [|discriminate].
  destruct sel as [n|]; cbn [alpn12_on_wire] in H; [|discriminate].
  unfold client_commit in H. destruct (lookup name_eqb cl n) as [p|] eqn:L; [|discriminate].
  unfold server_commit in H. inversion H; subst. apply lookup_exact in L. destruct L as [_ Hc].
  split; [reflexivity|]. split; [exact Hc|].
  unfold server_hello_alpn in SH. destruct sl as [|s0 sl]; [discriminate|]. destruct cl as [|c0 cl]; [destruct Hc|].
  destruct (select name_eqb (s0 :: sl) (c0 :: cl)) as [m|] eqn:S; [|discriminate].
  inversion SH; subst. apply select_in in S. tauto.
Qed.

(* byte equality as the comparison: also an endpoint that stores its own entry agrees (its entry IS the bytes) *)
Theorem alpn_own_spelling_harmless_under_byte_equality : forall own cl sl c s,
  alpn12 name_eqb own cl sl = AlpnDone c s -> c = s.
Proof.
  intros own cl sl c s H. unfold alpn12 in H.
  destruct (server_hello_alpn name_eqb sl cl) as [sel|]; [|discriminate].
  destruct sel as [n|]; cbn [alpn12_on_wire] in H; [|discriminate].
  unfold client_commit in H. destruct (lookup name_eqb cl n) as [p|] eqn:L; [|discriminate].
  apply lookup_exact in L. destruct L as [-> _]. unfold server_commit in H. destruct own; inversion H; subst; reflexivity.
Qed.

(* as coded the honest server is never refused by the client, and a refusal means there is no common byte string *)
Theorem alpn_client_accepts_honest_server : forall cl sl, alpn12_as_coded cl sl <> AlpnRefusedByClient.
Proof.
  intros cl sl H. unfold alpn12_as_coded, alpn12 in H.
  destruct (server_hello_alpn name_eqb sl cl) as [sel|] eqn:SH; [|discriminate].
  destruct sel as [n|]; cbn [alpn12_on_wire] in H; [|discriminate].
  unfold client_commit in H. destruct (lookup name_eqb cl n) as [p|] eqn:L; [discriminate|].
  unfold server_hello_alpn in SH. destruct sl as [|s0 sl]; [discriminate|]. destruct cl as [|c0 cl]; [discriminate|].
  destruct (select name_eqb (s0 :: sl) (c0 :: cl)) as [m|] eqn:S; [|discriminate].
  inversion SH; subst. apply select_in in S. destruct S as [_ [p [Hp E]]].
  apply name_eqb_eq in E. subst p. rewrite (lookup_exact_in _ _ Hp) in L. discriminate.
Qed.

Theorem alpn_refused_iff_no_common_bytes : forall cl sl, cl <> [] -> sl <> [] ->
  (alpn12_as_coded cl sl = AlpnRefusedByServer <-> forall n, In n cl -> In n sl -> False).
Proof.
  intros cl sl Hc Hs. unfold alpn12_as_coded, alpn12, server_hello_alpn.
  destruct sl as [|s0 sl]; [congruence|]. destruct cl as [|c0 cl]; [congruence|].
  destruct (select name_eqb (s0 :: sl) (c0 :: cl)) as [m|] eqn:S.
  - split.
    + cbn [alpn12_on_wire]. unfold client_commit. destruct (lookup name_eqb (c0 :: cl) m); discriminate.
    + intro H. exfalso. apply select_in in S. destruct S as [H1 [p [H2 E]]]. apply name_eqb_eq in E. subst p.
      exact (H m H2 H1).
  - split; [|reflexivity]. intros _ n Hn1 Hn2.
    pose proof (select_none _ _ _ S n n Hn2 Hn1) as E. rewrite name_eqb_refl in E. discriminate.
Qed.

Theorem alpn_absent_or_empty_list_negotiates_nothing : forall eqv own cl sl,
  cl = [] \/ sl = [] -> alpn12 eqv own cl sl = AlpnNone.
Proof.
  intros eqv own cl sl [->| ->]; unfold alpn12, server_hello_alpn.
  - destruct sl; reflexivity.
  - reflexivity.
Qed.

(* ---- the variant: case-insensitive matching and every endpoint stores its OWN spelling *)
Definition n_webrtc : name := [119; 101; 98; 114; 116; 99].     (* "webrtc" *)
Definition n_WebRTC : name := [87; 101; 98; 82; 84; 67].        (* "WebRTC" *)

Theorem alpn_own_spelling_after_folded_match_refuted :
  exists cl sl c s, alpn12 fold_eqb true cl sl = AlpnDone c s /\ c <> s.
Proof.
  exists [n_webrtc], [n_WebRTC], n_webrtc, n_WebRTC. split; [vm_compute; reflexivity | discriminate].
Qed.

(* each half alone is harmless on that witness: a lenient server facing the strict client is refused by the client,
   a lenient client never differs from a strict server *)
Theorem alpn_folded_server_strict_client_refused :
  alpn12_on_wire name_eqb false [n_webrtc] (Some n_WebRTC) = AlpnRefusedByClient.
Proof. vm_compute. reflexivity. Qed.

Theorem alpn_strict_server_any_client_agree : forall eqvc own cl sl c s,
  match server_hello_alpn name_eqb sl cl with
  | Some sel => alpn12_on_wire eqvc own cl sel = AlpnDone c s -> In s cl
  | None => True
  end.
Proof.
  intros eqvc own cl sl c s. destruct (server_hello_alpn name_eqb sl cl) as [sel|] eqn:SH; [|exact I].
  destruct sel as [n|]; cbn [alpn12_on_wire]; [|discriminate].
  destruct (client_commit eqvc own cl n); [|discriminate]. intro H. inversion H; subst. unfold server_commit.
  unfold server_hello_alpn in SH. destruct sl as [|s0 sl]; [discriminate|]. destruct cl as [|c0 cl]; [discriminate|].
  destruct (select name_eqb (s0 :: sl) (c0 :: cl)) as [m|] eqn:S; [|discriminate].
  inversion SH; subst. apply select_in in S. destruct S as [_ [p [Hp E]]]. apply name_eqb_eq in E. now subst.
Qed.
