(* C11 - ALPN policy at byte level (round g).  The selection function of the server
   (pkg/protocol/extension/alpn.go ALPNProtocolSelection) is [C01Names.select name_eqb]: first entry of
   the server's list that is, byte for byte, an entry of the client's offer, in the server's spelling.
   Here: the variant that matches under another relation and answers in the PEER's spelling.
   Definitions only. *)
From Coq Require Import List NArith Bool.
Import ListNotations.
From DtlsV Require Import Lib.Bytes Neg.C01Names.
Open Scope N_scope.

(* variant of ALPNProtocolSelection: matching relation [eqv], the answer is the peer's spelling *)
Fixpoint select_peer (eqv : name -> name -> bool) (own peer : list name) : option name :=
  match own with
  | [] => None
  | s :: own' => match lookup eqv peer s with Some p => Some p | None => select_peer eqv own' peer end
  end.

(* the association an honest strict client forms with a server that uses [select_peer eqv] *)
Definition alpn12_peer_spelling (eqv : name -> name -> bool) (cl sl : list name) : alpn_result :=
  match sl, cl with
  | [], _ | _, [] => AlpnNone
  | _, _ => match select_peer eqv sl cl with
            | Some n => alpn12_on_wire name_eqb false cl (Some n)
            | None => AlpnRefusedByServer
            end
  end.
