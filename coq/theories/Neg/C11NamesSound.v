(* C11 - ALPN policy at byte level: proofs. *)
From Coq Require Import List NArith Bool Lia.
Import ListNotations.
From DtlsV Require Import Lib.Bytes Neg.C01Names Neg.C01NamesSound Neg.C11Names.
Open Scope N_scope.

(* as coded: what the server selects is, byte for byte, an entry of its own list and of the offer *)
Theorem alpn_selection_within_both_lists : forall own peer n,
  select name_eqb own peer = Some n -> In n own /\ In n peer.
Proof.
  intros own peer n H. destruct (select_in _ _ _ _ H) as [Ho [p [Hp E]]].
  apply name_eqb_eq in E. subst p. split; assumption.
Qed.

(* as coded: whenever both sides complete with a protocol, each side's value is an entry of BOTH
   configured lists, for every pair of lists *)
Theorem alpn_done_within_both_policies : forall cl sl c s,
  alpn12_as_coded cl sl = AlpnDone c s -> (In c cl /\ In c sl) /\ (In s cl /\ In s sl).
Proof.
  intros cl sl c s H. destruct (alpn_bytes_agree _ _ _ _ H) as [E [Hc Hs]]. subst s. repeat split; assumption.
Qed.

(* under byte equality the spelling returned does not matter: the peer's spelling IS the own one *)
Theorem select_peer_exact_is_select : forall own peer, select_peer name_eqb own peer = select name_eqb own peer.
Proof.
  intros own peer. induction own as [|s own IH]; [reflexivity|]. cbn [select_peer select].
  destruct (lookup name_eqb peer s) as [p|] eqn:E; [|exact IH].
  destruct (lookup_exact _ _ _ E) as [-> _]. reflexivity.
Qed.

(* REFUTED for the variant (case-folded matching, peer's spelling): both sides complete - the strict
   client sees its own spelling and accepts - with a protocol that is not in the server's list *)
Theorem alpn_folded_peer_spelling_outside_policy_refuted :
  exists cl sl c s, alpn12_peer_spelling fold_eqb cl sl = AlpnDone c s /\ c = s /\ ~ In s sl /\
                    alpn12_as_coded cl sl = AlpnRefusedByServer.
Proof.
  exists [n_webrtc], [n_WebRTC], n_webrtc, n_webrtc.
  split; [vm_compute; reflexivity|]. split; [reflexivity|]. split.
  - intros [H|[]]. discriminate H.
  - vm_compute. reflexivity.
Qed.
