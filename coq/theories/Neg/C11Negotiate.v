(* C11 - executable model of the negotiation logic of pion/dtls (definitions only).

   Follows the code, not the RFCs:
     config.go            effectiveProtocolVersionRange, newConnConfigValues, validateConfig
     cipher_suite.go      parseCipherSuitesForVersions, filterCipherSuitesForCertificate / ForVersion
     internal/config      NormalizeProtocolVersionRange, SupportedVersionsRange, SelectVersion
     conn.go              HandshakeContext, prepareHandshakeStart, pickVersionFrom*
     flight12             flight0Parse, flight1Generate, flight3Parse, flight4Generate, flight4bGenerate,
                          flight4Parse, flight5Generate (initializeCipherSuite), curves.go
     flight13             flight0Parse, flight1Generate, flight2Parse, flight3Parse, flight4Generate, flight5Generate
     internal/negotiation ValidateServerHelloResponse, NegotiateSRTP, ValidateSRTPSelection, DecideConnectionID
     extension/alpn.go    ALPNProtocolSelection
     signaturehash        ParseSignatureSchemes, SelectSignatureScheme(13)

   Identifiers are numbers: versions 2 = DTLS 1.2, 3 = DTLS 1.3 (0 = unset); cipher suites,
   groups, signature schemes, SRTP profiles and extension types by their wire ids; ALPN protocols
   by an index (0 = none); certificate key types 1 Ed25519, 2 ECDSA, 3 RSA (0 = no certificate).
   The attribute tables come from Gen/GeneratedC11.v, which is re-dumped from /repo on every run. *)
From DtlsV Require Import Lib.Bytes Gen.GeneratedC11.
Open Scope N_scope.

(* ------------------------------------------------------------------ list helpers *)

Definition mem (x : N) (l : list N) : bool := existsb (N.eqb x) l.

(* FindMatchingCipherSuite(a, b) / FindMatchingSRTPProfile / the loops of selectEllipticCurve,
   NegotiateSRTP, ALPNProtocolSelection: first element of [a] that occurs in [b] *)
Definition first_common (a b : list N) : option N := find (fun x => mem x b) a.

Definition inter (a b : list N) : list N := filter (fun x => mem x b) a.

Definition nonempty {A} (l : list A) : bool := match l with [] => false | _ => true end.

Definition lookup {A} (k : N) (t : list (N * A)) : option A :=
  match find (fun p => N.eqb (fst p) k) t with Some p => Some (snd p) | None => None end.

Definition bytes_eqb (a b : list N) : bool := if list_eq_dec N.eq_dec a b then true else false.

(* ------------------------------------------------------------------ versions (internal/config/util.go) *)

Definition v12 : N := 2.
Definition v13 : N := 3.

(* NormalizeProtocolVersionRange: anything that is not DTLS 1.3 becomes DTLS 1.2 *)
Definition norm_version (v : N) : N := if v =? v13 then v13 else v12.

(* versionAtLeast / versionAtMost (a newer version has the larger number here) *)
Definition in_range (mn mx v : N) : bool := (mn <=? v) && (v <=? mx).

(* SupportedVersionsRange: newest first *)
Definition supported_versions (mn mx : N) : list N := filter (in_range mn mx) g11_version_order.

(* SelectVersion: the FIRST version of the peer's list that lies in the local range *)
Definition select_version (remote : list N) (mn mx : N) : option N := find (in_range mn mx) remote.

(* ------------------------------------------------------------------ cipher-suite attributes *)

Definition suite_info (id : N) := lookup id g11_suites.
Definition known_suite (id : N) : bool := match suite_info id with Some _ => true | None => false end.
Definition s_auth (id : N) : N := match suite_info id with Some (a, _, _, _, _, _) => a | None => 0 end.
Definition s_kx (id : N) : N := match suite_info id with Some (_, k, _, _, _, _) => k | None => 0 end.
Definition s_cert (id : N) : N := match suite_info id with Some (_, _, c, _, _, _) => c | None => 0 end.
Definition s_ecc (id : N) : bool := match suite_info id with Some (_, _, _, e, _, _) => e | None => false end.
Definition s_supports (id v : N) : bool :=
  match suite_info id with
  | Some (_, _, _, _, b12, b13) => if v =? v13 then b13 else if v =? v12 then b12 else false
  | None => false
  end.
Definition s_ecdhe (id : N) : bool := N.testbit (s_kx id) 2. (* KeyExchangeAlgorithmEcdhe = 4 *)

(* ------------------------------------------------------------------ configuration *)

Record cfg := mkCfg {
  c_min : N; c_max : N;                (* MinVersion / MaxVersion as configured (0 = unset) *)
  c_suites : option (list N);          (* CipherSuites; None = nil *)
  c_psk : bool;                        (* PSK callback set *)
  c_hint : bool;                       (* PSKIdentityHint set *)
  c_key : N;                           (* key type of the (single) certificate, 0 = none *)
  c_chain_sig : N;                     (* signature scheme the presented chain is signed with *)
  c_client_auth : N;                   (* server: ClientAuth *)
  c_skip_verify : bool;                (* client: InsecureSkipVerify *)
  c_curves : list N;                   (* EllipticCurves; [] = unset *)
  c_sigs : list N;                     (* SignatureSchemes; [] = unset *)
  c_csigs : list N;                    (* CertificateSignatureSchemes; [] = unset *)
  c_ems : N;
  c_srtp : list N; c_mki : list N;
  c_alpn : list N;
  c_cid : option (list N);             (* ConnectionIDGenerator: None = nil, Some b = returns b *)
  c_store : bool;                      (* session store set *)
  c_skip_hv : bool;                    (* server: InsecureSkipVerifyHello *)
  c_key2 : N;                          (* server: key type of a SECOND certificate, issued for another name (0 = none) *)
  c_sni : bool                         (* client: the configured server name is that other name *)
}.

(* ------------------------------------------------------------------ building a connection (config.go) *)

Definition eff_curves (c : cfg) : list N := match c_curves c with [] => g11_default_curves | l => l end.

(* supportedCipherSuiteVersions *)
Definition suite_versions (ss : option (list N)) (versions : list N) : list N :=
  match ss with
  | None => versions
  | Some l => if forallb known_suite l
              then filter (fun v => existsb (fun s => s_supports s v) l) versions
              else versions
  end.

(* supportedEllipticCurveVersions *)
Definition curve_versions (curves : list N) (versions : list N) : list N :=
  match curves with
  | [] => versions
  | _ => filter (fun v => existsb (fun c => negb (c =? g11_curve_mlkem) || (v =? v13)) curves) versions
  end.

(* effectiveProtocolVersionRange: Some (min, max) or None = constructor error *)
Definition effective_range (c : cfg) : option (N * N) :=
  let mn := norm_version (c_min c) in
  let mx := norm_version (c_max c) in
  let range := supported_versions mn mx in
  let cv := suite_versions (c_suites c) range in
  let versions := if nonempty cv then cv else range in
  let kv := curve_versions (c_curves c) range in
  if nonempty (c_curves c) && negb (nonempty kv) then None else
  (* a configuration with a pre-shared key and no certificate does not offer DTLS 1.3 (no PSK mode there) *)
  let vs0 := inter versions kv in
  let vs := if negb (c_psk c) || negb (c_key c =? 0) then vs0 else filter (fun v => negb (v =? v13)) vs0 in
  match vs with
  | [] => None
  | hi :: _ => Some (last vs hi, hi)
  end.

Definition default_suites_for (versions : list N) : list N :=
  flat_map (fun v => if v =? v13 then g11_default_suites13 else if v =? v12 then g11_default_suites12 else []) versions.

Definition include_cert_suites (c : cfg) : bool := negb (c_psk c) || negb (c_key c =? 0).

(* parseCipherSuitesForVersions: None = error *)
Definition parse_suites (c : cfg) (mn mx : N) : option (list N) :=
  let versions := supported_versions mn mx in
  let base := match c_suites c with
              | Some l => if forallb known_suite l then Some l else None
              | None => Some (default_suites_for versions)
              end in
  match base with
  | None => None
  | Some b =>
    let f := filter (fun s => existsb (s_supports s) versions) b in
    let incC := include_cert_suites c in
    let incP := c_psk c in
    let keep := filter (fun s => (incC && (s_auth s =? g11_auth_certificate))
                              || (incP && (s_auth s =? g11_auth_psk))
                              || (s_auth s =? g11_auth_anonymous)) f in
    let foundC := existsb (fun s => s_auth s =? g11_auth_certificate) keep in
    let foundP := existsb (fun s => s_auth s =? g11_auth_psk) keep in
    let foundA := existsb (fun s => s_auth s =? g11_auth_anonymous) keep in
    let found13 := existsb (fun s => (s_auth s =? g11_auth_anonymous) && s_supports s v13) keep in
    if incC && negb foundC && negb foundA then None
    else if incP && negb foundP && negb found13 then None
    else if nonempty keep then Some keep else None
  end.

Definition sig_info (id : N) := lookup id g11_sigs.
Definition sig_insecure (id : N) : bool := match sig_info id with Some (i, _, _, _) => i | None => false end.
Definition sig_known (id : N) : bool := match sig_info id with Some _ => true | None => false end.
(* SelectSignatureScheme / SelectSignatureScheme13 acceptance of one scheme for a key type *)
Definition sig_fits (is13 : bool) (key id : N) : bool :=
  match sig_info id with
  | Some (_, k12, k13, _) => mem key (if is13 then k13 else k12)
  | None => false
  end.
(* MessageCertificateVerify.Marshal accepts the scheme (regenerated column: since the RSA-PSS encoding fix it
   holds for every scheme a selection can return - theorem selectable_schemes_are_encodable) *)
Definition sig_encodable (id : N) : bool := match sig_info id with Some (_, _, _, e) => e | None => false end.

(* signaturehash.ParseSignatureSchemes *)
Definition parse_sigs (l : list N) : option (list N) :=
  match l with
  | [] => Some g11_default_sigs
  | _ => if forallb sig_known l
         then (let out := filter (fun s => negb (sig_insecure s)) l in if nonempty out then Some out else None)
         else None
  end.

(* the values a Conn works with (connConfigValues + HandshakeConfig) *)
Record conn := mkConn {
  k_cfg : cfg;
  k_min : N; k_max : N;
  k_suites : list N;
  k_sigs : list N;
  k_csigs : list N;        (* [] = not configured *)
  k_curves : list N
}.

(* clientWithConfig / serverWithConfig + validateConfig + createConn; None = the constructor returns an error *)
Definition build (is_client : bool) (c : cfg) : option conn :=
  if is_client && c_psk c && negb (c_hint c) then None            (* ErrPSKAndIdentityMustBeSetForClient *)
  else if c_hint c && negb (c_psk c) then None                    (* ErrIdentityNoPSK *)
  else
  match effective_range c with
  | None => None
  | Some (mn, mx) =>
    match parse_suites c mn mx, parse_sigs (c_sigs c) with
    | Some ss, Some sg =>
      match (match c_csigs c with [] => Some [] | l => parse_sigs l end) with
      | Some cs => Some (mkConn c mn mx ss sg cs (eff_curves c))
      | None => None
      end
    | _, _ => None
    end
  end.

(* filterCipherSuitesForCertificate (server, HandshakeContext) *)
Definition key_cert_type (key : N) : N := if key =? 3 then g11_cert_rsa else g11_cert_ecdsa.
Definition fits_key (key s : N) : bool :=
  negb (s_auth s =? g11_auth_certificate) || (key =? 0) || (key_cert_type key =? s_cert s).
Definition filter_for_key (key : N) (l : list N) : list N := filter (fits_key key) l.
Definition filter_for_version (v : N) (l : list N) : list N := filter (fun s => s_supports s v) l.

(* prepareHandshakeStart *)
Inductive stack := Only12 | Only13 | Dual.
Definition stack_of (k : conn) : stack :=
  if k_max k =? v12 then Only12 else if k_min k =? v13 then Only13 else Dual.

(* ------------------------------------------------------------------ ClientHello *)

Record hello := mkHello {
  h_legacy : N;                        (* legacy version field *)
  h_suites : list N; h_scsv : bool;
  h_exts : list N;                     (* extension types, wire order *)
  h_versions : list N;                 (* supported_versions ([] = absent) *)
  h_groups : option (list N);          (* supported_groups *)
  h_shares : list N;                   (* key_share groups *)
  h_sigs : list N;
  h_srtp : option (list N * list N);   (* use_srtp: profiles, MKI *)
  h_alpn : list N;                     (* [] = absent *)
  h_cid : option (list N);
  h_rrc : bool;
  h_ems : bool;
  h_session : bool;                    (* a session id is offered *)
  h_sni : bool                         (* server_name names the server's second certificate *)
}.

Definition ems_requested (p : N) : bool := (p =? g11_ems_request) || (p =? g11_ems_require).

(* curves.go supportedEllipticCurves: DTLS 1.2 never uses the hybrid group *)
Definition curves12 (l : list N) : list N := filter (fun c => negb (c =? g11_curve_mlkem)) l.

Definition opt_ext (b : bool) (e : N) : list N := if b then [e] else [].

(* flight12 flight1Generate / flight3Generate (the retry repeats the first hello) *)
Definition client_hello12 (k : conn) (session : bool) : hello :=
  let c := k_cfg k in
  let ecc := existsb s_ecc (k_suites k) in
  let cid := nonempty (match c_cid c with Some _ => [0] | None => [] end) in
  mkHello v12 (k_suites k) false
    (opt_ext (nonempty (k_sigs k)) g11_ext_signature_algorithms
     ++ [g11_ext_renegotiation_info]
     ++ opt_ext (nonempty (k_csigs k)) g11_ext_signature_algorithms_cert
     ++ (if ecc then [g11_ext_supported_groups; g11_ext_point_formats] else [])
     ++ opt_ext (nonempty (c_srtp c)) g11_ext_use_srtp
     ++ opt_ext (ems_requested (c_ems c)) g11_ext_ems
     ++ [g11_ext_server_name]
     ++ opt_ext (nonempty (c_alpn c)) g11_ext_alpn
     ++ (if cid then [g11_ext_connection_id; g11_ext_rrc] else []))
    []
    (if ecc then Some (curves12 (k_curves k)) else None)
    []
    (k_sigs k)
    (if nonempty (c_srtp c) then Some (c_srtp c, c_mki c) else None)
    (c_alpn c)
    (c_cid c) cid
    (ems_requested (c_ems c))
    session
    (c_sni c).

(* flight13 flight1Generate (also the hello of a dual-stack client) *)
Definition client_hello13 (k : conn) : hello :=
  let c := k_cfg k in
  let ecc := existsb s_ecc (k_suites k) in
  let cid := nonempty (match c_cid c with Some _ => [0] | None => [] end) in
  mkHello v12 (k_suites k) false
    ([g11_ext_signature_algorithms]
     ++ opt_ext (ems_requested (c_ems c)) g11_ext_ems
     ++ [g11_ext_renegotiation_info]
     ++ (if ecc then [g11_ext_supported_groups; g11_ext_point_formats] else [])
     ++ opt_ext (nonempty (c_alpn c)) g11_ext_alpn
     ++ [g11_ext_key_share; g11_ext_supported_versions]
     ++ opt_ext (nonempty (k_csigs k)) g11_ext_signature_algorithms_cert
     ++ [g11_ext_server_name]
     ++ opt_ext (nonempty (c_srtp c)) g11_ext_use_srtp
     ++ (if cid then [g11_ext_connection_id; g11_ext_rrc] else []))
    (supported_versions (k_min k) (k_max k))
    (if ecc then Some (k_curves k) else None)
    (k_curves k)
    (k_sigs k)
    (if nonempty (c_srtp c) then Some (c_srtp c, c_mki c) else None)
    (c_alpn c)
    (c_cid c) cid
    (ems_requested (c_ems c))
    false
    (c_sni c).

(* ------------------------------------------------------------------ results *)

Inductive side := Client | Server.

(* a step either yields a value, or the endpoint fails and sends this alert, or it fails and sends nothing *)
Inductive res (A : Type) := ROk (a : A) | RAlert (alert : N) | RSilent.
Arguments ROk {A} a. Arguments RAlert {A} alert. Arguments RSilent {A}.

Definition rbind {A B} (r : res A) (f : A -> res B) : res B :=
  match r with ROk a => f a | RAlert x => RAlert x | RSilent => RSilent end.
Notation "'do' x <- r ; k" := (rbind r (fun x => k)) (at level 200, x pattern, r at level 100, k at level 200).

Definition req (b : bool) (alert : N) : res unit := if b then ROk tt else RAlert alert.
Definition of_opt {A} (o : option A) (alert : N) : res A := match o with Some a => ROk a | None => RAlert alert end.

(* ------------------------------------------------------------------ shared pieces *)

(* internal/negotiation/srtp.go NegotiateSRTP: (profile (0 = none), MKI echoed to the client, MKI learnt from the client) *)
Definition negotiate_srtp (offer : option (list N * list N)) (local_profiles local_mki : list N)
  : res (N * list N * list N) :=
  match offer with
  | None => if nonempty local_profiles then RAlert g11_alert_insufficient_security else ROk (0, [], [])
  | Some (profiles, mki) =>
    match first_common local_profiles profiles with
    | None => RAlert g11_alert_insufficient_security
    | Some p => if p =? 0 then RAlert g11_alert_insufficient_security else
                ROk (p, (if nonempty mki && bytes_eqb mki local_mki then mki else []), mki)
    end
  end.

(* ValidateSRTPSelection on the client: selection = (profile, MKI) carried by the server, if any *)
Definition validate_srtp (offer : option (list N * list N)) (selection : option (N * list N)) (local_profiles : list N)
  : res (N * list N) :=
  match offer with
  | None => if nonempty local_profiles then RAlert g11_alert_insufficient_security else ROk (0, [])
  | Some (profiles, mki) =>
    match selection with
    | None => RAlert g11_alert_insufficient_security
    | Some (p, m) =>
      if negb (mem p profiles && mem p local_profiles) then RAlert g11_alert_illegal_parameter
      else if nonempty m && negb (bytes_eqb m mki) then RAlert g11_alert_illegal_parameter
      else ROk (p, m)
    end
  end.

(* extension/alpn.go ALPNProtocolSelection(server list, client list): 0 = nothing selected *)
Definition alpn_select (server_protos client_protos : list N) : res N :=
  if negb (nonempty server_protos) || negb (nonempty client_protos) then ROk 0 else
  match first_common server_protos client_protos with
  | Some p => ROk p
  | None => RAlert g11_alert_no_application_protocol
  end.

(* curves.go selectEllipticCurve(local, remote): the client's order decides *)
Definition select_curve (local remote : list N) : option N := first_common remote (curves12 local).

(* signaturehash.selectSignatureScheme: first scheme of the list the key can sign with *)
Definition select_sig (is13 : bool) (schemes : list N) (key : N) : option N := find (sig_fits is13 key) schemes.

(* serverCIDExtension + DecideConnectionID: the pair (client's CID, server's CID) both sides commit, and RRC *)
Definition server_cid (h : hello) (s : cfg) : option (list N) :=
  match h_cid h, c_cid s with Some _, Some b => Some b | _, _ => None end.
Definition decide_cid (h : hello) (server_ext : option (list N)) (server_rrc : bool)
  : option (list N * list N * bool) :=
  match h_cid h, server_ext with
  | Some cc, Some sc => Some (cc, sc, h_rrc h && server_rrc)
  | _, _ => None
  end.

(* ValidateServerHelloResponse: every response extension was offered, except renegotiation_info
   when the hello carried the SCSV (and the cookie of a HelloRetryRequest, not modelled here) *)
Definition validate_response_exts (h : hello) (exts : list N) : bool :=
  forallb (fun e => mem e (h_exts h) || ((e =? g11_ext_renegotiation_info) && h_scsv h)) exts.

(* the certificate chain of the peer passes Verify*Cert's signature-algorithm filter *)
Definition cert_algs (k : conn) : list N := match k_csigs k with [] => k_sigs k | l => l end.

(* ------------------------------------------------------------------ the negotiated record *)

Record outcome := mkOut {
  o_version : N;
  o_suite : N;
  o_group : N;                       (* key-exchange group, 0 = none used *)
  o_sig : N;                         (* scheme of the server's handshake signature, 0 = none *)
  o_csig : N;                        (* scheme of the client's CertificateVerify, 0 = none *)
  o_ems : bool;
  o_srtp : N;                        (* 0 = none *)
  o_mki_client : list N;             (* what the client reports as the peer's MKI *)
  o_mki_server : list N;             (* what the server reports as the peer's MKI *)
  o_alpn : N;                        (* 0 = none *)
  o_cid : option (list N * list N * bool);   (* client's CID, server's CID, RRC *)
  o_resumed : bool;
  o_server_cert : bool;              (* the server presented its chain *)
  o_client_cert : bool;              (* the client presented its chain *)
  o_cert_requested : bool;
  o_ch_exts : list N;
  o_sh_exts : list N;                (* extension types of the ServerHello *)
  o_server_key : N                   (* key type of the certificate the server presented (0 = none) *)
}.

(* what the server puts in flight 4 / 4b (DTLS 1.2) or flight 4 (DTLS 1.3) *)
Record server_flight := mkSF {
  f_version : N;
  f_suite : N;
  f_group : N;
  f_sig : N;
  f_ems : bool;                       (* server-side EMS flag *)
  f_ems_ext : bool;                   (* EMS extension in the ServerHello *)
  f_srtp : N; f_mki_echo : list N; f_mki_peer : list N;
  f_alpn : N;
  f_cid_ext : option (list N); f_rrc_ext : bool;
  f_resumed : bool;
  f_cert : bool;                      (* Certificate message present *)
  f_cert_req : bool;
  f_sh_exts : list N;
  f_ee_exts : list N;                 (* EncryptedExtensions (DTLS 1.3) *)
  f_key : N;                          (* key type of the certificate presented (0 = none) *)
  f_alt : bool                        (* ... and it is the second certificate *)
}.

(* internal/config GetCertificate(ServerName): with two certificates the one whose name the client asked for,
   else the first.  (HandshakeContext's suite filter asked with an EMPTY name: always the first - c_key.) *)
Definition has_alt (s : cfg) : bool := negb (c_key s =? 0) && negb (c_key2 s =? 0).
Definition presents_alt (s : cfg) (h : hello) : bool := h_sni h && has_alt s.
Definition presented_key (s : cfg) (h : hello) : N := if presents_alt s h then c_key2 s else c_key s.

(* ------------------------------------------------------------------ DTLS 1.2 server: flight0Parse, flight4(b)Generate *)

(* [ssuites] = LocalCipherSuites after the key-type and version filters; [resumable] = the offered
   session is in the server's store *)
(* flight0Parse: the cipher suite, and negotiateClientHelloExtensions: what one ClientHello decides through its
   extensions - (suite, group, extended master secret) - or the alert it is refused with *)
Definition hello12_choices (k : conn) (ssuites : list N) (h : hello) : res (N * N * bool) :=
  let s := k_cfg k in
  do _ <- req (h_legacy h =? v12) g11_alert_protocol_version;
  (* suites the client offered that this build knows and that exist in DTLS 1.2, client order *)
  let offered := filter (fun x => s_supports x v12) (filter known_suite (h_suites h)) in
  do suite <- of_opt (first_common offered ssuites) g11_alert_insufficient_security;
  (* extension loop: supported_groups may fail *)
  do group <- match h_groups h with
              | None => ROk (hd 0 (curves12 (k_curves k)))
              | Some gs => of_opt (select_curve (k_curves k) gs) g11_alert_insufficient_security
              end;
  let ems := h_ems h && negb (c_ems s =? g11_ems_disable) in
  do _ <- req (negb (c_ems s =? g11_ems_require) || ems) g11_alert_insufficient_security;
  ROk (suite, group, ems).

Definition server12 (k : conn) (ssuites : list N) (h : hello) (resumable : bool) : res server_flight :=
  let s := k_cfg k in
  do (suite, group, ems) <- hello12_choices k ssuites h;
  let resumed := resumable && h_session h && c_store s in
  (* flight4Generate / flight4bGenerate *)
  do (profile, echo, peer_mki) <- negotiate_srtp (h_srtp h) (c_srtp s) (c_mki s);
  let ems_ext := ems_requested (c_ems s) && ems in
  let reneg := mem g11_ext_renegotiation_info (h_exts h) || h_scsv h in
  let pf := (s_auth suite =? g11_auth_certificate) && mem g11_ext_point_formats (h_exts h) && negb resumed in
  do proto <- alpn_select (c_alpn s) (h_alpn h);
  let cid := server_cid h s in
  let rrc := nonempty (match cid with Some _ => [0] | None => [] end) && mem g11_ext_rrc (h_exts h) in
  let exts :=
    if resumed then
      opt_ext reneg g11_ext_renegotiation_info ++ opt_ext ems_ext g11_ext_ems
      ++ opt_ext (negb (profile =? 0)) g11_ext_use_srtp ++ opt_ext (negb (proto =? 0)) g11_ext_alpn
      ++ opt_ext (nonempty (match cid with Some _ => [0] | None => [] end)) g11_ext_connection_id
      ++ opt_ext rrc g11_ext_rrc
    else
      opt_ext ems_ext g11_ext_ems ++ opt_ext (negb (profile =? 0)) g11_ext_use_srtp
      ++ opt_ext reneg g11_ext_renegotiation_info ++ opt_ext pf g11_ext_point_formats
      ++ opt_ext (negb (proto =? 0)) g11_ext_alpn
      ++ opt_ext (nonempty (match cid with Some _ => [0] | None => [] end)) g11_ext_connection_id
      ++ opt_ext rrc g11_ext_rrc in
  do _ <- (if validate_response_exts h exts then ROk tt else RAlert g11_alert_unsupported_extension);
  let cert_auth := s_auth suite =? g11_auth_certificate in
  if resumed then
    ROk (mkSF v12 suite 0 0 ems ems_ext profile echo peer_mki proto cid rrc true false false exts [] 0 false)
  else if cert_auth then
    (* flight4Generate: the certificate is chosen by the client's server name *)
    let key := presented_key s h in
    do _ <- req (negb (key =? 0)) g11_alert_handshake_failure;            (* GetCertificate: no certificate *)
    do sg <- of_opt (select_sig false (k_sigs k) key) g11_alert_insufficient_security;
    ROk (mkSF v12 suite group sg ems ems_ext profile echo peer_mki proto cid rrc false true
              (negb (c_client_auth s =? g11_auth_no_client_cert)) exts [] key (presents_alt s h))
  else
    ROk (mkSF v12 suite (if s_ecdhe suite then group else 0) 0 ems ems_ext profile echo peer_mki proto cid rrc
              false false false exts [] 0 false).

(* ValidateHelloVerifyRequestResponse: the hello that echoes the cookie repeats everything before the
   extensions, the connection_id and the use_srtp extension of the first one *)
Definition opt_eqb {A} (eq : A -> A -> bool) (a b : option A) : bool :=
  match a, b with Some x, Some y => eq x y | None, None => true | _, _ => false end.
Definition hv_consistent (h1 h2 : hello) : bool :=
  (h_legacy h1 =? h_legacy h2) && bytes_eqb (h_suites h1) (h_suites h2) && Bool.eqb (h_scsv h1) (h_scsv h2)
  && Bool.eqb (h_session h1) (h_session h2) && opt_eqb bytes_eqb (h_cid h1) (h_cid h2)
  && opt_eqb (fun a b => bytes_eqb (fst a) (fst b) && bytes_eqb (snd a) (snd b)) (h_srtp h1) (h_srtp h2).

(* hello verification on (flight0Parse, flight2Parse): the first, cookie-less hello [h1] only has to be acceptable;
   every choice is taken again from the hello [h2] that echoes the cookie - the one the Finished messages cover *)
Definition server12_verified (k : conn) (ssuites : list N) (h1 h2 : hello) (resumable : bool) : res server_flight :=
  do _ <- hello12_choices k ssuites h1;
  do _ <- req (hv_consistent h1 h2) g11_alert_illegal_parameter;
  server12 k ssuites h2 resumable.

(* ------------------------------------------------------------------ DTLS 1.3 server: flight0Parse, flight2Parse, flight4Generate *)

Definition server13 (k : conn) (ssuites : list N) (h : hello) : res server_flight :=
  let s := k_cfg k in
  do _ <- req (h_legacy h =? v12) g11_alert_protocol_version;
  let offered := filter known_suite (h_suites h) in
  do suite <- of_opt (first_common offered ssuites) g11_alert_insufficient_security;
  (* processClientHelloExtensions *)
  do _ <- req (match h_groups h with Some [] => false | _ => true end) g11_alert_insufficient_security;
  do _ <- req (mem g11_ext_signature_algorithms (h_exts h) && (match h_groups h with Some _ => true | None => false end))
              g11_alert_missing_extension;
  do _ <- req (mem v13 (h_versions h)) g11_alert_internal_error;
  (* preferredClientGroup: the server's order decides; a share must exist for it *)
  (* no common group: with the cookie exchange the retried hello is refused in flight2Parse
     (insufficient_security); without it flight2Generate cannot build a HelloRetryRequest that has
     any effect (illegal_parameter) *)
  do group <- of_opt (first_common (k_curves k) (match h_groups h with Some g => g | None => [] end))
                     (if c_skip_hv s then g11_alert_illegal_parameter else g11_alert_insufficient_security);
  do _ <- req (mem group (h_shares h)) g11_alert_illegal_parameter;
  (* flight4Generate *)
  let key := presented_key s h in
  do _ <- req (negb (key =? 0)) g11_alert_handshake_failure;
  let common := inter (filter sig_known (h_sigs h)) (k_sigs k) in
  do sg <- of_opt (select_sig true common key) g11_alert_insufficient_security;
  do (profile, echo, peer_mki) <- negotiate_srtp (h_srtp h) (c_srtp s) (c_mki s);
  let cid := server_cid h s in
  let rrc := nonempty (match cid with Some _ => [0] | None => [] end) && mem g11_ext_rrc (h_exts h) in
  let exts := [g11_ext_supported_versions; g11_ext_key_share]
      ++ opt_ext (nonempty (match cid with Some _ => [0] | None => [] end)) g11_ext_connection_id
      ++ opt_ext rrc g11_ext_rrc in
  (* the CertificateVerify of this flight must be encodable (MessageCertificateVerify.Marshal) *)
  if negb (sig_encodable sg) then RSilent else
  ROk (mkSF v13 suite group sg true false profile echo peer_mki 0 cid rrc false true
            (negb (c_client_auth s =? g11_auth_no_client_cert)) exts (opt_ext (negb (profile =? 0)) g11_ext_use_srtp)
            key (presents_alt s h)).

(* ------------------------------------------------------------------ client: flight3Parse .. flight5Generate *)

(* internal/flight/helpers.go CommonSignatureSchemes(remote, local): the peer's schemes the local policy
   also allows, in the PEER's order; an empty local list allows all *)
Definition common_sigs (remote local : list N) : list N :=
  match local with
  | [] => remote
  | _ => filter (fun x => mem x local) remote
  end.

(* the client's CertificateVerify (flight12 flight5Generate, flight13 flight5ClientAuthPackets): first scheme
   of the server's CertificateRequest list that the client's own SignatureSchemes allow and its key can use *)
Definition client_auth_sig (is13 : bool) (ck sk : conn) (f : server_flight) : res (bool * N) :=
  if f_cert_req f then
    if c_key (k_cfg ck) =? 0 then ROk (false, 0) else
    do sg <- of_opt (select_sig is13 (common_sigs (k_sigs sk) (k_sigs ck)) (c_key (k_cfg ck)))
                    g11_alert_insufficient_security;
    ROk (true, sg)
  else ROk (false, 0).

(* [csuites] = the client's LocalCipherSuites after the version filter *)
Definition client12 (ck sk : conn) (csuites : list N) (h : hello) (f : server_flight) : res (outcome) :=
  let c := k_cfg ck in
  do _ <- (if validate_response_exts h (f_sh_exts f) then ROk tt else RAlert g11_alert_unsupported_extension);
  do (profile, mki) <- validate_srtp (h_srtp h)
        (if f_srtp f =? 0 then None else Some (f_srtp f, f_mki_echo f)) (c_srtp c);
  let cid := decide_cid h (f_cid_ext f) (f_rrc_ext f) in
  let ems := f_ems_ext f && negb (c_ems c =? g11_ems_disable) in
  (* flight3Parse, extension loop: the protocol the ServerHello names must be one this side offered *)
  do _ <- req ((f_alpn f =? 0) || mem (f_alpn f) (c_alpn c)) g11_alert_illegal_parameter;
  do _ <- req (negb (c_ems c =? g11_ems_require) || ems) g11_alert_insufficient_security;
  do _ <- req (known_suite (f_suite f) && s_supports (f_suite f) v12 && mem (f_suite f) csuites)
              g11_alert_insufficient_security;
  let out sg cs ccert :=
    mkOut v12 (f_suite f) (f_group f) sg cs ems profile mki (f_mki_peer f) (f_alpn f) cid (f_resumed f)
          (f_cert f) ccert (f_cert_req f) (h_exts h) (f_sh_exts f) (f_key f) in
  (* handleServerKeyExchange: an ECDHE key exchange must run on a group this side offered *)
  let group_ok := negb (s_ecdhe (f_suite f)) || mem (f_group f) (curves12 (k_curves ck)) in
  if f_resumed f then ROk (out 0 0 false) else
  if s_auth (f_suite f) =? g11_auth_certificate then
    do _ <- req (f_cert f) g11_alert_no_certificate;
    do _ <- req group_ok g11_alert_illegal_parameter;
    (* flight5Generate: the client's own CertificateVerify is prepared after the key exchange checks *)
    do _ <- req (mem (f_sig f) (k_sigs ck)) g11_alert_insufficient_security;
    (* VerifyServerCert: the chain is for the configured name and signed with an allowed scheme *)
    do _ <- req (c_skip_verify c || (Bool.eqb (f_alt f) (c_sni c) && mem (c_chain_sig (k_cfg sk)) (cert_algs ck)))
                g11_alert_bad_certificate;
    do (ccert, cs) <- client_auth_sig false ck sk f;
    ROk (out (f_sig f) cs ccert)
  else
    do _ <- req group_ok g11_alert_illegal_parameter;
    ROk (out 0 0 false).

Definition client13 (ck sk : conn) (csuites : list N) (h : hello) (f : server_flight) : res outcome :=
  let c := k_cfg ck in
  do _ <- (if validate_response_exts h (f_sh_exts f) then ROk tt else RAlert g11_alert_unsupported_extension);
  let cid := decide_cid h (f_cid_ext f) (f_rrc_ext f) in
  do _ <- req (known_suite (f_suite f) && s_supports (f_suite f) v13 && mem (f_suite f) csuites)
              g11_alert_insufficient_security;
  do _ <- req (mem (f_group f) (h_shares h)) g11_alert_illegal_parameter;
  do _ <- (if validate_response_exts h (f_ee_exts f) then ROk tt else RAlert g11_alert_unsupported_extension);
  do (profile, mki) <- validate_srtp (h_srtp h)
        (if f_srtp f =? 0 then None else Some (f_srtp f, f_mki_echo f)) (c_srtp c);
  do _ <- req (mem (f_sig f) (k_sigs ck)) g11_alert_insufficient_security;
  do _ <- req (c_skip_verify c || (Bool.eqb (f_alt f) (c_sni c) && mem (c_chain_sig (k_cfg sk)) (cert_algs ck)))
              g11_alert_bad_certificate;
  do (ccert, cs) <- client_auth_sig true ck sk f;
  if ccert && negb (sig_encodable cs) then RSilent else
  ROk (mkOut v13 (f_suite f) (f_group f) (f_sig f) cs true profile mki (f_mki_peer f) 0 cid false true ccert
             (f_cert_req f) (h_exts h) (f_sh_exts f) (f_key f)).

(* ---- which of client13's refusals reach the server.
   processFlight3ServerHello (extensions of the ServerHello, suite, key share) fails before the handshake keys are
   installed: the alert goes out in plaintext.  handleFlight3ProtectedHandshake (EncryptedExtensions, use_srtp,
   CertificateVerify scheme, certificate) fails through abortFlight3, which calls state.ResetConnectionIDs() BEFORE the
   FSM writes the alert: the (protected, since 5aa3cd1) alert is sealed without the connection ID the server negotiated.
   A server that negotiated a non-empty CID requires it on every protected record, drops the alert and keeps waiting. *)
Definition client13_hello_ok (csuites : list N) (h : hello) (f : server_flight) : bool :=
  validate_response_exts h (f_sh_exts f)
  && (known_suite (f_suite f) && s_supports (f_suite f) v13 && mem (f_suite f) csuites)
  && mem (f_group f) (h_shares h).

Definition client13_flight_ok (ck sk : conn) (h : hello) (f : server_flight) : bool :=
  validate_response_exts h (f_ee_exts f)
  && (match validate_srtp (h_srtp h) (if f_srtp f =? 0 then None else Some (f_srtp f, f_mki_echo f)) (c_srtp (k_cfg ck))
      with ROk _ => true | _ => false end)
  && mem (f_sig f) (k_sigs ck)
  && (c_skip_verify (k_cfg ck) || (Bool.eqb (f_alt f) (c_sni (k_cfg ck)) && mem (c_chain_sig (k_cfg sk)) (cert_algs ck))).

(* the server put a non-empty connection ID into its ServerHello and the client had offered the extension *)
Definition server_cid_in_use (h : hello) (f : server_flight) : bool :=
  match decide_cid h (f_cid_ext f) (f_rrc_ext f) with Some (_, sc, _) => nonempty sc | None => false end.

(* THE SWITCH for the finding "DTLS 1.3 client alert sealed without the negotiated connection ID" (NOT repaired: the
   pinned test TestFlight3ParseClearsConnectionIDAfterInvalidEncryptedExtensions demands the cleared CID state at that
   point).  [false] = the code: abortFlight3 clears the connection IDs before the alert is written.  [true] = the
   alert is written under the negotiated connection IDs. *)
Definition client13_abort_keeps_connection_ids : bool := false.

Definition alert13_lost (keep : bool) (ck sk : conn) (csuites : list N) (h : hello) (f : server_flight) : bool :=
  negb keep && server_cid_in_use h f && client13_hello_ok csuites h f && negb (client13_flight_ok ck sk h f).

(* the server's processing of the client's last flight (flight4Parse / protected_flight.go) *)
Definition server_finish (is13 : bool) (sk ck : conn) (o : outcome) : res outcome :=
  let s := k_cfg sk in
  let ca := c_client_auth s in
  if o_cert_requested o then
    do _ <- req (negb (o_client_cert o && negb (ca <? g11_auth_verify_if_given))
                 || mem (c_chain_sig (k_cfg ck)) (cert_algs sk)) g11_alert_bad_certificate;
    do _ <- req (o_client_cert o || negb ((ca =? g11_auth_require_any) || (ca =? g11_auth_require_and_verify)))
                (if is13 then g11_alert_certificate_required else g11_alert_no_certificate);
    ROk o
  else ROk o.

(* ------------------------------------------------------------------ composition *)

Inductive result := Ok (o : outcome) | Fail (who : side) (alert : N) | Silent (who : side).

Definition lift (who : side) {A} (r : res A) (k : A -> result) : result :=
  match r with ROk a => k a | RAlert x => Fail who x | RSilent => Silent who end.

(* the client's verdict on the DTLS 1.3 server flight: an alert that is [lost] leaves the server waiting *)
Definition lift_client13 (lost : bool) {A} (r : res A) (k : A -> result) : result :=
  match r with
  | RAlert x => if lost then Silent Client else Fail Client x
  | _ => lift Client r k
  end.

(* [seeded] : an earlier association of the same two endpoints left a session in both stores *)
Definition negotiate_conn_sw (keep : bool) (ck sk : conn) (seeded : bool) : result :=
  let c := k_cfg ck in let s := k_cfg sk in
  (* HandshakeContext (server): LocalCipherSuites filtered by the certificate's key type *)
  let s_all := filter_for_key (c_key s) (k_suites sk) in
  let cstack := stack_of ck in
  (* a DTLS 1.2-only client looks up its session store; the 1.3-style hello never offers a session *)
  let session := seeded && c_store c && (match cstack with Only12 => true | _ => false end) in
  let h := match cstack with Only12 => client_hello12 ck session | _ => client_hello13 ck end in
  (* version the server works in *)
  let sv : res N :=
    match stack_of sk with
    | Only12 => ROk v12
    | Only13 => ROk v13
    | Dual => of_opt (select_version (match h_versions h with [] => [h_legacy h] | l => l end) (k_min sk) (k_max sk))
                     g11_alert_protocol_version
    end in
  lift Server sv (fun v =>
  let ssuites := filter_for_version v s_all in
  if negb (nonempty ssuites) then Silent Server else            (* ErrNoAvailableCipherSuites, no alert *)
  if v =? v13 then
    lift Server (server13 sk ssuites h) (fun f =>
    (* client: version from the ServerHello's supported_versions *)
    match cstack with
    | Only12 => Fail Client g11_alert_protocol_version          (* unreachable between two pion endpoints *)
    | _ =>
      lift Client (of_opt (select_version [v13] (k_min ck) (k_max ck)) g11_alert_protocol_version) (fun _ =>
      let csuites := filter_for_version v13 (k_suites ck) in
      if negb (nonempty csuites) then Silent Client else
      lift_client13 (alert13_lost keep ck sk csuites h f) (client13 ck sk csuites h f) (fun o =>
      lift Server (server_finish true sk ck o) Ok))
    end)
  else
    lift Server (server12 sk ssuites h seeded) (fun f =>
    match cstack with
    | Only13 => Fail Client g11_alert_protocol_version          (* unreachable between two pion endpoints *)
    | _ =>
      lift Client (of_opt (select_version [v12] (k_min ck) (k_max ck)) g11_alert_protocol_version) (fun _ =>
      let csuites := filter_for_version v12 (k_suites ck) in
      if negb (nonempty csuites) then Silent Client else
      lift Client (client12 ck sk csuites h f) (fun o =>
      lift Server (server_finish false sk ck o) Ok))
    end)).

Definition negotiate_conn : conn -> conn -> bool -> result := negotiate_conn_sw client13_abort_keeps_connection_ids.

(* negotiate : the two option sets -> outcome.  None = one of the constructors rejects its configuration. *)
Definition negotiate_sw (keep : bool) (c s : cfg) (seeded : bool) : option result :=
  match build true c, build false s with
  | Some ck, Some sk => Some (negotiate_conn_sw keep ck sk seeded)
  | _, _ => None
  end.
Definition negotiate : cfg -> cfg -> bool -> option result := negotiate_sw client13_abort_keeps_connection_ids.

(* ------------------------------------------------------------------ sessions and the EMS policy *)

(* Session{ID, Secret} carries no EMS flag: whether the master secret in force was derived with the
   extended-master-secret construction is that of the association that STORED it when the handshake is a
   resumption ([seed_ems]), and the negotiated flag otherwise *)
Definition session_ems (o : outcome) (seed_ems : bool) : bool :=
  if o_resumed o then seed_ems else o_ems o.

(* ------------------------------------------------------------------ steered associations (DTLS 1.2 stacks) *)

(* what an on-path party does to the FIRST, cookie-less ClientHello (no Finished covers it) and what a rogue
   server puts in its ServerHello (ServerHelloMessageHook) *)
Record steering := mkSteer {
  t_ch1_groups : option (list N);      (* supported_groups replaced (when present) *)
  t_ch1_alpn : option (list N);        (* ALPN offer replaced (when present) *)
  t_ch1_strip_ems : bool;
  t_ch1_strip_sni : bool;
  t_sh_alpn : N;                       (* the ServerHello hook names this protocol (0 = untouched) *)
  t_sh_suite : N;                      (* the ServerHello hook names this cipher suite (0 = untouched) *)
  t_sh_sessionid : bool                (* the ServerHello hook puts another session id into the message *)
}.
Definition no_steering : steering := mkSteer None None false false 0 0 false.

Definition remove_ext (x : N) (l : list N) : list N := filter (fun y => negb (y =? x)) l.

Definition steer_hello (t : steering) (h : hello) : hello :=
  mkHello (h_legacy h) (h_suites h) (h_scsv h)
    (let e1 := if t_ch1_strip_ems t then remove_ext g11_ext_ems (h_exts h) else h_exts h in
     if t_ch1_strip_sni t then remove_ext g11_ext_server_name e1 else e1)
    (h_versions h)
    (match t_ch1_groups t with
     | Some g => match h_groups h with Some _ => Some g | None => None end
     | None => h_groups h
     end)
    (h_shares h) (h_sigs h) (h_srtp h)
    (match t_ch1_alpn t with
     | Some a => match h_alpn h with [] => [] | _ => a end
     | None => h_alpn h
     end)
    (h_cid h) (h_rrc h)
    (if t_ch1_strip_ems t then false else h_ems h)
    (h_session h)
    (if t_ch1_strip_sni t then false else h_sni h).

Definition steer_flight (t : steering) (f : server_flight) : server_flight :=
  if t_sh_alpn t =? 0 then f else
  mkSF (f_version f) (f_suite f) (f_group f) (f_sig f) (f_ems f) (f_ems_ext f) (f_srtp f) (f_mki_echo f) (f_mki_peer f)
       (t_sh_alpn t) (f_cid_ext f) (f_rrc_ext f) (f_resumed f) (f_cert f) (f_cert_req f)
       (if mem g11_ext_alpn (f_sh_exts f) then f_sh_exts f else f_sh_exts f ++ [g11_ext_alpn])
       (f_ee_exts f) (f_key f) (f_alt f).

(* two DTLS 1.2-only endpoints; [hv] = hello verification on (the server does not skip the cookie exchange).
   Without the cookie exchange the only ClientHello is covered by the Finished messages (C04): rewriting it is
   not modelled, the steering of the hello is then ignored. *)
Definition negotiate12_steered (ck sk : conn) (seeded hv : bool) (t : steering) : result :=
  let c := k_cfg ck in let s := k_cfg sk in
  let ssuites := filter_for_version v12 (filter_for_key (c_key s) (k_suites sk)) in
  if negb (nonempty ssuites) then Silent Server else
  let h2 := client_hello12 ck (seeded && c_store c && true) in
  let h1 := if hv then steer_hello t h2 else h2 in
  lift Server (if hv then server12_verified sk ssuites h1 h2 seeded else server12 sk ssuites h2 seeded) (fun f0 =>
  let f := steer_flight t f0 in
  (* FinalizeServerHello re-validates the hooked ServerHello against the offer *)
  lift Server (req (validate_response_exts h2 (f_sh_exts f)) g11_alert_unsupported_extension) (fun _ =>
  (* commitFinalServerHello: the server's own view follows the FINAL ServerHello - its ALPN selection is the one
     committed (steer_flight), another cipher suite than the one the keys are derived for is refused *)
  lift Server (req ((t_sh_suite t =? 0) || (t_sh_suite t =? f_suite f0)) g11_alert_internal_error) (fun _ =>
  (* flight4bGenerate (6fdd853): on a resumed handshake the echoed session id is the signal - a changed id is refused;
     on a full handshake the server names the session as the final ServerHello does (nothing the outcome shows) *)
  lift Server (req (negb (t_sh_sessionid t && f_resumed f0)) g11_alert_internal_error) (fun _ =>
  lift Client (of_opt (select_version [v12] (k_min ck) (k_max ck)) g11_alert_protocol_version) (fun _ =>
  let csuites := filter_for_version v12 (k_suites ck) in
  if negb (nonempty csuites) then Silent Client else
  lift Client (client12 ck sk csuites h2 f) (fun o =>
  lift Server (server_finish false sk ck o) Ok)))))).

Definition negotiate_steered (c s : cfg) (seeded hv : bool) (t : steering) : option result :=
  match build true c, build false s with
  | Some ck, Some sk => Some (negotiate12_steered ck sk seeded hv t)
  | _, _ => None
  end.
