(* C11 - theorems about the negotiation model Neg/C11Negotiate.v.  All statements are for
   arbitrary lists / configurations (induction and case analysis); the only computations are over
   the regenerated attribute tables of Gen/GeneratedC11.v (finite, closed terms). *)
From DtlsV Require Import Lib.Bytes Gen.GeneratedC11 Neg.C11Negotiate.
From Coq Require Import ZifyN ZifyNat ZifyBool Sorted.
Open Scope N_scope.

(* ------------------------------------------------------------------ lists *)

Lemma mem_In x l : mem x l = true <-> In x l.
Proof.
  unfold mem. rewrite existsb_exists. split.
  - intros [y [Hy He]]. apply N.eqb_eq in He. now subst.
  - intro H. exists x. split; [exact H | apply N.eqb_refl].
Qed.

Lemma mem_false x l : mem x l = false <-> ~ In x l.
Proof.
  rewrite <- mem_In. destruct (mem x l); split; intro H; congruence.
Qed.

Lemma first_common_some a b x : first_common a b = Some x -> In x a /\ In x b.
Proof.
  unfold first_common. intro H. apply find_some in H. destruct H as [Ha Hb].
  split; [exact Ha | now apply mem_In].
Qed.

Lemma first_common_none a b : first_common a b = None <-> (forall x, In x a -> ~ In x b).
Proof.
  unfold first_common. split.
  - intros H x Hx. apply mem_false. exact (find_none _ _ H x Hx).
  - induction a as [|y a IH]; intro H; cbn [find]; [reflexivity|].
    assert (Hy : mem y b = false) by (apply mem_false, H; now left).
    rewrite Hy. apply IH. intros x Hx. apply H. now right.
Qed.

(* whose order decides: everything before the chosen element in the FIRST list is absent from the second *)
Lemma first_common_first a b x :
  first_common a b = Some x ->
  exists pre post, a = pre ++ x :: post /\ (forall y, In y pre -> ~ In y b).
Proof.
  unfold first_common. induction a as [|y a IH]; cbn [find]; [discriminate|].
  destruct (mem y b) eqn:E.
  - intro H. inversion H; subst. exists [], a. split; [reflexivity | intros ? []].
  - intro H. destruct (IH H) as [pre [post [Ha Hp]]]. exists (y :: pre), post. split.
    + cbn. now rewrite Ha.
    + intros z [Hz | Hz]; [subst; now apply mem_false | now apply Hp].
Qed.

Lemma first_common_total a b x : In x a -> In x b -> first_common a b <> None.
Proof. intros Ha Hb H. exact (proj1 (first_common_none a b) H x Ha Hb). Qed.

Lemma inter_In a b x : In x (inter a b) <-> In x a /\ In x b.
Proof. unfold inter. rewrite filter_In, mem_In. tauto. Qed.

Lemma nonempty_exists {A} (l : list A) : nonempty l = true <-> exists x, In x l.
Proof.
  destruct l as [|a l]; cbn; split; try discriminate.
  - intros [x []].
  - intros _. exists a. now left.
  - reflexivity.
Qed.

Lemma bytes_eqb_eq a b : bytes_eqb a b = true <-> a = b.
Proof. unfold bytes_eqb. destruct (list_eq_dec N.eq_dec a b); split; congruence. Qed.

(* ------------------------------------------------------------------ versions *)

Lemma select_version_some r mn mx v :
  select_version r mn mx = Some v -> In v r /\ in_range mn mx v = true.
Proof. unfold select_version. intro H. now apply find_some in H. Qed.

Lemma select_version_none r mn mx :
  select_version r mn mx = None <-> (forall v, In v r -> in_range mn mx v = false).
Proof.
  unfold select_version. split.
  - intros H v Hv. exact (find_none _ _ H v Hv).
  - induction r as [|y r IH]; intro H; cbn [find]; [reflexivity|].
    rewrite (H y (or_introl eq_refl)). apply IH. intros v Hv. apply H. now right.
Qed.

Lemma supported_versions_spec mn mx v :
  In v (supported_versions mn mx) <-> In v g11_version_order /\ in_range mn mx v = true.
Proof. unfold supported_versions. apply filter_In. Qed.

(* find on a list sorted in descending order returns the greatest element satisfying the predicate *)
Lemma find_desc_greatest (p : N -> bool) (l : list N) v :
  StronglySorted (fun a b => b <= a) l -> find p l = Some v ->
  forall w, In w l -> p w = true -> w <= v.
Proof.
  induction 1 as [|a l Hs IH Ha]; cbn [find]; [discriminate|].
  destruct (p a) eqn:E.
  - intros Hv w [Hw | Hw] Hp; inversion Hv; subst; [lia|].
    rewrite Forall_forall in Ha. now apply Ha.
  - intros Hv w [Hw | Hw] Hp; [subst; congruence | now apply IH].
Qed.

Lemma filter_sorted (R : N -> N -> Prop) (p : N -> bool) l :
  StronglySorted R l -> StronglySorted R (filter p l).
Proof.
  induction 1 as [|a l Hs IH Ha]; cbn [filter]; [constructor|].
  destruct (p a); [|exact IH]. constructor; [exact IH|].
  rewrite Forall_forall in *. intros x Hx. apply filter_In in Hx. now apply Ha.
Qed.

(* the preference list dumped from SupportedVersionsRange is newest first *)
Lemma version_order_sorted : StronglySorted (fun a b => b <= a) g11_version_order.
Proof. unfold g11_version_order. repeat constructor; lia. Qed.

(* C11 "the highest both allow": needs the peer's list to be a SupportedVersionsRange list *)
Theorem highest_version rmn rmx mn mx v :
  select_version (supported_versions rmn rmx) mn mx = Some v ->
  forall w, In w g11_version_order -> in_range rmn rmx w = true -> in_range mn mx w = true -> w <= v.
Proof.
  intros H w Hw Hr Hl. unfold select_version in H.
  apply (find_desc_greatest (in_range mn mx) (supported_versions rmn rmx) v); try assumption.
  - apply filter_sorted, version_order_sorted.
  - apply supported_versions_spec. now split.
Qed.

(* ... and is false for an arbitrary peer list: SelectVersion takes the first acceptable entry *)
Theorem highest_version_needs_ordered_list_refuted :
  exists remote mn mx v w,
    select_version remote mn mx = Some v /\ In w remote /\ in_range mn mx w = true /\ v < w.
Proof. exists [2; 3], 2, 3, 2, 3. repeat split; cbn; auto; lia. Qed.

Lemma norm_version_cases v : norm_version v = v12 \/ norm_version v = v13.
Proof. unfold norm_version. destruct (v =? v13); auto. Qed.

Lemma version_order_values v : In v g11_version_order -> v = v13 \/ v = v12.
Proof. unfold g11_version_order, v12, v13. cbn. intuition. Qed.

(* ------------------------------------------------------------------ the result monad *)

Lemma rbind_ok {A B} (r : res A) (f : A -> res B) b :
  rbind r f = ROk b -> exists a, r = ROk a /\ f a = ROk b.
Proof. destruct r as [a| |]; cbn; try discriminate. intro H. now exists a. Qed.

Lemma req_ok b a u : req b a = ROk u -> b = true.
Proof. unfold req. destruct b; [reflexivity | discriminate]. Qed.

Lemma of_opt_ok {A} (o : option A) a x : of_opt o a = ROk x -> o = Some x.
Proof. destruct o; cbn; [intro H; now inversion H | discriminate]. Qed.

Lemma if_ok (b : bool) a u : (if b then ROk tt else RAlert a) = ROk u -> b = true.
Proof. destruct b; [reflexivity | discriminate]. Qed.

Ltac rstep H :=
  let a := fresh "x" in let H1 := fresh "E" in
  apply rbind_ok in H; destruct H as [a [H1 H]].

(* ------------------------------------------------------------------ SRTP, ALPN, curves *)

Lemma negotiate_srtp_ok offer lp lm p e m :
  negotiate_srtp offer lp lm = ROk (p, e, m) ->
  (p = 0 /\ offer = None /\ lp = [] /\ e = [] /\ m = []) \/
  (p <> 0 /\ exists ps mk, offer = Some (ps, mk) /\ In p lp /\ In p ps /\ m = mk /\
                           (e = [] \/ (e = mk /\ mk = lm /\ mk <> []))).
Proof.
  unfold negotiate_srtp. destruct offer as [[ps mk]|].
  - destruct (first_common lp ps) as [q|] eqn:E; [|discriminate].
    destruct (q =? 0) eqn:Eq; [discriminate|]. intro H. inversion H; subst. right.
    apply N.eqb_neq in Eq. split; [exact Eq|]. exists ps, m.
    apply first_common_some in E. destruct E as [E1 E2]. repeat split; try assumption.
    destruct (nonempty m && bytes_eqb m lm) eqn:Eb; [|now left]. right.
    apply andb_true_iff in Eb. destruct Eb as [Eb1 Eb2]. apply bytes_eqb_eq in Eb2.
    repeat split; try assumption. intro; subst; discriminate.
  - destruct lp; cbn; [|discriminate]. intro H. inversion H. left. repeat split.
Qed.

(* the server fails on SRTP exactly when there is no usable common profile (alert insufficient_security) *)
Lemma negotiate_srtp_fail_iff ps mk lp lm :
  ~ In 0 lp ->
  (exists a, negotiate_srtp (Some (ps, mk)) lp lm = RAlert a) <-> (forall p, In p lp -> ~ In p ps).
Proof.
  intro H0. unfold negotiate_srtp. split.
  - intros [a H]. destruct (first_common lp ps) as [q|] eqn:E.
    + destruct (q =? 0) eqn:Eq; [|discriminate]. apply N.eqb_eq in Eq. subst.
      apply first_common_some in E. tauto.
    + now apply first_common_none.
  - intro H. apply first_common_none in H. rewrite H. eauto.
Qed.

Lemma negotiate_srtp_alert offer lp lm a :
  negotiate_srtp offer lp lm = RAlert a -> a = g11_alert_insufficient_security.
Proof.
  unfold negotiate_srtp. destruct offer as [[ps mk]|].
  - destruct (first_common lp ps) as [q|]; [destruct (q =? 0)|]; intro H; now inversion H.
  - destruct (nonempty lp); intro H; now inversion H.
Qed.

Lemma negotiate_srtp_not_silent offer lp lm : negotiate_srtp offer lp lm <> RSilent.
Proof.
  unfold negotiate_srtp. destruct offer as [[ps mk]|].
  - destruct (first_common lp ps) as [q|]; [destruct (q =? 0)|]; discriminate.
  - destruct (nonempty lp); discriminate.
Qed.

Lemma validate_srtp_ok offer sel lp p m :
  validate_srtp offer sel lp = ROk (p, m) ->
  (p = 0 /\ offer = None /\ m = []) \/
  (exists ps mk, offer = Some (ps, mk) /\ sel = Some (p, m) /\ In p ps /\ In p lp /\ (m = [] \/ m = mk)).
Proof.
  unfold validate_srtp. destruct offer as [[ps mk]|].
  - destruct sel as [[q mm]|]; [|discriminate].
    destruct (mem q ps && mem q lp) eqn:E; cbn [negb]; [|discriminate].
    apply andb_true_iff in E. destruct E as [E1 E2]. apply mem_In in E1, E2.
    destruct (nonempty mm && negb (bytes_eqb mm mk)) eqn:Em; [discriminate|].
    intro H. inversion H; subst. right. exists ps, mk. repeat split; try assumption.
    destruct m as [|b m']; [now left|]. right. cbn in Em.
    destruct (bytes_eqb (b :: m') mk) eqn:Eb; [now apply bytes_eqb_eq | discriminate].
  - destruct (nonempty lp); [discriminate|]. intro H. inversion H. now left.
Qed.

Lemma alpn_select_ok sp cp p : alpn_select sp cp = ROk p -> p <> 0 -> In p sp /\ In p cp.
Proof.
  unfold alpn_select. destruct (negb (nonempty sp) || negb (nonempty cp)).
  - intro H. inversion H. congruence.
  - destruct (first_common sp cp) eqn:E; [|discriminate]. intro H. inversion H; subst.
    intros _. now apply first_common_some.
Qed.

(* ALPN: the handshake fails (no_application_protocol) exactly when both lists are non-empty and disjoint *)
Lemma alpn_fail_iff sp cp a :
  alpn_select sp cp = RAlert a <->
  a = g11_alert_no_application_protocol /\ sp <> [] /\ cp <> [] /\ (forall x, In x sp -> ~ In x cp).
Proof.
  unfold alpn_select. split.
  - destruct sp as [|s0 sp]; [cbn; discriminate|]. destruct cp as [|c0 cp]; [cbn; discriminate|].
    cbn [nonempty negb orb]. destruct (first_common (s0 :: sp) (c0 :: cp)) eqn:E; [discriminate|].
    intro H. inversion H. repeat split; try discriminate. now apply first_common_none.
  - intros [Ha [Hs [Hc Hd]]]. destruct sp as [|s0 sp]; [congruence|]. destruct cp as [|c0 cp]; [congruence|].
    cbn [nonempty negb orb]. apply first_common_none in Hd. rewrite Hd. now subst.
Qed.

(* the server's preference order decides ALPN and SRTP; the client's order decides suite and (1.2) group *)
Lemma alpn_server_preference sp cp p :
  alpn_select sp cp = ROk p -> p <> 0 ->
  exists pre post, sp = pre ++ p :: post /\ (forall y, In y pre -> ~ In y cp).
Proof.
  unfold alpn_select. destruct (negb (nonempty sp) || negb (nonempty cp)).
  - intro H. inversion H. congruence.
  - destruct (first_common sp cp) eqn:E; [|discriminate]. intro H. inversion H; subst. intros _.
    now apply first_common_first.
Qed.

Lemma curves12_In g l : In g (curves12 l) <-> In g l /\ g <> g11_curve_mlkem.
Proof.
  unfold curves12. rewrite filter_In. rewrite negb_true_iff, N.eqb_neq. tauto.
Qed.

Lemma select_curve_some local remote g :
  select_curve local remote = Some g -> In g remote /\ In g local /\ g <> g11_curve_mlkem.
Proof.
  unfold select_curve. intro H. apply first_common_some in H. destruct H as [H1 H2].
  apply curves12_In in H2. tauto.
Qed.

(* no common DTLS 1.2 group <-> the server refuses the hello (insufficient_security) *)
Lemma select_curve_none local remote :
  select_curve local remote = None <-> (forall g, In g remote -> g <> g11_curve_mlkem -> ~ In g local).
Proof.
  unfold select_curve. rewrite first_common_none. split.
  - intros H g Hg Hm Hl. apply (H g Hg). apply curves12_In. now split.
  - intros H g Hg Hc. apply curves12_In in Hc. destruct Hc as [Hl Hm]. now apply (H g Hg Hm).
Qed.

Lemma select_sig_some is13 l key s : select_sig is13 l key = Some s -> In s l /\ sig_fits is13 key s = true.
Proof. unfold select_sig. intro H. now apply find_some in H. Qed.

Lemma select_sig_none is13 l key :
  select_sig is13 l key = None <-> (forall s, In s l -> sig_fits is13 key s = false).
Proof.
  unfold select_sig. split.
  - intros H s Hs. exact (find_none _ _ H s Hs).
  - induction l as [|y l IH]; intro H; cbn [find]; [reflexivity|].
    rewrite (H y (or_introl eq_refl)). apply IH. intros s Hs. apply H. now right.
Qed.

(* ------------------------------------------------------------------ facts of the regenerated tables *)

Lemma lookup_In {A} k (t : list (N * A)) v : lookup k t = Some v -> In (k, v) t.
Proof.
  unfold lookup. destruct (find (fun p => fst p =? k) t) as [[k' v']|] eqn:E; [|discriminate].
  intro H. inversion H; subst. apply find_some in E. destruct E as [E1 E2]. cbn in E2.
  apply N.eqb_eq in E2. now subst.
Qed.

(* every certificate-authenticated and every ECDHE suite of the table announces EC material,
   so a hello that lists one carries supported_groups *)
Definition table_ecc_ok : bool :=
  forallb (fun p => let '(id, (a, k, _, e, _, _)) := p in
                    implb ((a =? g11_auth_certificate) || N.testbit k 2) e) g11_suites.

Lemma table_ecc : table_ecc_ok = true. Proof. vm_compute. reflexivity. Qed.

Lemma suite_needs_group_ecc s :
  (s_auth s =? g11_auth_certificate) || s_ecdhe s = true -> s_ecc s = true.
Proof.
  unfold s_auth, s_ecdhe, s_kx, s_ecc, suite_info. destruct (lookup s g11_suites) as [[[[[[a k] c] e] b2] b3]|] eqn:E.
  - intro H. apply lookup_In in E. pose proof table_ecc as T. unfold table_ecc_ok in T.
    rewrite forallb_forall in T. specialize (T _ E). cbn in T. rewrite H in T. exact T.
  - cbn. discriminate.
Qed.

(* the three EMS policies are distinct values *)
Lemma ems_requested_not_disable p : ems_requested p = true -> (p =? g11_ems_disable) = false.
Proof.
  unfold ems_requested, g11_ems_request, g11_ems_require, g11_ems_disable. lia.
Qed.

Lemma ems_require_requested p : (p =? g11_ems_require) = true -> ems_requested p = true.
Proof. unfold ems_requested. intro H. rewrite H. apply orb_true_r. Qed.
