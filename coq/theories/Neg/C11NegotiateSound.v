(* C11 - theorems about the negotiation model Neg/C11Negotiate.v.  All statements are for
   arbitrary lists / configurations (induction and case analysis); the only computations are over
   the regenerated attribute tables of Gen/GeneratedC11.v (finite, closed terms). *)
From DtlsV Require Import Lib.Bytes Gen.GeneratedC11 Neg.C11Negotiate.
From Coq Require Import ZifyN ZifyNat ZifyBool Sorted.
Open Scope N_scope.

(* ------------------------------------------------------------------ lists *)

Lemma mem_In x l : mem x l = true <-> In x l.
Proof.
  unfold mem. rewrite existsb_exists. split.
  - intros [y [Hy He]]. apply N.eqb_eq in He. now subst.
  - intro H. exists x. split; [exact H | apply N.eqb_refl].
Qed.

Lemma mem_false x l : mem x l = false <-> ~ In x l.
Proof.
  rewrite <- mem_In. destruct (mem x l); split; intro H; congruence.
Qed.

Lemma first_common_some a b x : first_common a b = Some x -> In x a /\ In x b.
Proof.
  unfold first_common. intro H. apply find_some in H. destruct H as [Ha Hb].
  split; [exact Ha | now apply mem_In].
Qed.

Lemma first_common_none a b : first_common a b = None <-> (forall x, In x a -> ~ In x b).
Proof.
  unfold first_common. split.
  - intros H x Hx. apply mem_false. exact (find_none _ _ H x Hx).
  - induction a as [|y a IH]; intro H; cbn [find]; [reflexivity|].
    assert (Hy : mem y b = false) by (apply mem_false, H; now left).
    rewrite Hy. apply IH. intros x Hx. apply H. now right.
Qed.

(* whose order decides: everything before the chosen element in the FIRST list is absent from the second *)
Lemma first_common_first a b x :
  first_common a b = Some x ->
  exists pre post, a = pre ++ x :: post /\ (forall y, In y pre -> ~ In y b).
Proof.
  unfold first_common. induction a as [|y a IH]; cbn [find]; [discriminate|].
  destruct (mem y b) eqn:E.
  - intro H. inversion H; subst. exists [], a. split; [reflexivity | intros ? []].
  - intro H. destruct (IH H) as [pre [post [Ha Hp]]]. exists (y :: pre), post. split.
    + cbn. now rewrite Ha.
    + intros z [Hz | Hz]; [subst; now apply mem_false | now apply Hp].
Qed.

Lemma first_common_total a b x : In x a -> In x b -> first_common a b <> None.
Proof. intros Ha Hb H. exact (proj1 (first_common_none a b) H x Ha Hb). Qed.

Lemma inter_In a b x : In x (inter a b) <-> In x a /\ In x b.
Proof. unfold inter. rewrite filter_In, mem_In. tauto. Qed.

Lemma nonempty_exists {A} (l : list A) : nonempty l = true <-> exists x, In x l.
Proof.
  destruct l as [|a l]; cbn; split; try discriminate.
  - intros [x []].
  - intros _. exists a. now left.
  - reflexivity.
Qed.

Lemma bytes_eqb_eq a b : bytes_eqb a b = true <-> a = b.
Proof. unfold bytes_eqb. destruct (list_eq_dec N.eq_dec a b); split; congruence. Qed.

(* ------------------------------------------------------------------ versions *)

Lemma select_version_some r mn mx v :
  select_version r mn mx = Some v -> In v r /\ in_range mn mx v = true.
Proof. unfold select_version. intro H. now apply find_some in H. Qed.

Lemma select_version_none r mn mx :
  select_version r mn mx = None <-> (forall v, In v r -> in_range mn mx v = false).
Proof.
  unfold select_version. split.
  - intros H v Hv. exact (find_none _ _ H v Hv).
  - induction r as [|y r IH]; intro H; cbn [find]; [reflexivity|].
    rewrite (H y (or_introl eq_refl)). apply IH. intros v Hv. apply H. now right.
Qed.

Lemma supported_versions_spec mn mx v :
  In v (supported_versions mn mx) <-> In v g11_version_order /\ in_range mn mx v = true.
Proof. unfold supported_versions. apply filter_In. Qed.

(* find on a list sorted in descending order returns the greatest element satisfying the predicate *)
Lemma find_desc_greatest (p : N -> bool) (l : list N) v :
  StronglySorted (fun a b => b <= a) l -> find p l = Some v ->
  forall w, In w l -> p w = true -> w <= v.
Proof.
  induction 1 as [|a l Hs IH Ha]; cbn [find]; [discriminate|].
  destruct (p a) eqn:E.
  - intros Hv w [Hw | Hw] Hp; inversion Hv; subst; [lia|].
    rewrite Forall_forall in Ha. now apply Ha.
  - intros Hv w [Hw | Hw] Hp; [subst; congruence | now apply IH].
Qed.

Lemma filter_sorted (R : N -> N -> Prop) (p : N -> bool) l :
  StronglySorted R l -> StronglySorted R (filter p l).
Proof.
  induction 1 as [|a l Hs IH Ha]; cbn [filter]; [constructor|].
  destruct (p a); [|exact IH]. constructor; [exact IH|].
  rewrite Forall_forall in *. intros x Hx. apply filter_In in Hx. now apply Ha.
Qed.

(* the preference list dumped from SupportedVersionsRange is newest first *)
Lemma version_order_sorted : StronglySorted (fun a b => b <= a) g11_version_order.
Proof. unfold g11_version_order. repeat constructor; lia. Qed.

(* C11 "the highest both allow": needs the peer's list to be a SupportedVersionsRange list *)
Theorem highest_version rmn rmx mn mx v :
  select_version (supported_versions rmn rmx) mn mx = Some v ->
  forall w, In w g11_version_order -> in_range rmn rmx w = true -> in_range mn mx w = true -> w <= v.
Proof.
  intros H w Hw Hr Hl. unfold select_version in H.
  apply (find_desc_greatest (in_range mn mx) (supported_versions rmn rmx) v); try assumption.
  - apply filter_sorted, version_order_sorted.
  - apply supported_versions_spec. now split.
Qed.

(* ... and is false for an arbitrary peer list: SelectVersion takes the first acceptable entry *)
Theorem highest_version_needs_ordered_list_refuted :
  exists remote mn mx v w,
    select_version remote mn mx = Some v /\ In w remote /\ in_range mn mx w = true /\ v < w.
Proof. exists [2; 3], 2, 3, 2, 3. repeat split; cbn; auto; lia. Qed.

Lemma norm_version_cases v : norm_version v = v12 \/ norm_version v = v13.
Proof. unfold norm_version. destruct (v =? v13); auto. Qed.

Lemma version_order_values v : In v g11_version_order -> v = v13 \/ v = v12.
Proof. unfold g11_version_order, v12, v13. cbn. intuition. Qed.

(* ------------------------------------------------------------------ the result monad *)

Lemma rbind_ok {A B} (r : res A) (f : A -> res B) b :
  rbind r f = ROk b -> exists a, r = ROk a /\ f a = ROk b.
Proof. destruct r as [a| |]; cbn; try discriminate. intro H. now exists a. Qed.

Lemma req_ok b a u : req b a = ROk u -> b = true.
Proof. unfold req. destruct b; [reflexivity | discriminate]. Qed.

Lemma of_opt_ok {A} (o : option A) a x : of_opt o a = ROk x -> o = Some x.
Proof. destruct o; cbn; [intro H; now inversion H | discriminate]. Qed.

Lemma if_ok (b : bool) a u : (if b then ROk tt else RAlert a) = ROk u -> b = true.
Proof. destruct b; [reflexivity | discriminate]. Qed.

Ltac rstep H :=
  let a := fresh "x" in let H1 := fresh "E" in
  apply rbind_ok in H; destruct H as [a [H1 H]].

(* ------------------------------------------------------------------ SRTP, ALPN, curves *)

Lemma negotiate_srtp_ok offer lp lm p e m :
  negotiate_srtp offer lp lm = ROk (p, e, m) ->
  (p = 0 /\ offer = None /\ lp = [] /\ e = [] /\ m = []) \/
  (p <> 0 /\ exists ps mk, offer = Some (ps, mk) /\ In p lp /\ In p ps /\ m = mk /\
                           (e = [] \/ (e = mk /\ mk = lm /\ mk <> []))).
Proof.
  unfold negotiate_srtp. destruct offer as [[ps mk]|].
  - destruct (first_common lp ps) as [q|] eqn:E; [|discriminate].
    destruct (q =? 0) eqn:Eq; [discriminate|]. intro H. inversion H; subst. right.
    apply N.eqb_neq in Eq. split; [exact Eq|]. exists ps, m.
    apply first_common_some in E. destruct E as [E1 E2]. repeat split; try assumption.
    destruct (nonempty m && bytes_eqb m lm) eqn:Eb; [|now left]. right.
    apply andb_true_iff in Eb. destruct Eb as [Eb1 Eb2]. apply bytes_eqb_eq in Eb2.
    repeat split; try assumption. intro; subst; discriminate.
  - destruct lp; cbn; [|discriminate]. intro H. inversion H. left. repeat split.
Qed.

(* the server fails on SRTP exactly when there is no usable common profile (alert insufficient_security) *)
Lemma negotiate_srtp_fail_iff ps mk lp lm :
  ~ In 0 lp ->
  (exists a, negotiate_srtp (Some (ps, mk)) lp lm = RAlert a) <-> (forall p, In p lp -> ~ In p ps).
Proof.
  intro H0. unfold negotiate_srtp. split.
  - intros [a H]. destruct (first_common lp ps) as [q|] eqn:E.
    + destruct (q =? 0) eqn:Eq; [|discriminate]. apply N.eqb_eq in Eq. subst.
      apply first_common_some in E. tauto.
    + now apply first_common_none.
  - intro H. apply first_common_none in H. rewrite H. eauto.
Qed.

Lemma negotiate_srtp_alert offer lp lm a :
  negotiate_srtp offer lp lm = RAlert a -> a = g11_alert_insufficient_security.
Proof.
  unfold negotiate_srtp. destruct offer as [[ps mk]|].
  - destruct (first_common lp ps) as [q|]; [destruct (q =? 0)|]; intro H; now inversion H.
  - destruct (nonempty lp); intro H; now inversion H.
Qed.

Lemma negotiate_srtp_not_silent offer lp lm : negotiate_srtp offer lp lm <> RSilent.
Proof.
  unfold negotiate_srtp. destruct offer as [[ps mk]|].
  - destruct (first_common lp ps) as [q|]; [destruct (q =? 0)|]; discriminate.
  - destruct (nonempty lp); discriminate.
Qed.

Lemma validate_srtp_ok offer sel lp p m :
  validate_srtp offer sel lp = ROk (p, m) ->
  (p = 0 /\ offer = None /\ m = []) \/
  (exists ps mk, offer = Some (ps, mk) /\ sel = Some (p, m) /\ In p ps /\ In p lp /\ (m = [] \/ m = mk)).
Proof.
  unfold validate_srtp. destruct offer as [[ps mk]|].
  - destruct sel as [[q mm]|]; [|discriminate].
    destruct (mem q ps && mem q lp) eqn:E; cbn [negb]; [|discriminate].
    apply andb_true_iff in E. destruct E as [E1 E2]. apply mem_In in E1, E2.
    destruct (nonempty mm && negb (bytes_eqb mm mk)) eqn:Em; [discriminate|].
    intro H. inversion H; subst. right. exists ps, mk. repeat split; try assumption.
    destruct m as [|b m']; [now left|]. right. cbn in Em.
    destruct (bytes_eqb (b :: m') mk) eqn:Eb; [now apply bytes_eqb_eq | discriminate].
  - destruct (nonempty lp); [discriminate|]. intro H. inversion H. now left.
Qed.

Lemma alpn_select_ok sp cp p : alpn_select sp cp = ROk p -> p <> 0 -> In p sp /\ In p cp.
Proof.
  unfold alpn_select. destruct (negb (nonempty sp) || negb (nonempty cp)).
  - intro H. inversion H. congruence.
  - destruct (first_common sp cp) eqn:E; [|discriminate]. intro H. inversion H; subst.
    intros _. now apply first_common_some.
Qed.

(* ALPN: the handshake fails (no_application_protocol) exactly when both lists are non-empty and disjoint *)
Lemma alpn_fail_iff sp cp a :
  alpn_select sp cp = RAlert a <->
  a = g11_alert_no_application_protocol /\ sp <> [] /\ cp <> [] /\ (forall x, In x sp -> ~ In x cp).
Proof.
  unfold alpn_select. split.
  - destruct sp as [|s0 sp]; [cbn; discriminate|]. destruct cp as [|c0 cp]; [cbn; discriminate|].
    cbn [nonempty negb orb]. destruct (first_common (s0 :: sp) (c0 :: cp)) eqn:E; [discriminate|].
    intro H. inversion H. repeat split; try discriminate. now apply first_common_none.
  - intros [Ha [Hs [Hc Hd]]]. destruct sp as [|s0 sp]; [congruence|]. destruct cp as [|c0 cp]; [congruence|].
    cbn [nonempty negb orb]. apply first_common_none in Hd. rewrite Hd. now subst.
Qed.

(* the server's preference order decides ALPN and SRTP; the client's order decides suite and (1.2) group *)
Lemma alpn_server_preference sp cp p :
  alpn_select sp cp = ROk p -> p <> 0 ->
  exists pre post, sp = pre ++ p :: post /\ (forall y, In y pre -> ~ In y cp).
Proof.
  unfold alpn_select. destruct (negb (nonempty sp) || negb (nonempty cp)).
  - intro H. inversion H. congruence.
  - destruct (first_common sp cp) eqn:E; [|discriminate]. intro H. inversion H; subst. intros _.
    now apply first_common_first.
Qed.

Lemma curves12_In g l : In g (curves12 l) <-> In g l /\ g <> g11_curve_mlkem.
Proof.
  unfold curves12. rewrite filter_In. rewrite negb_true_iff, N.eqb_neq. tauto.
Qed.

Lemma select_curve_some local remote g :
  select_curve local remote = Some g -> In g remote /\ In g local /\ g <> g11_curve_mlkem.
Proof.
  unfold select_curve. intro H. apply first_common_some in H. destruct H as [H1 H2].
  apply curves12_In in H2. tauto.
Qed.

(* no common DTLS 1.2 group <-> the server refuses the hello (insufficient_security) *)
Lemma select_curve_none local remote :
  select_curve local remote = None <-> (forall g, In g remote -> g <> g11_curve_mlkem -> ~ In g local).
Proof.
  unfold select_curve. rewrite first_common_none. split.
  - intros H g Hg Hm Hl. apply (H g Hg). apply curves12_In. now split.
  - intros H g Hg Hc. apply curves12_In in Hc. destruct Hc as [Hl Hm]. now apply (H g Hg Hm).
Qed.

Lemma select_sig_some is13 l key s : select_sig is13 l key = Some s -> In s l /\ sig_fits is13 key s = true.
Proof. unfold select_sig. intro H. now apply find_some in H. Qed.

Lemma select_sig_none is13 l key :
  select_sig is13 l key = None <-> (forall s, In s l -> sig_fits is13 key s = false).
Proof.
  unfold select_sig. split.
  - intros H s Hs. exact (find_none _ _ H s Hs).
  - induction l as [|y l IH]; intro H; cbn [find]; [reflexivity|].
    rewrite (H y (or_introl eq_refl)). apply IH. intros s Hs. apply H. now right.
Qed.

(* ------------------------------------------------------------------ facts of the regenerated tables *)

Lemma lookup_In {A} k (t : list (N * A)) v : lookup k t = Some v -> In (k, v) t.
Proof.
  unfold lookup. destruct (find (fun p => fst p =? k) t) as [[k' v']|] eqn:E; [|discriminate].
  intro H. inversion H; subst. apply find_some in E. destruct E as [E1 E2]. cbn in E2.
  apply N.eqb_eq in E2. now subst.
Qed.

(* every certificate-authenticated and every ECDHE suite of the table announces EC material,
   so a hello that lists one carries supported_groups *)
Definition table_ecc_ok : bool :=
  forallb (fun p => let '(id, (a, k, _, e, _, _)) := p in
                    implb ((a =? g11_auth_certificate) || N.testbit k 2) e) g11_suites.

Lemma table_ecc : table_ecc_ok = true. Proof. vm_compute. reflexivity. Qed.

Lemma suite_needs_group_ecc s :
  (s_auth s =? g11_auth_certificate) || s_ecdhe s = true -> s_ecc s = true.
Proof.
  unfold s_auth, s_ecdhe, s_kx, s_ecc, suite_info. destruct (lookup s g11_suites) as [[[[[[a k] c] e] b2] b3]|] eqn:E.
  - intro H. apply lookup_In in E. pose proof table_ecc as T. unfold table_ecc_ok in T.
    rewrite forallb_forall in T. specialize (T _ E). cbn in T. rewrite H in T. exact T.
  - cbn. discriminate.
Qed.

(* the three EMS policies are distinct values *)
Lemma ems_requested_not_disable p : ems_requested p = true -> (p =? g11_ems_disable) = false.
Proof.
  unfold ems_requested, g11_ems_request, g11_ems_require, g11_ems_disable. lia.
Qed.

Lemma ems_require_requested p : (p =? g11_ems_require) = true -> ems_requested p = true.
Proof. unfold ems_requested. intro H. rewrite H. apply orb_true_r. Qed.

(* ------------------------------------------------------------------ the DTLS 1.2 server flight *)

Ltac rstepn H a E := apply rbind_ok in H; destruct H as [a [E H]].

Ltac sfproj := cbn [f_version f_suite f_group f_sig f_ems f_ems_ext f_srtp f_mki_echo f_mki_peer f_alpn f_cid_ext f_rrc_ext
                    f_resumed f_cert f_cert_req f_sh_exts f_ee_exts f_key f_alt].

Lemma hd_In (l : list N) : hd 0 l <> 0 -> In (hd 0 l) l.
Proof. destruct l; cbn; [congruence | auto]. Qed.

Record server12_sound (k : conn) (ss : list N) (h : hello) (f : server_flight) : Prop := {
  s12_version : f_version f = v12;
  s12_suite_local : In (f_suite f) ss;
  s12_suite_offered : In (f_suite f) (h_suites h);
  s12_suite_version : s_supports (f_suite f) v12 = true;
  s12_group : f_group f <> 0 ->
              In (f_group f) (k_curves k) /\ f_group f <> g11_curve_mlkem /\
              (forall gs, h_groups h = Some gs -> In (f_group f) gs);
  s12_group_suite : f_group f <> 0 -> (s_auth (f_suite f) =? g11_auth_certificate) || s_ecdhe (f_suite f) = true;
  s12_sig : f_sig f <> 0 -> In (f_sig f) (k_sigs k) /\ sig_fits false (f_key f) (f_sig f) = true;
  s12_cert : f_cert f = true -> f_key f <> 0 /\ (s_auth (f_suite f) =? g11_auth_certificate) = true /\ f_sig f <> 0;
  s12_key : (f_key f = 0 /\ f_alt f = false /\ f_cert f = false) \/
            (f_key f = presented_key (k_cfg k) h /\ f_alt f = presents_alt (k_cfg k) h);
  s12_srtp : f_srtp f <> 0 ->
             In (f_srtp f) (c_srtp (k_cfg k)) /\
             exists ps mk, h_srtp h = Some (ps, mk) /\ In (f_srtp f) ps /\ f_mki_peer f = mk /\
                           (f_mki_echo f = [] \/ f_mki_echo f = mk);
  s12_srtp_none : f_srtp f = 0 -> h_srtp h = None /\ c_srtp (k_cfg k) = [];
  s12_alpn : f_alpn f <> 0 -> In (f_alpn f) (c_alpn (k_cfg k)) /\ In (f_alpn f) (h_alpn h);
  s12_ems_required : (c_ems (k_cfg k) =? g11_ems_require) = true -> f_ems_ext f = true;
  s12_ems_ext : f_ems_ext f = true -> h_ems h = true /\ f_ems f = true;
  s12_exts : validate_response_exts h (f_sh_exts f) = true;
  s12_cid : f_cid_ext f = server_cid h (k_cfg k);
  s12_resumed : f_resumed f = true -> f_group f = 0 /\ f_sig f = 0 /\ f_cert f = false /\ f_cert_req f = false
}.

Lemma server12_spec k ss h r f : server12 k ss h r = ROk f -> server12_sound k ss h f.
Proof.
  unfold server12. cbv zeta. intro H.
  rstepn H ch E00. destruct ch as [[suite group] ems0]. cbn beta iota in H.
  unfold hello12_choices in E00. cbv zeta in E00.
  rstepn E00 u0 E. rstepn E00 suite' E0. rstepn E00 group' E1. rstepn E00 u2 E2.
  inversion E00; subst suite' group' ems0; clear E00.
  rstepn H tr E3.
  destruct tr as [[profile echo] peer]. cbn beta iota in H.
  rstepn H proto E4. rstepn H u5 E5.
  apply of_opt_ok in E0. apply first_common_some in E0. destruct E0 as [Hoff Hloc].
  apply filter_In in Hoff. destruct Hoff as [Hoff Hv]. apply filter_In in Hoff. destruct Hoff as [Hoff _].
  apply req_ok in E2. apply if_ok in E5.
  assert (Hgroup : group <> 0 -> In group (k_curves k) /\ group <> g11_curve_mlkem /\
                              (forall gs, h_groups h = Some gs -> In group gs)).
  { intro Hx. destruct (h_groups h) as [gs|] eqn:Eg.
    - apply of_opt_ok in E1. apply select_curve_some in E1. destruct E1 as [G1 [G2 G3]].
      repeat split; try assumption. intros gs' Hgs. inversion Hgs; subst. exact G1.
    - inversion E1; subst. apply hd_In in Hx. apply curves12_In in Hx. destruct Hx as [G1 G2].
      repeat split; try assumption. intros gs' Hgs. discriminate. }
  assert (Hsrtp : profile <> 0 -> In profile (c_srtp (k_cfg k)) /\
            exists ps mk, h_srtp h = Some (ps, mk) /\ In profile ps /\ peer = mk /\ (echo = [] \/ echo = mk)).
  { intro Hp. apply negotiate_srtp_ok in E3. destruct E3 as [[Hz _]|[_ [ps [mk [Ho [Hl [Hps [Hm He]]]]]]]]; [congruence|].
    split; [exact Hl|]. exists ps, mk. repeat split; try assumption. destruct He as [He|[He _]]; auto. }
  assert (Hsrtp0 : profile = 0 -> h_srtp h = None /\ c_srtp (k_cfg k) = []).
  { intro Hp. apply negotiate_srtp_ok in E3. destruct E3 as [[_ [Ho [Hl _]]]|[Hnz _]]; [now split | congruence]. }
  assert (Halpn : proto <> 0 -> In proto (c_alpn (k_cfg k)) /\ In proto (h_alpn h)).
  { intro Hp. now apply (alpn_select_ok _ _ _ E4). }
  assert (Hemsreq : (c_ems (k_cfg k) =? g11_ems_require) = true ->
                    ems_requested (c_ems (k_cfg k)) && (h_ems h && negb (c_ems (k_cfg k) =? g11_ems_disable)) = true).
  { intro Hr. rewrite Hr in E2. cbn in E2. rewrite E2. now rewrite (ems_require_requested _ Hr). }
  assert (Hemsext : ems_requested (c_ems (k_cfg k)) && (h_ems h && negb (c_ems (k_cfg k) =? g11_ems_disable)) = true ->
                    h_ems h = true /\ h_ems h && negb (c_ems (k_cfg k) =? g11_ems_disable) = true).
  { intro Hx. apply andb_true_iff in Hx. destruct Hx as [_ Hx]. split; [|exact Hx].
    apply andb_true_iff in Hx. tauto. }
  destruct (r && h_session h && c_store (k_cfg k)) eqn:Eres.
  - inversion H; subst; clear H. constructor; sfproj; try assumption; try congruence; try tauto.
  - destruct (s_auth suite =? g11_auth_certificate) eqn:Ecert.
    + rstepn H u6 E6. rstepn H sg E7. inversion H; subst; clear H.
      apply req_ok in E6. apply negb_true_iff, N.eqb_neq in E6.
      apply of_opt_ok in E7. apply select_sig_some in E7.
      constructor; sfproj; try assumption; try congruence; try tauto; try (intros _; rewrite Ecert; reflexivity).
      intros _. split; [exact E6|]. split; [exact Ecert|].
      destruct E7 as [E7 E8]. intro Hz. subst. unfold sig_fits, sig_info in E8.
      destruct (lookup 0 g11_sigs) eqn:El; [|discriminate]. vm_compute in El. discriminate.
    + inversion H; subst; clear H.
      destruct (s_ecdhe suite) eqn:Ee; constructor; sfproj; rewrite ?Ee; try assumption; try congruence; try tauto;
        try (intros _; apply orb_true_r).
Qed.

(* ------------------------------------------------------------------ the DTLS 1.3 server flight *)

(* a parsed hello is consistent: a payload is only present together with its extension type *)
Definition hello_wf (h : hello) : Prop :=
  (h_versions h <> [] -> In g11_ext_supported_versions (h_exts h)) /\
  (h_shares h <> [] -> In g11_ext_key_share (h_exts h)) /\
  (h_cid h <> None -> In g11_ext_connection_id (h_exts h)) /\
  (h_srtp h <> None -> In g11_ext_use_srtp (h_exts h)).

Lemma validate_response_exts_spec h l :
  validate_response_exts h l = true <->
  (forall e, In e l -> In e (h_exts h) \/ (e = g11_ext_renegotiation_info /\ h_scsv h = true)).
Proof.
  unfold validate_response_exts. rewrite forallb_forall. split; intros H e He; specialize (H e He).
  - apply orb_true_iff in H. destruct H as [H|H]; [left; now apply mem_In|].
    apply andb_true_iff in H. destruct H as [H1 H2]. apply N.eqb_eq in H1. now right.
  - apply orb_true_iff. destruct H as [H|[H1 H2]]; [left; now apply mem_In|].
    right. apply andb_true_iff. split; [now apply N.eqb_eq | exact H2].
Qed.

Lemma opt_ext_In b e x : In x (opt_ext b e) -> b = true /\ x = e.
Proof. unfold opt_ext. destruct b; cbn; intuition. Qed.

Record server13_sound (k : conn) (ss : list N) (h : hello) (f : server_flight) : Prop := {
  s13_version : f_version f = v13;
  s13_suite_local : In (f_suite f) ss;
  s13_suite_offered : In (f_suite f) (h_suites h);
  s13_group : In (f_group f) (k_curves k) /\ In (f_group f) (h_shares h) /\
              exists gs, h_groups h = Some gs /\ In (f_group f) gs;
  s13_sig : In (f_sig f) (k_sigs k) /\ In (f_sig f) (h_sigs h) /\
            sig_fits true (f_key f) (f_sig f) = true /\ sig_encodable (f_sig f) = true;
  s13_srtp : f_srtp f <> 0 ->
             In (f_srtp f) (c_srtp (k_cfg k)) /\
             exists ps mk, h_srtp h = Some (ps, mk) /\ In (f_srtp f) ps /\ f_mki_peer f = mk /\
                           (f_mki_echo f = [] \/ f_mki_echo f = mk);
  s13_srtp_none : f_srtp f = 0 -> h_srtp h = None /\ c_srtp (k_cfg k) = [];
  s13_alpn : f_alpn f = 0;
  s13_cid : f_cid_ext f = server_cid h (k_cfg k);
  s13_flags : f_resumed f = false /\ f_cert f = true /\ f_ems f = true /\ f_key f <> 0;
  s13_key : f_key f = presented_key (k_cfg k) h /\ f_alt f = presents_alt (k_cfg k) h;
  s13_exts : hello_wf h -> validate_response_exts h (f_sh_exts f) = true /\
                           validate_response_exts h (f_ee_exts f) = true
}.

Lemma server13_spec k ss h f : server13 k ss h = ROk f -> server13_sound k ss h f.
Proof.
  unfold server13. cbv zeta. intro H.
  rstepn H u0 E. rstepn H suite E0. rstepn H u1 E1. rstepn H u2 E2. rstepn H u3 E3.
  rstepn H group E4. rstepn H u5 E5. rstepn H u6 E6. rstepn H sg E7. rstepn H tr E8.
  destruct tr as [[profile echo] peer]. cbn beta iota in H.
  destruct (sig_encodable sg) eqn:Eenc; cbn [negb] in H; [|discriminate].
  inversion H; subst; clear H.
  apply of_opt_ok in E0. apply first_common_some in E0. destruct E0 as [Hoff Hloc].
  apply filter_In in Hoff. destruct Hoff as [Hoff _].
  apply req_ok in E2. apply andb_true_iff in E2. destruct E2 as [_ E2].
  apply req_ok in E3. apply mem_In in E3.
  apply of_opt_ok in E4. apply first_common_some in E4. destruct E4 as [G1 G2].
  apply req_ok in E5. apply mem_In in E5.
  apply req_ok in E6. apply negb_true_iff, N.eqb_neq in E6.
  apply of_opt_ok in E7. apply select_sig_some in E7. destruct E7 as [S1 S2].
  apply inter_In in S1. destruct S1 as [S1 S3]. apply filter_In in S1. destruct S1 as [S1 _].
  constructor; sfproj; try assumption; try reflexivity; try tauto.
  - repeat split; try assumption. destruct (h_groups h) as [gs|]; [|discriminate]. exists gs. now split.
  - intro Hp. apply negotiate_srtp_ok in E8.
    destruct E8 as [[Hz _]|[_ [ps [mk [Ho [Hl [Hps [Hm He]]]]]]]]; [congruence|].
    split; [exact Hl|]. exists ps, mk. repeat split; try assumption. destruct He as [He|[He _]]; auto.
  - intro Hp. apply negotiate_srtp_ok in E8. destruct E8 as [[_ [Ho [Hl _]]]|[Hnz _]]; [now split | congruence].
  - intros [W1 [W2 [W3 W4]]]. split; apply validate_response_exts_spec; intros e He; left.
    + cbn [app] in He. destruct He as [He|[He|He]].
      * subst. apply W1. intro Hn. rewrite Hn in E3. destruct E3.
      * subst. apply W2. intro Hn. rewrite Hn in E5. destruct E5.
      * apply in_app_or in He. destruct He as [He|He]; apply opt_ext_In in He; destruct He as [Hb He]; subst.
        -- apply W3. unfold server_cid in Hb. destruct (h_cid h); [discriminate | destruct (c_cid (k_cfg k)); discriminate].
        -- apply andb_true_iff in Hb. destruct Hb as [_ Hb]. now apply mem_In.
    + apply opt_ext_In in He. destruct He as [Hb He]. subst. apply W4.
      apply negotiate_srtp_ok in E8. destruct E8 as [[Hz _]|[_ [ps [mk [Ho _]]]]].
      * subst. discriminate.
      * rewrite Ho. discriminate.
Qed.

(* ------------------------------------------------------------------ the client's checks *)

Ltac outproj := cbn [o_version o_suite o_group o_sig o_csig o_ems o_srtp o_mki_client o_mki_server o_alpn o_cid
                     o_resumed o_server_cert o_client_cert o_cert_requested o_ch_exts o_sh_exts o_server_key].

Lemma common_sigs_In remote local x :
  In x (common_sigs remote local) <-> In x remote /\ (local = [] \/ In x local).
Proof.
  unfold common_sigs. destruct local as [|a l].
  - split; [intro H; split; auto | tauto].
  - rewrite filter_In, mem_In. split; [intros [H1 H2]; split; auto | intros [H1 [H2|H2]]; [discriminate | tauto]].
Qed.

Lemma client_auth_sig_spec is13 ck sk f b cs :
  client_auth_sig is13 ck sk f = ROk (b, cs) ->
  (b = false /\ cs = 0) \/
  (b = true /\ f_cert_req f = true /\ c_key (k_cfg ck) <> 0 /\ In cs (k_sigs sk) /\
   (k_sigs ck = [] \/ In cs (k_sigs ck)) /\
   sig_fits is13 (c_key (k_cfg ck)) cs = true).
Proof.
  unfold client_auth_sig. destruct (f_cert_req f).
  - destruct (c_key (k_cfg ck) =? 0) eqn:Ek.
    + intro H. inversion H. now left.
    + intro H. rstepn H sg E. inversion H; subst. apply of_opt_ok in E. apply select_sig_some in E.
      destruct E as [E1 E2]. apply common_sigs_In in E1.
      apply N.eqb_neq in Ek. right. tauto.
  - intro H. inversion H. now left.
Qed.

Record client_sound (v : N) (ck sk : conn) (cs : list N) (h : hello) (f : server_flight) (o : outcome) : Prop := {
  cl_version : o_version o = v;
  cl_suite : o_suite o = f_suite f /\ In (f_suite f) cs /\ s_supports (f_suite f) v = true;
  cl_group : o_group o = f_group f;
  cl_sig : o_sig o <> 0 -> o_sig o = f_sig f /\ In (f_sig f) (k_sigs ck);
  cl_chain : o_server_cert o = true -> o_resumed o = false ->
             (s_auth (f_suite f) =? g11_auth_certificate) = true \/ v = v13 ->
             c_skip_verify (k_cfg ck) = true \/
             (f_alt f = c_sni (k_cfg ck) /\ In (c_chain_sig (k_cfg sk)) (cert_algs ck));
  cl_alpn_own : o_alpn o <> 0 -> In (o_alpn o) (c_alpn (k_cfg ck));
  cl_group_own : v = v12 -> o_resumed o = false -> s_ecdhe (f_suite f) = true ->
                 In (o_group o) (k_curves ck) /\ o_group o <> g11_curve_mlkem;
  cl_server_key : o_server_key o = f_key f;
  cl_csig : o_csig o <> 0 -> In (o_csig o) (k_sigs sk) /\ (k_sigs ck = [] \/ In (o_csig o) (k_sigs ck)) /\
                             o_client_cert o = true /\
                             sig_fits (v =? v13) (c_key (k_cfg ck)) (o_csig o) = true;
  cl_srtp : o_srtp o <> 0 ->
            o_srtp o = f_srtp f /\ In (o_srtp o) (c_srtp (k_cfg ck)) /\ o_mki_client o = f_mki_echo f /\
            exists ps mk, h_srtp h = Some (ps, mk) /\ In (o_srtp o) ps /\ (o_mki_client o = [] \/ o_mki_client o = mk);
  cl_srtp_none : o_srtp o = 0 -> f_srtp f = 0 \/ h_srtp h = None;
  cl_mki_server : o_mki_server o = f_mki_peer f;
  cl_alpn : o_alpn o = f_alpn f;
  cl_ems : o_ems o = if v =? v13 then true else f_ems_ext f && negb (c_ems (k_cfg ck) =? g11_ems_disable);
  cl_ems_required : (c_ems (k_cfg ck) =? g11_ems_require) = true -> o_ems o = true;
  cl_cid : o_cid o = decide_cid h (f_cid_ext f) (f_rrc_ext f);
  cl_exts : o_sh_exts o = f_sh_exts f /\ o_ch_exts o = h_exts h /\ validate_response_exts h (f_sh_exts f) = true;
  cl_flags : o_resumed o = f_resumed f /\ o_server_cert o = f_cert f /\ o_cert_requested o = f_cert_req f
}.

Lemma validate_srtp_client offer f lp p m :
  validate_srtp offer (if f_srtp f =? 0 then None else Some (f_srtp f, f_mki_echo f)) lp = ROk (p, m) ->
  (p <> 0 -> p = f_srtp f /\ In p lp /\ m = f_mki_echo f /\
             exists ps mk, offer = Some (ps, mk) /\ In p ps /\ (m = [] \/ m = mk)) /\
  (p = 0 -> f_srtp f = 0 \/ offer = None).
Proof.
  intro H. apply validate_srtp_ok in H. destruct H as [[Hp [Ho Hm]]|[ps [mk [Ho [Hs [H1 [H2 H3]]]]]]].
  - split; [congruence|]. intros _. now right.
  - destruct (f_srtp f =? 0) eqn:E; [discriminate|]. inversion Hs; subst. apply N.eqb_neq in E. split.
    + intros _. repeat split; try assumption. exists ps, mk. repeat split; assumption.
    + congruence.
Qed.

Lemma client12_spec ck sk cs h f o :
  client12 ck sk cs h f = ROk o -> client_sound v12 ck sk cs h f o.
Proof.
  unfold client12. cbv zeta. intro H.
  rstepn H u0 E0. rstepn H tr E1. destruct tr as [profile mki]. cbn beta iota in H.
  rstepn H ua Ea. rstepn H u2 E2. rstepn H u3 E3.
  apply if_ok in E0. apply validate_srtp_client in E1. destruct E1 as [P1 P2].
  apply req_ok in Ea.
  assert (Halpn : f_alpn f <> 0 -> In (f_alpn f) (c_alpn (k_cfg ck))).
  { intro Hn. apply orb_true_iff in Ea. destruct Ea as [Ea|Ea]; [apply N.eqb_eq in Ea; congruence | now apply mem_In]. }
  apply req_ok in E2. apply req_ok in E3.
  apply andb_true_iff in E3. destruct E3 as [E3 S3]. apply andb_true_iff in E3. destruct E3 as [_ S2].
  apply mem_In in S3.
  assert (Hems : (c_ems (k_cfg ck) =? g11_ems_require) = true ->
                 f_ems_ext f && negb (c_ems (k_cfg ck) =? g11_ems_disable) = true).
  { intro Hr. rewrite Hr in E2. exact E2. }
  assert (v12 =? v13 = false) as Hv by reflexivity.
  destruct (f_resumed f) eqn:Eres.
  - inversion H; subst; clear H. constructor; outproj; rewrite ?Hv; try tauto; try congruence; try reflexivity; try (repeat split; congruence).

  - destruct (s_auth (f_suite f) =? g11_auth_certificate) eqn:Ecert.
    + rstepn H u4 E4. rstepn H ug Eg. rstepn H u5 E5. rstepn H u6 E6. rstepn H tr E7. destruct tr as [ccert csg].
      cbn beta iota in H. inversion H; subst; clear H.
      apply req_ok in E4, Eg, E5, E6. apply mem_In in E5.
      apply client_auth_sig_spec in E7.
      constructor; outproj; rewrite ?Hv; try tauto; try congruence; try reflexivity; try (repeat split; congruence).
      all: try (intros _ _ _; apply orb_true_iff in E6; destruct E6 as [E6|E6]; [now left | right];
                apply andb_true_iff in E6; destruct E6 as [E6a E6b]; split; [now apply Bool.eqb_prop | now apply mem_In]).
      all: try (intros _ _ He; rewrite He in Eg; cbn in Eg; apply mem_In, curves12_In in Eg; exact Eg).
      all: try (intro Hc; destruct E7 as [[_ Hz]|[Hb [_ [_ [Hin [Hown Hfit]]]]]]; [congruence | tauto]).
    + rstepn H ug Eg. apply req_ok in Eg.
      inversion H; subst; clear H. constructor; outproj; rewrite ?Hv; try tauto; try congruence; try reflexivity; try (repeat split; congruence).
      all: try (intros _ _ [Hc|Hc]; [congruence | discriminate]).
      all: try (intros _ _ He; rewrite He in Eg; cbn in Eg; apply mem_In, curves12_In in Eg; exact Eg).
Qed.

Lemma client13_spec ck sk cs h f o :
  f_alpn f = 0 -> f_resumed f = false -> f_cert f = true ->
  client13 ck sk cs h f = ROk o ->
  client_sound v13 ck sk cs h f o /\ In (f_group f) (h_shares h) /\
  validate_response_exts h (f_ee_exts f) = true /\ o_sig o = f_sig f /\ In (f_sig f) (k_sigs ck) /\
  (o_client_cert o = true -> sig_encodable (o_csig o) = true).
Proof.
  intros Fa Fr Fc. unfold client13. cbv zeta. intro H.
  rstepn H u0 E0. rstepn H u1 E1. rstepn H u2 E2. rstepn H u3 E3. rstepn H tr E4.
  destruct tr as [profile mki]. cbn beta iota in H.
  rstepn H u5 E5. rstepn H u6 E6. rstepn H tr E7. destruct tr as [ccert csg]. cbn beta iota in H.
  destruct (ccert && negb (sig_encodable csg)) eqn:Eenc; [discriminate|].
  inversion H; subst; clear H.
  apply if_ok in E0. apply if_ok in E3. apply validate_srtp_client in E4. destruct E4 as [P1 P2].
  apply req_ok in E1, E2, E5, E6. apply mem_In in E2, E5.
  apply andb_true_iff in E1. destruct E1 as [E1 S3]. apply andb_true_iff in E1. destruct E1 as [_ S2].
  apply mem_In in S3. apply client_auth_sig_spec in E7.
  assert (v13 =? v13 = true) as Hv by reflexivity.
  repeat split; outproj; rewrite ?Hv; try tauto; try congruence; try reflexivity.
  all: try (intros _ _ _; apply orb_true_iff in E6; destruct E6 as [E6|E6]; [now left | right];
            apply andb_true_iff in E6; destruct E6 as [E6a E6b]; split; [now apply Bool.eqb_prop | now apply mem_In]).
  all: try (intro Hq; discriminate Hq).
  all: try (exfalso; match goal with Hq : v13 = v12 |- _ => discriminate Hq end).
  all: try (intro Hc; subst; cbn in Eenc; now apply negb_false_iff in Eenc).
Qed.

Lemma server_finish_ok is13 sk ck o o' : server_finish is13 sk ck o = ROk o' -> o' = o.
Proof.
  unfold server_finish. cbv zeta. destruct (o_cert_requested o).
  - intro H. rstepn H u0 E0. rstepn H u1 E1. now inversion H.
  - intro H. now inversion H.
Qed.

(* client certificates: when the server verifies them, the chain's signature scheme is one the server allows *)
Lemma server_finish_chain is13 sk ck o o' :
  server_finish is13 sk ck o = ROk o' -> o_cert_requested o = true -> o_client_cert o = true ->
  (c_client_auth (k_cfg sk) <? g11_auth_verify_if_given) = false ->
  In (c_chain_sig (k_cfg ck)) (cert_algs sk).
Proof.
  unfold server_finish. cbv zeta. intros H Hr Hc Hv. rewrite Hr in H.
  rstepn H u0 E0. apply req_ok in E0. rewrite Hc, Hv in E0. cbn in E0. now apply mem_In.
Qed.

(* ------------------------------------------------------------------ C11: every negotiated value lies within both policies *)

Definition conn_wf (k : conn) : Prop :=
  (k_min k = v12 \/ k_min k = v13) /\ (k_max k = v12 \/ k_max k = v13) /\ k_min k <= k_max k.

Definition requires_ems (c : cfg) : bool := c_ems c =? g11_ems_require.

Record in_policy_conn (ck sk : conn) (o : outcome) : Prop := {
  ip_version : in_range (k_min ck) (k_max ck) (o_version o) = true /\
               in_range (k_min sk) (k_max sk) (o_version o) = true;
  ip_suite : In (o_suite o) (k_suites ck) /\ In (o_suite o) (k_suites sk) /\
             fits_key (c_key (k_cfg sk)) (o_suite o) = true /\ s_supports (o_suite o) (o_version o) = true;
  ip_group : o_group o <> 0 -> In (o_group o) (k_curves ck) /\ In (o_group o) (k_curves sk);
  ip_sig : o_sig o <> 0 -> In (o_sig o) (k_sigs ck) /\ In (o_sig o) (k_sigs sk) /\
                           sig_fits (o_version o =? v13) (o_server_key o) (o_sig o) = true;
  ip_server_key : o_server_key o = 0 \/ o_server_key o = c_key (k_cfg sk) \/
                  (o_server_key o = c_key2 (k_cfg sk) /\ has_alt (k_cfg sk) = true /\ c_sni (k_cfg ck) = true);
  ip_csig : o_csig o <> 0 -> In (o_csig o) (k_sigs sk) /\ (k_sigs ck = [] \/ In (o_csig o) (k_sigs ck)) /\
                             sig_fits (o_version o =? v13) (c_key (k_cfg ck)) (o_csig o) = true;
  ip_chain : o_server_cert o = true -> o_resumed o = false ->
             c_skip_verify (k_cfg ck) = true \/ In (c_chain_sig (k_cfg sk)) (cert_algs ck);
  ip_srtp : o_srtp o <> 0 -> In (o_srtp o) (c_srtp (k_cfg ck)) /\ In (o_srtp o) (c_srtp (k_cfg sk));
  ip_alpn : o_alpn o <> 0 -> In (o_alpn o) (c_alpn (k_cfg ck)) /\ In (o_alpn o) (c_alpn (k_cfg sk));
  ip_ems : requires_ems (k_cfg ck) = true \/ requires_ems (k_cfg sk) = true -> o_ems o = true;
  ip_exts : forall e, In e (o_sh_exts o) -> In e (o_ch_exts o)
}.

Lemma lift_ok {A} who (r : res A) (k : A -> result) o :
  lift who r k = Ok o -> exists a, r = ROk a /\ k a = Ok o.
Proof. destruct r as [a| |]; cbn; try discriminate. intro H. now exists a. Qed.

Lemma filter_for_version_In v l s : In s (filter_for_version v l) <-> In s l /\ s_supports s v = true.
Proof. unfold filter_for_version. rewrite filter_In. reflexivity. Qed.

Lemma filter_for_key_In key l s : In s (filter_for_key key l) <-> In s l /\ fits_key key s = true.
Proof. unfold filter_for_key. rewrite filter_In. reflexivity. Qed.

Lemma hello12_suites k b : h_suites (client_hello12 k b) = k_suites k. Proof. reflexivity. Qed.
Lemma hello13_suites k : h_suites (client_hello13 k) = k_suites k. Proof. reflexivity. Qed.
Lemma hello12_scsv k b : h_scsv (client_hello12 k b) = false. Proof. reflexivity. Qed.
Lemma hello13_scsv k : h_scsv (client_hello13 k) = false. Proof. reflexivity. Qed.

Lemma ecc_exists l s : In s l -> s_ecc s = true -> existsb s_ecc l = true.
Proof. intros H1 H2. apply existsb_exists. now exists s. Qed.

(* the group a pion client can be answered with comes from its own curve list *)
Lemma hello_groups_client ck h g gs :
  (h = client_hello13 ck \/ exists b, h = client_hello12 ck b) ->
  h_groups h = Some gs -> In g gs -> In g (k_curves ck).
Proof.
  intros [Hh|[b Hh]] Hg Hin; subst h; cbn in Hg; destruct (existsb s_ecc (k_suites ck)); try discriminate;
    inversion Hg; subst; [exact Hin | now apply curves12_In in Hin].
Qed.

Lemma hello_fields ck h :
  (h = client_hello13 ck \/ exists b, h = client_hello12 ck b) ->
  h_suites h = k_suites ck /\ h_scsv h = false /\ h_alpn h = c_alpn (k_cfg ck) /\
  h_sigs h = k_sigs ck /\ h_ems h = ems_requested (c_ems (k_cfg ck)) /\
  (forall ps mk, h_srtp h = Some (ps, mk) -> ps = c_srtp (k_cfg ck)) /\
  (existsb s_ecc (k_suites ck) = true -> h_groups h <> None).
Proof.
  intros [Hh|[b Hh]]; subst h; cbn; repeat split; try reflexivity.
  - intros ps mk. destruct (nonempty (c_srtp (k_cfg ck))); [|discriminate]. intro H. now inversion H.
  - intro He. rewrite He. discriminate.
  - intros ps mk. destruct (nonempty (c_srtp (k_cfg ck))); [|discriminate]. intro H. now inversion H.
  - intro He. rewrite He. discriminate.
Qed.

Lemma exts_subset h l : h_scsv h = false -> validate_response_exts h l = true -> forall e, In e l -> In e (h_exts h).
Proof.
  intros Hs Hv e He. apply (proj1 (validate_response_exts_spec h l) Hv) in He.
  destruct He as [He|[_ He]]; [exact He | congruence].
Qed.


Definition client_tail13 (ck sk : conn) (h : hello) (f : server_flight) : result :=
  lift Client (of_opt (select_version [v13] (k_min ck) (k_max ck)) g11_alert_protocol_version) (fun _ =>
  let csuites := filter_for_version v13 (k_suites ck) in
  if negb (nonempty csuites) then Silent Client else
  lift Client (client13 ck sk csuites h f) (fun o =>
  lift Server (server_finish true sk ck o) Ok)).

Definition client_tail12 (ck sk : conn) (h : hello) (f : server_flight) : result :=
  lift Client (of_opt (select_version [v12] (k_min ck) (k_max ck)) g11_alert_protocol_version) (fun _ =>
  let csuites := filter_for_version v12 (k_suites ck) in
  if negb (nonempty csuites) then Silent Client else
  lift Client (client12 ck sk csuites h f) (fun o =>
  lift Server (server_finish false sk ck o) Ok)).

Lemma presented_key_cases (ck : conn) (s : cfg) (h : hello) :
  (h = client_hello13 ck \/ exists b, h = client_hello12 ck b) ->
  presented_key s h = c_key s \/
  (presented_key s h = c_key2 s /\ has_alt s = true /\ c_sni (k_cfg ck) = true).
Proof.
  intro Hh. unfold presented_key, presents_alt.
  assert (Hs : h_sni h = c_sni (k_cfg ck)) by (destruct Hh as [Hh|[b Hh]]; subst h; reflexivity).
  rewrite Hs. destruct (c_sni (k_cfg ck)); cbn; [|now left]. destruct (has_alt s); [right; auto | now left].
Qed.

Lemma tail13_policy ck sk h f o ss :
  (h = client_hello13 ck \/ exists b, h = client_hello12 ck b) ->
  in_range (k_min sk) (k_max sk) v13 = true ->
  (forall s, In s ss -> In s (k_suites sk) /\ fits_key (c_key (k_cfg sk)) s = true) ->
  server13_sound sk ss h f -> client_tail13 ck sk h f = Ok o -> in_policy_conn ck sk o.
Proof.
  intros Hh Hsv Hss Hf H. unfold client_tail13 in H. cbv zeta in H.
  destruct (hello_fields ck h Hh) as [F1 [F2 [F3 [F4 [F5 [F6 F7]]]]]].
  apply lift_ok in H. destruct H as [cv [Hcv H]].
  destruct (nonempty (filter_for_version v13 (k_suites ck))); cbn [negb] in H; [|discriminate].
  apply lift_ok in H. destruct H as [o1 [Ho1 H]].
  apply lift_ok in H. destruct H as [o2 [Ho2 H]]. inversion H; subst o2; clear H.
  apply server_finish_ok in Ho2. subst o1.
  destruct (s13_flags _ _ _ _ Hf) as [R1 [R2 [R3 R4]]].
  apply (client13_spec ck sk _ h f o (s13_alpn _ _ _ _ Hf) R1 R2) in Ho1.
  destruct Ho1 as [C [Cg [Cee [Csig [Csigin Cenc]]]]].
  apply of_opt_ok in Hcv. apply select_version_some in Hcv. destruct Hcv as [Hin Hcr].
  destruct Hin as [Hin|[]]. subst cv.
  destruct (cl_suite _ _ _ _ _ _ _ C) as [Q1 [Q2 Q3]]. apply filter_for_version_In in Q2. destruct Q2 as [Q2 _].
  destruct (Hss _ (s13_suite_local _ _ _ _ Hf)) as [S2a S2k].
  destruct (s13_group _ _ _ _ Hf) as [G1 [G2 [gs [G3 G4]]]]. destruct (s13_sig _ _ _ _ Hf) as [T1 [T2 [T3 T4]]].
  destruct (s13_key _ _ _ _ Hf) as [K1 K2].
  constructor; rewrite ?(cl_version _ _ _ _ _ _ _ C), ?Q1, ?(cl_group _ _ _ _ _ _ _ C), ?Csig, ?(cl_alpn _ _ _ _ _ _ _ C),
    ?(cl_server_key _ _ _ _ _ _ _ C).
  - now split.
  - repeat split; assumption.
  - intros _. split; [exact (hello_groups_client ck h _ gs Hh G3 G4) | exact G1].
  - intros _. repeat split; assumption.
  - right. rewrite K1. exact (presented_key_cases ck (k_cfg sk) h Hh).
  - intro Hn. destruct (cl_csig _ _ _ _ _ _ _ C Hn) as [X1 [X2 [_ X3]]]. repeat split; assumption.
  - intros Hc Hr. destruct (cl_chain _ _ _ _ _ _ _ C Hc Hr (or_intror eq_refl)) as [X|[_ X]]; auto.
  - intro Hn. destruct (cl_srtp _ _ _ _ _ _ _ C Hn) as [Y1 [Y2 _]]. split; [exact Y2|].
    rewrite Y1 in *. now destruct (s13_srtp _ _ _ _ Hf Hn) as [Z _].
  - rewrite (s13_alpn _ _ _ _ Hf). congruence.
  - intros _. rewrite (cl_ems _ _ _ _ _ _ _ C). reflexivity.
  - destruct (cl_exts _ _ _ _ _ _ _ C) as [X1 [X2 X3]]. rewrite X1, X2. now apply exts_subset.
Qed.

Lemma tail12_policy ck sk h f o ss :
  (h = client_hello13 ck \/ exists b, h = client_hello12 ck b) ->
  in_range (k_min sk) (k_max sk) v12 = true ->
  (forall s, In s ss -> In s (k_suites sk) /\ fits_key (c_key (k_cfg sk)) s = true) ->
  server12_sound sk ss h f -> client_tail12 ck sk h f = Ok o -> in_policy_conn ck sk o.
Proof.
  intros Hh Hsv Hss Hf H. unfold client_tail12 in H. cbv zeta in H.
  destruct (hello_fields ck h Hh) as [F1 [F2 [F3 [F4 [F5 [F6 F7]]]]]].
  apply lift_ok in H. destruct H as [cv [Hcv H]].
  destruct (nonempty (filter_for_version v12 (k_suites ck))); cbn [negb] in H; [|discriminate].
  apply lift_ok in H. destruct H as [o1 [Ho1 H]].
  apply lift_ok in H. destruct H as [o2 [Ho2 H]]. inversion H; subst o2; clear H.
  apply server_finish_ok in Ho2. subst o1.
  apply client12_spec in Ho1. rename Ho1 into C.
  apply of_opt_ok in Hcv. apply select_version_some in Hcv. destruct Hcv as [Hin Hcr].
  destruct Hin as [Hin|[]]. subst cv.
  destruct (cl_suite _ _ _ _ _ _ _ C) as [Q1 [Q2 Q3]]. apply filter_for_version_In in Q2. destruct Q2 as [Q2 _].
  destruct (Hss _ (s12_suite_local _ _ _ _ Hf)) as [S2a S2k].
  destruct (cl_flags _ _ _ _ _ _ _ C) as [K1 [K2 K3]].
  constructor; rewrite ?(cl_version _ _ _ _ _ _ _ C), ?Q1, ?(cl_group _ _ _ _ _ _ _ C), ?(cl_alpn _ _ _ _ _ _ _ C),
    ?(cl_server_key _ _ _ _ _ _ _ C).
  - now split.
  - repeat split; assumption.
  - intro Hn. destruct (s12_group _ _ _ _ Hf Hn) as [G1 [G2 G3]]. split; [|exact G1].
    pose proof (suite_needs_group_ecc _ (s12_group_suite _ _ _ _ Hf Hn)) as Hecc.
    pose proof (F7 (ecc_exists _ _ Q2 Hecc)) as Hne.
    destruct (h_groups h) as [gs|] eqn:Eg; [|congruence].
    exact (hello_groups_client ck h _ gs Hh Eg (G3 gs eq_refl)).
  - intro Hn. destruct (cl_sig _ _ _ _ _ _ _ C Hn) as [X1 X2]. rewrite X1 in *.
    destruct (s12_sig _ _ _ _ Hf Hn) as [Y1 Y2]. repeat split; assumption.
  - destruct (s12_key _ _ _ _ Hf) as [[Z _]|[Z _]]; [now left | right]. rewrite Z.
    exact (presented_key_cases ck (k_cfg sk) h Hh).
  - intro Hn. destruct (cl_csig _ _ _ _ _ _ _ C Hn) as [X1 [X2 [_ X3]]]. repeat split; assumption.
  - intros Hc Hr. rewrite K2 in Hc. rewrite K1 in Hr.
    assert (Ha : (s_auth (f_suite f) =? g11_auth_certificate) = true)
      by (now destruct (s12_cert _ _ _ _ Hf Hc) as [_ [Hauth _]]).
    destruct (cl_chain _ _ _ _ _ _ _ C) as [X|[_ X]]; try (now rewrite ?K1, ?K2); auto.
  - intro Hn. destruct (cl_srtp _ _ _ _ _ _ _ C Hn) as [Y1 [Y2 _]]. split; [exact Y2|].
    rewrite Y1 in *. now destruct (s12_srtp _ _ _ _ Hf Hn) as [Z _].
  - intro Hn. destruct (s12_alpn _ _ _ _ Hf Hn) as [Z1 Z2]. rewrite F3 in Z2. now split.
  - intros [He|He]; unfold requires_ems in He; [now apply (cl_ems_required _ _ _ _ _ _ _ C)|].
    rewrite (cl_ems _ _ _ _ _ _ _ C). cbn. pose proof (s12_ems_required _ _ _ _ Hf He) as Hx. rewrite Hx. cbn.
    destruct (s12_ems_ext _ _ _ _ Hf Hx) as [Hh1 _]. rewrite F5 in Hh1. now rewrite (ems_requested_not_disable _ Hh1).
  - destruct (cl_exts _ _ _ _ _ _ _ C) as [X1 [X2 X3]]. rewrite X1, X2. now apply exts_subset.
Qed.

(* the version the server works in, as a function of the hello (prepareHandshakeStart / pickVersionFromClientHello) *)
Definition server_version (sk : conn) (h : hello) : res N :=
  match stack_of sk with
  | Only12 => ROk v12
  | Only13 => ROk v13
  | Dual => of_opt (select_version (match h_versions h with [] => [h_legacy h] | l => l end) (k_min sk) (k_max sk))
                   g11_alert_protocol_version
  end.

Lemma lift_client13_ok lost {A} (r : res A) (k : A -> result) o :
  lift_client13 lost r k = Ok o -> lift Client r k = Ok o.
Proof. destruct r; cbn; [tauto | destruct lost; discriminate | tauto]. Qed.

Lemma negotiate_conn_sw_inv keep ck sk seeded o :
  negotiate_conn_sw keep ck sk seeded = Ok o ->
  exists h v ss,
    ((h = client_hello13 ck /\ stack_of ck <> Only12) \/ (exists b, h = client_hello12 ck b) /\ stack_of ck = Only12) /\
    server_version sk h = ROk v /\
    (forall s, In s ss -> In s (k_suites sk) /\ fits_key (c_key (k_cfg sk)) s = true) /\
    ((v = v13 /\ exists f, server13 sk ss h = ROk f /\ client_tail13 ck sk h f = Ok o) \/
     (v <> v13 /\ exists f, server12 sk ss h seeded = ROk f /\ client_tail12 ck sk h f = Ok o)).
Proof.
  unfold negotiate_conn_sw. cbv zeta.
  set (h := match stack_of ck with
            | Only12 => client_hello12 ck _
            | _ => client_hello13 ck end).
  assert (Hh : (h = client_hello13 ck /\ stack_of ck <> Only12) \/ (exists b, h = client_hello12 ck b) /\ stack_of ck = Only12).
  { subst h. destruct (stack_of ck); [right; split; eauto | left; split; [reflexivity | discriminate] ..]. }
  clearbody h. intro H. exists h.
  apply lift_ok in H. destruct H as [v [Hv H]]. exists v.
  set (ss := filter_for_version v (filter_for_key (c_key (k_cfg sk)) (k_suites sk))) in *.
  assert (Hss : forall s, In s ss -> In s (k_suites sk) /\ fits_key (c_key (k_cfg sk)) s = true).
  { intros s Hs. subst ss. apply filter_for_version_In in Hs. destruct Hs as [Hs _].
    now apply filter_for_key_In in Hs. }
  clearbody ss. exists ss.
  destruct (nonempty ss); cbn [negb] in H; [|discriminate].
  split; [exact Hh|]. split; [exact Hv|]. split; [exact Hss|].
  destruct (v =? v13) eqn:Ev.
  - left. apply N.eqb_eq in Ev. split; [exact Ev|].
    apply lift_ok in H. destruct H as [f [Hf H]]. exists f. split; [exact Hf|].
    unfold client_tail13.
    destruct (stack_of ck); [discriminate | |];
      (destruct (of_opt (select_version [v13] (k_min ck) (k_max ck)) g11_alert_protocol_version); cbn [lift] in *;
       [|discriminate ..]; cbv zeta;
       destruct (negb (nonempty (filter_for_version v13 (k_suites ck)))); [discriminate|];
       now apply lift_client13_ok in H).
  - right. apply N.eqb_neq in Ev. split; [exact Ev|].
    apply lift_ok in H. destruct H as [f [Hf H]]. exists f. split; [exact Hf|].
    destruct (stack_of ck); [exact H | discriminate | exact H].
Qed.

Lemma negotiate_conn_inv ck sk seeded o :
  negotiate_conn ck sk seeded = Ok o ->
  exists h v ss,
    ((h = client_hello13 ck /\ stack_of ck <> Only12) \/ (exists b, h = client_hello12 ck b) /\ stack_of ck = Only12) /\
    server_version sk h = ROk v /\
    (forall s, In s ss -> In s (k_suites sk) /\ fits_key (c_key (k_cfg sk)) s = true) /\
    ((v = v13 /\ exists f, server13 sk ss h = ROk f /\ client_tail13 ck sk h f = Ok o) \/
     (v <> v13 /\ exists f, server12 sk ss h seeded = ROk f /\ client_tail12 ck sk h f = Ok o)).
Proof. apply negotiate_conn_sw_inv. Qed.

Lemma server_version_range sk h v :
  conn_wf sk -> server_version sk h = ROk v -> in_range (k_min sk) (k_max sk) v = true /\ (v = v12 \/ v = v13).
Proof.
  intros [Ws1 [Ws2 Ws3]] Hv. unfold server_version, stack_of in Hv. unfold in_range.
  destruct (k_max sk =? v12) eqn:E1.
  - inversion Hv; subst v. apply N.eqb_eq in E1. split; [|now left].
    destruct Ws1 as [W|W]; rewrite W, E1 in *; cbn; try reflexivity. unfold v12, v13 in Ws3. lia.
  - destruct (k_min sk =? v13) eqn:E2.
    + inversion Hv; subst v. apply N.eqb_eq in E2. apply N.eqb_neq in E1. split; [|now right].
      destruct Ws2 as [W|W]; [congruence|]. rewrite W, E2. reflexivity.
    + apply of_opt_ok in Hv. apply select_version_some in Hv. destruct Hv as [_ Hr]. split; [exact Hr|].
      unfold in_range in Hr. apply N.eqb_neq in E1, E2. unfold v12, v13 in *. lia.
Qed.

Lemma hello_kind_weaken ck h :
  ((h = client_hello13 ck /\ stack_of ck <> Only12) \/ (exists b, h = client_hello12 ck b) /\ stack_of ck = Only12) ->
  h = client_hello13 ck \/ exists b, h = client_hello12 ck b.
Proof. intros [[H _]|[H _]]; auto. Qed.

Theorem in_policy_conn_holds ck sk seeded o :
  conn_wf sk -> negotiate_conn ck sk seeded = Ok o -> in_policy_conn ck sk o.
Proof.
  intros Ws H. apply negotiate_conn_inv in H.
  destruct H as [h [v [ss [Hh [Hv [Hss Hcase]]]]]].
  apply hello_kind_weaken in Hh.
  destruct (server_version_range _ _ _ Ws Hv) as [Hsv Hv2].
  destruct Hcase as [[Ev [f [Hf H]]]|[Ev [f [Hf H]]]].
  - subst v. apply server13_spec in Hf. exact (tail13_policy ck sk h f o ss Hh Hsv Hss Hf H).
  - destruct Hv2 as [Hv2|Hv2]; [subst v | congruence].
    apply server12_spec in Hf. exact (tail12_policy ck sk h f o ss Hh Hsv Hss Hf H).
Qed.

(* the version of an established association is the one the server chose *)
Lemma tail_version ck sk h f o :
  (client_tail13 ck sk h f = Ok o -> f_alpn f = 0 -> f_resumed f = false -> f_cert f = true -> o_version o = v13) /\
  (client_tail12 ck sk h f = Ok o -> o_version o = v12).
Proof.
  split.
  - intros H Fa Fr Fc. unfold client_tail13 in H. cbv zeta in H.
    apply lift_ok in H. destruct H as [cv [_ H]].
    destruct (nonempty (filter_for_version v13 (k_suites ck))); cbn [negb] in H; [|discriminate].
    apply lift_ok in H. destruct H as [o1 [Ho1 H]].
    apply lift_ok in H. destruct H as [o2 [Ho2 H]]. inversion H; subst o2; clear H.
    apply server_finish_ok in Ho2. subst o1.
    apply (client13_spec ck sk _ h f o Fa Fr Fc) in Ho1. destruct Ho1 as [C _]. now destruct C.
  - intro H. unfold client_tail12 in H. cbv zeta in H.
    apply lift_ok in H. destruct H as [cv [_ H]].
    destruct (nonempty (filter_for_version v12 (k_suites ck))); cbn [negb] in H; [|discriminate].
    apply lift_ok in H. destruct H as [o1 [Ho1 H]].
    apply lift_ok in H. destruct H as [o2 [Ho2 H]]. inversion H; subst o2; clear H.
    apply server_finish_ok in Ho2. subst o1.
    apply client12_spec in Ho1. now destruct Ho1.
Qed.

(* C11 "and is the highest both allow": between two pion endpoints the negotiated version is the greatest
   version lying in both (effective) ranges.  The premise of [highest_version] - the peer's list is a
   SupportedVersionsRange list, newest first - is discharged here by the shape of the generated hello. *)
Theorem negotiated_version_is_highest ck sk seeded o :
  conn_wf ck -> conn_wf sk -> negotiate_conn ck sk seeded = Ok o ->
  forall w, (w = v12 \/ w = v13) ->
    in_range (k_min ck) (k_max ck) w = true -> in_range (k_min sk) (k_max sk) w = true -> w <= o_version o.
Proof.
  intros Wc Ws H w Hw Hc Hs. apply negotiate_conn_inv in H.
  destruct H as [h [v [ss [Hh [Hv [Hss Hcase]]]]]].
  assert (Hov : o_version o = v).
  { destruct Hcase as [[Ev [f [Hf H]]]|[Ev [f [Hf H]]]].
    - subst v. apply server13_spec in Hf. destruct Hf. destruct s13_flags0 as [R1 [R2 _]].
      now apply (proj1 (tail_version ck sk h f o)).
    - destruct (server_version_range _ _ _ Ws Hv) as [_ [Hv2|Hv2]]; [subst v | congruence].
      now apply (proj2 (tail_version ck sk h f o)). }
  rewrite Hov. clear Hcase Hov.
  unfold server_version in Hv. destruct Wc as [Wc1 [Wc2 Wc3]]. destruct Ws as [Ws1 [Ws2 Ws3]].
  unfold stack_of in *. unfold in_range in *.
  destruct (k_max sk =? v12) eqn:E1.
  - inversion Hv; subst v. apply N.eqb_eq in E1. unfold v12, v13 in *. lia.
  - destruct (k_min sk =? v13) eqn:E2.
    + inversion Hv; subst v. unfold v12, v13 in *. lia.
    + apply of_opt_ok in Hv.
      destruct Hh as [[Hh Hst]|[[b Hh] Hst]]; subst h.
      * (* 1.3-style hello: supported_versions of the client's range *)
        change (h_versions (client_hello13 ck)) with (supported_versions (k_min ck) (k_max ck)) in Hv.
        destruct (supported_versions (k_min ck) (k_max ck)) as [|a l] eqn:Esv.
        -- (* cannot be empty: w itself is in it *)
           assert (Hin : In w (supported_versions (k_min ck) (k_max ck))).
           { apply supported_versions_spec. split; [|unfold in_range; exact Hc].
             unfold g11_version_order, v12, v13 in *. cbn. destruct Hw; subst; auto. }
           rewrite Esv in Hin. destruct Hin.
        -- rewrite <- Esv in Hv.
           apply (highest_version (k_min ck) (k_max ck) (k_min sk) (k_max sk) v Hv w); try assumption.
           unfold g11_version_order, v12, v13 in *. cbn. destruct Hw; subst; auto.
      * (* 1.2 hello: the client's range ends at 1.2 *)
        change (h_versions (client_hello12 ck b)) with (@nil N) in Hv. cbv iota in Hv.
        apply select_version_some in Hv. destruct Hv as [[Hv|[]] _]. change (h_legacy (client_hello12 ck b)) with v12 in Hv. subst v.
        destruct (k_max ck =? v12) eqn:E3; [|destruct (k_min ck =? v13); discriminate].
        apply N.eqb_eq in E3. unfold v12, v13 in *. lia.
Qed.

(* ------------------------------------------------------------------ from the option sets to the connection values *)

Definition version_allowed (c : cfg) (v : N) : Prop :=
  norm_version (c_min c) <= v /\ v <= norm_version (c_max c).

Definition suite_enabled (c : cfg) (s : N) : Prop :=
  match c_suites c with
  | Some l => In s l
  | None => In s (g11_default_suites13 ++ g11_default_suites12)
  end.

Definition sig_allowed (c : cfg) (s : N) : Prop :=
  match c_sigs c with [] => In s g11_default_sigs | l => In s l end.

Lemma last_In (l : list N) d : l <> [] -> In (last l d) l.
Proof.
  induction l as [|a l IH]; [congruence|]. intros _. destruct l as [|b l]; [now left|].
  right. apply IH. discriminate.
Qed.

Lemma last_le_head (a : N) (l : list N) :
  StronglySorted (fun x y => y <= x) (a :: l) -> last (a :: l) a <= a.
Proof.
  intro H. inversion H as [|? ? Hs Hf]; subst. rewrite Forall_forall in Hf.
  destruct l as [|b l]; [cbn; lia|].
  assert (Hin : In (last (a :: b :: l) a) (b :: l)).
  { change (last (a :: b :: l) a) with (last (b :: l) a). apply last_In. discriminate. }
  now apply Hf.
Qed.

Lemma suite_versions_sub ss vs v : In v (suite_versions ss vs) -> In v vs.
Proof.
  unfold suite_versions. destruct ss as [l|]; [|auto]. destruct (forallb known_suite l); [|auto].
  intro H. now apply filter_In in H.
Qed.

Lemma suite_versions_sorted ss vs :
  StronglySorted (fun x y => y <= x) vs -> StronglySorted (fun x y => y <= x) (suite_versions ss vs).
Proof.
  intro H. unfold suite_versions. destruct ss as [l|]; [|exact H]. destruct (forallb known_suite l); [|exact H].
  now apply filter_sorted.
Qed.

Lemma effective_range_spec c mn mx :
  effective_range c = Some (mn, mx) ->
  (mn = v12 \/ mn = v13) /\ (mx = v12 \/ mx = v13) /\ mn <= mx /\
  version_allowed c mn /\ version_allowed c mx.
Proof.
  unfold effective_range. cbv zeta.
  set (nmn := norm_version (c_min c)). set (nmx := norm_version (c_max c)).
  set (range := supported_versions nmn nmx).
  set (cv := suite_versions (c_suites c) range).
  set (versions := if nonempty cv then cv else range).
  set (kv := curve_versions (c_curves c) range).
  destruct (nonempty (c_curves c) && negb (nonempty kv)); [discriminate|].
  set (vs := if negb (c_psk c) || negb (c_key c =? 0) then inter versions kv
             else filter (fun v => negb (v =? v13)) (inter versions kv)).
  assert (Hvs_sub : forall v, In v vs -> In v (inter versions kv)).
  { intros v Hv. subst vs. destruct (negb (c_psk c) || negb (c_key c =? 0)); [exact Hv | now apply filter_In in Hv]. }
  assert (Hvs_sorted : StronglySorted (fun x y => y <= x) (inter versions kv) -> StronglySorted (fun x y => y <= x) vs).
  { intro Hs. subst vs. destruct (negb (c_psk c) || negb (c_key c =? 0)); [exact Hs | now apply filter_sorted]. }
  destruct vs as [|hi t] eqn:Ei; [discriminate|].
  intro H. inversion H; subst mn mx; clear H.
  assert (Hsorted_range : StronglySorted (fun x y => y <= x) range)
    by (apply filter_sorted, version_order_sorted).
  assert (Hsorted : StronglySorted (fun x y => y <= x) (hi :: t)).
  { apply Hvs_sorted. unfold inter. apply filter_sorted. subst versions.
    destruct (nonempty cv); [now apply suite_versions_sorted | exact Hsorted_range]. }
  assert (Hsub : forall v, In v (hi :: t) -> In v range).
  { intros v Hv. apply Hvs_sub in Hv. apply inter_In in Hv. destruct Hv as [Hv _]. subst versions.
    destruct (nonempty cv); [now apply suite_versions_sub in Hv | exact Hv]. }
  assert (Hval : forall v, In v range -> (v = v12 \/ v = v13) /\ version_allowed c v).
  { intros v Hv. apply supported_versions_spec in Hv. destruct Hv as [Ho Hr].
    apply version_order_values in Ho. split; [tauto|]. unfold version_allowed, in_range in *. fold nmn nmx. lia. }
  assert (Hlast : In (last (hi :: t) hi) (hi :: t)) by (apply last_In; discriminate).
  destruct (Hval _ (Hsub _ Hlast)) as [V1 V2].
  destruct (Hval _ (Hsub _ (or_introl eq_refl))) as [V3 V4].
  split; [tauto|]. split; [tauto|]. split; [now apply last_le_head|]. split; assumption.
Qed.

Lemma default_suites_for_In vs s :
  In s (default_suites_for vs) -> In s (g11_default_suites13 ++ g11_default_suites12).
Proof.
  unfold default_suites_for. intro H. apply in_flat_map in H. destruct H as [v [_ H]].
  apply in_or_app. destruct (v =? v13); [now left|]. destruct (v =? v12); [now right | destruct H].
Qed.

Lemma parse_suites_spec c mn mx l :
  parse_suites c mn mx = Some l ->
  forall s, In s l -> suite_enabled c s /\ exists v, in_range mn mx v = true /\ s_supports s v = true.
Proof.
  unfold parse_suites. cbv zeta.
  destruct (match c_suites c with
            | Some l0 => if forallb known_suite l0 then Some l0 else None
            | None => Some (default_suites_for (supported_versions mn mx)) end) as [b|] eqn:Eb; [|discriminate].
  match goal with |- (if ?a then _ else _) = _ -> _ => destruct a end; [discriminate|].
  match goal with |- (if ?a then _ else _) = _ -> _ => destruct a end; [discriminate|].
  match goal with |- (if ?a then _ else _) = _ -> _ => destruct a end; [|discriminate].
  intro H. inversion H; subst l; clear H. intros s Hs.
  apply filter_In in Hs. destruct Hs as [Hs _]. apply filter_In in Hs. destruct Hs as [Hs Hv].
  split.
  - unfold suite_enabled. destruct (c_suites c) as [l0|].
    + destruct (forallb known_suite l0); inversion Eb; now subst.
    + inversion Eb; subst. now apply default_suites_for_In in Hs.
  - apply existsb_exists in Hv. destruct Hv as [v [Hv1 Hv2]]. exists v. split; [|exact Hv2].
    now apply supported_versions_spec in Hv1.
Qed.

Lemma parse_sigs_spec l out : parse_sigs l = Some out ->
  forall s, In s out -> match l with [] => In s g11_default_sigs | _ => In s l end.
Proof.
  unfold parse_sigs. destruct l as [|a l].
  - intro H. inversion H; subst. auto.
  - remember (a :: l) as l0 eqn:El0. destruct (forallb sig_known l0); [|discriminate].
    destruct (nonempty (filter (fun s => negb (sig_insecure s)) l0)); [|discriminate].
    intro H. injection H as H1. intros s Hs. rewrite <- H1 in Hs. apply filter_In in Hs. tauto.
Qed.

Lemma parse_sigs_nonempty l out : parse_sigs l = Some out -> out <> [].
Proof.
  unfold parse_sigs. destruct l as [|a l].
  - intro H. inversion H. unfold g11_default_sigs. discriminate.
  - remember (a :: l) as l0 eqn:El0. destruct (forallb sig_known l0); [|discriminate].
    destruct (filter (fun s => negb (sig_insecure s)) l0) as [|b t]; [discriminate|].
    intro H. inversion H. discriminate.
Qed.

Record built_from (c : cfg) (k : conn) : Prop := {
  bf_cfg : k_cfg k = c;
  bf_wf : conn_wf k;
  bf_range : version_allowed c (k_min k) /\ version_allowed c (k_max k);
  bf_suites : forall s, In s (k_suites k) -> suite_enabled c s;
  bf_curves : k_curves k = eff_curves c;
  bf_sigs : forall s, In s (k_sigs k) -> sig_allowed c s;
  bf_sigs_nonempty : k_sigs k <> []
}.

Lemma build_spec b c k : build b c = Some k -> built_from c k.
Proof.
  unfold build.
  destruct (b && c_psk c && negb (c_hint c)); [discriminate|].
  destruct (c_hint c && negb (c_psk c)); [discriminate|].
  destruct (effective_range c) as [[mn mx]|] eqn:Er; [|discriminate].
  destruct (parse_suites c mn mx) as [ss|] eqn:Es; [|discriminate].
  destruct (parse_sigs (c_sigs c)) as [sg|] eqn:Eg; [|discriminate].
  assert (Hk : forall cs, Some (mkConn c mn mx ss sg cs (eff_curves c)) = Some k -> built_from c k).
  2: { destruct (c_csigs c) as [|a0 l0]; [apply Hk|]. destruct (parse_sigs (a0 :: l0)); [apply Hk | discriminate]. }
  intros cs H. inversion H; subst k; clear H.
  apply effective_range_spec in Er. destruct Er as [R1 [R2 [R3 [R4 R5]]]].
  constructor; cbn; try reflexivity.
  - now repeat split.
  - now split.
  - intros s Hs. now destruct (parse_suites_spec _ _ _ _ Es s Hs).
  - intros s Hs. unfold sig_allowed. pose proof (parse_sigs_spec _ _ Eg s Hs) as Hp.
    destruct (c_sigs c); exact Hp.
  - exact (parse_sigs_nonempty _ _ Eg).
Qed.

(* ------------------------------------------------------------------ C11 in_policy, stated on the two option sets *)

Record in_policy (c s : cfg) (o : outcome) : Prop := {
  pol_version : version_allowed c (o_version o) /\ version_allowed s (o_version o);
  pol_suite : suite_enabled c (o_suite o) /\ suite_enabled s (o_suite o) /\
              fits_key (c_key s) (o_suite o) = true /\ s_supports (o_suite o) (o_version o) = true;
  pol_group : o_group o <> 0 -> In (o_group o) (eff_curves c) /\ In (o_group o) (eff_curves s);
  pol_sig : o_sig o <> 0 -> sig_allowed c (o_sig o) /\ sig_allowed s (o_sig o) /\
                            sig_fits (o_version o =? v13) (o_server_key o) (o_sig o) = true;
  pol_server_key : o_server_key o = 0 \/ o_server_key o = c_key s \/
                   (o_server_key o = c_key2 s /\ has_alt s = true /\ c_sni c = true);
  pol_csig : o_csig o <> 0 -> sig_allowed c (o_csig o) /\ sig_allowed s (o_csig o) /\
                              sig_fits (o_version o =? v13) (c_key c) (o_csig o) = true;
  pol_srtp : o_srtp o <> 0 -> In (o_srtp o) (c_srtp c) /\ In (o_srtp o) (c_srtp s);
  pol_alpn : o_alpn o <> 0 -> In (o_alpn o) (c_alpn c) /\ In (o_alpn o) (c_alpn s);
  pol_ems : requires_ems c = true \/ requires_ems s = true -> o_ems o = true;
  pol_exts : forall e, In e (o_sh_exts o) -> In e (o_ch_exts o)
}.

Lemma version_allowed_range c k v :
  built_from c k -> in_range (k_min k) (k_max k) v = true -> version_allowed c v.
Proof.
  intros [_ _ [[R1 _] [_ R2]] _ _ _] H. unfold in_range in H. unfold version_allowed in *. lia.
Qed.

Theorem in_policy_holds c s seeded o : negotiate c s seeded = Some (Ok o) -> in_policy c s o.
Proof.
  unfold negotiate, negotiate_sw. destruct (build true c) as [ck|] eqn:Ec; [|discriminate].
  destruct (build false s) as [sk|] eqn:Es; [|discriminate].
  intro H. inversion H as [H1]; clear H.
  apply build_spec in Ec, Es.
  pose proof (in_policy_conn_holds ck sk seeded o (bf_wf _ _ Es) H1) as P.
  destruct P as [P1 P2 P3 P4 Pk P5 P6 P7 P8 P9 P10].
  pose proof (bf_cfg _ _ Ec) as Kc. pose proof (bf_cfg _ _ Es) as Ks. rewrite Kc, Ks in *.
  constructor.
  - destruct P1 as [A B]. split; [exact (version_allowed_range _ _ _ Ec A) | exact (version_allowed_range _ _ _ Es B)].
  - destruct P2 as [A [B [C D]]]. repeat split; try assumption; [exact (bf_suites _ _ Ec _ A) | exact (bf_suites _ _ Es _ B)].
  - intro Hn. destruct (P3 Hn) as [A B]. rewrite (bf_curves _ _ Ec) in A. rewrite (bf_curves _ _ Es) in B. now split.
  - intro Hn. destruct (P4 Hn) as [A [B C]]. repeat split; try assumption;
      [exact (bf_sigs _ _ Ec _ A) | exact (bf_sigs _ _ Es _ B)].
  - exact Pk.
  - intro Hn. destruct (P5 Hn) as [A [B C]]. split; [|split; [exact (bf_sigs _ _ Es _ A) | exact C]].
    destruct B as [B|B]; [exfalso; exact (bf_sigs_nonempty _ _ Ec B) | exact (bf_sigs _ _ Ec _ B)].
  - exact P7.
  - exact P8.
  - exact P9.
  - exact P10.
Qed.

(* ------------------------------------------------------------------ EMS policy as a single-dimension rule *)

Lemma ems_server_refuses_iff (s : cfg) (h : hello) :
  negb (c_ems s =? g11_ems_require) || (h_ems h && negb (c_ems s =? g11_ems_disable)) = false <->
  c_ems s = g11_ems_require /\ h_ems h = false.
Proof.
  unfold g11_ems_require, g11_ems_disable. split.
  - intro H. apply orb_false_iff in H. destruct H as [H1 H2]. apply negb_false_iff, N.eqb_eq in H1.
    split; [exact H1|]. rewrite H1 in H2. cbn in H2. now rewrite andb_true_r in H2.
  - intros [H1 H2]. rewrite H1, H2. reflexivity.
Qed.

Lemma ems_client_refuses_iff (c : cfg) (ext : bool) :
  negb (c_ems c =? g11_ems_require) || (ext && negb (c_ems c =? g11_ems_disable)) = false <->
  c_ems c = g11_ems_require /\ ext = false.
Proof.
  unfold g11_ems_require, g11_ems_disable. split.
  - intro H. apply orb_false_iff in H. destruct H as [H1 H2]. apply negb_false_iff, N.eqb_eq in H1.
    split; [exact H1|]. rewrite H1 in H2. cbn in H2. now rewrite andb_true_r in H2.
  - intros [H1 H2]. rewrite H1, H2. reflexivity.
Qed.

(* ------------------------------------------------------------------ consequences of in_policy: an empty intersection never completes *)

Theorem empty_intersection_never_completes c s seeded o :
  negotiate c s seeded = Some (Ok o) ->
  (exists v, version_allowed c v /\ version_allowed s v) /\
  (exists x, suite_enabled c x /\ suite_enabled s x /\ fits_key (c_key s) x = true) /\
  (o_group o <> 0 -> exists g, In g (eff_curves c) /\ In g (eff_curves s)) /\
  (o_srtp o <> 0 -> exists p, In p (c_srtp c) /\ In p (c_srtp s)) /\
  (o_alpn o <> 0 -> exists p, In p (c_alpn c) /\ In p (c_alpn s)).
Proof.
  intro H. apply in_policy_holds in H. destruct H as [P1 P2 P3 P4 P5 P6 P7 P8 P9].
  split; [exists (o_version o); exact P1|].
  split; [exists (o_suite o); tauto|].
  split; [intro Hn; exists (o_group o); auto|].
  split; [intro Hn; exists (o_srtp o); auto|].
  intro Hn; exists (o_alpn o); auto.
Qed.

(* ------------------------------------------------------------------ which alerts a refusal can carry *)

Definition negotiation_alerts : list N :=
  [g11_alert_protocol_version; g11_alert_insufficient_security; g11_alert_no_application_protocol;
   g11_alert_unsupported_extension; g11_alert_handshake_failure; g11_alert_illegal_parameter;
   g11_alert_missing_extension; g11_alert_internal_error; g11_alert_no_certificate; g11_alert_bad_certificate;
   g11_alert_certificate_required].

(* ------------------------------------------------------------------ witnesses: where the property text does NOT hold *)

Definition cfg_default : cfg :=
  mkCfg 0 0 None false false 0 1027 0 false [] [] [] 0 [] [] [] None false false 0 false.

Definition with_key (c : cfg) (k : N) : cfg :=
  mkCfg (c_min c) (c_max c) (c_suites c) (c_psk c) (c_hint c) k (c_chain_sig c) (c_client_auth c) (c_skip_verify c)
        (c_curves c) (c_sigs c) (c_csigs c) (c_ems c) (c_srtp c) (c_mki c) (c_alpn c) (c_cid c) (c_store c) (c_skip_hv c) (c_key2 c) (c_sni c).

(* (1) "fails on both sides with an alert": a server whose suite list does not fit its own key type
   gives up in HandshakeContext without sending anything *)
Definition w_silent_c : cfg := cfg_default.
Definition w_silent_s : cfg :=
  mkCfg 0 0 (Some [49199]) false false 1 1027 0 false [] [] [] 0 [] [] [] None false false 0 false.

Theorem failure_without_alert_refuted :
  exists c s, negotiate c s false = Some (Silent Server) /\
              (forall x, suite_enabled c x -> suite_enabled s x -> fits_key (c_key s) x = false).
Proof.
  exists w_silent_c, w_silent_s. split; [vm_compute; reflexivity|].
  intros x _ Hx. unfold suite_enabled, w_silent_s in Hx. cbn in Hx. destruct Hx as [Hx|[]]. subst x.
  vm_compute. reflexivity.
Qed.

(* (2) formerly refuted, repaired in /repo ("encode RSA-PSS schemes in CertificateVerify"): every scheme a
   selection can return for some key type, on either version, is one CertificateVerify can carry - so the
   [RSilent] branches of server13 / client13 are dead for the regenerated table ... *)
Definition table_selectable_encodable : bool :=
  forallb (fun p => let '(id, (_, k12, k13, e)) := p in implb (nonempty k12 || nonempty k13) e) g11_sigs.

Lemma table_selectable_encodable_ok : table_selectable_encodable = true.
Proof. vm_compute. reflexivity. Qed.

Theorem selectable_schemes_are_encodable is13 key id :
  sig_fits is13 key id = true -> sig_encodable id = true.
Proof.
  unfold sig_fits, sig_encodable, sig_info. destruct (lookup id g11_sigs) as [[[[i k12] k13] e]|] eqn:E; [|discriminate].
  intro H. apply lookup_In in E. pose proof table_selectable_encodable_ok as T. unfold table_selectable_encodable in T.
  rewrite forallb_forall in T. specialize (T _ E). cbn in T.
  assert (Hn : nonempty k12 || nonempty k13 = true).
  { destruct is13; apply mem_In in H; [apply orb_true_iff; right | apply orb_true_iff; left];
      apply nonempty_exists; eauto. }
  rewrite Hn in T. exact T.
Qed.

(* ... and a DTLS 1.3 server with an RSA key completes, signing with RSA-PSS (the client's preference order
   over the common schemes decides: rsa_pss_rsae_sha256 for two default lists) *)
Definition w_rsa13_c : cfg :=
  mkCfg 3 3 None false false 0 1027 0 false [] [] [] 0 [] [] [] None false false 0 false.
Definition w_rsa13_s : cfg :=
  mkCfg 3 3 None false false 3 1027 0 false [] [] [] 0 [] [] [] None false false 0 false.

Theorem rsa_dtls13_completes_with_pss :
  exists o, negotiate w_rsa13_c w_rsa13_s false = Some (Ok o) /\ o_version o = v13 /\ o_sig o = 2052.
Proof. eexists. vm_compute. repeat split. Qed.

(* neither side ever gives up silently over the signature scheme: the only silent exits left in the
   composition are the empty suite lists of HandshakeContext *)
Lemma rbind_silent {A B} (r : res A) (f : A -> res B) :
  rbind r f = RSilent -> r = RSilent \/ exists a, r = ROk a /\ f a = RSilent.
Proof. destruct r as [a| |]; cbn; [eauto | discriminate | auto]. Qed.

Lemma req_not_silent b a : req b a <> RSilent.
Proof. unfold req. destruct b; discriminate. Qed.

Lemma of_opt_not_silent {A} (o : option A) a : of_opt o a <> RSilent.
Proof. destruct o; discriminate. Qed.

Ltac sstep H a E :=
  apply rbind_silent in H; destruct H as [ H | [ a [ E H ] ] ];
  [ exfalso; first [ exact (req_not_silent _ _ H) | exact (of_opt_not_silent _ _ H)
                   | exact (negotiate_srtp_not_silent _ _ _ H) ] | ].

Lemma server13_never_silent k ss h : server13 k ss h <> RSilent.
Proof.
  unfold server13. cbv zeta. intro H.
  sstep H u0 E0. sstep H suite E1. sstep H u2 E2. sstep H u3 E3. sstep H u4 E4.
  sstep H group E5. sstep H u6 E6. sstep H u7 E7. sstep H sg E8. sstep H tr E9.
  destruct tr as [[profile echo] peer]. cbn beta iota in H.
  apply of_opt_ok in E8. apply select_sig_some in E8. destruct E8 as [_ E8].
  rewrite (selectable_schemes_are_encodable _ _ _ E8) in H. cbn in H. discriminate.
Qed.

(* (3) formerly refuted, repaired in /repo ("sign the client's CertificateVerify with a scheme its own policy
   allows"): the scheme now comes from CommonSignatureSchemes(server's CertificateRequest list, client's list);
   the positive statement is the [pol_csig] clause of [in_policy].  The former witness pair now signs with a
   scheme of the client's own list (ecdsa_secp384r1_sha384, the first of the server's list the client allows) *)
Definition w_csig_c : cfg :=
  mkCfg 0 0 None false false 2 1027 0 true [] [1283; 2055] [] 0 [] [] [] None false false 0 false.
Definition w_csig_s : cfg :=
  mkCfg 0 0 None false false 1 1027 2 false [] [] [] 0 [] [] [] None false false 0 false.

Theorem client_signature_within_both_policies c s seeded o :
  negotiate c s seeded = Some (Ok o) -> o_csig o <> 0 ->
  sig_allowed c (o_csig o) /\ sig_allowed s (o_csig o) /\ sig_fits (o_version o =? v13) (c_key c) (o_csig o) = true.
Proof. intros H Hn. apply in_policy_holds in H. exact (pol_csig _ _ _ H Hn). Qed.

Theorem client_signature_former_witness :
  exists o, negotiate w_csig_c w_csig_s false = Some (Ok o) /\ o_csig o = 1283 /\ sig_allowed w_csig_c (o_csig o).
Proof. eexists. split; [vm_compute; reflexivity|]. cbn. split; [reflexivity|]. unfold sig_allowed. cbn. auto. Qed.

(* the peer's (server's) order decides among the common schemes; a client with an empty list allows all *)
Theorem client_signature_server_order remote local x :
  In x (common_sigs remote local) <-> In x remote /\ (local = [] \/ In x local).
Proof. exact (common_sigs_In remote local x). Qed.

(* (4) ALPN on DTLS 1.3: disjoint lists complete, nothing is negotiated *)
Definition w_alpn_c : cfg :=
  mkCfg 3 3 None false false 0 1027 0 false [] [] [] 0 [] [] [1] None false false 0 false.
Definition w_alpn_s : cfg :=
  mkCfg 3 3 None false false 1 1027 0 false [] [] [] 0 [] [] [2] None false false 0 false.

Theorem alpn_disjoint_completes_on_dtls13_refuted :
  exists c s o, negotiate c s false = Some (Ok o) /\ c_alpn c <> [] /\ c_alpn s <> [] /\
                (forall p, In p (c_alpn c) -> ~ In p (c_alpn s)) /\ o_alpn o = 0.
Proof.
  exists w_alpn_c, w_alpn_s.
  destruct (negotiate w_alpn_c w_alpn_s false) as [[o| |]|] eqn:E; try (vm_compute in E; discriminate).
  exists o. split; [reflexivity|]. vm_compute in E. inversion E; subst o. cbn.
  repeat split; try discriminate. intros p [Hp|[]] [Hq|[]]. subst. discriminate.
Qed.

(* ... whereas on DTLS 1.2 the same lists are refused with no_application_protocol *)
Theorem alpn_disjoint_refused_on_dtls12 :
  negotiate (with_key cfg_default 0) (with_key cfg_default 1) false <> None /\
  negotiate (mkCfg 0 0 None false false 0 1027 0 false [] [] [] 0 [] [] [1] None false false 0 false)
            (mkCfg 0 0 None false false 1 1027 0 false [] [] [] 0 [] [] [2] None false false 0 false) false
  = Some (Fail Server g11_alert_no_application_protocol).
Proof. split; [vm_compute; discriminate | vm_compute; reflexivity]. Qed.

(* (5) a server ignores the client's signature_algorithms on DTLS 1.2: a common scheme exists, yet the
   handshake is refused by the client (insufficient_security) *)
Theorem common_signature_scheme_yet_refused :
  exists c s x, negotiate c s false = Some (Fail Client g11_alert_insufficient_security) /\
                sig_allowed c x /\ sig_allowed s x /\ sig_fits false (c_key s) x = true.
Proof.
  exists (mkCfg 0 0 None false false 0 1027 0 false [] [1027] [] 0 [] [] [] None false false 0 false),
         (mkCfg 0 0 None false false 2 1027 0 false [] [1283; 1027] [] 0 [] [] [] None false false 0 false), 1027.
  split; [vm_compute; reflexivity|]. unfold sig_allowed. cbn. repeat split; auto. 
Qed.

(* ------------------------------------------------------------------ whose order decides *)

(* cipher suite: the CLIENT's order, on both versions (FindMatchingCipherSuite(client list, local list)) *)
Lemma server12_suite_choice k ss h r f :
  server12 k ss h r = ROk f ->
  first_common (filter (fun x => s_supports x v12) (filter known_suite (h_suites h))) ss = Some (f_suite f).
Proof.
  unfold server12. cbv zeta. intro H.
  rstepn H ch E00. destruct ch as [[suite group] ems0]. cbn beta iota in H.
  unfold hello12_choices in E00. cbv zeta in E00.
  rstepn E00 u0 E. rstepn E00 suite' E0. rstepn E00 group' E1. rstepn E00 u2 E2.
  inversion E00; subst suite' group' ems0; clear E00.
  rstepn H tr E3.
  destruct tr as [[profile echo] peer]. cbn beta iota in H.
  rstepn H proto E4. rstepn H u5 E5. apply of_opt_ok in E0. rewrite E0. f_equal.
  destruct (r && h_session h && c_store (k_cfg k)).
  - now inversion H.
  - destruct (s_auth suite =? g11_auth_certificate).
    + rstepn H u6 E6. rstepn H sg E7. now inversion H.
    + now inversion H.
Qed.

Lemma server13_choices k ss h f :
  server13 k ss h = ROk f ->
  first_common (filter known_suite (h_suites h)) ss = Some (f_suite f) /\
  (* key-exchange group: the SERVER's order on DTLS 1.3 *)
  first_common (k_curves k) (match h_groups h with Some g => g | None => [] end) = Some (f_group f) /\
  (* signature scheme: the client's order over the common schemes *)
  select_sig true (inter (filter sig_known (h_sigs h)) (k_sigs k)) (presented_key (k_cfg k) h) = Some (f_sig f).
Proof.
  unfold server13. cbv zeta. intro H.
  rstepn H u0 E. rstepn H suite E0. rstepn H u1 E1. rstepn H u2 E2. rstepn H u3 E3.
  rstepn H group E4. rstepn H u5 E5. rstepn H u6 E6. rstepn H sg E7. rstepn H tr E8.
  destruct tr as [[profile echo] peer]. cbn beta iota in H.
  destruct (sig_encodable sg); cbn [negb] in H; [|discriminate].
  inversion H; subst; clear H. sfproj.
  apply of_opt_ok in E0, E4, E7. now repeat split.
Qed.

(* key-exchange group on DTLS 1.2: the CLIENT's order (selectEllipticCurve walks the remote list) *)
Lemma select_curve_client_preference local remote g :
  select_curve local remote = Some g ->
  exists pre post, remote = pre ++ g :: post /\ (forall y, In y pre -> ~ In y (curves12 local)).
Proof. unfold select_curve. apply first_common_first. Qed.

(* ------------------------------------------------------------------ highest version, stated on the option sets *)

Theorem negotiated_version_is_highest_cfg c s seeded o ck sk :
  build true c = Some ck -> build false s = Some sk -> negotiate c s seeded = Some (Ok o) ->
  forall w, (w = v12 \/ w = v13) ->
    in_range (k_min ck) (k_max ck) w = true -> in_range (k_min sk) (k_max sk) w = true -> w <= o_version o.
Proof.
  intros Bc Bs H. unfold negotiate, negotiate_sw in H. rewrite Bc, Bs in H. inversion H as [H1].
  apply build_spec in Bc, Bs.
  exact (negotiated_version_is_highest ck sk seeded o (bf_wf _ _ Bc) (bf_wf _ _ Bs) H1).
Qed.

(* a server never answers with an extension that was not offered - on the server's side, for ANY hello
   (DTLS 1.2: FinalizeServerHello checks it; DTLS 1.3: by construction, for a consistently parsed hello) *)
Theorem server12_no_unsolicited_ext k ss h r f :
  server12 k ss h r = ROk f ->
  forall e, In e (f_sh_exts f) -> In e (h_exts h) \/ (e = g11_ext_renegotiation_info /\ h_scsv h = true).
Proof.
  intro H. apply server12_spec in H. apply validate_response_exts_spec. now destruct H.
Qed.

Theorem server13_no_unsolicited_ext k ss h f :
  server13 k ss h = ROk f -> hello_wf h ->
  forall e, In e (f_sh_exts f ++ f_ee_exts f) -> In e (h_exts h) \/ (e = g11_ext_renegotiation_info /\ h_scsv h = true).
Proof.
  intros H W e He. apply server13_spec in H. destruct H. destruct (s13_exts0 W) as [X1 X2].
  apply in_app_or in He. destruct He as [He|He];
    [exact (proj1 (validate_response_exts_spec h _) X1 e He) | exact (proj1 (validate_response_exts_spec h _) X2 e He)].
Qed.

(* the hellos a pion client builds are consistent *)
Ltac in_list := repeat rewrite in_app_iff; cbn [In opt_ext]; intuition auto.

Lemma pion_hello_wf ck h :
  (h = client_hello13 ck \/ exists b, h = client_hello12 ck b) -> hello_wf h.
Proof.
  intros [Hh|[b Hh]]; subst h; unfold hello_wf, client_hello13, client_hello12;
    cbn [h_exts h_versions h_shares h_cid h_srtp].
  - repeat split; intro Hn.
    + in_list.
    + in_list.
    + destruct (c_cid (k_cfg ck)); [|congruence]. cbn [nonempty]. in_list.
    + destruct (nonempty (c_srtp (k_cfg ck))) eqn:E; [|congruence]. in_list.
  - repeat split; intro Hn; try congruence.
    + destruct (c_cid (k_cfg ck)); [|congruence]. cbn [nonempty]. in_list.
    + destruct (nonempty (c_srtp (k_cfg ck))) eqn:E; [|congruence]. in_list.
Qed.

(* ------------------------------------------------------------------ the client against ANY answer (rogue or steered server) *)

(* whatever ServerHello / ServerKeyExchange the DTLS 1.2 client is shown - [f] is arbitrary, it need not come
   from [server12] - every parameter it ends up reporting is one of its OWN lists *)
Theorem client12_within_own_policy ck sk cs h f o :
  client12 ck sk cs h f = ROk o ->
  In (o_suite o) cs /\
  (o_alpn o <> 0 -> In (o_alpn o) (c_alpn (k_cfg ck))) /\
  (o_srtp o <> 0 -> In (o_srtp o) (c_srtp (k_cfg ck))) /\
  (o_sig o <> 0 -> In (o_sig o) (k_sigs ck)) /\
  (o_resumed o = false -> s_ecdhe (o_suite o) = true ->
     In (o_group o) (k_curves ck) /\ o_group o <> g11_curve_mlkem) /\
  (c_ems (k_cfg ck) = g11_ems_require -> o_ems o = true).
Proof.
  intro H. apply client12_spec in H.
  destruct (cl_suite _ _ _ _ _ _ _ H) as [Q1 [Q2 _]].
  split; [now rewrite Q1|].
  split; [exact (cl_alpn_own _ _ _ _ _ _ _ H)|].
  split; [intro Hn; now destruct (cl_srtp _ _ _ _ _ _ _ H Hn) as [_ [Y _]]|].
  split; [intro Hn; destruct (cl_sig _ _ _ _ _ _ _ H Hn) as [X1 X2]; now rewrite X1|].
  split.
  - intros Hr He. rewrite Q1 in He. exact (cl_group_own _ _ _ _ _ _ _ H eq_refl Hr He).
  - intro He. apply (cl_ems_required _ _ _ _ _ _ _ H). rewrite He. apply N.eqb_refl.
Qed.

(* ------------------------------------------------------------------ hello verification: the first ClientHello cannot steer *)

Lemma opt_eqb_refl {A} (eq : A -> A -> bool) (a : option A) : (forall x, eq x x = true) -> opt_eqb eq a a = true.
Proof. intro H. destruct a; cbn; auto. Qed.

Lemma bytes_eqb_refl a : bytes_eqb a a = true.
Proof. now apply bytes_eqb_eq. Qed.

Lemma hv_consistent_refl h : hv_consistent h h = true.
Proof.
  unfold hv_consistent. rewrite N.eqb_refl, bytes_eqb_refl, !Bool.eqb_reflx. cbn.
  rewrite (opt_eqb_refl bytes_eqb (h_cid h) bytes_eqb_refl). cbn.
  apply opt_eqb_refl. intros [a b]. cbn. now rewrite !bytes_eqb_refl.
Qed.

(* an untouched first hello: the two-step processing is the one-step processing *)
Lemma server12_verified_same k ss h r : server12_verified k ss h h r = server12 k ss h r.
Proof.
  unfold server12_verified, server12. cbv zeta.
  destruct (hello12_choices k ss h) as [[[suite group] ems]| |]; cbn [rbind]; try reflexivity.
  now rewrite hv_consistent_refl.
Qed.

(* whatever the first hello was made to say, an answer is the answer to the hello that echoes the cookie *)
Lemma server12_verified_final k ss h1 h2 r f :
  server12_verified k ss h1 h2 r = ROk f -> server12 k ss h2 r = ROk f.
Proof.
  unfold server12_verified. intro H. rstepn H u0 E0. rstepn H u1 E1. exact H.
Qed.

Lemma steer_flight_none f : steer_flight no_steering f = f.
Proof. reflexivity. Qed.

(* C11 on an association whose FIRST ClientHello was rewritten on path (supported_groups, ALPN offer,
   extended_master_secret, server_name): if it completes, it completes exactly as the untouched association *)
Theorem first_hello_steering_harmless ck sk seeded t o :
  t_sh_alpn t = 0 -> t_sh_suite t = 0 -> t_sh_sessionid t = false ->
  negotiate12_steered ck sk seeded true t = Ok o ->
  negotiate12_steered ck sk seeded true no_steering = Ok o.
Proof.
  intros Ht Hts Hsid. unfold negotiate12_steered. cbv zeta. rewrite Hts, Hsid.
  destruct (nonempty (filter_for_version v12 (filter_for_key (c_key (k_cfg sk)) (k_suites sk)))); cbn [negb]; [|discriminate].
  set (h2 := client_hello12 ck (seeded && c_store (k_cfg ck) && true)).
  intro H. apply lift_ok in H. destruct H as [f0 [Hf H]].
  apply server12_verified_final in Hf.
  assert (Hs : steer_flight t f0 = f0) by (unfold steer_flight; now rewrite Ht).
  rewrite Hs in H.
  change (steer_hello no_steering h2) with h2.
  rewrite server12_verified_same, Hf. cbn [lift]. exact H.
Qed.

(* without steering the DTLS 1.2 composition is the general one *)
Theorem negotiate12_unsteered ck sk seeded hv :
  stack_of ck = Only12 -> stack_of sk = Only12 ->
  negotiate12_steered ck sk seeded hv no_steering = negotiate_conn ck sk seeded.
Proof.
  intros Hc Hs. unfold negotiate12_steered, negotiate_conn, negotiate_conn_sw. cbv zeta. rewrite Hc, Hs. cbn [lift].
  change (v12 =? v13) with false. cbv iota.
  destruct (nonempty (filter_for_version v12 (filter_for_key (c_key (k_cfg sk)) (k_suites sk)))); cbn [negb]; [|reflexivity].
  set (h2 := client_hello12 ck (seeded && c_store (k_cfg ck) && true)).
  change (steer_hello no_steering h2) with h2.
  assert (Hsame : (if hv then server12_verified sk (filter_for_version v12 (filter_for_key (c_key (k_cfg sk)) (k_suites sk))) h2 h2 seeded
                   else server12 sk (filter_for_version v12 (filter_for_key (c_key (k_cfg sk)) (k_suites sk))) h2 seeded)
                  = server12 sk (filter_for_version v12 (filter_for_key (c_key (k_cfg sk)) (k_suites sk))) h2 seeded).
  { destruct hv; [apply server12_verified_same | reflexivity]. }
  destruct hv; rewrite ?server12_verified_same;
    (destruct (server12 sk _ h2 seeded) as [f| |] eqn:Ef; cbn [lift]; try reflexivity;
     rewrite steer_flight_none;
     rewrite (s12_exts _ _ _ _ (server12_spec _ _ _ _ _ Ef)); cbn [req lift]; reflexivity).
Qed.

(* ------------------------------------------------------------------ two certificates: the suite filter and the certificate sent disagree *)

(* with ONE certificate the suite fits the key of the certificate the server presents *)
Theorem suite_fits_presented_key_single_certificate c s seeded o :
  negotiate c s seeded = Some (Ok o) -> c_key2 s = 0 -> fits_key (o_server_key o) (o_suite o) = true.
Proof.
  intros H H2. apply in_policy_holds in H.
  destruct (pol_suite _ _ _ H) as [_ [_ [Hf _]]].
  destruct (pol_server_key _ _ _ H) as [K|[K|[_ [K _]]]].
  - rewrite K. unfold fits_key. cbn. now rewrite orb_true_r.
  - now rewrite K.
  - unfold has_alt in K. rewrite H2 in K. cbn in K. now rewrite andb_false_r in K.
Qed.

(* with TWO certificates it need not: HandshakeContext filters the suites with the DEFAULT certificate (empty
   server name), flight4Generate sends the one the client's server name selects.  ECDSA default + RSA for the
   second name, client asking for the second name, default lists: ECDHE_ECDSA suite, RSA certificate and an
   RSA-signed ServerKeyExchange *)
Definition w_sni_c : cfg :=
  mkCfg 0 0 None false false 0 1027 0 false [] [] [] 0 [] [] [] None false false 0 true.
Definition w_sni_s : cfg :=
  mkCfg 0 0 None false false 2 1027 0 false [] [] [] 0 [] [] [] None false false 3 false.

Theorem suite_does_not_fit_presented_certificate_refuted :
  exists c s o, negotiate c s false = Some (Ok o) /\
                o_server_key o = 3 /\ fits_key (o_server_key o) (o_suite o) = false /\
                sig_fits false 3 (o_sig o) = true.
Proof.
  exists w_sni_c, w_sni_s.
  destruct (negotiate w_sni_c w_sni_s false) as [[o| |]|] eqn:E; try (vm_compute in E; discriminate).
  exists o. split; [reflexivity|]. vm_compute in E. inversion E; subst o. cbn. repeat split; vm_compute; reflexivity.
Qed.

(* mirror: a client that offers only ECDHE_RSA suites for that name is refused (insufficient_security) although
   a suite both sides enable fits the key of the certificate that name selects *)
Theorem refused_although_suite_fits_sni_certificate_refuted :
  exists c s x, negotiate c s false = Some (Fail Server g11_alert_insufficient_security) /\
                suite_enabled c x /\ suite_enabled s x /\ c_sni c = true /\ fits_key (c_key2 s) x = true.
Proof.
  exists (mkCfg 0 0 (Some [49199; 49200]) false false 0 1027 0 false [] [] [] 0 [] [] [] None false false 0 true),
         w_sni_s, 49199.
  split; [vm_compute; reflexivity|]. unfold suite_enabled.
  repeat split; try (vm_compute; reflexivity); cbn; intuition auto.
Qed.

(* ------------------------------------------------------------------ EMS policy and resumed sessions *)

(* for a full handshake the session's master secret has the EMS property exactly when the flag says so ... *)
Lemma session_ems_full o b : o_resumed o = false -> session_ems o b = o_ems o.
Proof. unfold session_ems. now intros ->. Qed.

(* ... hence "a side that requires EMS never completes without it" for every NON-resumed association *)
Theorem ems_required_holds_without_resumption c s seeded o b :
  negotiate c s seeded = Some (Ok o) -> o_resumed o = false ->
  requires_ems c = true \/ requires_ems s = true -> session_ems o b = true.
Proof.
  intros H Hr He. rewrite (session_ems_full _ _ Hr). apply in_policy_holds in H. exact (pol_ems _ _ _ H He).
Qed.

(* but the decision to resume never looks at how the stored secret was derived (Session{ID, Secret}): a server
   that REQUIRES extended master secret resumes a session negotiated without it *)
Definition w_ems_c : cfg :=
  mkCfg 0 0 None false false 0 1027 0 false [] [] [] 0 [] [] [] None true false 0 false.
Definition w_ems_s : cfg :=
  mkCfg 0 0 None false false 1 1027 0 false [] [] [] 1 [] [] [] None true false 0 false.

Theorem ems_required_resumes_session_without_ems_refuted :
  exists c s o, negotiate c s true = Some (Ok o) /\ requires_ems s = true /\ o_resumed o = true /\
                o_ems o = true /\ session_ems o false = false.
Proof.
  exists w_ems_c, w_ems_s.
  destruct (negotiate w_ems_c w_ems_s true) as [[o| |]|] eqn:E; try (vm_compute in E; discriminate).
  exists o. split; [reflexivity|]. vm_compute in E. inversion E; subst o. repeat split.
Qed.

(* ------------------------------------------------------------------ the ServerHello message hook *)

(* "fix: the server's view follows the ServerHello that leaves after the hook": a hook cannot make the two sides
   complete on a cipher suite other than the one the server chose ... *)
Theorem hook_cannot_change_the_suite ck sk seeded hv t o :
  negotiate12_steered ck sk seeded hv t = Ok o -> t_sh_suite t = 0 \/ t_sh_suite t = o_suite o.
Proof.
  unfold negotiate12_steered. cbv zeta.
  destruct (nonempty (filter_for_version v12 (filter_for_key (c_key (k_cfg sk)) (k_suites sk)))); cbn [negb]; [|discriminate].
  intro H. apply lift_ok in H. destruct H as [f0 [Hf H]].
  apply lift_ok in H. destruct H as [u1 [_ H]].
  apply lift_ok in H. destruct H as [u2 [Hs H]]. apply req_ok in Hs.
  apply lift_ok in H. destruct H as [u3 [_ H]].
  apply lift_ok in H. destruct H as [cv [_ H]].
  destruct (nonempty (filter_for_version v12 (k_suites ck))); cbn [negb] in H; [|discriminate].
  apply lift_ok in H. destruct H as [o1 [Ho1 H]].
  apply lift_ok in H. destruct H as [o2 [Ho2 H]]. inversion H; subst o2; clear H.
  apply server_finish_ok in Ho2. subst o1. apply client12_spec in Ho1.
  destruct (cl_suite _ _ _ _ _ _ _ Ho1) as [Q1 _].
  apply orb_true_iff in Hs. destruct Hs as [Hs|Hs]; apply N.eqb_eq in Hs; [now left | right].
  rewrite Q1, Hs. unfold steer_flight. now destruct (t_sh_alpn t =? 0).
Qed.

(* ... and the protocol the association reports is the one the FINAL ServerHello names, held to the client's list *)
Theorem hook_alpn_is_the_final_server_hello ck sk seeded hv t o :
  negotiate12_steered ck sk seeded hv t = Ok o -> t_sh_alpn t <> 0 ->
  o_alpn o = t_sh_alpn t /\ In (o_alpn o) (c_alpn (k_cfg ck)).
Proof.
  unfold negotiate12_steered. cbv zeta.
  destruct (nonempty (filter_for_version v12 (filter_for_key (c_key (k_cfg sk)) (k_suites sk)))); cbn [negb]; [|discriminate].
  intros H Hn. apply lift_ok in H. destruct H as [f0 [Hf H]].
  apply lift_ok in H. destruct H as [u1 [_ H]].
  apply lift_ok in H. destruct H as [u2 [_ H]].
  apply lift_ok in H. destruct H as [u3 [_ H]].
  apply lift_ok in H. destruct H as [cv [_ H]].
  destruct (nonempty (filter_for_version v12 (k_suites ck))); cbn [negb] in H; [|discriminate].
  apply lift_ok in H. destruct H as [o1 [Ho1 H]].
  apply lift_ok in H. destruct H as [o2 [Ho2 H]]. inversion H; subst o2; clear H.
  apply server_finish_ok in Ho2. subst o1. apply client12_spec in Ho1.
  assert (Ha : o_alpn o = t_sh_alpn t).
  { rewrite (cl_alpn _ _ _ _ _ _ _ Ho1). unfold steer_flight. apply N.eqb_neq in Hn. now rewrite Hn. }
  split; [exact Ha|]. apply (cl_alpn_own _ _ _ _ _ _ _ Ho1). now rewrite Ha.
Qed.

(* ... and a hook that puts another session id into the ServerHello of a RESUMED handshake is refused (6fdd853: the
   echoed id is the signal of the resumption); a completed hooked association is a full handshake *)
Theorem hook_cannot_rename_a_resumed_session ck sk seeded hv t o :
  negotiate12_steered ck sk seeded hv t = Ok o -> t_sh_sessionid t = true -> o_resumed o = false.
Proof.
  unfold negotiate12_steered. cbv zeta.
  destruct (nonempty (filter_for_version v12 (filter_for_key (c_key (k_cfg sk)) (k_suites sk)))); cbn [negb]; [|discriminate].
  intros H Hn. apply lift_ok in H. destruct H as [f0 [Hf H]].
  apply lift_ok in H. destruct H as [u1 [_ H]].
  apply lift_ok in H. destruct H as [u2 [_ H]].
  apply lift_ok in H. destruct H as [u3 [Hs H]]. apply req_ok in Hs. rewrite Hn in Hs. cbn in Hs.
  apply lift_ok in H. destruct H as [cv [_ H]].
  destruct (nonempty (filter_for_version v12 (k_suites ck))); cbn [negb] in H; [|discriminate].
  apply lift_ok in H. destruct H as [o1 [Ho1 H]].
  apply lift_ok in H. destruct H as [o2 [Ho2 H]]. inversion H; subst o2; clear H.
  apply server_finish_ok in Ho2. subst o1. apply client12_spec in Ho1.
  destruct (cl_flags _ _ _ _ _ _ _ Ho1) as [Q _]. rewrite Q.
  unfold steer_flight. destruct (f_resumed f0) eqn:E; [discriminate|]. now destruct (t_sh_alpn t =? 0).
Qed.

(* ------------------------------------------------------------------ EMS policy on resumed handshakes *)

(* flight3Parse checks RequireExtendedMasterSecret on EVERY ServerHello, before it branches into handleResumption:
   a client that requires extended master secret completes - by a full handshake or by a resumption, [f_resumed f]
   is free - only when the ServerHello of THIS handshake carries the extension *)
Theorem client12_requires_ems_in_this_server_hello ck sk cs h f o :
  client12 ck sk cs h f = ROk o ->
  (c_ems (k_cfg ck) =? g11_ems_require) = true -> f_ems_ext f = true /\ o_ems o = true.
Proof.
  intros H Hr. pose proof (client12_spec _ _ _ _ _ _ H) as C.
  pose proof (cl_ems_required _ _ _ _ _ _ _ C Hr) as He. split; [|exact He].
  rewrite (cl_ems _ _ _ _ _ _ _ C) in He. change (v12 =? v13) with false in He. cbv iota in He.
  now apply andb_true_iff in He.
Qed.

Corollary client12_refuses_resumption_without_ems ck sk cs h f :
  (c_ems (k_cfg ck) =? g11_ems_require) = true -> f_resumed f = true -> f_ems_ext f = false ->
  forall o, client12 ck sk cs h f <> ROk o.
Proof.
  intros Hr _ He o H. destruct (client12_requires_ems_in_this_server_hello _ _ _ _ _ _ H Hr) as [Hx _]. congruence.
Qed.

(* ... and the server, whatever its store holds: hello12_choices runs before the session lookup *)
Theorem server12_requires_ems_in_this_client_hello k ss h resumable f :
  server12 k ss h resumable = ROk f ->
  (c_ems (k_cfg k) =? g11_ems_require) = true -> h_ems h = true /\ f_ems_ext f = true.
Proof.
  intros H Hr. pose proof (server12_spec _ _ _ _ _ H) as S.
  pose proof (s12_ems_required _ _ _ _ S Hr) as Hx. split; [|exact Hx].
  now destruct (s12_ems_ext _ _ _ _ S Hx).
Qed.

(* ------------------------------------------------------------------ the DTLS 1.3 client's alert and the connection IDs *)

Lemma lift_client13_cases lost {A} (r : res A) (k : A -> result) :
  lift_client13 lost r k = lift Client r k \/
  (lost = true /\ lift_client13 lost r k = Silent Client /\ exists a, lift Client r k = Fail Client a).
Proof.
  destruct r as [x|a|]; cbn; [now left | | now left].
  destruct lost; [right; repeat split; eauto | now left].
Qed.

Lemma alert13_lost_kept ck sk cs h f : alert13_lost true ck sk cs h f = false.
Proof. reflexivity. Qed.

(* the switch does one thing: some of the client's fatal alerts on the DTLS 1.3 server flight no longer reach the
   server (the client fails, the server keeps waiting) *)
Theorem connection_id_switch_only_silences_client_alerts keep ck sk seeded :
  negotiate_conn_sw keep ck sk seeded = negotiate_conn_sw true ck sk seeded \/
  (keep = false /\ negotiate_conn_sw keep ck sk seeded = Silent Client /\
   exists a, negotiate_conn_sw true ck sk seeded = Fail Client a).
Proof.
  unfold negotiate_conn_sw. cbv zeta.
  match goal with |- context [lift Server ?sv _] => destruct sv as [v| |] end; cbn [lift]; try (now left).
  match goal with |- context [negb (nonempty ?l)] => destruct (negb (nonempty l)) end; [now left|].
  destruct (v =? v13); [|now left].
  match goal with |- context [server13 ?a ?b ?c] => destruct (server13 a b c) as [f| |] end; cbn [lift]; try (now left).
  destruct (stack_of ck); [now left | |];
    (match goal with |- context [of_opt ?o ?a] => destruct (of_opt o a) as [u| |] end; cbn [lift]; try (now left);
     match goal with |- context [negb (nonempty ?l)] => destruct (negb (nonempty l)) end; [now left|];
     match goal with |- context [lift_client13 ?l ?r ?k] =>
       destruct (lift_client13_cases l r k) as [E|[El [Es [a Ea]]]] end;
     [ left; rewrite E; change (alert13_lost true ck sk _ _ f) with false;
       match goal with |- context [lift_client13 false ?r ?k] => destruct r; reflexivity end
     | right; split;
       [ unfold alert13_lost in El; destruct keep; [discriminate | reflexivity]
       | split; [exact Es|]; exists a; change (alert13_lost true ck sk _ _ f) with false;
         match goal with |- lift_client13 false ?r ?k = _ => destruct r; exact Ea end ] ]).
Qed.

(* with the connection IDs kept, a client that refuses the DTLS 1.3 server flight is never the silent side because
   of them: a silent client failure of the kept composition is one of the code as it is too *)
Corollary kept_connection_ids_alert_reaches_the_server ck sk seeded a :
  negotiate_conn_sw true ck sk seeded = Fail Client a ->
  negotiate_conn_sw false ck sk seeded = Fail Client a \/ negotiate_conn_sw false ck sk seeded = Silent Client.
Proof.
  intro H. destruct (connection_id_switch_only_silences_client_alerts false ck sk seeded) as [E|[_ [E _]]];
    [left; now rewrite E | now right].
Qed.

(* as coded: a DTLS 1.3 client that offered the connection_id extension and refuses the certificate of a server that
   negotiated a 4-byte connection ID fails with bad_certificate, and the server never learns of it *)
Definition w_cid13_c : cfg :=
  mkCfg 3 3 None false false 0 1027 0 false [] [] [] 0 [] [] [] (Some []) false false 0 true.
Definition w_cid13_s : cfg :=
  mkCfg 0 3 None false false 2 1027 0 false [] [] [] 0 [] [] [] (Some [1; 2; 3; 4]) false false 0 false.

Theorem client13_alert_sealed_without_connection_id_refuted :
  exists c s, negotiate_sw false c s false = Some (Silent Client) /\
              negotiate_sw true c s false = Some (Fail Client g11_alert_bad_certificate) /\
              c_cid c <> None /\ c_cid s = Some [1; 2; 3; 4].
Proof.
  exists w_cid13_c, w_cid13_s. repeat split; try (vm_compute; reflexivity). discriminate.
Qed.

(* the statement that holds of the code as modelled, whichever way the switch is set *)
Theorem client13_alert_as_coded :
  if client13_abort_keeps_connection_ids
  then forall c s seeded, negotiate c s seeded = negotiate_sw true c s seeded
  else exists c s, negotiate c s false = Some (Silent Client) /\
                   negotiate_sw true c s false = Some (Fail Client g11_alert_bad_certificate).
Proof.
  cbv iota beta delta [client13_abort_keeps_connection_ids].
  destruct client13_alert_sealed_without_connection_id_refuted as [c [s [H1 [H2 _]]]]. exists c, s. split; assumption.
Qed.
