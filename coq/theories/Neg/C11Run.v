(* Comparison functions evaluated by checks/c11.py and checks/c01.py on the observations of
   harness/overlay/root/zz_verif_c11_test.go (vm_compute, vlib.coq_mismatches). *)
From DtlsV Require Import Lib.Bytes Gen.GeneratedC11 Neg.C11Negotiate.
Open Scope N_scope.

Fixpoint list_eqb (a b : list N) : bool :=
  match a, b with
  | [], [] => true
  | x :: a', y :: b' => (x =? y) && list_eqb a' b'
  | _, _ => false
  end.

Definition opt_eqb {A} (eq : A -> A -> bool) (a b : option A) : bool :=
  match a, b with Some x, Some y => eq x y | None, None => true | _, _ => false end.

(* what the harness saw of one association *)
Record observed := mkObs {
  ob_built_c : bool; ob_built_s : bool;
  ob_class : N;           (* 0 both ok; 1 client failed and sent an alert; 2 server failed and sent an alert;
                             3 client failed silently; 4 server failed silently; 5 anything else *)
  ob_alert : N;
  ob_version : N; ob_suite : N;
  ob_group : option N;    (* None = not observable (resumed) *)
  ob_sig : option N;      (* None = not observable (DTLS 1.3: encrypted) *)
  ob_csig : option N;
  ob_ems : bool;
  ob_srtp : N; ob_mki_client : list N; ob_mki_server : list N;
  ob_alpn : N;
  ob_ccid : list N; ob_scid : list N; ob_rrc : bool;   (* as committed: client's local, server's local *)
  ob_resumed : bool;
  ob_server_cert : bool; ob_client_cert : bool;
  ob_ch_exts : list N; ob_sh_exts : list N;
  ob_server_key : option N   (* key type of the leaf the client holds as the server's certificate (None = not compared) *)
}.

Definition c11_case := (cfg * cfg * bool * observed)%type.

Definition outcome_matches (o : outcome) (ob : observed) : bool :=
  (o_version o =? ob_version ob) && (o_suite o =? ob_suite ob)
  && (match ob_group ob with Some g => o_group o =? g | None => true end)
  && (match ob_sig ob with Some g => o_sig o =? g | None => true end)
  && (match ob_csig ob with Some g => o_csig o =? g | None => true end)
  && Bool.eqb (o_ems o) (ob_ems ob)
  && (o_srtp o =? ob_srtp ob)
  && list_eqb (o_mki_client o) (ob_mki_client ob) && list_eqb (o_mki_server o) (ob_mki_server ob)
  && (o_alpn o =? ob_alpn ob)
  && (match o_cid o with
      | Some (cc, sc, r) => list_eqb cc (ob_ccid ob) && list_eqb sc (ob_scid ob) && Bool.eqb r (ob_rrc ob)
      | None => list_eqb [] (ob_ccid ob) && list_eqb [] (ob_scid ob) && negb (ob_rrc ob)
      end)
  && Bool.eqb (o_resumed o) (ob_resumed ob)
  && Bool.eqb (o_server_cert o) (ob_server_cert ob) && Bool.eqb (o_client_cert o) (ob_client_cert ob)
  && list_eqb (o_ch_exts o) (ob_ch_exts ob) && list_eqb (o_sh_exts o) (ob_sh_exts ob)
  && (match ob_server_key ob with Some g => o_server_key o =? g | None => true end).

Definition c11_ok (c : c11_case) : bool :=
  let '(cc, sc, seeded, ob) := c in
  Bool.eqb (match build true cc with Some _ => true | None => false end) (ob_built_c ob)
  && Bool.eqb (match build false sc with Some _ => true | None => false end) (ob_built_s ob)
  && match negotiate cc sc seeded with
     | None => negb (ob_built_c ob && ob_built_s ob)
     | Some (Ok o) => (ob_class ob =? 0) && outcome_matches o ob
     | Some (Fail Client a) => (ob_class ob =? 1) && (ob_alert ob =? a)
     | Some (Fail Server a) => (ob_class ob =? 2) && (ob_alert ob =? a)
     | Some (Silent Client) => ob_class ob =? 3
     | Some (Silent Server) => ob_class ob =? 4
     end.

(* steered associations (zz_verif_c11_steer_test.go): two DTLS 1.2-only endpoints, hello verification on/off,
   what was done to the first ClientHello / the ServerHello *)
Definition c11s_case := (cfg * cfg * bool * bool * steering * observed)%type.

Definition result_matches (r : option result) (ob : observed) : bool :=
  match r with
  | None => negb (ob_built_c ob && ob_built_s ob)
  | Some (Ok o) => (ob_class ob =? 0) && outcome_matches o ob
  | Some (Fail Client a) => (ob_class ob =? 1) && (ob_alert ob =? a)
  | Some (Fail Server a) => (ob_class ob =? 2) && (ob_alert ob =? a)
  | Some (Silent Client) => ob_class ob =? 3
  | Some (Silent Server) => ob_class ob =? 4
  end.

Definition c11s_ok (c : c11s_case) : bool :=
  let '(cc, sc, seeded, hv, t, ob) := c in result_matches (negotiate_steered cc sc seeded hv t) ob.

Definition predicted_steered (c s : cfg) (seeded hv : bool) (t : steering) : N * N :=
  match negotiate_steered c s seeded hv t with
  | None => (9, 0)
  | Some (Ok _) => (0, 0)
  | Some (Fail Client a) => (1, a)
  | Some (Fail Server a) => (2, a)
  | Some (Silent Client) => (3, 0)
  | Some (Silent Server) => (4, 0)
  end.

(* class predicted by the model, for the driver's diagnostics: 0 ok, 1/2 alert by client/server (+ alert),
   3/4 silent, 9 = a constructor rejects *)
Definition predicted (c : cfg) (s : cfg) (seeded : bool) : N * N :=
  match negotiate c s seeded with
  | None => (9, 0)
  | Some (Ok _) => (0, 0)
  | Some (Fail Client a) => (1, a)
  | Some (Fail Server a) => (2, a)
  | Some (Silent Client) => (3, 0)
  | Some (Silent Server) => (4, 0)
  end.

Fixpoint mismatches_from {A} (ok : A -> bool) (i : N) (l : list A) : list N :=
  match l with
  | [] => []
  | c :: l' => if ok c then mismatches_from ok (i + 1) l' else i :: mismatches_from ok (i + 1) l'
  end.
Definition mismatches {A} (ok : A -> bool) (l : list A) : list N := mismatches_from ok 0 l.
