(* C01 - Handshake agreement: both sides end up holding the same session.
   Only statements closed by [exact]; views in Neg/C01Agreement.v, proofs in Neg/C01AgreementSound.v,
   the checks of the two sides in Neg/C11Negotiate.v.

   [h] = the client's final ClientHello, [f] = the server's answer, [x] = randoms and certificate chains.
   The SAME h, f, x appear on both sides: that identification ("the hello the server acted on is the one
   the client sent, the answer the client validated is the one the server sent") is what the Finished
   exchange over the transcript establishes - property C04 - and is the one premise these statements carry
   besides [secret_c = secret_s] in the exporter theorem (same master secret: also C04, derivation C10). *)
From DtlsV Require Import Lib.Bytes Gen.GeneratedC11 Neg.C11Negotiate Neg.C11NegotiateSound
  Neg.C01Agreement Neg.C01AgreementSound.
Open Scope N_scope.

(* DTLS 1.2: certificate, PSK, ECDHE-PSK and resumed handshakes (r = the offered session is resumable) *)
Theorem C01_agreement_dtls12 :
  forall ck sk ss cs h r f o x p,
    pion_hello ck h -> ems_valid (k_cfg sk) ->
    server12 sk ss h r = ROk f -> client12 ck sk cs h f = ROk o ->
    mirrored (client_view h o x) (server_view h f x p).
Proof. exact agreement12. Qed.
Print Assumptions C01_agreement_dtls12.

(* with hello verification the first, cookie-less ClientHello may have been rewritten on path (h1 arbitrary):
   agreement holds on the hello that echoes the cookie, the one the Finished messages cover *)
Theorem C01_agreement_dtls12_first_hello_rewritten :
  forall ck sk ss cs h1 h2 r f o x p,
    pion_hello ck h2 -> ems_valid (k_cfg sk) ->
    server12_verified sk ss h1 h2 r = ROk f -> client12 ck sk cs h2 f = ROk o ->
    mirrored (client_view h2 o x) (server_view h2 f x p).
Proof. exact agreement12_first_hello_rewritten. Qed.
Print Assumptions C01_agreement_dtls12_first_hello_rewritten.

(* the ServerHello message hook (repaired e8d30a0): the server's committed view is a function of the FINAL
   ServerHello - the two snapshots agree whatever protocol the hook names, and the server reports that protocol *)
Theorem C01_agreement_dtls12_server_hello_hook :
  forall ck sk ss cs h r f0 t o x p,
    pion_hello ck h -> ems_valid (k_cfg sk) ->
    server12 sk ss h r = ROk f0 -> client12 ck sk cs h (steer_flight t f0) = ROk o ->
    mirrored (client_view h o x) (server_view h (steer_flight t f0) x p) /\
    (t_sh_alpn t <> 0 -> w_alpn (server_view h (steer_flight t f0) x p) = t_sh_alpn t).
Proof. exact agreement12_hooked. Qed.
Print Assumptions C01_agreement_dtls12_server_hello_hook.

Theorem C01_agreement_dtls13 :
  forall ck sk ss cs h f o x p,
    server13 sk ss h = ROk f -> client13 ck sk cs h f = ROk o ->
    mirrored (client_view h o x) (server_view h f x p).
Proof. exact agreement13. Qed.
Print Assumptions C01_agreement_dtls13.

(* on the composition of Neg/C11Negotiate.v: every association that completes *)
Theorem C01_agreement :
  forall ck sk seeded o x p,
    ems_valid (k_cfg sk) -> negotiate_conn ck sk seeded = Ok o ->
    exists h f ss, pion_hello ck h /\
      (server13 sk ss h = ROk f \/ server12 sk ss h seeded = ROk f) /\
      mirrored (client_view h o x) (server_view h f x p).
Proof. exact agreement. Qed.
Print Assumptions C01_agreement.

(* SRTP master key identifiers: each side reports exactly what the other side sent *)
Theorem C01_mki_as_sent :
  forall ck sk ss cs h r f o x p,
    server12 sk ss h r = ROk f -> client12 ck sk cs h f = ROk o -> o_srtp o <> 0 ->
    exists profiles mki,
      h_srtp h = Some (profiles, mki) /\
      w_peer_mki (server_view h f x p) = mki /\
      w_peer_mki (client_view h o x) = f_mki_echo f /\
      (f_mki_echo f = [] \/ f_mki_echo f = mki).
Proof. exact mki_as_sent12. Qed.
Print Assumptions C01_mki_as_sent.

(* peer certificate chains: what is stored is what was presented; nothing is stored on resumption *)
Theorem C01_chains_as_presented_dtls12 :
  forall ck sk ss cs h r f o x p,
    server12 sk ss h r = ROk f -> client12 ck sk cs h f = ROk o ->
    w_peer_chain (client_view h o x) = (if f_cert f then x_server_chain x else []) /\
    w_peer_chain (server_view h f x p) = (if f_cert_req f && p then x_client_chain x else []) /\
    (f_resumed f = true -> w_peer_chain (client_view h o x) = [] /\ w_peer_chain (server_view h f x p) = []).
Proof. exact chains_as_presented12. Qed.
Print Assumptions C01_chains_as_presented_dtls12.

Theorem C01_chains_as_presented_dtls13 :
  forall ck sk ss cs h f o x p,
    server13 sk ss h = ROk f -> client13 ck sk cs h f = ROk o ->
    w_peer_chain (client_view h o x) = x_server_chain x /\
    w_peer_chain (server_view h f x p) = (if f_cert_req f && p then x_client_chain x else []).
Proof. exact chains_as_presented13. Qed.
Print Assumptions C01_chains_as_presented_dtls13.

(* exported keying material: byte-identical for every label, every length, EVERY pseudo-random function and
   hash assignment - given mirrored snapshots and equal secrets *)
Theorem C01_exporter_agreement :
  forall (prf : N -> list N -> list N -> nat -> list N) (hash_of_suite : N -> N)
         (vc vs : view) (secret_c secret_s label : list N) (n : nat),
    mirrored vc vs -> secret_c = secret_s ->
    export prf hash_of_suite true vc secret_c label n = export prf hash_of_suite false vs secret_s label n.
Proof. exact exporter_agreement. Qed.
Print Assumptions C01_exporter_agreement.

Theorem C01_exporter_seed_order :
  forall (prf : N -> list N -> list N -> nat -> list N) (hash_of_suite : N -> N)
         (v : view) (secret label : list N) (n : nat),
    w_version v <> v13 ->
    export prf hash_of_suite true v secret label n =
    prf (hash_of_suite (w_suite v)) secret (label ++ w_client_random v ++ w_server_random v) n /\
    export prf hash_of_suite false v secret label n =
    prf (hash_of_suite (w_suite v)) secret (label ++ w_client_random v ++ w_server_random v) n.
Proof. exact exporter_seed_order. Qed.
Print Assumptions C01_exporter_seed_order.

(* the session's NAME under a ServerHello hook (6fdd853): the server reads the id back from its final ServerHello *)
Theorem C01_session_named_alike :
  forall generated sh_id, server_session_name generated sh_id = client_session_name sh_id.
Proof. exact session_named_alike. Qed.
Print Assumptions C01_session_named_alike.

Theorem C01_session_named_before_the_hook_refuted :
  exists generated sh_id, server_session_name_sw false generated sh_id <> client_session_name sh_id.
Proof. exact session_named_before_the_hook_refuted. Qed.
Print Assumptions C01_session_named_before_the_hook_refuted.

Theorem C01_session_name_as_coded :
  if server_names_session_as_final_server_hello
  then forall generated sh_id, server_session_name generated sh_id = client_session_name sh_id
  else exists generated sh_id, server_session_name generated sh_id <> client_session_name sh_id.
Proof. exact session_name_as_coded. Qed.
Print Assumptions C01_session_name_as_coded.

(* as coded, the exporter first looks the suite up in the BUILT-IN table (ciphersuite.ForID(id, nil)): the two sides
   agree on the bytes or on the failure, the bytes exist exactly for built-in suites ... *)
Theorem C01_export_as_coded_agreement :
  forall (prf : N -> list N -> list N -> nat -> list N) (hash_of_suite : N -> N)
         (vc vs : view) (secret_c secret_s label : list N) (n : nat),
    mirrored vc vs -> secret_c = secret_s ->
    export_as_coded prf hash_of_suite true vc secret_c label n = export_as_coded prf hash_of_suite false vs secret_s label n.
Proof. exact export_as_coded_agreement. Qed.
Print Assumptions C01_export_as_coded_agreement.

Theorem C01_export_as_coded_available :
  forall (prf : N -> list N -> list N -> nat -> list N) (hash_of_suite : N -> N)
         (is_client : bool) (v : view) (secret label : list N) (n : nat),
    export_as_coded prf hash_of_suite is_client v secret label n <> None <-> known_suite (w_suite v) = true.
Proof. exact export_as_coded_available. Qed.
Print Assumptions C01_export_as_coded_available.

(* ... and the clause "byte-identical exported keying material for every label" is refuted for a session on a
   user-supplied cipher suite (WithCustomCipherSuites): no keying material can be exported (known finding) *)
Theorem C01_export_unavailable_on_custom_suite_refuted :
  forall (prf : N -> list N -> list N -> nat -> list N) (hash_of_suite : N -> N),
    exists suite, known_suite suite = false /\
      forall is_client v secret label n, w_suite v = suite ->
        export_as_coded prf hash_of_suite is_client v secret label n = None.
Proof. exact export_unavailable_on_custom_suite_refuted. Qed.
Print Assumptions C01_export_unavailable_on_custom_suite_refuted.

(* the hypotheses are satisfiable *)
Example C01_default_pair_agrees :
  exists o, negotiate cfg_default (with_key cfg_default 1) false = Some (Ok o) /\ o_cid o = None /\ o_alpn o = 0.
Proof. eexists. vm_compute. repeat split. Qed.

(* ---- agreement on the VALUE of the negotiated name, byte by byte (Neg/C01Names.v, proofs Neg/C01NamesSound.v).
   Names are byte strings; [alpn12 eqv own cl sl] = what a DTLS 1.2 handshake between a client with list [cl] and a
   server with list [sl] ends in when names are matched with [eqv] and (own = true) every endpoint stores its OWN
   spelling of the match / (own = false) the client stores the bytes of the ServerHello.  As coded: byte equality,
   own = false. *)
From DtlsV Require Import Neg.C01Names Neg.C01NamesSound.

(* both success => client.alpn = server.alpn as byte strings, for every pair of lists (and the name is in both lists) *)
Theorem C01_alpn_bytes_agree :
  forall (cl sl : list name) (c s : name),
    alpn12_as_coded cl sl = AlpnDone c s -> c = s /\ In c cl /\ In s sl.
Proof. exact alpn_bytes_agree. Qed.
Print Assumptions C01_alpn_bytes_agree.

(* ... whatever bytes the ServerHello carries (hook, rogue server) and whatever relation is used for matching:
   a client that commits the bytes it received holds what the server (which commits the bytes it sent) holds *)
Theorem C01_alpn_bytes_agree_on_any_server_hello :
  forall (eqv : name -> name -> bool) (cl : list name) (sel : option name),
    agree (alpn12_on_wire eqv false cl sel).
Proof. exact alpn_bytes_agree_on_any_server_hello. Qed.
Print Assumptions C01_alpn_bytes_agree_on_any_server_hello.

Theorem C01_alpn_bytes_agree_any_matching :
  forall (eqv : name -> name -> bool) (cl sl : list name) (c s : name),
    alpn12 eqv false cl sl = AlpnDone c s -> c = s.
Proof. exact alpn_bytes_agree_any_matching. Qed.
Print Assumptions C01_alpn_bytes_agree_any_matching.

(* under byte equality storing one's own entry changes nothing *)
Theorem C01_alpn_own_spelling_harmless_under_byte_equality :
  forall (own : bool) (cl sl : list name) (c s : name),
    alpn12 name_eqb own cl sl = AlpnDone c s -> c = s.
Proof. exact alpn_own_spelling_harmless_under_byte_equality. Qed.
Print Assumptions C01_alpn_own_spelling_harmless_under_byte_equality.

(* what the comparison with the implementation predicts per configuration: refused by the server exactly when no byte
   string is in both (non-empty) lists; the client never refuses the honest server; an empty / absent list
   negotiates nothing *)
Theorem C01_alpn_refused_iff_no_common_bytes :
  forall cl sl : list name, cl <> [] -> sl <> [] ->
    (alpn12_as_coded cl sl = AlpnRefusedByServer <-> forall n, In n cl -> In n sl -> False).
Proof. exact alpn_refused_iff_no_common_bytes. Qed.
Print Assumptions C01_alpn_refused_iff_no_common_bytes.

Theorem C01_alpn_client_accepts_honest_server :
  forall cl sl : list name, alpn12_as_coded cl sl <> AlpnRefusedByClient.
Proof. exact alpn_client_accepts_honest_server. Qed.
Print Assumptions C01_alpn_client_accepts_honest_server.

Theorem C01_alpn_absent_or_empty_list_negotiates_nothing :
  forall (eqv : name -> name -> bool) (own : bool) (cl sl : list name),
    cl = [] \/ sl = [] -> alpn12 eqv own cl sl = AlpnNone.
Proof. exact alpn_absent_or_empty_list_negotiates_nothing. Qed.
Print Assumptions C01_alpn_absent_or_empty_list_negotiates_nothing.

(* the variant: names matched up to ASCII letter case and every endpoint stores its own spelling: both complete,
   different bytes ("webrtc" / "WebRTC") *)
Theorem C01_alpn_bytes_agree_refuted :
  exists (cl sl : list name) (c s : name), alpn12 fold_eqb true cl sl = AlpnDone c s /\ c <> s.
Proof. exact alpn_own_spelling_after_folded_match_refuted. Qed.
Print Assumptions C01_alpn_bytes_agree_refuted.
