(* C02 - Handshake completes under any finite loss, duplication and reordering.
   Statements only; proofs in Hs/Abs12Live.v (generic soundness of the checker) and
   Hs/Abs12Sound.v (instances).

   Model: Hs/Abs12.v (receive path for handshake traffic, fragment buffer, transcript cache,
   flight parsers, state machine), tied to the code by replaying scripted-network traces of the
   real client and server through it (checks/c02.py).  The adversary of [Reach] may deliver any
   datagram ever sent, any number of times, in any order, and fire either retransmission timer at
   any moment - this over-approximates every finite pattern of loss, duplication, reordering and
   delay.  [live_from K] says that K reliable rounds (each side's timer fires once, everything
   emitted is delivered in order) establish both sides.

   The theorems are instances for the flight structures of the current tree, regenerated into
   Gen/GeneratedFlights.v on every run (so they are re-proved against what the code sends now).
   They are named _partial because the quantifier of the property also ranges over configurations
   whose flights span many datagrams (small MTUs: psk-cid-mtu40, cert-clientauth-mtu150): for those
   the adversarial closure is too large to enumerate inside Coq and only the trace replay and the
   monitors cover them; that a message split into any number of fragments is complete exactly when
   all of them arrived is C12's theorem. *)
From Coq Require Import List NArith Bool Arith.
From DtlsV Require Import Gen.Generated Gen.GeneratedFlights Hs.Abs12 Hs.Abs12Live Hs.Abs12Sound.
From DtlsV Require Hs.Abs12Early Hs.Abs12EarlySound.
Import ListNotations.
Open Scope nat_scope.

(* generic: a positive answer of the checker is a proof about every reachable state *)
Theorem C02_checker_sound :
  forall (fuel K : nat) (c : cfg), live_check fuel K c = true ->
    forall s, Reach c s -> live_from K c s = true.
Proof. exact live_check_sound. Qed.
Print Assumptions C02_checker_sound.

Theorem C02_liveness_partial_psk : forall s, Reach g_cfg_psk s -> live_from 6 g_cfg_psk s = true.
Proof. exact (live_check_sound 400 6 g_cfg_psk live_psk). Qed.
Print Assumptions C02_liveness_partial_psk.

Theorem C02_liveness_partial_psk_nohint : forall s, Reach g_cfg_psk_nohint s -> live_from 6 g_cfg_psk_nohint s = true.
Proof. exact (live_check_sound 400 6 g_cfg_psk_nohint live_psk_nohint). Qed.
Print Assumptions C02_liveness_partial_psk_nohint.

Theorem C02_liveness_partial_psk_skiphv : forall s, Reach g_cfg_psk_skiphv s -> live_from 6 g_cfg_psk_skiphv s = true.
Proof. exact (live_check_sound 400 6 g_cfg_psk_skiphv live_psk_skiphv). Qed.
Print Assumptions C02_liveness_partial_psk_skiphv.

Theorem C02_liveness_partial_cert : forall s, Reach g_cfg_cert s -> live_from 6 g_cfg_cert s = true.
Proof. exact (live_check_sound 400 6 g_cfg_cert live_cert). Qed.
Print Assumptions C02_liveness_partial_cert.

Theorem C02_liveness_partial_cert_clientauth :
  forall s, Reach g_cfg_cert_clientauth s -> live_from 6 g_cfg_cert_clientauth s = true.
Proof. exact (live_check_sound 400 6 g_cfg_cert_clientauth live_cert_clientauth). Qed.
Print Assumptions C02_liveness_partial_cert_clientauth.

(* fragmented: the server flight spans several datagrams *)
Theorem C02_liveness_partial_cert_mtu200 :
  forall s, Reach g_cfg_cert_mtu200 s -> live_from 6 g_cfg_cert_mtu200 s = true.
Proof. exact (live_check_sound 400 6 g_cfg_cert_mtu200 live_cert_mtu200). Qed.
Print Assumptions C02_liveness_partial_cert_mtu200.

(* resumed (abbreviated) handshakes: the client sends the last flight *)
Theorem C02_liveness_partial_psk_resumed :
  forall s, Reach g_cfg_psk_resumed s -> live_from 6 g_cfg_psk_resumed s = true.
Proof. exact (live_check_sound 400 6 g_cfg_psk_resumed live_psk_resumed). Qed.
Print Assumptions C02_liveness_partial_psk_resumed.

Theorem C02_liveness_partial_cert_resumed :
  forall s, Reach g_cfg_cert_resumed s -> live_from 6 g_cfg_cert_resumed s = true.
Proof. exact (live_check_sound 400 6 g_cfg_cert_resumed live_cert_resumed). Qed.
Print Assumptions C02_liveness_partial_cert_resumed.

(* session stores on both sides, no earlier session *)
Theorem C02_liveness_partial_cert_stores_mtu200 :
  forall s, Reach g_cfg_cert_stores_mtu200 s -> live_from 6 g_cfg_cert_stores_mtu200 s = true.
Proof. exact (live_check_sound 400 6 g_cfg_cert_stores_mtu200 live_cert_stores_mtu200). Qed.
Print Assumptions C02_liveness_partial_cert_stores_mtu200.

Theorem C02_liveness_partial_psk_stores :
  forall s, Reach g_cfg_psk_stores s -> live_from 6 g_cfg_psk_stores s = true.
Proof. exact (live_check_sound 400 6 g_cfg_psk_stores live_psk_stores). Qed.
Print Assumptions C02_liveness_partial_psk_stores.

(* the time the retransmission schedule needs: each reliable round waits for at most one timer
   expiry per side, and the k-th consecutive expiry comes after min(I*2^k, 60 s) *)
Theorem C02_round_interval_bound :
  forall (c : cfg) (e : ep) (k : nat),
    e_fst e = Waiting -> fl_retransmit (e_flight e) = true -> (e_interval e <= 60000)%N ->
    let e' := timeouts k c e in
    e_fst e' = Waiting /\ e_flight e' = e_flight e /\
    e_interval e' = if c_backoff c then N.min (e_interval e * 2 ^ N.of_nat k) 60000%N else e_interval e.
Proof. exact interval_law. Qed.
Print Assumptions C02_round_interval_bound.

(* non-vacuity: the adversarial closure of a fragmented variant has more than the happy path *)
Example C02_closure_nontrivial : length (reach_set 400 g_cfg_cert_mtu200) = 31.
Proof. vm_compute. reflexivity. Qed.

(* ---- the early-record queue (Conn.encryptedPackets): model Hs/Abs12Early.v, proofs Hs/Abs12EarlySound.v.
   A record of the next epoch (the Finished) that arrives before its ChangeCipherSpec is put aside by the
   reader and replayed by the handshake goroutine after the keys are installed.  The replay takes the
   queue once and discards what is still early: it returns after exactly as many steps as records were
   queued (the number of records left to replay decreases with every step), for every content and arrival
   order of the queue, and leaves the queue empty; the socket reader is one total step per record. *)
Theorem C02_early_queue_terminates : forall s : Abs12Early.est,
  (forall d d', Abs12Early.dstep false d = Some d' -> Abs12Early.dmeasure d' < Abs12Early.dmeasure d) /\
  exists d, Abs12Early.diter false (length (Abs12Early.e_queue s)) (Abs12Early.dstart s) = Some d /\
            Abs12Early.dstep false d = None /\ fst d = Abs12Early.drain s /\
            Abs12Early.e_queue (fst d) = [].
Proof. exact Abs12EarlySound.early_queue_terminates. Qed.
Print Assumptions C02_early_queue_terminates.

Theorem C02_early_reader_never_blocks : forall s r,
  Abs12Early.recv s r = Abs12Early.step true s r /\
  (Abs12Early.e_queue (Abs12Early.recv s r) = Abs12Early.e_queue s \/
   Abs12Early.e_queue (Abs12Early.recv s r) = Abs12Early.e_queue s ++ [r]).
Proof. exact Abs12EarlySound.reader_total. Qed.
Print Assumptions C02_early_reader_never_blocks.

(* a Finished queued in front of its ChangeCipherSpec is discarded by the replay and read when the peer
   retransmits ChangeCipherSpec + Finished (one retransmission round) *)
Theorem C02_early_finished_discarded_then_recovered : forall s id,
  Abs12Early.e_keys s = true ->
  Abs12Early.e_queue s = [Abs12Early.fin (Abs12Early.e_epoch s + 1)%N id] ->
  Abs12Early.drain s = Abs12Early.with_queue s [] /\
  Abs12Early.e_out (Abs12Early.recv (Abs12Early.recv (Abs12Early.drain s) (Abs12Early.ccs (Abs12Early.e_epoch s)))
                                    (Abs12Early.fin (Abs12Early.e_epoch s + 1)%N id))
    = Abs12Early.e_out s ++ [Abs12Early.fin (Abs12Early.e_epoch s + 1)%N id].
Proof. exact Abs12EarlySound.discarded_then_recovered. Qed.
Print Assumptions C02_early_finished_discarded_then_recovered.

Theorem C02_early_in_order_delivered : forall s id,
  Abs12Early.e_keys s = true ->
  Abs12Early.e_queue s = [Abs12Early.ccs (Abs12Early.e_epoch s); Abs12Early.fin (Abs12Early.e_epoch s + 1)%N id] ->
  Abs12Early.e_out (Abs12Early.drain s) = Abs12Early.e_out s ++ [Abs12Early.fin (Abs12Early.e_epoch s + 1)%N id] /\
  Abs12Early.e_epoch (Abs12Early.drain s) = (Abs12Early.e_epoch s + 1)%N.
Proof. exact Abs12EarlySound.in_order_delivered. Qed.
Print Assumptions C02_early_in_order_delivered.

(* the variant that re-enqueues still-early records and goes over the queue "until it is empty" never
   returns when a Finished is queued and its ChangeCipherSpec is neither queued nor applied: witness
   Abs12Early.wedge_state (replayed on the implementation by the leg `early` of checks/c02.py) *)
Theorem C02_early_requeue_loop_refuted : exists s,
  forall n, exists d, Abs12Early.diter true n (Abs12Early.dstart s) = Some d /\ Abs12Early.dstep true d <> None.
Proof. exact Abs12EarlySound.requeue_loop_refuted. Qed.
Print Assumptions C02_early_requeue_loop_refuted.
