(* C02 - Handshake completes under any finite loss, duplication and reordering.
   Statements only; proofs in Hs/Abs12Live.v (generic soundness of the checker) and
   Hs/Abs12Sound.v (instances).

   Model: Hs/Abs12.v (receive path for handshake traffic, fragment buffer, transcript cache,
   flight parsers, state machine), tied to the code by replaying scripted-network traces of the
   real client and server through it (checks/c02.py).  The adversary of [Reach] may deliver any
   datagram ever sent, any number of times, in any order, and fire either retransmission timer at
   any moment - this over-approximates every finite pattern of loss, duplication, reordering and
   delay.  [live_from K] says that K reliable rounds (each side's timer fires once, everything
   emitted is delivered in order) establish both sides.

   The theorems are instances for the flight structures of the current tree, regenerated into
   Gen/GeneratedFlights.v on every run (so they are re-proved against what the code sends now).
   They are named _partial because the quantifier of the property also ranges over configurations
   whose flights span many datagrams (small MTUs: psk-cid-mtu40, cert-clientauth-mtu150): for those
   the adversarial closure is too large to enumerate inside Coq and only the trace replay and the
   monitors cover them; that a message split into any number of fragments is complete exactly when
   all of them arrived is C12's theorem. *)
From Coq Require Import List NArith Bool Arith.
From DtlsV Require Import Gen.Generated Gen.GeneratedFlights Hs.Abs12 Hs.Abs12Live Hs.Abs12Sound.
Import ListNotations.
Open Scope nat_scope.

(* generic: a positive answer of the checker is a proof about every reachable state *)
Theorem C02_checker_sound :
  forall (fuel K : nat) (c : cfg), live_check fuel K c = true ->
    forall s, Reach c s -> live_from K c s = true.
Proof. exact live_check_sound. Qed.
Print Assumptions C02_checker_sound.

Theorem C02_liveness_partial_psk : forall s, Reach g_cfg_psk s -> live_from 6 g_cfg_psk s = true.
Proof. exact (live_check_sound 400 6 g_cfg_psk live_psk). Qed.
Print Assumptions C02_liveness_partial_psk.

Theorem C02_liveness_partial_psk_nohint : forall s, Reach g_cfg_psk_nohint s -> live_from 6 g_cfg_psk_nohint s = true.
Proof. exact (live_check_sound 400 6 g_cfg_psk_nohint live_psk_nohint). Qed.
Print Assumptions C02_liveness_partial_psk_nohint.

Theorem C02_liveness_partial_psk_skiphv : forall s, Reach g_cfg_psk_skiphv s -> live_from 6 g_cfg_psk_skiphv s = true.
Proof. exact (live_check_sound 400 6 g_cfg_psk_skiphv live_psk_skiphv). Qed.
Print Assumptions C02_liveness_partial_psk_skiphv.

Theorem C02_liveness_partial_cert : forall s, Reach g_cfg_cert s -> live_from 6 g_cfg_cert s = true.
Proof. exact (live_check_sound 400 6 g_cfg_cert live_cert). Qed.
Print Assumptions C02_liveness_partial_cert.

Theorem C02_liveness_partial_cert_clientauth :
  forall s, Reach g_cfg_cert_clientauth s -> live_from 6 g_cfg_cert_clientauth s = true.
Proof. exact (live_check_sound 400 6 g_cfg_cert_clientauth live_cert_clientauth). Qed.
Print Assumptions C02_liveness_partial_cert_clientauth.

(* fragmented: the server flight spans several datagrams *)
Theorem C02_liveness_partial_cert_mtu200 :
  forall s, Reach g_cfg_cert_mtu200 s -> live_from 6 g_cfg_cert_mtu200 s = true.
Proof. exact (live_check_sound 400 6 g_cfg_cert_mtu200 live_cert_mtu200). Qed.
Print Assumptions C02_liveness_partial_cert_mtu200.

(* resumed (abbreviated) handshakes: the client sends the last flight *)
Theorem C02_liveness_partial_psk_resumed :
  forall s, Reach g_cfg_psk_resumed s -> live_from 6 g_cfg_psk_resumed s = true.
Proof. exact (live_check_sound 400 6 g_cfg_psk_resumed live_psk_resumed). Qed.
Print Assumptions C02_liveness_partial_psk_resumed.

Theorem C02_liveness_partial_cert_resumed :
  forall s, Reach g_cfg_cert_resumed s -> live_from 6 g_cfg_cert_resumed s = true.
Proof. exact (live_check_sound 400 6 g_cfg_cert_resumed live_cert_resumed). Qed.
Print Assumptions C02_liveness_partial_cert_resumed.

(* session stores on both sides, no earlier session *)
Theorem C02_liveness_partial_cert_stores_mtu200 :
  forall s, Reach g_cfg_cert_stores_mtu200 s -> live_from 6 g_cfg_cert_stores_mtu200 s = true.
Proof. exact (live_check_sound 400 6 g_cfg_cert_stores_mtu200 live_cert_stores_mtu200). Qed.
Print Assumptions C02_liveness_partial_cert_stores_mtu200.

Theorem C02_liveness_partial_psk_stores :
  forall s, Reach g_cfg_psk_stores s -> live_from 6 g_cfg_psk_stores s = true.
Proof. exact (live_check_sound 400 6 g_cfg_psk_stores live_psk_stores). Qed.
Print Assumptions C02_liveness_partial_psk_stores.

(* the time the retransmission schedule needs: each reliable round waits for at most one timer
   expiry per side, and the k-th consecutive expiry comes after min(I*2^k, 60 s) *)
Theorem C02_round_interval_bound :
  forall (c : cfg) (e : ep) (k : nat),
    e_fst e = Waiting -> fl_retransmit (e_flight e) = true -> (e_interval e <= 60000)%N ->
    let e' := timeouts k c e in
    e_fst e' = Waiting /\ e_flight e' = e_flight e /\
    e_interval e' = if c_backoff c then N.min (e_interval e * 2 ^ N.of_nat k) 60000%N else e_interval e.
Proof. exact interval_law. Qed.
Print Assumptions C02_round_interval_bound.

(* non-vacuity: the adversarial closure of a fragmented variant has more than the happy path *)
Example C02_closure_nontrivial : length (reach_set 400 g_cfg_cert_mtu200) = 31.
Proof. vm_compute. reflexivity. Qed.
