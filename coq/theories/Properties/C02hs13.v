(* C02 (DTLS 1.3 part) - the handshake completes under any finite loss, duplication and reordering,
   with and without HelloRetryRequest.  Statements only; proofs in Hs/Hs13Live.v (generic soundness
   of the checker) and Hs/Hs13Sound.v (instances, interval law).

   Model: Hs/Hs13.v (DTLS 1.3 receive path, fragment buffer, handshake cache, flight13 parsers,
   fsm13 with ACK tracking, HelloRetryRequest re-answer rule, implicit final ACK, NewSessionTicket),
   tied to the code by replaying scripted-network traces of the real client and server through it:
   every emitted datagram (records, ACK contents, virtual time) and establishment
   (checks/hs13lib.py).  The adversary of [Reach] may deliver any datagram ever sent, any number of
   times, in any order, fire either endpoint's pending timer at any moment and let time pass.
   [live_from K] says that K reliable rounds (each side's timer fires, everything emitted is
   delivered in order) establish both sides.

   The theorems are instances for the flight structures of the current tree, regenerated into
   Gen/GeneratedHs13.v on every run.  They are named _partial because the quantifier of the property
   also ranges over configurations whose flights span many datagrams (v13-mtu300, v13-mtu120,
   v13-hrr-mtu300: with partial acknowledgements the set of distinct retransmission datagrams makes
   the closure too large to enumerate inside Coq - more than 12 000 states at depth 12): those are
   covered by the trace replay and the completion monitors only. *)
From Coq Require Import List NArith Bool.
From DtlsV Require Import Gen.GeneratedHs13 Hs.Hs13 Hs.Hs13Live Hs.Hs13Sound.
Import ListNotations.
Open Scope N_scope.

(* generic: a positive answer of the checker is a proof about every reachable state *)
Theorem C02hs13_checker_sound :
  forall (fuel K : nat) (c : cfg), live_check fuel K c = true ->
    forall s, Reach c s -> live_from K c s = true.
Proof. exact live_check_sound. Qed.
Print Assumptions C02hs13_checker_sound.

(* cookie exchange by HelloRetryRequest, ClientHello in two fragments (hybrid key share) *)
Theorem C02hs13_liveness_partial_v13 :
  forall s, Reach (cfg13 g13_v13) s -> live_from 2 (cfg13 g13_v13) s = true.
Proof. exact (live_check_sound 400 2 (cfg13 g13_v13) live_v13). Qed.
Print Assumptions C02hs13_liveness_partial_v13.

(* HelloRetryRequest that also changes the group *)
Theorem C02hs13_liveness_partial_v13_hrr :
  forall s, Reach (cfg13 g13_v13_hrr) s -> live_from 2 (cfg13 g13_v13_hrr) s = true.
Proof. exact (live_check_sound 400 2 (cfg13 g13_v13_hrr) live_v13_hrr). Qed.
Print Assumptions C02hs13_liveness_partial_v13_hrr.

(* no HelloRetryRequest at all *)
Theorem C02hs13_liveness_partial_v13_direct :
  forall s, Reach (cfg13 g13_v13_direct) s -> live_from 2 (cfg13 g13_v13_direct) s = true.
Proof. exact (live_check_sound 400 2 (cfg13 g13_v13_direct) live_v13_direct). Qed.
Print Assumptions C02hs13_liveness_partial_v13_direct.

(* client authentication: the client's final flight is Certificate, CertificateVerify, Finished *)
Theorem C02hs13_liveness_partial_v13_clientauth :
  forall s, Reach (cfg13 g13_v13_clientauth) s -> live_from 2 (cfg13 g13_v13_clientauth) s = true.
Proof. exact (live_check_sound 400 2 (cfg13 g13_v13_clientauth) live_v13_clientauth). Qed.
Print Assumptions C02hs13_liveness_partial_v13_clientauth.

Theorem C02hs13_liveness_partial_v13_hrr_clientauth :
  forall s, Reach (cfg13 g13_v13_hrr_clientauth) s -> live_from 2 (cfg13 g13_v13_hrr_clientauth) s = true.
Proof. exact (live_check_sound 400 2 (cfg13 g13_v13_hrr_clientauth) live_v13_hrr_clientauth). Qed.
Print Assumptions C02hs13_liveness_partial_v13_hrr_clientauth.

(* dual-stack client (MinVersion 1.2, MaxVersion 1.3; the negotiation phase that precedes the state
   machine - ClientHello repeated by its own loop - is part of the closure) against a dual-stack
   server, and against a DTLS 1.3 only server that skips the cookie exchange *)
Theorem C02hs13_liveness_partial_v13_dualc :
  forall s, Reach (cfg13d g13_v13_dualc) s -> live_from 2 (cfg13d g13_v13_dualc) s = true.
Proof. exact (live_check_sound 400 2 (cfg13d g13_v13_dualc) live_v13_dualc). Qed.
Print Assumptions C02hs13_liveness_partial_v13_dualc.

Theorem C02hs13_liveness_partial_v13_dualc_direct :
  forall s, Reach (cfg13d g13_v13_dualc_direct) s -> live_from 2 (cfg13d g13_v13_dualc_direct) s = true.
Proof. exact (live_check_sound 400 2 (cfg13d g13_v13_dualc_direct) live_v13_dualc_direct). Qed.
Print Assumptions C02hs13_liveness_partial_v13_dualc_direct.

(* the time the retransmission schedule needs: each reliable round waits for at most one timer
   expiry per side; the k-th consecutive expiry comes min(I*2^k, 60 s) after the previous one *)
Theorem C02hs13_round_interval_bound :
  forall (c : cfg) (e : ep) (k : nat),
    awaiting c e ->
    let e' := timeouts k c e in
    awaiting c e' /\ e_flight e' = e_flight e /\ e_out e' = e_out e /\
    e_interval e' = sched c (e_interval e) k /\
    e_timer (timeouts (S k) c e) = e_timer e' + e_interval (timeouts (S k) c e).
Proof. exact interval_law. Qed.
Print Assumptions C02hs13_round_interval_bound.

(* one reliable round is not always enough (a HelloRetryRequest repeated less than half an interval
   ago is not repeated again): the bound of two rounds is tight *)
Theorem C02hs13_one_round_refuted :
  forallb (live_from 1 (cfg13 g13_v13)) (reach_set 400 (cfg13 g13_v13)) = false.
Proof. exact live_v13_one_round_refuted. Qed.
Print Assumptions C02hs13_one_round_refuted.

(* non-vacuity: the adversarial closure has far more than the happy path *)
Example C02hs13_closure_nontrivial : length (reach_set 400 (cfg13 g13_v13)) = 133%nat.
Proof. vm_compute. reflexivity. Qed.
