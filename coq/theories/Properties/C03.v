(* C03 - Peer authentication: no established session without the required credential.
   Statements only; proofs in Hs/C03AuthSound.v (decision functions of Hs/C03Auth.v, quantified
   over EVERY view of the received flight and every configuration) and Hs/C04TranscriptSound.v
   (symbolic key derivation: what a verified Finished says about the peer's keys).
   A view field is the truth value of one primitive check of the code on the received flight
   (x509 chain / name / validity, signature under the leaf key, Finished record opens, ...). *)
From Coq Require Import List Bool NArith.
From DtlsV Require Import Hs.C03Auth Hs.C03AuthSound Hs.C04Transcript Hs.C04TranscriptSound.
From DtlsV Require Import Hs.C03Time Hs.C03TimeSound.
Import ListNotations.
Open Scope N_scope.

(* ---- DTLS 1.2 client: acceptance implies every check the property names *)
Theorem C03_client_accept_implies_checks :
  forall c v, client12 c v = Accept -> client_required c v = true.
Proof. exact client_accept_implies_checks. Qed.
Print Assumptions C03_client_accept_implies_checks.

Theorem C03_client_accept_cert_suite :
  forall c v, client12 c v = Accept -> sv_suite v = SCert ->
    sv_cert_msg v = true /\ sv_certs_nonempty v = true /\ sv_scheme_allowed v = true /\ sv_sig_valid v = true /\
    (cc_skip_verify c = false -> sv_chain_ok v = true /\ sv_name_ok v = true /\ sv_time_ok v = true) /\
    (cc_has_vpc c = true -> sv_vpc_ok v = true) /\ (cc_has_vc c = true -> sv_vc_ok v = true) /\
    sv_fin_arrives v = true /\ sv_fin_valid v = true.
Proof. exact client_accept_cert_suite. Qed.
Print Assumptions C03_client_accept_cert_suite.

Theorem C03_client_accept_psk_suite :
  forall c v, client12 c v = Accept -> is_psk (sv_suite v) = true ->
    sv_fin_arrives v = true /\ sv_fin_valid v = true /\ (cc_has_vc c = true -> sv_vc_ok v = true).
Proof. exact client_accept_psk_suite. Qed.
Print Assumptions C03_client_accept_psk_suite.

(* dual: wrong CA, wrong name, expired, substituted certificate, missing certificate, missing or
   forged signature, scheme outside the local list => never accepted *)
Theorem C03_client_rejects :
  forall c v, sv_suite v = SCert ->
    (sv_cert_msg v = false \/ sv_certs_nonempty v = false \/ sv_sig_valid v = false \/ sv_scheme_allowed v = false
     \/ (cc_skip_verify c = false /\ (sv_chain_ok v = false \/ sv_name_ok v = false \/ sv_time_ok v = false))
     \/ (cc_has_vpc c = true /\ sv_vpc_ok v = false) \/ (cc_has_vc c = true /\ sv_vc_ok v = false)) ->
    client_accepts_server c v = false.
Proof. exact client_rejects. Qed.
Print Assumptions C03_client_rejects.

Theorem C03_client_rejects_without_finished :
  forall c v, (sv_fin_arrives v = false \/ sv_fin_valid v = false) -> client_accepts_server c v = false.
Proof. exact client_rejects_without_finished. Qed.
Print Assumptions C03_client_rejects_without_finished.

(* ---- DTLS 1.2 server: every ClientAuth value *)
Theorem C03_server_accept_implies_checks :
  forall s v, server12 s v = Accept -> server_required s v = true.
Proof. exact server_accept_implies_checks. Qed.
Print Assumptions C03_server_accept_implies_checks.

Theorem C03_server_accept_policy :
  forall s v, server12 s v = Accept -> is_anon (cl_suite v) = false ->
    cl_fin_arrives v = true /\
    (cl_certs_given v = true -> cl_cv_msg v = true /\ cl_scheme_allowed v = true /\ cl_cv_valid v = true) /\
    match sc_policy s with
    | NoClientCert | RequestClientCert => True
    | RequireAnyClientCert => cl_certs_given v = true /\ cl_cv_msg v = true /\ cl_cv_valid v = true
    | VerifyClientCertIfGiven => cl_certs_given v = true -> cl_cv_valid v = true /\ cl_chain_valid v = true
    | RequireAndVerifyClientCert =>
        cl_certs_given v = true /\ cl_cv_msg v = true /\ cl_cv_valid v = true /\ cl_chain_valid v = true
    end.
Proof. exact server_accept_policy. Qed.
Print Assumptions C03_server_accept_policy.

Theorem C03_server_rejects :
  forall s v, is_anon (cl_suite v) = false ->
    (cl_certs_given v = true /\ (cl_cv_msg v = false \/ cl_cv_valid v = false \/ cl_scheme_allowed v = false))
    \/ (policy_requires_cert (sc_policy s) = true /\ cl_certs_given v = false)
    \/ (policy_verifies (sc_policy s) = true /\ cl_certs_given v = true /\ cl_chain_valid v = false)
    \/ cl_fin_arrives v = false ->
    server_accepts_client s v = false.
Proof. exact server_rejects. Qed.
Print Assumptions C03_server_rejects.

(* ---- PSK suites: a Finished record that opens under locally derived keys was sealed by a peer
   holding the same pre-shared key (symbolic; PRF / pre-master-secret / pairing injective) *)
Theorem C03_psk_binds :
  forall (term : Type) (PRF : term -> N -> term -> term) (pair : term -> term -> term)
         (Hh : list term -> term) (psk_pms : term -> term -> term),
    (forall a l s a' l' s', PRF a l s = PRF a' l' s' -> a = a' /\ l = l' /\ s = s') ->
    (forall p d p' d', psk_pms p d = psk_pms p' d' -> p = p' /\ d = d') ->
    forall (c s : view term) (psk_c dh_c psk_s dh_s : term),
      v_pms c = psk_pms psk_c dh_c -> v_pms s = psk_pms psk_s dh_s ->
      keys term PRF pair Hh c = keys term PRF pair Hh s -> psk_c = psk_s.
Proof. exact psk_binds. Qed.
Print Assumptions C03_psk_binds.

(* ---- DTLS 1.3 *)
Theorem C03_server13_accept_implies_checks :
  forall req k v, p_from_client v = true -> flight13_with req k v = Accept -> server13_required k v = true.
Proof. exact server13_accept_implies_checks. Qed.
Print Assumptions C03_server13_accept_implies_checks.

Theorem C03_client13_accept_implies_checks_partial :
  forall bind k v, p_from_client v = false -> p_cert_msg v = true ->
    flight13_all true bind false k v = Accept -> client13_required k v = true.
Proof. exact client13_accept_implies_checks_partial_all. Qed.
Print Assumptions C03_client13_accept_implies_checks_partial.

(* F6: as coded, a server flight without Certificate and CertificateVerify is accepted *)
Theorem C03_client13_unauthenticated_server_refuted :
  exists k v, p_from_client v = false /\ k_skip_verify k = false /\
    p_cert_msg v = false /\ p_cv_msg v = false /\
    (forall ipname bind, flight13_all ipname bind false k v = Accept) /\ client13_required k v = false.
Proof. exact client13_unauthenticated_server_refuted. Qed.
Print Assumptions C03_client13_unauthenticated_server_refuted.

Theorem C03_client13_fixed_accept_implies_checks :
  forall bind k v, p_from_client v = false -> flight13_all true bind true k v = Accept -> client13_required k v = true.
Proof. exact client13_fixed_accept_implies_checks_all. Qed.
Print Assumptions C03_client13_fixed_accept_implies_checks.

(* the statement that holds of the code as modelled, whichever way the F6 switch is set *)
Theorem C03_client13_as_coded :
  if client13_requires_server_certificate && client_verifies_ip_literal_name
  then forall k v, p_from_client v = false -> flight13 k v = Accept -> client13_required k v = true
  else exists k v, p_from_client v = false /\ k_skip_verify k = false /\
         flight13 k v = Accept /\ client13_required k v = false.
Proof. exact client13_as_coded. Qed.
Print Assumptions C03_client13_as_coded.

(* ---- F45: the claimed signature scheme is bound to the certificate's key.  Premise [sig_sound_*]:
   unforgeability - under a scheme that fits the key only the holder of the leaf's private key makes
   the verification routine accept.  [*_with true] / [*_gen true] = the repaired verification
   (/repo 6569e78), [false] = the code before it. *)
Theorem C03_client_accept_binds_signature :
  forall c v, sig_sound_s v -> client12_gen true true c v = Accept -> sv_suite v = SCert ->
    sv_scheme_fits_key v = true /\ sv_signed_by_leaf v = true /\ client_credential c v = true.
Proof. exact client_accept_binds_signature. Qed.
Print Assumptions C03_client_accept_binds_signature.

Theorem C03_server_accept_binds_signature :
  forall chk s v, sig_sound_c v -> server12_gen true chk s v = Accept -> cl_certs_given v = true ->
    is_psk (cl_suite v) = false ->
    cl_scheme_fits_key v = true /\ cl_signed_by_leaf v = true /\ server_credential s v = true.
Proof. exact server_accept_binds_signature. Qed.
Print Assumptions C03_server_accept_binds_signature.

Theorem C03_flight13_accept_binds_signature :
  forall ipname req k v, sig_sound_p v -> flight13_all ipname true req k v = Accept -> p_cv_msg v = true ->
    p_scheme_fits_key v = true /\ p_signed_by_leaf v = true.
Proof. exact flight13_accept_binds_signature. Qed.
Print Assumptions C03_flight13_accept_binds_signature.

(* regression witnesses: before the repair a signature forged from the victim's PUBLIC key (ECDSA leaf,
   claimed scheme Ed25519, empty digest) was accepted with a genuinely valid chain and name *)
Theorem C03_client_scheme_confusion_refuted :
  exists c v, sig_sound_s v /\ cc_skip_verify c = false /\ sv_suite v = SCert /\
    client12_gen true false c v = Accept /\ sv_scheme_fits_key v = false /\ sv_signed_by_leaf v = false /\
    client_credential c v = false.
Proof. exact client_scheme_confusion_refuted. Qed.
Print Assumptions C03_client_scheme_confusion_refuted.

Theorem C03_server_scheme_confusion_refuted :
  exists s v, sig_sound_c v /\ sc_policy s = RequireAndVerifyClientCert /\ cl_chain_valid v = true /\
    (forall chk, server12_gen false chk s v = Accept) /\
    cl_scheme_fits_key v = false /\ cl_signed_by_leaf v = false /\ server_credential s v = false.
Proof. exact server_scheme_confusion_refuted. Qed.
Print Assumptions C03_server_scheme_confusion_refuted.

Theorem C03_flight13_scheme_confusion_refuted :
  forall from_client, exists k v, p_from_client v = from_client /\ sig_sound_p v /\ k_skip_verify k = false /\
    k_policy k = RequireAndVerifyClientCert /\ p_x509_ok v = true /\
    (forall ipname req, flight13_all ipname false req k v = Accept) /\
    p_scheme_fits_key v = false /\ p_signed_by_leaf v = false /\ flight13_credential k v = false.
Proof. exact flight13_scheme_confusion_refuted. Qed.
Print Assumptions C03_flight13_scheme_confusion_refuted.

Theorem C03_scheme_binding_as_coded :
  if verify_binds_scheme_to_key
  then (forall c v, sig_sound_s v -> client12 c v = Accept -> sv_suite v = SCert ->
          sv_scheme_fits_key v = true /\ sv_signed_by_leaf v = true) /\
       (forall s v, sig_sound_c v -> server12 s v = Accept -> cl_certs_given v = true ->
          cl_scheme_fits_key v = true /\ cl_signed_by_leaf v = true) /\
       (forall k v, sig_sound_p v -> flight13 k v = Accept -> p_cv_msg v = true ->
          p_scheme_fits_key v = true /\ p_signed_by_leaf v = true)
  else (exists c v, sig_sound_s v /\ cc_skip_verify c = false /\ sv_suite v = SCert /\
          client12 c v = Accept /\ sv_signed_by_leaf v = false) /\
       (exists s v, sig_sound_c v /\ sc_policy s = RequireAndVerifyClientCert /\
          server12 s v = Accept /\ cl_signed_by_leaf v = false) /\
       (exists k v, sig_sound_p v /\ k_skip_verify k = false /\ flight13 k v = Accept /\ p_signed_by_leaf v = false).
Proof. exact scheme_binding_as_coded. Qed.
Print Assumptions C03_scheme_binding_as_coded.

(* ---- F46: the server's session store.  [server12_session_remains true ..] = the repaired order
   (/repo ff39c53: SetSession after the Finished check, the policy switch and VerifyConnection) *)
Theorem C03_resumable_session_was_accepted :
  forall bind chk s hs v, server12_session_remains true bind chk s hs v = true ->
    server12_gen bind chk s v = Accept /\ server_required s v = true.
Proof. exact resumable_session_was_accepted. Qed.
Print Assumptions C03_resumable_session_was_accepted.

Theorem C03_second_conn_accept_implies_checks :
  forall bind chk s hs v1 v2 ra rv,
    server12_second_conn true bind chk s hs v1 v2 ra rv = Accept ->
    server_required s v1 = true \/ server_required s v2 = true.
Proof. exact second_conn_accept_implies_checks. Qed.
Print Assumptions C03_second_conn_accept_implies_checks.

Theorem C03_refused_client_resumes_refuted :
  exists s v1, sc_policy s = RequireAndVerifyClientCert /\ cl_certs_given v1 = false /\
    (forall bind chk, server12_gen bind chk s v1 = Wait) /\
    (forall bind chk v2, server12_second_conn false bind chk s true v1 v2 true true = Accept) /\
    server_required s v1 = false /\
    (forall bind chk v2, cl_certs_given v2 = false -> is_anon (cl_suite v2) = false ->
       server12_gen bind chk s v2 <> Accept).
Proof. exact refused_client_resumes_refuted. Qed.
Print Assumptions C03_refused_client_resumes_refuted.

Theorem C03_second_conn_as_coded :
  if server12_stores_session_after_checks
  then forall s hs v1 v2 ra rv, server12_second s hs v1 v2 ra rv = Accept ->
         server_required s v1 = true \/ server_required s v2 = true
  else exists s v1, sc_policy s = RequireAndVerifyClientCert /\ cl_certs_given v1 = false /\
         server_required s v1 = false /\ forall v2, server12_second s true v1 v2 true true = Accept.
Proof. exact second_conn_as_coded. Qed.
Print Assumptions C03_second_conn_as_coded.

(* ---- B: server-name forms.  [sv_name_ok] / [p_x509_ok] = valid for the CONFIGURED name (an IP literal is matched
   against the IP SANs; an empty name is no requirement).  Before /repo 1f5f836 an IP literal was not verified. *)
Theorem C03_client_ip_name_refuted :
  exists c v, cc_name_is_ip c = true /\ cc_skip_verify c = false /\ sv_suite v = SCert /\ sv_name_ok v = false /\
    (forall bind, client12_gen false bind c v = Accept) /\ client_required c v = false /\
    (forall bind, client12_gen true bind c v = Reject a_bad_certificate).
Proof. exact client_ip_name_refuted. Qed.
Print Assumptions C03_client_ip_name_refuted.

Theorem C03_client13_ip_name_refuted :
  exists k v, p_from_client v = false /\ k_skip_verify k = false /\ k_name_is_ip k = true /\ p_x509_ok v = false /\
    (forall bind req, flight13_all false bind req k v = Accept) /\ client13_required k v = false /\
    (forall bind req, flight13_all true bind req k v = Reject a_bad_certificate).
Proof. exact client13_ip_name_refuted. Qed.
Print Assumptions C03_client13_ip_name_refuted.

Theorem C03_server_name_as_coded :
  if client_verifies_ip_literal_name
  then forall c v, client12 c v = Accept -> sv_suite v = SCert -> cc_skip_verify c = false -> sv_name_ok v = true
  else exists c v, cc_name_is_ip c = true /\ cc_skip_verify c = false /\ sv_suite v = SCert /\
         client12 c v = Accept /\ sv_name_ok v = false.
Proof. exact server_name_as_coded. Qed.
Print Assumptions C03_server_name_as_coded.

(* ---- C: an empty pre-shared key.  Premise [psk_sound_*]: with a NON-EMPTY key only a peer holding it
   produces a Finished that opens and verifies.  Before /repo f39ce00 an empty key was used as it came. *)
Theorem C03_client_accept_psk_binds :
  forall bind c v, psk_sound_s v -> client12_all true true bind c v = Accept -> cc_psk_cb c = true ->
    sv_psk_nonempty v = true /\ sv_peer_knows_psk v = true.
Proof. exact client_accept_psk_binds. Qed.
Print Assumptions C03_client_accept_psk_binds.

Theorem C03_server_accept_psk_binds :
  forall bind chk s v, psk_sound_c v -> server12_all true bind chk s v = Accept -> is_psk (cl_suite v) = true ->
    cl_psk_nonempty v = true /\ cl_peer_knows_psk v = true.
Proof. exact server_accept_psk_binds. Qed.
Print Assumptions C03_server_accept_psk_binds.

Theorem C03_client_empty_psk_refuted :
  exists c v, psk_sound_s v /\ cc_psk_cb c = true /\ is_psk (sv_suite v) = true /\
    (forall ipname bind, client12_all false ipname bind c v = Accept) /\
    sv_psk_nonempty v = false /\ sv_peer_knows_psk v = false /\ client_credential c v = false /\
    (forall ipname bind, client12_all true ipname bind c v = Reject 80).
Proof. exact client_empty_psk_refuted. Qed.
Print Assumptions C03_client_empty_psk_refuted.

Theorem C03_server_empty_psk_refuted :
  exists s v, psk_sound_c v /\ is_psk (cl_suite v) = true /\
    (forall bind chk, server12_all false bind chk s v = Accept) /\
    cl_psk_nonempty v = false /\ cl_peer_knows_psk v = false /\ server_credential s v = false /\
    (forall bind chk, server12_all true bind chk s v = Reject 80).
Proof. exact server_empty_psk_refuted. Qed.
Print Assumptions C03_server_empty_psk_refuted.

Theorem C03_empty_psk_as_coded :
  if psk_refuses_empty_key
  then (forall c v, client12 c v = Accept -> cc_psk_cb c = true -> sv_psk_nonempty v = true) /\
       (forall s v, server12 s v = Accept -> is_psk (cl_suite v) = true -> cl_psk_nonempty v = true)
  else (exists c v, cc_psk_cb c = true /\ client12 c v = Accept /\ sv_psk_nonempty v = false /\ sv_peer_knows_psk v = false) /\
       (exists s v, is_psk (cl_suite v) = true /\ server12 s v = Accept /\ cl_psk_nonempty v = false /\
          cl_peer_knows_psk v = false).
Proof. exact empty_psk_as_coded. Qed.
Print Assumptions C03_empty_psk_as_coded.

(* ---- F57 (repaired): a PSK-only client on DTLS 1.3 *)
Theorem C03_client13_psk_only_refuted :
  exists k v, p_from_client v = false /\ k_psk_only k = true /\ sig_sound_p v /\
    (forall ipname bind req, flight13_top false ipname bind req k v = Accept) /\
    flight13_credential k v = false /\
    (forall ipname bind req, flight13_top true ipname bind req k v = Reject a_config_refused).
Proof. exact client13_psk_only_refuted. Qed.
Print Assumptions C03_client13_psk_only_refuted.

Theorem C03_psk_only_as_coded :
  if client13_refuses_psk_only
  then forall k v, flight13 k v = Accept -> p_from_client v = true \/ k_psk_only k = false
  else exists k v, p_from_client v = false /\ k_psk_only k = true /\ flight13 k v = Accept /\
         flight13_credential k v = false.
Proof. exact psk_only_as_coded. Qed.
Print Assumptions C03_psk_only_as_coded.

(* ---- DTLS 1.3: an ACK completes nothing (seeded change C03d as regression witness) *)
Theorem C03_server13_pending_accept_implies_checks :
  forall fin acked k v, p_from_client v = true -> flight13_pending_with false fin acked k v = Accept ->
    fin = true /\ server13_required k v = true /\ p_fin_valid v = true.
Proof. exact server13_pending_accept_implies_checks. Qed.
Print Assumptions C03_server13_pending_accept_implies_checks.

Theorem C03_ack_completes_refuted :
  exists k v, k_policy k = RequireAndVerifyClientCert /\ p_from_client v = true /\ p_fin_valid v = false /\
    flight13_pending_with true false true k v = Accept /\ server13_required k v = false /\
    flight13_pending_with false false true k v = Wait.
Proof. exact ack_completes_refuted. Qed.
Print Assumptions C03_ack_completes_refuted.

Theorem C03_pending_as_coded :
  if server13_ack_of_own_flight_completes
  then exists k v, k_policy k = RequireAndVerifyClientCert /\ p_from_client v = true /\
         flight13_pending false true k v = Accept /\ server13_required k v = false
  else forall fin acked k v, flight13_pending fin acked k v = Accept -> fin = true /\ flight13 k v = Accept.
Proof. exact pending_as_coded. Qed.
Print Assumptions C03_pending_as_coded.

(* non-vacuity: an honest certificate server is accepted, the same server under another CA is not *)
Example C03_example_accept :
  client12 (mk_ccfg false false false false false)
           (mk_sview SCert true true true true true true true true true true true true true true true true true true) = Accept.
Proof. reflexivity. Qed.
Example C03_example_wrong_ca :
  client12 (mk_ccfg false false false false false)
           (mk_sview SCert true true true true true true false true true true true true true true true true true true) = Reject a_bad_certificate.
Proof. reflexivity. Qed.
Example C03_example_cert_without_cv_waits :
  server12 (mk_scfg RequireAnyClientCert false false)
           (mk_cview SCert true true true false true true true true true true true true true true true true) = Wait.
Proof. reflexivity. Qed.

(* ---- acceptance over time (Hs/C03Time.v): successive handshakes of one process *)
Theorem C03_acceptance_is_memoryless : forall h r, accept_after h r = accept_after [] r.
Proof. exact acceptance_is_memoryless. Qed.
Print Assumptions C03_acceptance_is_memoryless.

Theorem C03_accept_after_any_history_valid_now :
  forall h r, accept_after h r = true -> verifies (tp_side (rq_pol r)) = true ->
  (forall w, In w (tc_chain (rq_cred r)) -> (w_nb w <= rq_now r /\ rq_now r <= w_na w)%N) /\
  (w_nb (tc_root_win (rq_cred r)) <= rq_now r /\ rq_now r <= w_na (tc_root_win (rq_cred r)))%N /\
  In (tc_root (rq_cred r)) (tp_pool (rq_pol r)) /\
  name_valid (rq_cred r) (tp_side (rq_pol r)) = true.
Proof. exact accept_valid_now. Qed.
Print Assumptions C03_accept_after_any_history_valid_now.

Theorem C03_outside_window_refused : forall h r w, verifies (tp_side (rq_pol r)) = true ->
  In w (tc_root_win (rq_cred r) :: tc_chain (rq_cred r)) -> (rq_now r < w_nb w \/ w_na w < rq_now r)%N ->
  accept_after h r = false.
Proof. exact outside_window_refused. Qed.
Print Assumptions C03_outside_window_refused.

Theorem C03_root_absent_refused : forall h r, verifies (tp_side (rq_pol r)) = true ->
  ~ In (tc_root (rq_cred r)) (tp_pool (rq_pol r)) -> accept_after h r = false.
Proof. exact root_absent_refused. Qed.
Print Assumptions C03_root_absent_refused.

Theorem C03_cache_faithful_iff_key_decides : forall (K : Type) (key : treq -> K) (keq : K -> K -> bool),
  (forall a b, keq (key a) (key b) = true -> x509_ok a = x509_ok b) ->
  forall h r, caccept_after key keq h r = accept r.
Proof. exact (@cache_faithful). Qed.
Print Assumptions C03_cache_faithful_iff_key_decides.

Theorem C03_cache_without_time_refuted : forall (K : Type) (key : treq -> K) (keq : K -> K -> bool),
  (forall k, keq k k = true) -> (forall r now, key (at_time r now) = key r) ->
  exists h r, caccept_after key keq h r = true /\ accept r = false /\ accept_after h r = false /\
              verifies (tp_side (rq_pol r)) = true /\ x509_ok r = false /\
              (exists w, In w (tc_chain (rq_cred r)) /\ (w_na w < rq_now r)%N).
Proof. exact cache_without_time_refuted. Qed.
Print Assumptions C03_cache_without_time_refuted.

Theorem C03_cache_without_pool_refuted : forall (K : Type) (key : treq -> K) (keq : K -> K -> bool),
  (forall k, keq k k = true) -> (forall r pool, key (with_pool r pool) = key r) ->
  exists h r, caccept_after key keq h r = true /\ accept r = false /\ accept_after h r = false /\
              verifies (tp_side (rq_pol r)) = true /\ ~ In (tc_root (rq_cred r)) (tp_pool (rq_pol r)).
Proof. exact cache_without_pool_refuted. Qed.
Print Assumptions C03_cache_without_pool_refuted.
