(* C04 - Transcript integrity: tampering with any handshake message prevents completion.
   Statements only; proofs in Hs/C04TranscriptSound.v.  Symbolic model (Hs/C04Transcript.v): every
   endpoint has its own view of the handshake messages, randoms and pre-master secret; hash, PRF,
   pairing are uninterpreted symbols, assumed injective (the premises below).  As the code stands the
   DTLS 1.2 server does not compare the client's verify_data in the full handshake: the ideal
   statement is refuted for the server (suspected defect F5), with the concrete witness replayed on
   the implementation by checks/c04.py. *)
From Coq Require Import List Bool NArith.
From DtlsV Require Import Hs.C03Auth Hs.C03AuthSound Hs.C04Transcript Hs.C04TranscriptSound.
Import ListNotations.
Open Scope N_scope.

Section Premises.
  Variable term : Type.
  Variable PRF : term -> N -> term -> term.
  Variable pair : term -> term -> term.
  Variable Hh : list term -> term.
  Variable fin_msg : term -> term.
  Variable eqb : term -> term -> bool.
  Hypothesis PRF_inj : forall a l s a' l' s', PRF a l s = PRF a' l' s' -> a = a' /\ l = l' /\ s = s'.
  Hypothesis pair_inj : forall a b a' b', pair a b = pair a' b' -> a = a' /\ b = b'.
  Hypothesis H_inj : forall l l', Hh l = Hh l' -> l = l'.
  Hypothesis eqb_spec : forall a b, eqb a b = true <-> a = b.

  (* the client completes a full handshake only with the transcript and master secret the server used *)
  Theorem C04_finished_binds_transcript :
    forall chk c s, client_full_ok term PRF pair Hh fin_msg eqb chk c s = true ->
      tr_fin term c = tr_fin term s /\ master term PRF pair Hh c = master term PRF pair Hh s.
  Proof. exact (finished_binds_transcript term PRF pair Hh fin_msg eqb PRF_inj H_inj eqb_spec). Qed.

  (* a server that compares the client's verify_data (candidate fix of F5) is bound likewise *)
  Theorem C04_server_binds_when_checking :
    forall c s, server_full_ok term PRF pair Hh eqb true c s = true ->
      tr_fin term c = tr_fin term s /\ master term PRF pair Hh c = master term PRF pair Hh s.
  Proof. exact (server_binds_when_checking term PRF pair Hh eqb PRF_inj H_inj eqb_spec). Qed.

  (* with client authentication the CertificateVerify binds ClientHello .. ClientKeyExchange *)
  Theorem C04_certificate_verify_binds :
    forall chk c s, v_cv c = true -> server_full_ok term PRF pair Hh eqb chk c s = true -> v_tr_cke c = v_tr_cke s.
  Proof. exact (certificate_verify_binds term PRF pair Hh eqb H_inj eqb_spec). Qed.

  (* changed randoms: the record keys differ, the peer's Finished cannot be opened *)
  Theorem C04_keys_bind_randoms :
    forall c s, keys term PRF pair Hh c = keys term PRF pair Hh s ->
      v_cr c = v_cr s /\ v_sr c = v_sr s /\ master term PRF pair Hh c = master term PRF pair Hh s.
  Proof. exact (keys_bind_randoms term PRF pair Hh PRF_inj pair_inj). Qed.

  (* extended master secret: different transcripts up to ClientKeyExchange => different master
     secrets and record keys => nobody completes, whatever the server compares *)
  Theorem C04_ems_binds :
    forall c s, v_ems c = true -> v_ems s = true -> v_tr_cke c <> v_tr_cke s ->
      master term PRF pair Hh c <> master term PRF pair Hh s /\
      keys term PRF pair Hh c <> keys term PRF pair Hh s /\
      forall chk, server_full_ok term PRF pair Hh eqb chk c s = false /\
                  client_full_ok term PRF pair Hh fin_msg eqb chk c s = false.
  Proof. exact (ems_binds term PRF pair Hh fin_msg eqb PRF_inj pair_inj H_inj eqb_spec). Qed.

  (* extension stripped from one hello only: the two sides disagree on EMS, keys differ *)
  Theorem C04_ems_flag_mismatch_blocks :
    forall c s, v_ems c <> v_ems s -> keys term PRF pair Hh c <> keys term PRF pair Hh s.
  Proof. exact (ems_flag_mismatch_blocks term PRF pair Hh PRF_inj pair_inj). Qed.

  (* resumption: both sides compare *)
  Theorem C04_resumed_client_binds :
    forall c s, client_res_ok term PRF pair Hh eqb c s = true ->
      v_tr_cke c = v_tr_cke s /\ v_pms c = v_pms s /\ v_cr c = v_cr s /\ v_sr c = v_sr s.
  Proof. exact (resumed_client_binds term PRF pair Hh eqb PRF_inj pair_inj H_inj eqb_spec). Qed.

  Theorem C04_resumed_server_binds :
    forall c s, server_res_ok term PRF pair Hh fin_msg eqb c s = true -> v_tr_cke c = v_tr_cke s /\ v_pms c = v_pms s.
  Proof. exact (resumed_server_binds term PRF pair Hh fin_msg eqb PRF_inj pair_inj H_inj eqb_spec). Qed.

  (* A: a server that negotiates from the second ClientHello (the head of its transcript) negotiates from
     what the client sent whenever the client completes - nothing done to the first, cookie-less ClientHello
     (which is in no transcript, RFC 6347 4.2.1) can steer it *)
  Theorem C04_negotiation_input_bound :
    forall chk c s ch1, v_tr_cke c <> [] -> v_tr_cke s <> [] ->
      client_full_ok term PRF pair Hh fin_msg eqb chk c s = true ->
      server_neg_input term true ch1 s = hd ch1 (v_tr_cke c).
  Proof. exact (negotiation_input_bound term PRF pair Hh fin_msg eqb PRF_inj H_inj eqb_spec). Qed.
End Premises.

Print Assumptions C04_finished_binds_transcript.
Print Assumptions C04_server_binds_when_checking.
Print Assumptions C04_certificate_verify_binds.
Print Assumptions C04_keys_bind_randoms.
Print Assumptions C04_ems_binds.
Print Assumptions C04_ems_flag_mismatch_blocks.
Print Assumptions C04_resumed_client_binds.
Print Assumptions C04_resumed_server_binds.
Print Assumptions C04_negotiation_input_bound.

(* F5, decision-function level: the server's verdict does not depend on the client's verify_data *)
Theorem C04_server12_ignores_client_verify_data :
  forall s v b, server12_with false s v = server12_with false s (cl_with_fin_valid v b).
Proof. exact server12_ignores_client_verify_data. Qed.
Print Assumptions C04_server12_ignores_client_verify_data.

(* F5, symbolic level: the ideal statement "no endpoint that received an altered message reports
   success" is REFUTED for the DTLS 1.2 server in a full handshake without extended master secret
   and without client authentication; witness: a rewritten ClientHello *)
Theorem C04_server_full_handshake_unbound_refuted :
  exists c s : view sterm,
    v_ems c = false /\ v_ems s = false /\ v_cv c = false /\
    v_cr c = v_cr s /\ v_sr c = v_sr s /\ v_pms c = v_pms s /\
    v_tr_cke c <> v_tr_cke s /\
    s_server_full_ok false c s = true /\ s_client_full_ok false c s = false.
Proof. exact server_full_handshake_unbound_refuted. Qed.
Print Assumptions C04_server_full_handshake_unbound_refuted.

(* the statement that holds of the code as modelled, whichever way the F5 switch is set *)
Theorem C04_server_full_handshake_as_coded :
  if server12_checks_client_finished
  then forall c s, s_server_full_ok server12_checks_client_finished c s = true -> tr_fin sterm c = tr_fin sterm s
  else exists c s : view sterm,
         v_ems c = false /\ v_ems s = false /\ v_tr_cke c <> v_tr_cke s /\
         s_server_full_ok server12_checks_client_finished c s = true /\
         s_client_full_ok server12_checks_client_finished c s = false.
Proof. exact server_full_handshake_as_coded. Qed.
Print Assumptions C04_server_full_handshake_as_coded.

(* A, before /repo 6f00c2b: both endpoints complete with equal transcripts and keys while the server
   negotiated from a first ClientHello the client never sent *)
Theorem C04_negotiation_from_first_hello_refuted :
  exists (c s : view sterm) (ch1_received : sterm),
    s_client_full_ok true c s = true /\ s_server_full_ok true c s = true /\ v_tr_cke c = v_tr_cke s /\
    server_neg_input sterm false ch1_received s <> hd ch1_received (v_tr_cke c) /\
    server_neg_input sterm true ch1_received s = hd ch1_received (v_tr_cke c).
Proof. exact negotiation_from_first_hello_refuted. Qed.
Print Assumptions C04_negotiation_from_first_hello_refuted.

Theorem C04_negotiation_input_as_coded :
  if server12_negotiates_from_second_hello
  then forall chk c s ch1, v_tr_cke c <> [] -> v_tr_cke s <> [] -> s_client_full_ok chk c s = true ->
         server_neg_input sterm server12_negotiates_from_second_hello ch1 s = hd ch1 (v_tr_cke c)
  else exists (c s : view sterm) ch1, s_client_full_ok true c s = true /\ s_server_full_ok true c s = true /\
         server_neg_input sterm server12_negotiates_from_second_hello ch1 s <> hd ch1 (v_tr_cke c).
Proof. exact negotiation_input_as_coded. Qed.
Print Assumptions C04_negotiation_input_as_coded.

(* the server's extension-driven negotiation state after the second ClientHello does not depend on the
   first one (nor on anything added to it in transit); C04e = regression witness *)
Theorem C04_negotiate_forgets_first_hello :
  forall g s0 ch1 ch1' ch2,
    server_negotiation_with true g s0 ch1 ch2 = server_negotiation_with true g s0 ch1' ch2.
Proof. exact negotiate_forgets_first_hello. Qed.
Print Assumptions C04_negotiate_forgets_first_hello.

Theorem C04_negotiate_independent_of_prior_state :
  forall g s1 s2 hello, n_rest s1 = n_rest s2 ->
    negotiate_with true g s1 hello = negotiate_with true g s2 hello.
Proof. exact negotiate_independent_of_prior_state. Qed.
Print Assumptions C04_negotiate_independent_of_prior_state.

Theorem C04_negotiate_without_reset_refuted :
  exists g s0 ch1 ch1' ch2,
    server_negotiation_with false g s0 ch1 ch2 <> server_negotiation_with false g s0 ch1' ch2 /\
    n_sni (server_negotiation_with false g s0 ch1' ch2) = Some 7 /\
    n_sni (server_negotiation_with true g s0 ch1' ch2) = None.
Proof. exact negotiate_without_reset_refuted. Qed.
Print Assumptions C04_negotiate_without_reset_refuted.

Theorem C04_negotiation_reset_as_coded :
  if server12_resets_inside_negotiation
  then forall g s0 ch1 ch1' ch2, server_negotiation g s0 ch1 ch2 = server_negotiation g s0 ch1' ch2
  else exists g s0 ch1 ch1' ch2, server_negotiation g s0 ch1 ch2 <> server_negotiation g s0 ch1' ch2.
Proof. exact negotiation_reset_as_coded. Qed.
Print Assumptions C04_negotiation_reset_as_coded.

(* the premises are satisfiable (free term algebra), and the witness is stopped by the fix, by EMS
   and by client authentication *)
Theorem C04_premises_satisfiable :
  forall chk c s, s_client_full_ok chk c s = true -> tr_fin sterm c = tr_fin sterm s.
Proof. exact s_finished_binds_transcript. Qed.
Print Assumptions C04_premises_satisfiable.

Example C04_f5_witness_stopped :
  s_server_full_ok true f5_client_view f5_server_view = false /\
  (let ems v := mk_view (v_tr_cke v) (v_tr_cv v) (v_cr v) (v_sr v) (v_pms v) true (v_cv v) in
   s_server_full_ok false (ems f5_client_view) (ems f5_server_view) = false) /\
  (let cv v := mk_view (v_tr_cke v) (v_tr_cv v) (v_cr v) (v_sr v) (v_pms v) (v_ems v) true in
   s_server_full_ok false (cv f5_client_view) (cv f5_server_view) = false).
Proof. exact f5_witness_stopped. Qed.
