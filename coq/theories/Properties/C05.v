(* C05 - Record authenticity: Read returns only what the peer wrote, forgeries vanish.
   Statements only; proofs in Rec/RecvSound.v.  The cryptographic idealisation is the field
   [w_auth] of a wire record: [w_auth w = Some c] iff the body authenticates under the
   receiver's read keys with the nonce and additional data built from w's own header
   (premise int_ctxt of DESIGN.md; injectivity of those layouts is proved in C10). *)
From DtlsV Require Import Lib.Bytes Rec.Window Rec.Recv Rec.RecvSound.
Open Scope N_scope.

(* A record that claims protection (non-zero epoch, any type but change_cipher_spec) and does
   not authenticate is discarded without effect, in every state of the connection: no output
   (nothing delivered, no alert, nothing closed) and the state is unchanged, except that a
   record claiming the next epoch (or arriving before keys exist) may wait in the bounded queue. *)
Theorem C05_forged_inert :
  forall (W : nat) (lease : bool) (s : rstate) (w : wire),
    w_epoch w <> 0 -> w_ctype w <> ct_ccs -> w_auth w = None ->
    snd (recv W lease s w) = [] /\
    same_except_queue s (fst (recv W lease s w)) /\
    (r_queue (fst (recv W lease s w)) = r_queue s \/
     (r_queue (fst (recv W lease s w)) = r_queue s ++ [w] /\ (length (r_queue s) < max_queue)%nat /\
      lease = true /\ (w_epoch w = r_epoch s + 1 \/ r_init s = false))).
Proof. exact forged_inert. Qed.
Print Assumptions C05_forged_inert.

Theorem C05_forged_inert_established :
  forall (W : nat) (lease : bool) (s : rstate) (w : wire),
    w_epoch w <> 0 -> w_ctype w <> ct_ccs -> w_auth w = None -> r_init s = true -> w_epoch w <= r_epoch s ->
    recv W lease s w = (s, []).
Proof. exact forged_inert_established. Qed.
Print Assumptions C05_forged_inert_established.

(* ... in particular the replay window is untouched, so the genuine record bearing that
   sequence number is still accepted afterwards *)
Theorem C05_forged_keeps_window :
  forall (W : nat) (lease : bool) (s : rstate) (w : wire),
    w_epoch w <> 0 -> w_ctype w <> ct_ccs -> w_auth w = None ->
    forall e, get_win W e (r_wins (fst (recv W lease s w))) = get_win W e (r_wins s).
Proof. exact forged_keeps_window. Qed.
Print Assumptions C05_forged_keeps_window.

(* Whatever is handed to Read is the content of ONE authentic application-data record of a
   protected epoch that carries our connection id; application data of epoch 0 is never delivered *)
Theorem C05_deliver_only_authentic :
  forall (W : nat) (lease : bool) (s : rstate) (w : wire) (p : bytes) (e q : N),
    In (p, e, q) (deliveries (snd (recv W lease s w))) ->
    e = w_epoch w /\ q = w_seq w /\ w_epoch w <> 0 /\ w_auth w = Some (CApp p) /\ r_init s = true /\
    bytes_eqb (r_cid s) (if w_ctype w =? ct_cid then w_cid w else []) = true.
Proof. exact deliver_only_authentic. Qed.
Print Assumptions C05_deliver_only_authentic.

(* over every operation history: each delivered payload has its own record number *)
Theorem C05_one_payload_per_record :
  forall (W : nat) (cid : bytes) (rrc : bool) (ops : list op), N.of_nat W <= maxseq48 ->
    NoDup (recnums (deliveries (snd (run_ops W (rinit cid rrc) ops)))).
Proof. exact deliveries_nodup. Qed.
Print Assumptions C05_one_payload_per_record.

(* an authentic application record for an established, open connection is delivered exactly when
   the replay detector of its epoch accepts its number *)
Theorem C05_authentic_delivered_iff_window :
  forall (W : nat) (lease : bool) (s : rstate) (w : wire) (p : bytes),
    r_closed s = false -> r_init s = true -> w_epoch w <> 0 -> w_epoch w <= r_epoch s ->
    w_ctype w <> ct_ccs -> w_auth w = Some (CApp p) ->
    (len (r_cid s) = 0 \/ w_ctype w = ct_cid) ->
    bytes_eqb (r_cid s) (if w_ctype w =? ct_cid then w_cid w else []) = true ->
    deliveries (snd (recv W lease s w)) =
      if check maxseq48 (get_win W (w_epoch w) (r_wins s)) (w_seq w) then [(p, w_epoch w, w_seq w)] else [].
Proof. exact authentic_delivered_iff_window. Qed.
Print Assumptions C05_authentic_delivered_iff_window.

(* non-vacuity: handshake prefix, a forgery, the genuine record, its replay *)
Example C05_example :
  let pre := [InitCipher;
              Arrive {| w_ctype := 20; w_epoch := 0; w_seq := 4; w_cid := []; w_auth := None; w_clear := CCCS |};
              Arrive {| w_ctype := 22; w_epoch := 1; w_seq := 0; w_cid := []; w_auth := Some (CHs true false); w_clear := CBad |}] in
  let forged := {| w_ctype := 23; w_epoch := 1; w_seq := 1; w_cid := []; w_auth := None; w_clear := CBad |} in
  let genuine := {| w_ctype := 23; w_epoch := 1; w_seq := 1; w_cid := []; w_auth := Some (CApp [7]); w_clear := CBad |} in
  deliveries (snd (run_ops 64 (rinit [] false) (pre ++ [Arrive forged; Arrive genuine; Arrive genuine])))
  = [([7], 1, 1)].
Proof. vm_compute. reflexivity. Qed.

(* Established connections (conn.go handleRecordContent once the handshake is complete): an
   unprotected alert is discarded; every other record is treated as above, so the statements about
   protected records hold unchanged. *)
Theorem C05_unprotected_alert_inert_established :
  forall W lease s w, unprotected_alert w = true -> recv_est true W lease s w = (s, []).
Proof. exact unprotected_alert_inert_established. Qed.
Print Assumptions C05_unprotected_alert_inert_established.

Theorem C05_established_is_inert_or_recv :
  forall est W lease s w,
    recv_est est W lease s w = (s, []) \/ recv_est est W lease s w = recv W lease s w.
Proof. exact recv_est_cases. Qed.
Print Assumptions C05_established_is_inert_or_recv.

Theorem C05_established_delivers_only_what_recv_delivers :
  forall est W lease s w p e q,
    In (ODeliver p e q) (snd (recv_est est W lease s w)) ->
    In (ODeliver p e q) (snd (recv W lease s w)).
Proof. exact deliver_only_authentic_est. Qed.
Print Assumptions C05_established_delivers_only_what_recv_delivers.

(* Since the ChangeCipherSpec repair (a CCS-typed record claiming a protected epoch is discarded)
   the property's own exclusion "any content type but change_cipher_spec" is no longer needed:
   EVERY record that claims a protected epoch and does not authenticate is inert. *)
Theorem C05_forged_inert_any_type :
  forall W lease s w,
    w_epoch w <> 0 -> w_auth w = None ->
    snd (recv W lease s w) = [] /\
    same_except_queue s (fst (recv W lease s w)) /\
    (r_queue (fst (recv W lease s w)) = r_queue s \/
     (r_queue (fst (recv W lease s w)) = r_queue s ++ [w] /\ (length (r_queue s) < max_queue)%nat /\
      lease = true /\ (w_epoch w = r_epoch s + 1 \/ r_init s = false))).
Proof. exact forged_inert_any_type. Qed.
Print Assumptions C05_forged_inert_any_type.

Theorem C05_unprotected_ccs_inert_established :
  forall W lease s w, unprotected_ccs w = true -> recv_est true W lease s w = (s, []).
Proof. exact unprotected_ccs_inert_established. Qed.
Print Assumptions C05_unprotected_ccs_inert_established.

(* ---- Unprotected application data, in every handshake state (conn.go handleApplicationDataRecord /
   parkEarlyApplicationData / takeEarlyApplicationData / Read; model: [conn], [cstep], [crun] of Rec/Recv.v).
   An application_data record of epoch 0 is refused whether or not the handshake is complete: the record
   layer is unchanged, nothing is handed to Read, nothing is parked for a later Read. *)
Theorem C05_unprotected_appdata_never_delivered :
  forall (W : nat) (k : conn) (w : wire) (p : bytes),
    w_epoch w = 0 -> w_clear w = CApp p -> cstep W k (KArrive w) = (k, []).
Proof. exact unprotected_appdata_never_delivered. Qed.
Print Assumptions C05_unprotected_appdata_never_delivered.

(* ... hence no later Read returns it: it vanishes from every history *)
Theorem C05_unprotected_appdata_vanishes :
  forall (W : nat) (k : conn) (w : wire) (p : bytes) (ops : list cop),
    w_epoch w = 0 -> w_clear w = CApp p -> crun W k (KArrive w :: ops) = crun W k ops.
Proof. exact unprotected_appdata_vanishes. Qed.
Print Assumptions C05_unprotected_appdata_vanishes.

(* whatever its content type and body, a record of epoch 0 adds nothing to what Read will return *)
Theorem C05_unprotected_record_adds_nothing :
  forall (W : nat) (k : conn) (w : wire),
    w_epoch w = 0 ->
    k_early (fst (cstep W k (KArrive w))) = k_early k /\ k_chan (fst (cstep W k (KArrive w))) = k_chan k /\
    snd (cstep W k (KArrive w)) = [].
Proof. exact unprotected_record_adds_nothing. Qed.
Print Assumptions C05_unprotected_record_adds_nothing.

(* the guard is needed in EVERY handshake state: in the variant of the model whose refusal is conditioned
   on "handshake complete" a record nothing authenticates, arriving while the handshake runs, is parked
   and is the first payload Read returns (replayed on the implementation by leg hsinject) *)
Theorem C05_unprotected_guard_if_established_refuted :
  exists (w : wire) (p : bytes),
    w_epoch w = 0 /\ w_auth w = None /\ w_clear w = CApp p /\
    snd (crun_with recv_guard_if_established 64 (cinit [] false) [KArrive w; KEstablish; KRead]) = [p] /\
    snd (crun 64 (cinit [] false) [KArrive w; KEstablish; KRead]) = [].
Proof. exact guard_if_established_refuted. Qed.
Print Assumptions C05_unprotected_guard_if_established_refuted.

Theorem C05_guard_variant_agrees_elsewhere :
  forall est W lease s w,
    est = true \/ unprotected_app w = None ->
    recv_guard_if_established est W lease s w = recv_est est W lease s w.
Proof. exact guard_variant_agrees_elsewhere. Qed.
Print Assumptions C05_guard_variant_agrees_elsewhere.
