(* C05 (DTLS 1.3 leg, rec13) - Record authenticity for the DTLS 1.3 record layer.
   Statements only; model Rec/Rec13.v (receive path of conn.go for unified-header records as implemented),
   proofs Rec/Rec13Sound.v.  The cryptographic idealisation is an explicit premise wherever it is used:
   [forall e q a c i, aopen e q a c = Some i -> In (e, q, a, c, i) log] - the AEAD of generation e opens only
   (record number, additional data, ciphertext) tuples that the peer sealed under generation e ([log]). *)
From DtlsV Require Import Lib.Bytes Rec.Window Rec.WindowSound Rec.Rec13 Rec.Rec13Sound.
From DtlsV Require Rec.RecvSound Rec.SendSound.
From Coq Require Import Permutation.
Open Scope N_scope.

(* A DTLS 1.3 ciphertext record (unified header) that does not authenticate - no authorised retained generation
   with its epoch bits opens it at the record number rebuilt from its unmasked bits - is discarded without
   effect in EVERY state: no output at all (nothing delivered, no alert, nothing handed to the handshake layer,
   nothing closed) and the state is unchanged (replay detectors, highest record numbers, generations, remote
   epoch), except that it may occupy ONE slot of the bounded queue of parked records: only when it came from
   the socket, and only when no keys for the current epoch exist yet or its epoch bits are those of the next
   epoch and of no authorised retained generation. *)
Theorem C05_13_forged_inert :
  forall (snmask : N -> bytes -> N) (aopen : N -> N -> bytes -> bytes -> option bytes)
    (hs_room : bytes -> bool) (W : nat) (lease : bool) (s : rstate) 
    (b : bytes),
  auth_cipher snmask aopen s b = None ->
  snd (recv_cipher snmask aopen hs_room W lease s b) = [] /\
  same_except_queue s (fst (recv_cipher snmask aopen hs_room W lease s b)) /\
  (r_queue (fst (recv_cipher snmask aopen hs_room W lease s b)) = r_queue s \/
   r_queue (fst (recv_cipher snmask aopen hs_room W lease s b)) = r_queue s ++ [b] /\
   (length (r_queue s) < max_queue)%nat /\
   lease = true /\
   (exists (h : uhdr) (ct : bytes),
      parse_crec s b = Some (h, ct) /\
      (has_prot s = false \/
       open_record snmask aopen s h ct = OpenInvalidEpoch /\
       queueable_epoch (u_elow h) (r_epoch s) = true))).
Proof. exact forged_inert. Qed.
Print Assumptions C05_13_forged_inert.

(* With keys for the current epoch and an authorised retained generation carrying the record's epoch bits (any
   alteration of a genuine record, or a re-labelling with the bits of a known epoch) NOTHING changes at all. *)
Theorem C05_13_forged_inert_established :
  forall (snmask : N -> bytes -> N) (aopen : N -> N -> bytes -> bytes -> option bytes)
    (hs_room : bytes -> bool) (W : nat) (lease : bool) (s : rstate) 
    (b : bytes) (h : uhdr) (ct : bytes),
  auth_cipher snmask aopen s b = None ->
  parse_crec s b = Some (h, ct) ->
  has_prot s = true ->
  (exists e : N, In e (read_candidates s (u_elow h)) /\ e <= r_epoch s) ->
  recv_cipher snmask aopen hs_room W lease s b = (s, []).
Proof. exact forged_inert_established. Qed.
Print Assumptions C05_13_forged_inert_established.

(* A whole datagram of which no record authenticates: no output, state unchanged except the queue, which never
   exceeds its limit. *)
Theorem C05_13_forged_datagram_inert :
  forall (snmask : N -> bytes -> N) (aopen : N -> N -> bytes -> bytes -> option bytes)
    (hs_room : bytes -> bool) (W : nat) (s : rstate) (d : bytes) (rs : list bytes),
  unpack_datagram13 s d = Some rs ->
  Forall (fun r : list N => is_ct13 (hd 0 r) = true /\ auth_cipher snmask aopen s r = None) rs ->
  snd (recv13 snmask aopen hs_room W s d) = [] /\
  same_except_queue s (fst (recv13 snmask aopen hs_room W s d)) /\
  (length (r_queue (fst (recv13 snmask aopen hs_room W s d))) <=
   Nat.max (length (r_queue s)) max_queue)%nat.
Proof. exact forged_datagram_inert. Qed.
Print Assumptions C05_13_forged_datagram_inert.

(* The bookkeeping a forged record can cause is bounded over every history: the queue holds at most 100 records. *)
Theorem C05_13_queue_bounded :
  forall (snmask : N -> bytes -> N) (aopen : N -> N -> bytes -> bytes -> option bytes)
    (hs_room : bytes -> bool) (W : nat) (cid : bytes) (neg rrc : bool) 
    (ops : list op),
  (length (r_queue (fst (run_ops snmask aopen hs_room W (rinit cid neg rrc) ops))) <=
   max_queue)%nat.
Proof. exact queue_bounded. Qed.
Print Assumptions C05_13_queue_bounded.

(* PREMISE (AEAD idealisation, INT-CTXT): a generation's AEAD opens only tuples (record number = nonce,
   additional data, ciphertext) that were sealed under that generation - [log] is what the peer sealed.
   Whatever Read receives is the content of ONE application-data record the peer sealed under a generation
   the receiver retains and has authorised (epoch <> 0, epoch <= remote epoch), at the sender's record number
   (= the number rebuilt from the unmasked wire bits against that epoch's highest number), with additional
   data equal to the header as received (C/S/L bits, epoch bits, connection id, clear record-number bits, length). *)
Theorem C05_13_deliver_only_sealed :
  forall (snmask : N -> bytes -> N) (aopen : N -> N -> bytes -> bytes -> option bytes)
    (hs_room : bytes -> bool) (log : list (N * N * bytes * bytes * bytes)),
  (forall (e q : N) (a c i : bytes), aopen e q a c = Some i -> In (e, q, a, c, i) log) ->
  forall (W : nat) (lease : bool) (s : rstate) (b p : bytes) (e q : N),
  In (p, e, q) (deliveries (snd (recv_record snmask aopen hs_room W lease s b))) ->
  e <> 0 /\
  q <= maxseq48 /\
  has_gen s e = true /\
  e <= r_epoch s /\
  (exists (h : uhdr) (ct inner : bytes),
     parse_crec s b = Some (h, ct) /\
     e mod 4 = u_elow h /\
     (let clear := apply_mask h (snmask e ct) in
      q = reconstruct (u_seq clear) (u_sbit clear) (get_high e (r_high s)) /\
      In (e, q, uh_marshal clear, ct, inner) log /\ inner_unmarshal inner = Some (p, 23))).
Proof. exact deliver_only_sealed. Qed.
Print Assumptions C05_13_deliver_only_sealed.

(* Over every operation history (datagrams, key installations incl. KeyUpdate generations, epoch changes,
   replays of the parked queue): every payload accepted for Read - handed over at once, or parked because the local
   handshake had not completed yet - was sealed by the peer as application data (inner type 23). *)
Theorem C05_13_every_delivery_sealed :
  forall (snmask : N -> bytes -> N) (aopen : N -> N -> bytes -> bytes -> option bytes)
    (hs_room : bytes -> bool) (log : list (N * N * bytes * bytes * bytes)),
  (forall (e q : N) (a c i : bytes), aopen e q a c = Some i -> In (e, q, a, c, i) log) ->
  forall (W : nat) (ops : list op) (s : rstate) (p : bytes) (e q : N),
  In (p, e, q) (deliveries (snd (run_ops snmask aopen hs_room W s ops))) ->
  e <> 0 /\ (exists a c i : bytes, In (e, q, a, c, i) log /\ inner_unmarshal i = Some (p, 23)).
Proof. exact run_deliver_sealed. Qed.
Print Assumptions C05_13_every_delivery_sealed.

(* ... and so is whatever Read actually returns, the payloads parked during the handshake included. *)
Theorem C05_13_every_read_sealed :
  forall (snmask : N -> bytes -> N) (aopen : N -> N -> bytes -> bytes -> option bytes)
    (hs_room : bytes -> bool) (log : list (N * N * bytes * bytes * bytes)),
  (forall (e q : N) (a c i : bytes), aopen e q a c = Some i -> In (e, q, a, c, i) log) ->
  forall (W : nat) (ops : list op) (s : rstate) (p : bytes) (e q : N),
  r_early s = [] ->
  In (p, e, q) (reads (snd (run_ops snmask aopen hs_room W s ops))) ->
  e <> 0 /\ (exists a c i : bytes, In (e, q, a, c, i) log /\ inner_unmarshal i = Some (p, 23)).
Proof. exact run_read_sealed. Qed.
Print Assumptions C05_13_every_read_sealed.

(* Over every history: every committed replay slot - the endpoint commits one exactly when it delivers or parks data, acts on
   an alert, hands a handshake / KeyUpdate / ACK record to the handshake layer or handles a return-routability message
   of a PROTECTED record - is a tuple the peer sealed.  An unprotected (epoch 0) record never commits a slot: nothing
   authenticates its number, so it must not move the window (repaired: one forged epoch-0 record numbered 2^48-1 used to
   make every genuine handshake record a replay). *)
Theorem C05_13_every_commit_sealed :
  forall (snmask : N -> bytes -> N) (aopen : N -> N -> bytes -> bytes -> option bytes)
    (hs_room : bytes -> bool) (log : list (N * N * bytes * bytes * bytes)),
  (forall (e q : N) (a c i : bytes), aopen e q a c = Some i -> In (e, q, a, c, i) log) ->
  forall (W : nat) (ops : list op) (s : rstate) (e q : N),
  In (e, q) (marks (snd (run_ops snmask aopen hs_room W s ops))) ->
  exists a c i : bytes, In (e, q, a, c, i) log.
Proof. exact run_marks_sealed. Qed.
Print Assumptions C05_13_every_commit_sealed.

(* Any output at all of a ciphertext record implies the peer sealed something that opens it. *)
Theorem C05_13_effect_only_sealed :
  forall (snmask : N -> bytes -> N) (aopen : N -> N -> bytes -> bytes -> option bytes)
    (hs_room : bytes -> bool) (log : list (N * N * bytes * bytes * bytes)),
  (forall (e q : N) (a c i : bytes), aopen e q a c = Some i -> In (e, q, a, c, i) log) ->
  forall (W : nat) (lease : bool) (s : rstate) (b : bytes),
  snd (recv_cipher snmask aopen hs_room W lease s b) <> [] ->
  exists (e q : N) (a c i : bytes), In (e, q, a, c, i) log.
Proof. exact effect_only_sealed. Qed.
Print Assumptions C05_13_effect_only_sealed.

(* "Altered in any byte": a record that authenticates is BYTE FOR BYTE a record built from a tuple the peer sealed:
   its header with the record-number bits unmasked is the sealed additional data (flags byte incl. fixed bits,
   C/S/L and epoch bits; connection id; record-number bytes; length) and its body is the sealed ciphertext+tag. *)
Theorem C05_13_authentic_is_emitted :
  forall (snmask : N -> bytes -> N) (aopen : N -> N -> bytes -> bytes -> option bytes),
  (bytes -> bool) ->
  forall log : list (N * N * bytes * bytes * bytes),
  (forall (e q : N) (a c i : bytes), aopen e q a c = Some i -> In (e, q, a, c, i) log) ->
  forall (s : rstate) (b body : bytes) (t q e : N),
  bytes_ok b = true ->
  auth_cipher snmask aopen s b = Some (body, t, q, e) ->
  exists a c i : bytes, In (e, q, a, c, i) log /\ emitted_wire snmask (e, q, a, c, i) b.
Proof. exact authentic_is_emitted. Qed.
Print Assumptions C05_13_authentic_is_emitted.

(* ... hence a record differing in any byte from every record built from the peer's sealed tuples (altered header,
   connection id, sequence number, epoch bits, length, ciphertext, tag; truncated; extended) does not
   authenticate, and is inert by C05_13_forged_inert. *)
Theorem C05_13_altered_not_authentic :
  forall (snmask : N -> bytes -> N) (aopen : N -> N -> bytes -> bytes -> option bytes),
  (bytes -> bool) ->
  forall log : list (N * N * bytes * bytes * bytes),
  (forall (e q : N) (a c i : bytes), aopen e q a c = Some i -> In (e, q, a, c, i) log) ->
  forall (s : rstate) (b : bytes),
  bytes_ok b = true ->
  (forall x : N * N * bytes * bytes * bytes, In x log -> ~ emitted_wire snmask x b) ->
  auth_cipher snmask aopen s b = None.
Proof. exact altered_not_authentic. Qed.
Print Assumptions C05_13_altered_not_authentic.

(* The unified-header parser is exact: re-marshalling what was parsed gives back the very bytes. *)
Theorem C05_13_parse_then_marshal :
  forall (n : nat) (b : bytes) (h : uhdr) (rest : bytes),
  bytes_ok b = true ->
  uh_unmarshal n b = Some (h, rest) ->
  (bit_c (hd 0 b) = true -> (0 < n)%nat) -> b = uh_marshal h ++ rest.
Proof. exact uh_unmarshal_inv. Qed.
Print Assumptions C05_13_parse_then_marshal.

(* ... and every well-formed header is read back as written (8/16-bit record numbers, optional length, connection id). *)
Theorem C05_13_marshal_then_parse :
  forall (n : nat) (h : uhdr) (rest : list N),
  uh_wf n h -> uh_unmarshal n (uh_marshal h ++ rest) = Some (h, rest).
Proof. exact uh_marshal_unmarshal. Qed.
Print Assumptions C05_13_marshal_then_parse.

(* Record-number masking is an involution on in-range record-number fields. *)
Theorem C05_13_mask_involutive :
  forall (h : uhdr) (m : N), uh_seq_ok h -> apply_mask (apply_mask h m) m = h.
Proof. exact apply_mask_invol. Qed.
Print Assumptions C05_13_mask_involutive.

(* ACK records reach the handshake layer only when they authenticate under a protected epoch; an unprotected
   (epoch 0) ACK is discarded (the repaired defect: a forged cleartext ACK used to commit a pending KeyUpdate). *)
Theorem C05_13_ack_only_authentic :
  forall (snmask : N -> bytes -> N) (aopen : N -> N -> bytes -> bytes -> option bytes)
    (hs_room : bytes -> bool) (W : nat) (lease : bool) (s : rstate) 
    (b : bytes) (e q : N) (body : bytes),
  In (OAck e q body) (snd (recv_record snmask aopen hs_room W lease s b)) ->
  e <> 0 /\ auth_cipher snmask aopen s b = Some (body, 26, q, e).
Proof. exact ack_only_authentic. Qed.
Print Assumptions C05_13_ack_only_authentic.

(* Unprotected (legacy-header) records never deliver application data (repaired: they are now refused silently,
   not answered with a fatal alert). *)
Theorem C05_13_unprotected_never_delivers :
  forall (hs_room : bytes -> bool) (W : nat) (lease : bool) (s : rstate) (b : bytes),
  deliveries (snd (recv_legacy hs_room W lease s b)) = [].
Proof. exact legacy_deliveries. Qed.
Print Assumptions C05_13_unprotected_never_delivers.

(* The code tries the old generations in Go-map order; whenever at most one authorised generation opens the record
   the result does not depend on that order. *)
Theorem C05_13_candidate_order_irrelevant :
  forall (snmask : N -> bytes -> N) (aopen : N -> N -> bytes -> bytes -> option bytes)
    (s : rstate) (h : uhdr) (ct : bytes) (cs1 cs2 : list N),
  Permutation cs1 cs2 ->
  cands_agree snmask aopen s h ct cs1 ->
  open_cands snmask aopen s h ct cs1 = open_cands snmask aopen s h ct cs2.
Proof. exact open_cands_perm. Qed.
Print Assumptions C05_13_candidate_order_irrelevant.

(* UNPROTECTED RECORDS.  Once the handshake is complete a legacy-header record (alert, handshake or ACK typed - nothing
   else gets past UnpackDatagram13) has no output, commits no replay slot, changes no highest number, generation,
   epoch or closed flag.  All it can still do: make the code allocate (empty) replay detectors and, when it claims
   the next epoch, take one slot of the bounded queue.  (Repaired defects: an unprotected fatal alert used to close the
   connection, an unprotected ACK to commit a KeyUpdate, an unprotected KeyUpdate to provoke a fatal alert.) *)
Theorem C05_13_legacy_inert_established :
  (N -> bytes -> N) ->
  (N -> N -> bytes -> bytes -> option bytes) ->
  forall (hs_room : bytes -> bool) (W : nat) (lease : bool) (s : rstate) (b : list N),
  r_estab s = true ->
  is_plain13 (hd 0 b) = true ->
  snd (recv_legacy hs_room W lease s b) = [] /\
  keys_same s (fst (recv_legacy hs_room W lease s b)) /\
  r_high (fst (recv_legacy hs_room W lease s b)) = r_high s /\
  r_closed (fst (recv_legacy hs_room W lease s b)) = r_closed s /\
  (forall e : N,
   snd (get_win W e (r_wins (fst (recv_legacy hs_room W lease s b)))) =
   snd (get_win W e (r_wins s))) /\
  (r_queue (fst (recv_legacy hs_room W lease s b)) = r_queue s \/
   r_queue (fst (recv_legacy hs_room W lease s b)) = r_queue s ++ [b]).
Proof. exact legacy_inert_established. Qed.
Print Assumptions C05_13_legacy_inert_established.

(* Over every history after establishment (from a state whose queue holds only records UnpackDatagram13 let through):
   every visible output comes out of the ciphertext path, i.e. from a record that authenticated (C05_13_forged_inert). *)
Theorem C05_13_established_outputs_from_ciphertext :
  forall (snmask : N -> bytes -> N) (aopen : N -> N -> bytes -> bytes -> option bytes)
    (hs_room : bytes -> bool) (W : nat) (o : out) (ops : list op) 
    (s : rstate),
  r_estab s = true ->
  r_early s = [] ->
  QI s ->
  In o (snd (run_ops snmask aopen hs_room W s ops)) ->
  exists (lease : bool) (s' : rstate) (b : bytes),
    r_estab s' = true /\ In o (snd (recv_cipher snmask aopen hs_room W lease s' b)).
Proof. exact established_outputs_from_ciphertext. Qed.
Print Assumptions C05_13_established_outputs_from_ciphertext.

(* That queue invariant holds in every state reachable from the initial one. *)
Theorem C05_13_queue_typed_reachable :
  forall (snmask : N -> bytes -> N) (aopen : N -> N -> bytes -> bytes -> option bytes)
    (hs_room : bytes -> bool) (W : nat) (ops : list op) (s : rstate),
  QI s -> QI (fst (run_ops snmask aopen hs_room W s ops)).
Proof. exact queue_typed_reachable. Qed.
Print Assumptions C05_13_queue_typed_reachable.

(* PREMISE ideal (INT-CTXT).  An established connection acts only on records the peer sealed, EPOCH 0 INCLUDED: every
   output - delivery, alert acted on, alert written, handshake / ACK record handed on, close, Read error - and every
   committed replay slot traces back to a sealed tuple.  Exempt remain only: the time before establishment (the
   handshake is made of unprotected records; an unprotected alert aborts it), detector allocation and the bounded queue. *)
Theorem C05_13_established_effects_sealed :
  forall (snmask : N -> bytes -> N) (aopen : N -> N -> bytes -> bytes -> option bytes)
    (hs_room : bytes -> bool) (log : list (N * N * bytes * bytes * bytes)),
  (forall (e q : N) (a c i : bytes), aopen e q a c = Some i -> In (e, q, a, c, i) log) ->
  forall (W : nat) (ops : list op) (s : rstate) (o : out),
  r_estab s = true ->
  r_early s = [] ->
  QI s ->
  In o (snd (run_ops snmask aopen hs_room W s ops)) ->
  match o with
  | OMark e q => exists a c i : bytes, In (e, q, a, c, i) log
  | OAlertOut _ _ | OClosed | OErr => exists (e q : N) (a c i : bytes), In (e, q, a, c, i) log
  | _ => exists (e0 q0 : N) (a c i : bytes), In (e0, q0, a, c, i) log
  end.
Proof. exact established_effects_sealed. Qed.
Print Assumptions C05_13_established_effects_sealed.

(* Regression item: 15 fefd 0000 00000000102a 0002 0250 (alert, epoch 0, fatal) on an established connection: no output,
   not closed, no commit. *)
Theorem C05_13_unprotected_alert_inert_example :
  has_prot est_state = true /\
  r_closed est_state = false /\
  (forall (snmask : N -> bytes -> N) (aopen : N -> N -> bytes -> bytes -> option bytes)
     (hs_room : bytes -> bool),
   snd (recv13 snmask aopen hs_room 64 est_state plain_alert) = [] /\
   r_closed (fst (recv13 snmask aopen hs_room 64 est_state plain_alert)) = false /\
   latest
     (snd (get_win 64 0 (r_wins (fst (recv13 snmask aopen hs_room 64 est_state plain_alert))))) =
   0).
Proof. exact unprotected_alert_inert_example. Qed.
Print Assumptions C05_13_unprotected_alert_inert_example.

(* ... while before establishment the same datagram aborts the handshake (as coded, and as in DTLS 1.2). *)
Theorem C05_13_unprotected_alert_during_handshake :
  forall (snmask : N -> bytes -> N) (aopen : N -> N -> bytes -> bytes -> option bytes)
    (hs_room : bytes -> bool),
  snd (recv13 snmask aopen hs_room 64 (rinit [] false false) plain_alert) =
  [OAlertIn 0 4138 2 80; OClosed].
Proof. exact unprotected_alert_during_handshake. Qed.
Print Assumptions C05_13_unprotected_alert_during_handshake.

(* Once the handshake is complete only authentic handshake records of a protected epoch (KeyUpdate, NewSessionTicket,
   retransmitted final flights) reach the handshake layer; unprotected ones are discarded before reassembly (the
   repaired defect F43: a forged cleartext KeyUpdate used to be answered with a fatal alert). *)
Theorem C05_13_hs_only_authentic_established :
  forall (snmask : N -> bytes -> N) (aopen : N -> N -> bytes -> bytes -> option bytes)
    (hs_room : bytes -> bool) (W : nat) (lease : bool) (s : rstate) 
    (b : bytes) (e q : N) (body : bytes),
  r_estab s = true ->
  In (OHs e q body) (snd (recv_record snmask aopen hs_room W lease s b)) ->
  e <> 0 /\ auth_cipher snmask aopen s b = Some (body, 22, q, e).
Proof. exact hs_only_authentic_established. Qed.
Print Assumptions C05_13_hs_only_authentic_established.

(* Regression item: the unprotected KeyUpdate record 16fefd0000 0000000010a7 000d 18000001 0007 000000 000001 00 on an
   established connection: no output, no commit. *)
Theorem C05_13_unprotected_handshake_inert_example :
  forall (snmask : N -> bytes -> N) (aopen : N -> N -> bytes -> bytes -> option bytes)
    (hs_room : bytes -> bool),
  snd (recv13 snmask aopen hs_room 64 est_state plain_keyupdate) = [] /\
  r_high (fst (recv13 snmask aopen hs_room 64 est_state plain_keyupdate)) = r_high est_state /\
  latest
    (snd
       (get_win 64 0 (r_wins (fst (recv13 snmask aopen hs_room 64 est_state plain_keyupdate))))) =
  0.
Proof. exact unprotected_handshake_inert_example. Qed.
Print Assumptions C05_13_unprotected_handshake_inert_example.

(* ... while the handshake is still running unprotected handshake records are accepted (they are the handshake). *)
Theorem C05_13_unprotected_handshake_during_handshake :
  forall (snmask : N -> bytes -> N) (aopen : N -> N -> bytes -> bytes -> option bytes),
  snd (recv13 snmask aopen (fun _ : bytes => true) 64 (rinit [] false false) plain_keyupdate) =
  [OHs 0 4263 [24; 0; 0; 1; 0; 7; 0; 0; 0; 0; 0; 1; 0]].
Proof. exact unprotected_handshake_during_handshake. Qed.
Print Assumptions C05_13_unprotected_handshake_during_handshake.

(* ... while an unprotected ACK has no effect (regression item of the repaired defect). *)
Theorem C05_13_unprotected_ack_inert_example :
  forall (snmask : N -> bytes -> N) (aopen : N -> N -> bytes -> bytes -> option bytes)
    (hs_room : bytes -> bool),
  snd (recv13 snmask aopen hs_room 64 est_state plain_ack) = [] /\
  r_high (fst (recv13 snmask aopen hs_room 64 est_state plain_ack)) = r_high est_state.
Proof. exact unprotected_ack_inert_example. Qed.
Print Assumptions C05_13_unprotected_ack_inert_example.

(* non-vacuity: the premise is satisfiable and the model does deliver: a receiver with application keys, the
   peer's log holds one sealed record; the genuine wire record is delivered once, its replay and a copy with one
   bit of the tag flipped are not *)
Definition ex_log : list (N * N * bytes * bytes * bytes) :=
  [(3, 7, [47; 0; 7; 0; 19], repeat 9 19, [104; 105; 23])].
Definition ex_open (e q : N) (a c : bytes) : option bytes :=
  match ex_log with
  | [(e', q', a', c', i)] => if (e =? e') && (q =? q') && bytes_eqb a a' && bytes_eqb c c' then Some i else None
  | _ => None
  end.
Example C05_13_example_premise : forall e q a c i, ex_open e q a c = Some i -> In (e, q, a, c, i) ex_log.
Proof.
  intros e q a c i. unfold ex_open, ex_log.
  destruct ((e =? 3) && (q =? 7) && bytes_eqb a [47; 0; 7; 0; 19] && bytes_eqb c (repeat 9 19)) eqn:E; [|discriminate].
  intro H. inversion H; subst. apply andb_prop in E. destruct E as [E Hc]. apply andb_prop in E. destruct E as [E Ha].
  apply andb_prop in E. destruct E as [He Hq]. apply N.eqb_eq in He, Hq. apply bytes_eqb_eq in Ha, Hc. subst. now left.
Qed.
Example C05_13_example :
  let s := mk_rstate 3 (Some 3) [2] [] [] [] [] false false false true [] in
  let genuine := [47; 0; 7; 0; 19] ++ repeat 9 19 in
  let forged := [47; 0; 7; 0; 19] ++ repeat 9 18 ++ [8] in
  deliveries (snd (run_ops (fun _ _ => 0) ex_open (fun _ => true) 64 s
                           [Arrive forged; Arrive genuine; Arrive genuine; Arrive forged])) = [([104; 105], 3, 7)].
Proof. vm_compute. reflexivity. Qed.
