(* C06 - Anti-replay: no payload is delivered twice, the window tolerates reordering.
   Only statements closed by [exact]; proofs live in Rec/WindowSound.v. *)
From DtlsV Require Import Lib.Bytes Gen.Generated Rec.Window Rec.WindowSound Rec.WindowRun Rec.Recv Rec.RecvSound.
Open Scope N_scope.

(* For every window size W (1 <= W <= maxseq), every arrival sequence xs (with repetitions,
   any order, any length): no sequence number is accepted twice, and only arrived numbers are. *)
Theorem C06_accepted_at_most_once :
  forall (W : nat) (maxseq : N) (xs : list N), 0 < maxseq -> N.of_nat W <= maxseq ->
    NoDup (snd (run maxseq (win_init W) xs)).
Proof. exact run_nodup. Qed.
Print Assumptions C06_accepted_at_most_once.

Theorem C06_accepted_only_arrived :
  forall (maxseq : N) (xs : list N) (s : win) (x : N),
    In x (snd (run maxseq s xs)) -> In x xs.
Proof. exact run_accepted_subset. Qed.
Print Assumptions C06_accepted_only_arrived.

(* After any prefix of arrivals, a number not yet accepted that is ahead of the newest accepted
   number or fewer than W behind it is accepted when it arrives. *)
Theorem C06_window_tolerance :
  forall (W : nat) (maxseq : N) (pre : list N) (x : N),
    0 < maxseq -> N.of_nat W <= maxseq -> x <= maxseq ->
    let '(s, acc) := run maxseq (win_init W) pre in
    ~ In x acc -> (latest s < x \/ latest s - x < N.of_nat W) -> snd (arrive maxseq s x) = true.
Proof. exact window_tolerance. Qed.
Print Assumptions C06_window_tolerance.

(* [latest] really is the newest accepted number *)
Theorem C06_latest_is_newest :
  forall (W : nat) (maxseq : N) (xs : list N), 0 < maxseq -> N.of_nat W <= maxseq ->
    let '(s, acc) := run maxseq (win_init W) xs in
    (forall y, In y acc -> y <= latest s) /\ (0 < latest s -> In (latest s) acc).
Proof. exact run_latest_max. Qed.
Print Assumptions C06_latest_is_newest.

(* the check is exactly the abstract rule over the set of accepted numbers *)
Theorem C06_check_refines_set :
  forall (W : nat) (maxseq : N) (s : win) (S : list N) (x : N), Inv W s S ->
    check maxseq s x = true <->
    x <= maxseq /\ (latest s < x \/ (latest s - x < N.of_nat W /\ ~ In x S)).
Proof. exact check_spec. Qed.
Print Assumptions C06_check_refines_set.

(* At the level of the connection (Rec/Recv.v: the receive path of conn.go with its order of
   effects): over EVERY operation history - arrivals in any order with any repetition, before and
   after key installation, replays of the future-epoch queue, across epoch changes - no record
   number is handed to Read twice.  Since every delivery is the content of an authentic record
   (C05_deliver_only_authentic) and the peer never seals two records under one number (C09), no
   payload is delivered more often than it was written. *)
Theorem C06_no_double_delivery :
  forall (W : nat) (cid : bytes) (rrc : bool) (ops : list op), N.of_nat W <= maxseq48 ->
    NoDup (recnums (deliveries (snd (run_ops W (rinit cid rrc) ops)))).
Proof. exact deliveries_nodup. Qed.
Print Assumptions C06_no_double_delivery.

Theorem C06_no_double_commit :
  forall (W : nat) (cid : bytes) (rrc : bool) (ops : list op), N.of_nat W <= maxseq48 ->
    NoDup (marks (snd (run_ops W (rinit cid rrc) ops))).
Proof. exact marks_nodup. Qed.
Print Assumptions C06_no_double_commit.

(* Tie to the regenerated facts of the current tree: the window the code hands to the detector
   is the model's [eff_window] (a whole number of 64-bit words, never smaller than requested,
   default 64), and sequence numbers are 48-bit. *)
Theorem C06_generated_window_and_bounds :
  g_eff_window_0 = 64 /\ g_default_replay_window = 64 /\
  N.of_nat (eff_window 1) = g_eff_window_1 /\ N.of_nat (eff_window 63) = g_eff_window_63 /\
  N.of_nat (eff_window 64) = g_eff_window_64 /\ N.of_nat (eff_window 100) = g_eff_window_100 /\
  g_max_sequence_number = 2 ^ 48 - 1.
Proof. vm_compute. repeat split; reflexivity. Qed.
Print Assumptions C06_generated_window_and_bounds.

Theorem C06_eff_window_covers_request :
  forall W : nat, (W <= eff_window W)%nat /\ (eff_window W mod 64 = 0)%nat.
Proof. exact eff_window_spec. Qed.
Print Assumptions C06_eff_window_covers_request.

(* Known finding F90 (not repaired): the exported state carries nothing about the receive side; the
   resumed connection starts from an empty window, so across an export/resume the statement
   "no payload twice" fails - witness: record 5 arrives before the export and once more after it *)
Theorem C06_resume_forgets_window_refuted :
  exists (W : nat) (xs ys : list N) (x : N),
    In x (fst (run_resumed 281474976710655 W xs ys)) /\ In x (snd (run_resumed 281474976710655 W xs ys)).
Proof. exact resume_forgets_window_refuted. Qed.
Print Assumptions C06_resume_forgets_window_refuted.

Theorem C06_resumed_each_connection_no_double :
  forall (W : nat) (maxseq : N) (xs ys : list N), 0 < maxseq -> N.of_nat W <= maxseq ->
    NoDup (fst (run_resumed maxseq W xs ys)) /\ NoDup (snd (run_resumed maxseq W xs ys)).
Proof. exact resumed_each_nodup. Qed.
Print Assumptions C06_resumed_each_connection_no_double.

(* non-vacuity: a concrete run with a reordered, duplicated arrival sequence *)
Example C06_example :
  snd (run 281474976710655 (win_init 2) [0; 3; 2; 3; 1; 2; 4]) = [0; 3; 2; 4].
Proof. vm_compute. reflexivity. Qed.

(* ---- records parked before the local handshake is marked established (conn.go
   handleApplicationDataRecord / parkEarlyApplicationData): model Rec/RecvPark.v, proofs Rec/RecvParkSound.v ---- *)
From DtlsV Require Import Rec.Recv Rec.RecvPark Rec.RecvParkSound.

(* over every history of arrivals (before and after establishment, any duplication and order), the
   establishment and Read calls: no (epoch, sequence number) is returned by Read twice, given that a
   parked record is committed to its epoch's replay window at the moment it is parked *)
Theorem C06_parked_records_are_replay_protected :
  forall (W : nat) (ops : list pop), N.of_nat W <= maxseq48 ->
    NoDup (snd (prun true W pinit ops)).
Proof. exact parked_records_are_replay_protected. Qed.
Print Assumptions C06_parked_records_are_replay_protected.

(* the variant that parks without marking delivers a duplicate that arrives while the original is parked *)
Theorem C06_parked_records_are_replay_protected_refuted :
  exists (W : nat) (ops : list pop), N.of_nat W <= maxseq48 /\ ~ NoDup (snd (prun false W pinit ops)).
Proof. exact park_without_mark_refuted. Qed.
Print Assumptions C06_parked_records_are_replay_protected_refuted.

(* non-vacuity: original parked, copy while parked, copy after establishment, a second record *)
Example C06_park_example :
  snd (prun true 64 pinit [PArrive 1 1; PArrive 1 1; PEstablish; PRead; PArrive 1 1; PArrive 1 2; PRead; PRead])
  = [(1, 1); (1, 2)].
Proof. vm_compute. reflexivity. Qed.
