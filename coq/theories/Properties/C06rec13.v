(* C06 (DTLS 1.3 leg, rec13) - Anti-replay for the DTLS 1.3 record layer: per-epoch windows across
   KeyUpdate generations, record-number reconstruction.  Statements only; proofs Rec/Rec13Sound.v. *)
From DtlsV Require Import Lib.Bytes Rec.Window Rec.WindowSound Rec.Rec13 Rec.Rec13Sound.
From DtlsV Require Rec.RecvSound Rec.SendSound.
From Coq Require Import Permutation.
Open Scope N_scope.

(* Over EVERY operation history of a DTLS 1.3 receiver - datagrams in any order with any repetition, before and after
   key installation, across KeyUpdate generations and epoch changes, replays of the parked queue - no
   (epoch, record number) is committed twice. *)
Theorem C06_13_no_double_commit :
  forall (snmask : N -> bytes -> N) (aopen : N -> N -> bytes -> bytes -> option bytes)
    (hs_room : bytes -> bool) (W : nat) (cid : bytes) (neg rrc : bool) 
    (ops : list op),
  N.of_nat W <= maxseq48 ->
  NoDup (marks (snd (run_ops snmask aopen hs_room W (rinit cid neg rrc) ops))).
Proof. exact marks_nodup. Qed.
Print Assumptions C06_13_no_double_commit.

(* ... and none is accepted for Read twice (handed over at once, or parked until the local handshake completes).  With
   C05_13_every_delivery_sealed and C09_13_send_unique (the peer never seals two records under one number) no payload is
   delivered more often than it was written. *)
Theorem C06_13_no_double_delivery :
  forall (snmask : N -> bytes -> N) (aopen : N -> N -> bytes -> bytes -> option bytes)
    (hs_room : bytes -> bool) (W : nat) (cid : bytes) (neg rrc : bool) 
    (ops : list op),
  N.of_nat W <= maxseq48 ->
  NoDup
    (RecvSound.recnums
       (deliveries (snd (run_ops snmask aopen hs_room W (rinit cid neg rrc) ops)))).
Proof. exact deliveries_nodup. Qed.
Print Assumptions C06_13_no_double_delivery.

(* Early application data (repaired defect F84): payloads that arrive before the local handshake has completed are parked
   (at most 100) instead of blocking the handshake, and Read returns them first.  What Read returns is, in order, a
   subsequence of what was parked before plus what was accepted. *)
Theorem C06_13_reads_are_accepted :
  forall (snmask : N -> bytes -> N) (aopen : N -> N -> bytes -> bytes -> option bytes)
    (hs_room : bytes -> bool) (W : nat) (ops : list op) (s : rstate),
  EI s ->
  sublist (reads (snd (run_ops snmask aopen hs_room W s ops)))
    (r_early s ++ deliveries (snd (run_ops snmask aopen hs_room W s ops))).
Proof. exact reads_are_accepted. Qed.
Print Assumptions C06_13_reads_are_accepted.

(* C06 at the level of Read, over every history incl. application records that overtake the peer's Finished: no
   (epoch, record number) is returned by Read twice. *)
Theorem C06_13_no_double_read :
  forall (snmask : N -> bytes -> N) (aopen : N -> N -> bytes -> bytes -> option bytes)
    (hs_room : bytes -> bool) (W : nat) (cid : bytes) (neg rrc : bool) 
    (ops : list op),
  N.of_nat W <= maxseq48 ->
  NoDup
    (RecvSound.recnums (reads (snd (run_ops snmask aopen hs_room W (rinit cid neg rrc) ops)))).
Proof. exact reads_nodup. Qed.
Print Assumptions C06_13_no_double_read.

(* The same from any state whose detectors reflect its own past. *)
Theorem C06_13_no_double_commit_from :
  forall (snmask : N -> bytes -> N) (aopen : N -> N -> bytes -> bytes -> option bytes)
    (hs_room : bytes -> bool) (W : nat) (s : rstate) (ms : list (N * N)) 
    (ops : list op),
  N.of_nat W <= maxseq48 ->
  GI W s ms -> NoDup (ms ++ marks (snd (run_ops snmask aopen hs_room W s ops))).
Proof. exact marks_nodup_from. Qed.
Print Assumptions C06_13_no_double_commit_from.

(* The per-epoch highest record number used for reconstruction IS the newest number of that epoch's replay
   detector, in every reachable state (protected epochs). *)
Theorem C06_13_highest_is_window_head :
  forall (snmask : N -> bytes -> N) (aopen : N -> N -> bytes -> bytes -> option bytes)
    (hs_room : bytes -> bool) (W : nat) (cid : bytes) (neg rrc : bool) 
    (ops : list op) (e : N),
  e <> 0 ->
  let s := fst (run_ops snmask aopen hs_room W (rinit cid neg rrc) ops) in
  get_high e (r_high s) = latest (snd (get_win W e (r_wins s))).
Proof. exact high_is_latest. Qed.
Print Assumptions C06_13_highest_is_window_head.

(* Every epoch's window head only moves forward. *)
Theorem C06_13_window_monotone :
  forall (snmask : N -> bytes -> N) (aopen : N -> N -> bytes -> bytes -> option bytes)
    (hs_room : bytes -> bool) (W : nat) (s : rstate) (ops : list op) 
    (e : N),
  latest (snd (get_win W e (r_wins s))) <=
  latest (snd (get_win W e (r_wins (fst (run_ops snmask aopen hs_room W s ops))))).
Proof. exact window_monotone. Qed.
Print Assumptions C06_13_window_monotone.

(* What the code does with old generations after a KeyUpdate: every generation ever installed stays installed for
   every later history (readOld is never pruned) ... *)
Theorem C06_13_generations_retained :
  forall (snmask : N -> bytes -> N) (aopen : N -> N -> bytes -> bytes -> option bytes)
    (hs_room : bytes -> bool) (W : nat) (ops : list op) (s : rstate) 
    (e : N),
  has_gen s e = true -> has_gen (fst (run_ops snmask aopen hs_room W s ops)) e = true.
Proof. exact generations_retained. Qed.
Print Assumptions C06_13_generations_retained.

(* ... and installing a generation or moving the remote epoch leaves every epoch's detector and highest number
   untouched: a delayed record of an old generation meets its own epoch's window. *)
Theorem C06_13_key_ops_keep_windows :
  forall (snmask : N -> bytes -> N) (aopen : N -> N -> bytes -> bytes -> option bytes)
    (hs_room : bytes -> bool) (W : nat) (s : rstate) (o : op),
  match o with
  | Arrive _ | Drain => True
  | _ =>
      r_wins (fst (step snmask aopen hs_room W s o)) = r_wins s /\
      r_high (fst (step snmask aopen hs_room W s o)) = r_high s
  end.
Proof. exact key_ops_keep_windows. Qed.
Print Assumptions C06_13_key_ops_keep_windows.

(* An authentic application record of a protected epoch (of ANY retained generation) is delivered exactly when its
   own epoch's replay detector accepts the rebuilt record number. *)
Theorem C06_13_authentic_delivered_iff_window :
  forall (snmask : N -> bytes -> N) (aopen : N -> N -> bytes -> bytes -> option bytes)
    (hs_room : bytes -> bool) (W : nat) (lease : bool) (s : rstate) 
    (b p : bytes) (q e : N),
  auth_cipher snmask aopen s b = Some (p, 23, q, e) ->
  has_prot s = true ->
  e <> 0 ->
  q <= maxseq48 ->
  room s = true ->
  deliveries (snd (recv_cipher snmask aopen hs_room W lease s b)) =
  (if
    check (fst (get_win W e (ensure_wins W maxseq64 e (r_wins s))))
      (snd (get_win W e (ensure_wins W maxseq64 e (r_wins s)))) q
   then [(p, e, q)]
   else []).
Proof. exact authentic_delivered_iff_window. Qed.
Print Assumptions C06_13_authentic_delivered_iff_window.

(* Record-number reconstruction (conn.go reconstructSequenceNumber) is correct within half the range of the header
   form around highest+1: (highest+1 - half, highest+1 + half], half = 2^15 (16-bit) / 2^7 (8-bit) ... *)
Theorem C06_13_reconstruct_correct :
  forall (q : N) (sbit : bool) (h : N),
  h < 9223372036854775808 ->
  h + 1 < q + rwin sbit / 2 ->
  q <= h + 1 + rwin sbit / 2 -> reconstruct (q mod rwin sbit) sbit h = q.
Proof. exact reconstruct_correct. Qed.
Print Assumptions C06_13_reconstruct_correct.

(* ... it always preserves the transmitted low bits (so the code's low-bit validation never fails) ... *)
Theorem C06_13_reconstruct_lowbits :
  forall (p : N) (sbit : bool) (h : N),
  h < 9223372036854775808 -> reconstruct p sbit h mod rwin sbit = p mod rwin sbit.
Proof. exact reconstruct_lowbits. Qed.
Print Assumptions C06_13_reconstruct_lowbits.

(* ... its result always lies in that range (or, below the first full range, above it) - so two distinct numbers of the
   range are never mapped to the same value (they differ in the low bits) ... *)
Theorem C06_13_reconstruct_range :
  forall (p : N) (sbit : bool) (h : N),
  h < 9223372036854775808 ->
  let r := reconstruct p sbit h in
  h + 1 < r + rwin sbit / 2 /\ r <= h + 1 + rwin sbit / 2 \/
  r < rwin sbit /\ h + 1 + rwin sbit / 2 < r.
Proof. exact reconstruct_range. Qed.
Print Assumptions C06_13_reconstruct_range.

(* ... and a number half a range or more behind the expected one is never rebuilt correctly. *)
Theorem C06_13_reconstruct_out_of_range :
  forall (q : N) (sbit : bool) (h : N),
  h < 9223372036854775808 ->
  q + rwin sbit / 2 <= h + 1 -> reconstruct (q mod rwin sbit) sbit h <> q.
Proof. exact reconstruct_out_of_range. Qed.
Print Assumptions C06_13_reconstruct_out_of_range.

(* With a replay window of at most 32767 everything the detector can accept lies within the 16-bit reconstruction range. *)
Theorem C06_13_window_in_range :
  forall (W : nat) (h q : N),
  N.of_nat W <= 32767 ->
  q <= h /\ h - q < N.of_nat W \/ h < q <= h + 32769 ->
  h + 1 < q + 32768 /\ q <= h + 1 + 32768.
Proof. exact window_in_range. Qed.
Print Assumptions C06_13_window_in_range.

(* PREMISES: AEAD correctness (open (seal x) = x) and its output length.  A record emitted by the send model
   authenticates at the receiver as exactly (content, type, sender's record number, generation) when the receiver
   expects the sender's connection id, retains and has authorised the generation, the number lies within the
   reconstruction range, and the ciphertext opens under no other generation. *)
Theorem C06_13_genuine_record_authenticates :
  forall (snmask : N -> bytes -> N) (aopen : N -> N -> bytes -> bytes -> option bytes)
    (aseal : N -> N -> bytes -> bytes -> bytes) (overhead : N),
  (forall (e q : N) (a i : bytes), aopen e q a (aseal e q a i) = Some i) ->
  (forall (e q : N) (a i : bytes), len (aseal e q a i) = len i + overhead) ->
  forall (st : sstate) (e t : N) (body : bytes) (st' : sstate) (x : emitted) (s : rstate),
  send_record snmask aseal overhead st e t body = (st', Some x) ->
  inner_type_ok t = true ->
  r_cid s = s_cid st ->
  has_gen s e = true ->
  e <= r_epoch s ->
  get_high e (r_high s) < 9223372036854775808 ->
  get_high e (r_high s) + 1 < em_seq x + 32768 ->
  em_seq x <= get_high e (r_high s) + 1 + 32768 ->
  (forall e' : N, e' <> e -> forall (q' : N) (a' : bytes), aopen e' q' a' (em_ct x) = None) ->
  auth_cipher snmask aopen s (em_wire x) = Some (body, t, em_seq x, e).
Proof. exact genuine_record_authenticates. Qed.
Print Assumptions C06_13_genuine_record_authenticates.

(* C06 tolerance for DTLS 1.3: such an application record is delivered exactly when its epoch's detector accepts it. *)
Theorem C06_13_genuine_delivered_iff_window :
  forall (snmask : N -> bytes -> N) (aopen : N -> N -> bytes -> bytes -> option bytes)
    (aseal : N -> N -> bytes -> bytes -> bytes) (overhead : N),
  (forall (e q : N) (a i : bytes), aopen e q a (aseal e q a i) = Some i) ->
  (forall (e q : N) (a i : bytes), len (aseal e q a i) = len i + overhead) ->
  forall (hs_room : bytes -> bool) (W : nat) (lease : bool) (st : sstate) 
    (e : N) (body : bytes) (st' : sstate) (x : emitted) (s : rstate),
  send_record snmask aseal overhead st e 23 body = (st', Some x) ->
  r_cid s = s_cid st ->
  has_gen s e = true ->
  e <= r_epoch s ->
  e <> 0 ->
  has_prot s = true ->
  room s = true ->
  get_high e (r_high s) < 9223372036854775808 ->
  get_high e (r_high s) + 1 < em_seq x + 32768 ->
  em_seq x <= get_high e (r_high s) + 1 + 32768 ->
  (forall e' : N, e' <> e -> forall (q' : N) (a' : bytes), aopen e' q' a' (em_ct x) = None) ->
  deliveries (snd (recv_cipher snmask aopen hs_room W lease s (em_wire x))) =
  (if
    check (fst (get_win W e (ensure_wins W maxseq64 e (r_wins s))))
      (snd (get_win W e (ensure_wins W maxseq64 e (r_wins s)))) (em_seq x)
   then [(body, e, em_seq x)]
   else []).
Proof. exact genuine_delivered_iff_window. Qed.
Print Assumptions C06_13_genuine_delivered_iff_window.

(* REFUTED as stated for windows above half the record-number range of the header form (2^15 for the 16-bit form the
   implementation emits, 2^7 for the 8-bit form it accepts): window 256, newest 200, record number 5 in 8-bit form,
   never seen, 195 < 256 behind: the detector would accept, yet nothing is delivered (rebuilt as 261). *)
Theorem C06_13_tolerance_large_window_refuted :
  tol_open 3 5 [39; 5; 0; 16] (repeat 0 16) = Some [104; 105; 23] /\
  check maxseq64 (snd (get_win 256 3 (r_wins tol_state))) 5 = true /\
  recv_cipher (fun (_ : N) (_ : bytes) => 0) tol_open (fun _ : bytes => true) 256 true
    tol_state tol_record = (tol_state, []).
Proof. exact tolerance13_large_window_refuted. Qed.
Print Assumptions C06_13_tolerance_large_window_refuted.

(* KNOWN FINDING K-C06-2 in the model: a record whose number lies 2^15 or more behind the expected one of its epoch is
   rebuilt to a different number (16-bit wire number), so - its ciphertext opening at its own number only - no generation
   opens it, whatever the configured replay window. *)
Theorem C06_13_far_behind_not_opened :
  forall (snmask : N -> bytes -> N) (aopen : N -> N -> bytes -> bytes -> option bytes)
    (s : rstate) (h : uhdr) (ct : bytes) (e q : N),
  get_high e (r_high s) < 9223372036854775808 ->
  u_sbit (apply_mask h (snmask e ct)) = true ->
  u_seq (apply_mask h (snmask e ct)) = q mod 65536 ->
  q + 32768 <= get_high e (r_high s) + 1 ->
  (forall (q' : N) (a : bytes), q' <> q -> aopen e q' a ct = None) ->
  open_gen snmask aopen s h ct e = None.
Proof. exact far_behind_not_opened. Qed.
Print Assumptions C06_13_far_behind_not_opened.

(* ... the concrete numbers of the finding: window 40000, newest 32799, record 0: inside the window, rebuilt as 65536. *)
Theorem C06_13_k_c06_2_witness :
  32799 - 0 < 40000 /\ 0 + 32768 <= 32799 + 1 /\ reconstruct (0 mod 65536) true 32799 = 65536.
Proof. exact k_c06_2_witness. Qed.
Print Assumptions C06_13_k_c06_2_witness.

(* non-vacuity: reordered and duplicated arrivals across a key update (generations 3 and 4) *)
Definition ex6_open (e q : N) (a c : bytes) : option bytes :=
  if ((e =? 3) || (e =? 4)) && bytes_eqb c (repeat e 16 ++ [q]) then Some [q; 23] else None.
Definition ex6_rec (e q : N) : bytes := [44 + e mod 4; 0; q; 0; 17] ++ repeat e 16 ++ [q].
Example C06_13_example :
  let s := mk_rstate 3 (Some 3) [2] [] [] [] [] false false false true [] in
  map (fun d => snd d) (deliveries (snd (run_ops (fun _ _ => 0) ex6_open (fun _ => true) 64 s
    [Arrive (ex6_rec 3 1); Arrive (ex6_rec 3 0); Arrive (ex6_rec 3 1); Arrive (ex6_rec 4 0);
     InstallRead 4; SetRemoteEpoch 4; Drain; Arrive (ex6_rec 4 0); Arrive (ex6_rec 3 2); Arrive (ex6_rec 3 0)])))
  = [1; 0; 0; 2].
Proof. vm_compute. reflexivity. Qed.
