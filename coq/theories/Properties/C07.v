(* C07 - Confidentiality: nothing secret leaves unprotected.
   Statements only; proofs in Rec/C07EmitSound.v (send-side labels, all interleavings), Rec/RecvSound.v
   (receive side), Sym/C07DeriveSound.v (symbolic exporter secrecy).
   Idealisations, explicit: (1) a record labelled protected is sealed by the suite's AEAD/CBC-HMAC under the
   write keys of its epoch and reveals nothing of its content (the harness checks on the real wire that no
   written payload / Finished verify_data / protected handshake body occurs in any datagram);
   (2) PRF, HKDF and hash are free constructors without inverse (Dolev-Yao, Sym/C07Derive.v); the premises
   "the (pre-)master secret is not derivable" are the (EC)DHE / PSK secrecy assumptions. *)
From Coq Require Import List NArith Bool.
From DtlsV Require Import Lib.Bytes Rec.Window Rec.Recv Rec.RecvSound Rec.C07RecvSound Rec.C07Emit Rec.C07EmitSound
  Sym.C07Derive Sym.C07DeriveSound Sym.C07Life Sym.C07LifeSound.
Import ListNotations.
Open Scope N_scope.

(* ---- send side: for both versions and EVERY interleaving of Write / flights / retransmissions / activation /
   establishment / alerts / Close / KeyUpdate / tickets / ACKs / RRC / Resume of an exported state ---- *)

(* application data is emitted only after establishment, always protected, never at epoch 0
   (DTLS 1.3: at an application epoch >= 3) *)
Theorem C07_appdata_always_protected :
  forall (v : version) (ops : list op) (b : bool) (e : emission),
    In (b, e) (run (sinit v) ops) -> e_kind e = KApp ->
    b = true /\ e_enc e = true /\ 1 <= e_epoch e /\ (v = V13 -> 3 <= e_epoch e).
Proof. exact appdata_always_protected. Qed.
Print Assumptions C07_appdata_always_protected.

Theorem C07_finished_always_protected :
  forall (v : version) (ops : list op) (b : bool) (e : emission),
    In (b, e) (run (sinit v) ops) -> e_kind e = KHs 20 ->
    e_enc e = true /\ 1 <= e_epoch e /\ (v = V13 -> e_epoch e = 2).
Proof. exact finished_always_protected. Qed.
Print Assumptions C07_finished_always_protected.

(* DTLS 1.3: every handshake message other than ClientHello / ServerHello (HelloRetryRequest) *)
Theorem C07_hs13_after_serverhello_protected :
  forall (ops : list op) (b : bool) (e : emission) (ht : N),
    In (b, e) (run (sinit V13) ops) -> e_kind e = KHs ht -> ht <> 1 -> ht <> 2 ->
    e_enc e = true /\ 2 <= e_epoch e.
Proof. exact hs13_after_serverhello_protected. Qed.
Print Assumptions C07_hs13_after_serverhello_protected.

(* DTLS 1.3: everything sent once the handshake is established *)
Theorem C07_post_handshake_protected :
  forall (ops : list op) (e : emission),
    In (true, e) (run (sinit V13) ops) -> e_enc e = true /\ 3 <= e_epoch e.
Proof. exact post_handshake_protected. Qed.
Print Assumptions C07_post_handshake_protected.

(* conversely: the only things that ever leave unprotected are alerts before establishment and the epoch-0
   handshake / change_cipher_spec records of the flights (never Finished; 1.3: only the hellos) *)
Theorem C07_unprotected_is_public :
  forall (v : version) (ops : list op) (b : bool) (e : emission),
    In (b, e) (run (sinit v) ops) -> e_enc e = false ->
    (e_kind e = KAlert /\ b = false) \/
    (e_epoch e = 0 /\ (e_kind e = KCCS \/ exists ht, e_kind e = KHs ht /\ ht <> 20 /\ (v = V13 -> ht = 1 \/ ht = 2))).
Proof. exact unprotected_is_public. Qed.
Print Assumptions C07_unprotected_is_public.

(* the per-record checker the harness applies to the real wire accepts exactly labels of this model *)
Theorem C07_run_allowed :
  forall (ops : list op) (s : sstate) (b : bool) (e : emission),
    Inv s -> In (b, e) (run s ops) -> allowed (s_ver s) b e = true.
Proof. exact run_allowed. Qed.
Print Assumptions C07_run_allowed.

(* ---- receive side: application data arriving in an unprotected record is never delivered ---- *)
Theorem C07_epoch0_appdata_not_delivered :
  forall (W : nat) (lease : bool) (s : rstate) (w : wire) (p : bytes) (e q : N),
    In (p, e, q) (deliveries (snd (recv W lease s w))) ->
    w_epoch w <> 0 /\ w_auth w = Some (CApp p) /\ r_init s = true.
Proof. exact epoch0_appdata_not_delivered. Qed.
Print Assumptions C07_epoch0_appdata_not_delivered.

(* ... and it is refused silently: no alert, no error, nothing committed, in every state *)
Theorem C07_epoch0_appdata_silent :
  forall (W : nat) (lease : bool) (s : rstate) (w : wire) (p : bytes),
    w_epoch w = 0 -> w_clear w = CApp p -> recv W lease s w = (s, []).
Proof. exact epoch0_appdata_silent. Qed.
Print Assumptions C07_epoch0_appdata_silent.

(* ---- exporter secrecy (symbolic) ---- *)

(* DTLS 1.2, RFC 5705: P_hash(master_secret, label || client_random || server_random).  If the master secret is
   not derivable from what the attacker knows (K: every cleartext handshake term - randoms, public keys,
   certificates, signatures ...) the exporter value is derivable only if it is literally part of K *)
Theorem C07_exporter12_underivable :
  forall (K : term -> Prop) (ms label cr sr : term),
    ~ derives K ms -> derives K (exporter12 ms label cr sr) -> ana K (exporter12 ms label cr sr).
Proof. exact exporter12_underivable. Qed.
Print Assumptions C07_exporter12_underivable.

Theorem C07_exporter12_from_pms :
  forall (K : term -> Prop) (pms label cr sr : term),
    ~ derives K pms -> (forall l s, ~ ana K (TPrf pms l s)) ->
    (forall l s, ~ ana K (TPrf (ms12 pms cr sr) l s)) ->
    ~ derives K (exporter12 (ms12 pms cr sr) label cr sr).
Proof. exact exporter12_from_pms. Qed.
Print Assumptions C07_exporter12_from_pms.

(* DTLS 1.3, RFC 8446 7.5 keyed with exporter_master_secret (state.go exportKeyingMaterial13) *)
Theorem C07_exporter13_underivable :
  forall (K : term -> Prop) (ems label : term),
    ~ derives K ems -> (forall l s, ~ ana K (TPrf ems l s)) ->
    (forall l s, ~ ana K (TPrf (derive_secret ems label (THash empty)) l s)) ->
    ~ derives K (exporter13 ems label).
Proof. exact exporter13_underivable. Qed.
Print Assumptions C07_exporter13_underivable.

(* PSK suites: an underivable pre-shared key keeps the exporter underivable ... *)
Theorem C07_exporter12_from_psk :
  forall (K : term -> Prop) (psk label cr sr : term),
    ~ derives K psk -> (forall l s, ~ ana K (TPrf (pms_psk psk) l s)) ->
    (forall l s, ~ ana K (TPrf (ms12 (pms_psk psk) cr sr) l s)) ->
    ~ derives K (exporter12 (ms12 (pms_psk psk) cr sr) label cr sr).
Proof. exact exporter12_from_psk. Qed.
Print Assumptions C07_exporter12_from_psk.

(* ... but with the EMPTY key everything down to the exporter is computable from the hello randoms: the premise
   is void, so an empty key returned by the PSK callback must be refused (f39ce00; the harness checks it, and
   recomputes P_hash(PRF(00000000, "master secret", cr|sr), label|cr|sr) from the captured hellos) *)
Theorem C07_exporter12_empty_psk_refuted :
  forall (K : term -> Prop) (label cr sr : N),
    derives K (exporter12 (ms12 (pms_psk empty) (TPub cr) (TPub sr)) (TPub label) (TPub cr) (TPub sr)).
Proof. exact exporter12_empty_psk_refuted. Qed.
Print Assumptions C07_exporter12_empty_psk_refuted.

(* a knowledge set made of wire-observable terms only never yields a secret atom *)
Theorem C07_cleartext_keeps_secrets :
  forall (K : term -> Prop) (n : N), cleartext K -> ~ derives K (TSec n).
Proof. exact cleartext_keeps_secrets. Qed.
Print Assumptions C07_cleartext_keeps_secrets.

(* regression: an exporter keyed with the EMPTY secret over the public hello randoms (what the tree computed
   for DTLS 1.3 before exporter_master_secret was plumbed through) is derivable by everybody *)
Theorem C07_exporter_keyed_by_public_refuted :
  forall (K : term -> Prop) (label cr sr : N),
    derives K (exporter13_old (TPub label) (TPub cr) (TPub sr)).
Proof. exact exporter_keyed_by_public_refuted. Qed.
Print Assumptions C07_exporter_keyed_by_public_refuted.

(* non-vacuity: a full-handshake client that writes before, during and after the handshake, retransmits,
   closes - the only application emissions are the two after establishment, protected at epoch 1;
   and a closed instance of the exporter theorem *)
Example C07_example_12 :
  run (sinit V12) [OWrite; OFlight F1; OWrite; OFlight F3; OFlight F5; OWrite; OAlert; ORetransmit; OFinish; OWrite; OWrite; OClose; OWrite]
  = [(false, clr 1); (false, clr 1); (false, clr 11); (false, clr 16); (false, clr 15); (false, ccs); (false, fin12);
     (false, mkE KAlert 1 false);
     (false, clr 11); (false, clr 16); (false, clr 15); (false, ccs); (false, fin12);
     (true, mkE KApp 1 true); (true, mkE KApp 1 true); (true, mkE KAlert 1 true)].
Proof. vm_compute. reflexivity. Qed.

Example C07_example_13 :
  run (sinit V13) [OWrite; OFlight F1; OFlight F5; OActivate; OWrite; OFinish; OWrite; OKeyUpdate; OKeyUpdateAck; OWrite; OClose]
  = [(false, clr 1); (false, hs13 11); (false, hs13 15); (false, hs13 20);
     (true, mkE KApp 3 true); (true, mkE (KHs 24) 3 true); (true, mkE KApp 4 true); (true, mkE KAlert 4 true)].
Proof. vm_compute. reflexivity. Qed.

(* resumed states: one captured before the keys were switched on (local epoch 0, e.g. in VerifyConnection) is
   refused, so a Write on it emits nothing; one exported at epoch 1 writes protected at epoch 1 *)
Example C07_example_resume :
  run (sinit V12) [OResume 0; OWrite] = [] /\
  run (sinit V12) [OResume 1; OWrite; OClose] = [(true, mkE KApp 1 true); (true, mkE KAlert 1 true)] /\
  run (sinit V13) [OResume 3; OWrite] = [].
Proof. vm_compute. repeat split; reflexivity. Qed.

(* the connection Resume makes from a State it accepts: with the guard of generateInternalState (local epoch <> 0)
   as hypothesis, no application data ever leaves in epoch 0 or unprotected, whatever is done with the connection;
   the harness resumes from every State the library hands out during epoch 0 (VerifyConnection argument on both
   sides, ConnectionState() inside GetClientCertificate and between any two datagrams) WITHOUT a serialisation
   round trip and observes that Resume refuses it *)
Theorem C07_resumed_appdata_protected :
  forall (e : N) (ops : list op) (b : bool) (em : emission),
    e <> 0 -> In (b, em) (run (resumed_start e) ops) -> e_kind em = KApp ->
    e_enc em = true /\ 1 <= e_epoch em.
Proof. exact resumed_appdata_protected. Qed.
Print Assumptions C07_resumed_appdata_protected.

(* the guard is needed (witness): from a State of local epoch 0 the first Write leaves in an epoch-0 record *)
Theorem C07_resumed_guard_needed :
  run (resumed_start 0) [OWrite] = [(true, mkE KApp 0 true)].
Proof. exact resumed_guard_needed. Qed.
Print Assumptions C07_resumed_guard_needed.

Example C07_example_exporter :
  ~ derives K0 (exporter12 (ms12 (TSec 1) (TPub 10) (TPub 11)) (TPub 5) (TPub 10) (TPub 11)).
Proof. exact K0_exporter12_underivable. Qed.

(* ---- the exporter over the whole lifecycle of the API (Sym/C07Life.v): live, State held across Close, State
   taken from the closed Conn, Marshal/Unmarshal copies, Resume - every value handed out is the exporter term
   keyed with the session secret (never a public constant) ... *)
Theorem C07_export_keyed_by_session_secret :
  forall (c : cfg) (s : term) (ops : list lop) (out : term),
    c_wipe c = false -> In out (lrun c s winit ops) -> exists label, out = exp_term c s label.
Proof. exact export_keyed_by_session_secret. Qed.
Print Assumptions C07_export_keyed_by_session_secret.

(* ... hence equal to the live export for the same label ... *)
Theorem C07_export_equals_live :
  forall (c : cfg) (s : term) (ops : list lop) (out1 out2 : term),
    c_wipe c = false -> In out1 (lrun c s winit ops) -> In out2 (lrun c s winit ops) ->
    exists l1 l2, out1 = exp_term c s l1 /\ out2 = exp_term c s l2 /\ (l1 = l2 -> out1 = out2).
Proof. exact export_equals_live. Qed.
Print Assumptions C07_export_equals_live.

(* ... and not derivable by an attacker who cannot derive the session secret (Dolev-Yao premises as above) *)
Theorem C07_export_lifecycle_secret :
  forall (K : term -> Prop) (c : cfg) (s : term) (ops : list lop) (out : term),
    c_wipe c = false ->
    ~ derives K s ->
    (forall k l x, (k = s \/ exists label, k = derive_secret s label (THash empty)) -> ~ ana K (TPrf k l x)) ->
    In out (lrun c s winit ops) ->
    ~ derives K out.
Proof. exact export_lifecycle_secret. Qed.
Print Assumptions C07_export_lifecycle_secret.

(* variant in which Close overwrites the secret in place with a constant while export stays enabled: a State
   taken from the closed Conn exports a value everybody computes (DTLS 1.2 and 1.3) *)
Theorem C07_export_after_wiping_close_refuted :
  forall (K : term -> Prop) (c : cfg) (s label : term),
    c_wipe c = true -> s <> empty ->
    derives K label -> derives K (c_cr c) -> derives K (c_sr c) ->
    exists ops out, In out (lrun c s winit ops) /\ out = exp_term c zeros label /\ derives K out.
Proof. exact export_after_wiping_close_refuted. Qed.
Print Assumptions C07_export_after_wiping_close_refuted.

(* same variant, a State that shares the connection's bytes (DTLS 1.2 generateState): the SAME State exports the
   secret-keyed value while open and the public one after Close *)
Theorem C07_export_held_across_wiping_close_refuted :
  forall (K : term -> Prop) (c : cfg) (s label : term),
    c_wipe c = true -> c_share c = true -> s <> empty ->
    derives K label -> derives K (c_cr c) -> derives K (c_sr c) ->
    exists ops out1 out2,
      lrun c s winit ops = [out1; out2] /\ out1 = exp_term c s label /\ out2 = exp_term c zeros label /\ derives K out2.
Proof. exact export_held_across_wiping_close_refuted. Qed.
Print Assumptions C07_export_held_across_wiping_close_refuted.

Example C07_example_export_lifecycle :
  lrun (mkCfg false true false (TPub 10) (TPub 11)) (TSec 1) winit
       [LTake; LExport 0 (TPub 5); LEstablish; LTake; LExport 1 (TPub 5); LCopy 1; LClose; LExport 1 (TPub 5);
        LTake; LExport 3 (TPub 5); LResume 2; LExport 4 (TPub 6); LExport 0 (TPub 5)]
  = [exporter12 (TSec 1) (TPub 5) (TPub 10) (TPub 11); exporter12 (TSec 1) (TPub 5) (TPub 10) (TPub 11);
     exporter12 (TSec 1) (TPub 5) (TPub 10) (TPub 11); exporter12 (TSec 1) (TPub 6) (TPub 10) (TPub 11);
     exporter12 (TSec 1) (TPub 5) (TPub 10) (TPub 11)].
Proof. exact lifecycle_example_12. Qed.
