(* C08 - Robustness: hostile datagrams cannot crash, wedge or bloat an endpoint.
   Statements only; proofs in Rec/C08RobustSound.v, Rec/RecvSound.v, Frag/BufferSound.v.
   Models: Rec/Recv.v (conn.go receive path, DTLS 1.2), Rec/C08Robust.v (datagram layer, the
   fragment-buffer gate in front of every record), Frag/Buffer.v (reassembly buffer).
   "No panic" is decided by the harness on the real code (a total Gallina function has no panic:
   every panic of the implementation on an input the model maps to a value is a violation). *)
From DtlsV Require Import Lib.Bytes Gen.Generated Rec.Window Rec.Recv Rec.RecvSound Rec.C08Robust Rec.C08RobustSound Rec.C08ReasmSound
  Frag.Split Frag.Buffer Frag.BufferSound.
Open Scope N_scope.

(* ---- datagrams that cannot be parsed as DTLS records ---- *)

(* dropped without any effect, in every state (handshake in progress, dual-stack version negotiation,
   established): empty datagrams, datagrams that unpackDatagram cannot split - wrong lengths, a first byte
   that is no record type, a malformed DTLS 1.3 unified header, a connection-id bit without a connection id -
   and records whose header does not decode.  (Regression corpus on the real code: 2c, 300000, 00, 2f0001 ...;
   before 5a7ed2c all but the length errors ended the handshake / surfaced in Read.) *)
Theorem C08_undecodable_dropped :
  forall (W : nat) (full est : bool) (s : rstate) (d : dgram),
    undecodable d -> recv_dgram W full est s d = (s, []).
Proof. exact undecodable_dropped. Qed.
Print Assumptions C08_undecodable_dropped.

(* an UNPROTECTED (epoch 0) record with a well-formed header whose content does not decode - unknown content
   type, malformed alert / change_cipher_spec / ACK / RRC - is dropped without any effect, in every state.
   (Regression corpus: 63fefd000000000000f00500010a, 15fefd...0001ff, 14fefd...000102; before 82cb644 they were
   answered with a fatal decode_error alert and ended the handshake / surfaced in Read.) *)
Theorem C08_undecodable_content_dropped :
  forall (W : nat) (lease full : bool) (s : rstate) (w : wire),
    w_epoch w = 0 -> w_clear w = CBad -> recv_fb W lease full s w = (s, []).
Proof. exact undecodable_content_dropped. Qed.
Print Assumptions C08_undecodable_content_dropped.

(* as coded, and an explicit exception (X4): content that AUTHENTICATES under the session keys and does not
   decode is answered with a fatal decode_error alert and an error - only the peer holding the keys can send it *)
Theorem C08_authenticated_undecodable_surfaces :
  forall (W : nat) (lease full : bool) (s : rstate) (w : wire),
    r_closed s = false -> r_init s = true -> w_epoch w <> 0 -> w_epoch w <= r_epoch s -> w_ctype w <> ct_ccs ->
    w_auth w = Some CBad -> len (r_cid s) = 0 -> w_ctype w <> ct_cid ->
    check maxseq48 (get_win W (w_epoch w) (r_wins s)) (w_seq w) = true ->
    recv_fb W lease full s w = (s, [OAlert alert_fatal desc_decode_error; OErr]).
Proof. exact authenticated_undecodable_surfaces. Qed.
Print Assumptions C08_authenticated_undecodable_surfaces.

(* a record typed change_cipher_spec that claims a protected epoch (no suite authenticates such records) produces
   no output in any state, whatever its body - the valid body 01 included ... *)
Theorem C08_ccs_claiming_epoch_no_output :
  forall (W : nat) (lease full : bool) (s : rstate) (w : wire),
    w_ctype w = ct_ccs -> w_epoch w <> 0 -> snd (recv_fb W lease full s w) = [].
Proof. exact ccs_claiming_epoch_no_output. Qed.
Print Assumptions C08_ccs_claiming_epoch_no_output.

(* ... and claiming the current or a past epoch of a keyed connection it leaves the state untouched: the remote
   epoch does not advance, no record number is committed.  (Regression corpus: 14fefd0001<seq>000101 and
   14fefd0001ffffffffffff000101 on an established DTLS 1.2 connection; before ae10e63 one such record from anybody
   advanced the remote epoch and committed its number: with 2^48-1 every later genuine record was dropped for
   good.  14fefd0001<seq>000102: before 82cb644 a fatal decode_error alert and a Read error.) *)
Theorem C08_ccs_claiming_epoch_inert :
  forall (W : nat) (lease full : bool) (s : rstate) (w : wire),
    r_init s = true -> w_epoch w <> 0 -> w_epoch w <= r_epoch s -> w_ctype w = ct_ccs ->
    recv_fb W lease full s w = (s, []).
Proof. exact ccs_claiming_epoch_inert. Qed.
Print Assumptions C08_ccs_claiming_epoch_inert.

(* an UNPROTECTED application_data record is refused silently in every state: no delivery, no alert, no error, no
   replay commit.  (Regression corpus: 17fefd0000<seq>0004deadbeef; before 8aa2dc9 a fatal unexpected_message alert
   and an error - the handshake in progress ended, an established peer was closed by the protected alert.) *)
Theorem C08_unprotected_appdata_inert :
  forall (W : nat) (lease full : bool) (s : rstate) (w : wire) (p : bytes),
    w_epoch w = 0 -> w_clear w = CApp p -> recv_fb W lease full s w = (s, []).
Proof. exact unprotected_appdata_inert. Qed.
Print Assumptions C08_unprotected_appdata_inert.

(* recv_fb with room in the reassembly buffer IS the receive path of Rec/Recv.v (C05/C06) *)
Theorem C08_recv_fb_is_recv :
  forall (W : nat) (lease : bool) (s : rstate) (w : wire), recv_fb W lease false s w = recv W lease s w.
Proof. exact recv_fb_open. Qed.
Print Assumptions C08_recv_fb_is_recv.

(* ---- the transport step: drop and continue (listener leg) ---- *)

(* the read loop over the connection's queue of datagrams: undecodable datagrams - empty, framing errors, and the
   OVERSIZED ones (longer than the buffer the connection reads with) - are consumed and change nothing; the genuine
   datagrams around them are processed exactly as without them.  The listener leg of the harness runs the server
   behind the library's own UDP listener and sends datagrams of 64 ... 65507 bytes from the client's address, after
   and during the handshake: the next genuine records must be delivered, Read must not report an error *)
Theorem C08_pump_skips_undecodable :
  forall (W : nat) (full est : bool) (q : list dgram) (s : rstate),
    pump W full est s q =
    pump W full est s (filter (fun d => match d with DRecs _ => true | _ => false end) q).
Proof. exact pump_skips_undecodable. Qed.
Print Assumptions C08_pump_skips_undecodable.

Theorem C08_oversized_consumed :
  forall (W : nat) (full est : bool) (s : rstate) (q : list dgram),
    pump W full est s (DOversized :: q) = pump W full est s q.
Proof. exact oversized_consumed. Qed.
Print Assumptions C08_oversized_consumed.

(* ---- unprotected non-fatal alerts (conn.go classifyReadLoopError) ---- *)

(* WHILE THE HANDSHAKE IS RUNNING a warning alert that anybody can send (epoch 0, level warning, description
   other than close_notify) is inert: nothing at all is output (no error into the capacity-1 channel nobody reads
   yet, no alert, nothing closed, nothing delivered, no replay commit) and the state is untouched.  The harness replays
   15fefd0000<seq>0002015a once, twice and three times at every handshake step: the handshake must complete and
   the first Read must return the peer's payload *)
Theorem C08_warning_alert_inert_before_establishment :
  forall (W : nat) (lease full : bool) (s : rstate) (w : wire) (level desc : N),
    w_epoch w = 0 -> w_clear w = CAlert level desc -> is_warning (CAlert level desc) = true ->
    recv_conn W lease full false s w = (s, []).
Proof. exact warning_alert_inert_before_establishment. Qed.
Print Assumptions C08_warning_alert_inert_before_establishment.

(* ONCE ESTABLISHED every unprotected alert - fatal, close_notify or warning - is inert: nothing output (no close,
   no close_notify reply, no Read error), state untouched (no replay commit), full buffer or not.  The
   post-establishment half of exception X1 is gone (d95e20d).  Regression corpus: 15fefd0000<seq>00020228,
   ...00020100, ...0002015a after the handshake *)
Theorem C08_unprotected_alert_inert_established :
  forall (W : nat) (lease full : bool) (s : rstate) (w : wire),
    unprotected_alert w = true -> recv_conn W lease full true s w = (s, []).
Proof. exact unprotected_alert_inert_established_conn. Qed.
Print Assumptions C08_unprotected_alert_inert_established.

(* ... and so is an unprotected change_cipher_spec: it only ends the peer's epoch 0 while the handshake runs *)
Theorem C08_unprotected_ccs_inert_established :
  forall (W : nat) (lease full : bool) (s : rstate) (w : wire),
    unprotected_ccs w = true -> recv_conn W lease full true s w = (s, []).
Proof. exact unprotected_ccs_inert_established_conn. Qed.
Print Assumptions C08_unprotected_ccs_inert_established.

(* what exception X1 still is, as coded: WHILE THE HANDSHAKE IS RUNNING an unprotected fatal alert with a record
   number the epoch-0 window accepts closes the endpoint (DTLS 1.2 alerts are unauthenticated until the epoch
   changes); its number is not committed *)
Theorem C08_unprotected_fatal_alert_before_establishment :
  forall (W : nat) (lease : bool) (s : rstate) (w : wire) (desc : N),
    r_closed s = false -> w_epoch w = 0 -> w_clear w = CAlert alert_fatal desc -> desc <> desc_close_notify ->
    check maxseq48 (get_win W 0 (r_wins s)) (w_seq w) = true ->
    snd (recv_conn W lease false false s w) = [OClosed].
Proof. exact unprotected_fatal_alert_before_establishment. Qed.
Print Assumptions C08_unprotected_fatal_alert_before_establishment.

(* ... and equally inert while a dual-stack endpoint is still negotiating the version.  (Regression corpus:
   15fefd0000<seq>0002016e to a dual-stack client before the server's first answer; before abcaac6 it ended
   the handshake.) *)
Theorem C08_warning_alert_inert_during_negotiation :
  forall (W : nat) (lease full est : bool) (s : rstate) (w : wire) (level desc : N),
    w_epoch w = 0 -> w_clear w = CAlert level desc -> is_warning (CAlert level desc) = true ->
    recv_conn_neg W lease full true est s w = (s, []).
Proof. exact warning_alert_inert_during_negotiation. Qed.
Print Assumptions C08_warning_alert_inert_during_negotiation.

Theorem C08_recv_conn_is_recv :
  forall (W : nat) (lease : bool) (s : rstate) (w : wire),
    recv_conn W lease false true s w = recv_est true W lease s w.
Proof. exact recv_conn_established. Qed.
Print Assumptions C08_recv_conn_is_recv.

(* ---- the epoch-0 replay window never moves (5206069) ---- *)

(* an unprotected record is checked against the epoch-0 window but its number is never committed *)
Theorem C08_epoch0_window_never_moves :
  forall (W : nat) (lease full est : bool) (s : rstate) (w : wire),
    w_epoch w = 0 -> r_wins (fst (recv_conn W lease full est s w)) = r_wins s.
Proof. exact epoch0_window_never_moves. Qed.
Print Assumptions C08_epoch0_window_never_moves.

(* whatever record number an unprotected record carries (2^48-1 included) the replay verdict on every later
   record is unchanged.  (Regression corpus: 16fefd0000ffffffffffff000d0b00006401f4000000000001aa and the warning
   alert 15fefd0000ffffffffffff0002015a at every handshake step; before, ONE such record made every later
   genuine epoch-0 record a "replay" and the handshake never completed.) *)
Theorem C08_unprotected_number_harmless :
  forall (W : nat) (lease full est : bool) (s : rstate) (g : wire) (e q : N),
    w_epoch g = 0 ->
    check maxseq48 (get_win W e (r_wins (fst (recv_conn W lease full est s g)))) q =
    check maxseq48 (get_win W e (r_wins s)) q.
Proof. exact unprotected_number_harmless. Qed.
Print Assumptions C08_unprotected_number_harmless.

Theorem C08_epoch0_never_marks :
  forall (W : nat) (lease full est : bool) (s : rstate) (w : wire),
    w_epoch w = 0 -> marks (snd (recv_conn W lease full est s w)) = [].
Proof. exact epoch0_never_marks. Qed.
Print Assumptions C08_epoch0_never_marks.

Theorem C08_warning_alert_silent_before_establishment :
  forall (W : nat) (lease full : bool) (s : rstate) (w : wire) (level desc : N),
    w_epoch w = 0 -> w_clear w = CAlert level desc -> is_warning (CAlert level desc) = true ->
    snd (recv_conn W lease full false s w) = [].
Proof. exact warning_alert_silent_before_establishment. Qed.
Print Assumptions C08_warning_alert_silent_before_establishment.

(* ---- KNOWN findings, as coded (witnesses) ---- *)

(* F101: an unprotected return_routability_check record that decodes is answered with a fatal
   unexpected_message alert and an error, in every phase (the pinned suite demands it) *)
Theorem C08_unprotected_rrc_refuted :
  forall (W : nat) (lease full est : bool) (s : rstate) (w : wire),
    r_closed s = false -> w_epoch w = 0 -> w_clear w = CRrc ->
    check maxseq48 (get_win W 0 (r_wins s)) (w_seq w) = true ->
    snd (recv_conn W lease full est s w) = [OAlert alert_fatal desc_unexpected_message; OErr].
Proof. exact unprotected_rrc_refuted. Qed.
Print Assumptions C08_unprotected_rrc_refuted.

(* F102: the slot of a message the peer sends protected is taken by an unprotected record (reassembly is keyed
   by message_seq only): the forged message is popped with epoch 0, the genuine one never *)
Theorem C08_slot_theft_refuted :
  map (fun p => (p_epoch p, p_body p)) (snd (fst (Buffer.run Buffer.init [slot_forged; slot_genuine]))) = [(0, [0; 0])] /\
  map (fun p => (p_epoch p, p_body p)) (snd (fst (Buffer.run Buffer.init [slot_genuine]))) = [(2, [7; 7])].
Proof. exact slot_theft_refuted. Qed.
Print Assumptions C08_slot_theft_refuted.

(* F103: one forged first fragment pins the length of the next message, which is then never reassembled.
   (F104, 1200 stored fragments against the limit of 1000: the count limit is tested once per record, which is
   exactly the bound C08_reassembly_bounds states - count + 1 <= max_count + K for records of at most K fragments.) *)
Theorem C08_pinned_length_refuted :
  snd (fst (Buffer.run Buffer.init [pin_forged; pin_genuine; pin_genuine])) = [] /\
  map p_body (snd (fst (Buffer.run Buffer.init [pin_genuine]))) = [[1; 2; 3; 4]].
Proof. exact pinned_length_refuted. Qed.
Print Assumptions C08_pinned_length_refuted.

(* ---- protected records that fail authentication ---- *)
Theorem C08_forged_dropped :
  forall (W : nat) (lease : bool) (s : rstate) (w : wire), forgedb w = true ->
    snd (recv W lease s w) = [] /\
    same_except_queue s (fst (recv W lease s w)) /\
    (r_queue (fst (recv W lease s w)) = r_queue s \/
     (r_queue (fst (recv W lease s w)) = r_queue s ++ [w] /\ (length (r_queue s) < max_queue)%nat /\
      lease = true /\ (w_epoch w = r_epoch s + 1 \/ r_init s = false))).
Proof. exact forged_dropped. Qed.
Print Assumptions C08_forged_dropped.

(* ---- fixed buffering limits, over every history ---- *)
Theorem C08_queue_bound :
  forall (W : nat) (cid : bytes) (rrc : bool) (ops : list op),
    (length (r_queue (fst (run_ops W (rinit cid rrc) ops))) <= max_queue)%nat.
Proof. exact queue_bounded. Qed.
Print Assumptions C08_queue_bound.

Theorem C08_limits_generated : N.of_nat max_queue = g_max_queue /\ max_size = 2000000 /\ max_count = 1000.
Proof. vm_compute. repeat split; reflexivity. Qed.
Print Assumptions C08_limits_generated.

Theorem C08_reassembly_bounds :
  forall K (ops : list api), Forall (fun a => api_nfrags a <= K) ops ->
    let st := fold_left api_step ops init in
    WF st /\ size st < max_size /\ count st + 1 <= max_count + K.
Proof. exact hostile_bounds. Qed.
Print Assumptions C08_reassembly_bounds.

Theorem C08_pop_never_panics :
  forall ops : list api, pop (fold_left api_step ops init) <> PPanic.
Proof. exact pop_never_panics. Qed.
Print Assumptions C08_pop_never_panics.

Theorem C08_run_never_panics :
  forall rs : list record, snd (run init rs) = false.
Proof. exact run_never_panics. Qed.
Print Assumptions C08_run_never_panics.

(* ---- garbage does not change what genuine traffic does ---- *)

(* one step, unconditionally: what a record outputs after a forged record = what it outputs without it *)
Theorem C08_keeps_serving :
  forall (W : nat) (s : rstate) (g r : wire), forgedb g = true ->
    snd (recv W true (fst (recv W true s g)) r) = snd (recv W true s r).
Proof. exact keeps_serving. Qed.
Print Assumptions C08_keeps_serving.

(* every history: forged protected records inserted ANYWHERE among arrivals, key installation and queue
   replays change no output (deliveries, alerts, errors, handshake progress, replay commits) provided a
   queue slot is free whenever a record arrives; the final states differ by forged queue entries only *)
Theorem C08_keeps_serving_run :
  forall (W : nat) (ops : list op) (s t : rstate), sim s t -> queue_room W t ops ->
    snd (run_ops W t ops) = snd (run_ops W s (C08Robust.strip ops)) /\
    sim (fst (run_ops W s (C08Robust.strip ops))) (fst (run_ops W t ops)).
Proof. exact keeps_serving_run. Qed.
Print Assumptions C08_keeps_serving_run.

Theorem C08_keeps_serving_from_start :
  forall (W : nat) (cid : bytes) (rrc : bool) (ops : list op), queue_room W (rinit cid rrc) ops ->
    snd (run_ops W (rinit cid rrc) ops) = snd (run_ops W (rinit cid rrc) (C08Robust.strip ops)).
Proof. exact keeps_serving_from_start. Qed.
Print Assumptions C08_keeps_serving_from_start.

Theorem C08_keeps_serving_state :
  forall (W : nat) (s : rstate) (g r : wire), forgedb g = true -> forgedb r = false ->
    (length (r_queue (fst (recv W true s g))) < max_queue)%nat ->
    (forall w, In w (r_queue s) -> forgedb w = false) ->
    sim (fst (recv W true s r)) (fst (recv W true (fst (recv W true s g)) r)).
Proof. exact keeps_serving_state. Qed.
Print Assumptions C08_keeps_serving_state.

(* the exception the code really has (the side condition above is needed): with 99 records waiting, a forged
   next-epoch record takes the last queue slot and the genuine record behind it is not queued *)
Theorem C08_queue_full_exception_refuted :
  forgedb qx_forged = true /\ forgedb qx_genuine = false /\
  r_queue (fst (recv 64 true qx_state qx_genuine)) = r_queue qx_state ++ [qx_genuine] /\
  r_queue (fst (recv 64 true (fst (recv 64 true qx_state qx_forged)) qx_genuine)) = r_queue qx_state ++ [qx_forged].
Proof. exact queue_full_exception_refuted. Qed.
Print Assumptions C08_queue_full_exception_refuted.

(* ---- the reassembly buffer at its limit (FragmentBuffer.Push as repaired in 826a95e) ---- *)

(* every record that is not a handshake record - application data, alerts, change_cipher_spec, ACK, RRC -
   is processed exactly as with room in the buffer *)
Theorem C08_full_buffer_passes_non_handshake :
  forall (W : nat) (lease : bool) (s : rstate) (w : wire),
    hs_content w = false -> recv_fb W lease true s w = recv W lease s w.
Proof. exact full_buffer_passes_non_handshake. Qed.
Print Assumptions C08_full_buffer_passes_non_handshake.

(* positive: with the buffer full, an authentic application record for an established, open connection is
   delivered exactly when the replay detector of its epoch accepts its number *)
Theorem C08_appdata_delivered_with_full_buffer :
  forall (W : nat) (lease : bool) (s : rstate) (w : wire) (p : bytes),
    r_closed s = false -> r_init s = true -> w_epoch w <> 0 -> w_epoch w <= r_epoch s ->
    w_ctype w <> ct_ccs -> w_auth w = Some (CApp p) ->
    (len (r_cid s) = 0 \/ w_ctype w = ct_cid) ->
    bytes_eqb (r_cid s) (if w_ctype w =? ct_cid then w_cid w else []) = true ->
    deliveries (snd (recv_fb W lease true s w)) =
      if check maxseq48 (get_win W (w_epoch w) (r_wins s)) (w_seq w) then [(p, w_epoch w, w_seq w)] else [].
Proof. exact appdata_delivered_with_full_buffer. Qed.
Print Assumptions C08_appdata_delivered_with_full_buffer.

(* regression witness of the repaired wedge (before 826a95e this delivery list was empty) *)
Theorem C08_full_buffer_appdata_regression :
  deliveries (snd (recv_fb 64 true true wedge_state wedge_record)) = [([42], 1, 7)].
Proof. exact full_buffer_appdata_regression. Qed.
Print Assumptions C08_full_buffer_appdata_regression.

(* handshake records are still refused: no output, so no handshake progress *)
Theorem C08_full_buffer_refuses_handshake :
  forall (W : nat) (lease : bool) (s : rstate) (w : wire),
    hs_content w = true -> snd (recv_fb W lease true s w) = [].
Proof. exact full_buffer_refuses_handshake. Qed.
Print Assumptions C08_full_buffer_refuses_handshake.

(* what remains open: "an authentic handshake record of the expected flight makes the handshake progress" is
   false behind a full buffer - the peer's Finished is refused *)
Theorem C08_full_buffer_handshake_wedge_refuted :
  snd (recv_fb 64 true false wedge_state wedge_finished) = [OMark 1 0; OHs false] /\
  snd (recv_fb 64 true true wedge_state wedge_finished) = [] /\
  fst (recv_fb 64 true true wedge_state wedge_finished) = wedge_state.
Proof. exact full_buffer_handshake_wedge_refuted. Qed.
Print Assumptions C08_full_buffer_handshake_wedge_refuted.

(* ... and the buffer can be driven there by unauthenticated fragments and then stays there (C12) *)
Theorem C08_buffer_fills_and_stays_full :
  (snd (fst (run init cap_history)) = [] /\ Full (fst (fst (run init cap_history)))) /\
  (forall st rs, Full st -> run st rs = (st, [], false)).
Proof. split; [exact (proj2 capacity_wedges_refuted) | exact full_rejects_forever]. Qed.
Print Assumptions C08_buffer_fills_and_stays_full.

(* non-vacuity: a handshake prefix, forged records inserted at three places (one is queued), the
   genuine records: the premises of C08_keeps_serving_from_start hold and the outputs are equal *)
Example C08_example :
  let f1 := {| w_ctype := 23; w_epoch := 1; w_seq := 1; w_cid := []; w_auth := None; w_clear := CBad |} in
  let f2 := {| w_ctype := 22; w_epoch := 2; w_seq := 0; w_cid := []; w_auth := None; w_clear := CBad |} in
  let fin := {| w_ctype := 22; w_epoch := 1; w_seq := 0; w_cid := []; w_auth := Some (CHs true false); w_clear := CBad |} in
  let app := {| w_ctype := 23; w_epoch := 1; w_seq := 1; w_cid := []; w_auth := Some (CApp [7]); w_clear := CBad |} in
  let ccs := {| w_ctype := 20; w_epoch := 0; w_seq := 4; w_cid := []; w_auth := None; w_clear := CCCS |} in
  let ops := [Arrive f1; Arrive fin; InitCipher; Arrive f2; Arrive ccs; Drain; Arrive f1; Arrive app] in
  queue_room 64 (rinit [] false) ops /\
  C08Robust.strip ops = [Arrive fin; InitCipher; Arrive ccs; Drain; Arrive app] /\
  deliveries (snd (run_ops 64 (rinit [] false) ops)) = [([7], 1, 1)].
Proof. vm_compute. repeat split; auto. all: try lia. Qed.
