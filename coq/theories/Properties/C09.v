(* C09 - Nonce uniqueness: an (epoch, sequence number) pair is never emitted twice.
   Statements only; proofs in Rec/SendSound.v. *)
From DtlsV Require Import Lib.Bytes Gen.Generated Rec.Send Rec.SendSound.
Open Scope N_scope.

(* For every history of emissions (application writes, handshake fragments incl. retransmitted
   flights, alerts, ... each "emit k records at epoch e"), in any order and number: all record
   numbers are distinct, those of one epoch strictly increase in emission order, none exceeds 2^48-1. *)
Theorem C09_emit_unique :
  forall ops : list sop,
    (forall o, In o ops -> match o with SExportImport _ => False | _ => True end) ->
    let l := snd (srun [] ops) in
    NoDup l /\ incr_per_epoch l /\ (forall e n, In (e, n) l -> n <= max_seq).
Proof. exact emit_unique. Qed.
Print Assumptions C09_emit_unique.

(* a write fails rather than wrap at 2^48 *)
Theorem C09_no_wrap :
  forall (c : counters) (e : N) (k : nat), max_seq < get_ctr e c ->
    emit c e (S k) = (set_ctr e (get_ctr e c + 1) c, [], false).
Proof. exact no_wrap. Qed.
Print Assumptions C09_no_wrap.

(* the sequence continues without overlap after the session is exported and re-imported
   (the original stops at the export point; the import keeps the current epoch's counter) *)
Theorem C09_export_import_continues :
  forall (ops1 ops2 : list sop) (e : N),
    (forall o, In o ops1 -> match o with SExportImport _ => False | _ => True end) ->
    (forall o, In o ops2 -> match o with SExportImport _ => False | SEmit e' _ => e' = e end) ->
    let '(c1, l1) := srun [] ops1 in
    let '(c2, l2) := srun (fst (sstep c1 (SExportImport e))) ops2 in
    NoDup (l1 ++ l2) /\ incr_per_epoch (l1 ++ l2).
Proof. exact export_import_continues. Qed.
Print Assumptions C09_export_import_continues.

(* tie to the regenerated constant of the current tree *)
Theorem C09_generated_max : g_max_sequence_number = max_seq.
Proof. vm_compute. reflexivity. Qed.
Print Assumptions C09_generated_max.

Example C09_example :
  snd (srun [] [SEmit 0 3; SEmit 1 1; SEmit 1 2; SEmit 0 3; SEmit 1 1]) =
  [(0,0); (0,1); (0,2); (1,0); (1,1); (1,2); (0,3); (0,4); (0,5); (1,3)].
Proof. vm_compute. reflexivity. Qed.
