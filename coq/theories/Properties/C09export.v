(* C09 - Nonce uniqueness, export/import as operations of the history: a connection may be asked
   for its state any number of times between emissions; a connection imported from any of these
   states never re-emits a record number.  Statements only; proofs in Rec/SendExportSound.v. *)
From DtlsV Require Import Lib.Bytes Rec.Send Rec.SendSound Rec.SendExport Rec.SendExportSound.
Open Scope N_scope.

(* For every history `ops` of emissions and exports of one connection (any number of exports, at
   any moments), every state (e, n, pre) it exported (pre = the records emitted up to that export,
   see C09_snapshot_is_export_moment) and every sequence of emissions of the connection imported
   from it: the union has no repeated record number, numbers of one epoch strictly increase in
   emission order, and every number emitted after the import is above every number of that epoch
   emitted before the export (and at least the exported counter). *)
Theorem C09_export_import_no_reuse :
  forall (ops : list xop) (e n : N) (pre : list (N * N)) (opsI : list sop),
    In (e, n, pre) (x_snaps (xrun Fresh xinit ops)) -> emits_at e opsI ->
    let l2 := xafter e n opsI in
    NoDup (pre ++ l2) /\ incr_per_epoch (pre ++ l2) /\
    (forall a b, In (e, a) pre -> In (e, b) l2 -> a < b) /\
    (forall e' b, In (e', b) l2 -> e' = e /\ n <= b).
Proof. exact export_import_no_reuse. Qed.
Print Assumptions C09_export_import_no_reuse.

(* what a snapshot stands for: the export made after some prefix ops1 of the history; `pre` is what
   had been emitted by then and (Fresh) the exported counter is the counter of that moment *)
Theorem C09_snapshot_is_export_moment :
  forall (m : export_mode) (ops : list xop) (e n : N) (pre : list (N * N)),
    In (e, n, pre) (x_snaps (xrun m xinit ops)) ->
    exists ops1 e' ops2, ops = ops1 ++ XExport e' :: ops2 /\
      pre = x_emitted (xrun m xinit ops1) /\
      (m = Fresh -> e' = e /\ n = get_ctr e (x_ctrs (xrun m xinit ops1))).
Proof. exact snapshot_is_export_moment. Qed.
Print Assumptions C09_snapshot_is_export_moment.

(* the variant in which the first exported state is kept and handed out again (memoised
   ConnectionState): a later export followed by an import re-emits a used record number *)
Theorem C09_export_import_no_reuse_refuted :
  exists ops e n pre opsI,
    In (e, n, pre) (x_snaps (xrun Memo xinit ops)) /\ emits_at e opsI /\
    exists a, In (e, a) pre /\ In (e, a) (xafter e n opsI).
Proof. exact export_import_no_reuse_refuted. Qed.
Print Assumptions C09_export_import_no_reuse_refuted.

Example C09_export_example :
  let s := xrun Fresh xinit [XEmit 1 1; XExport 1; XEmit 1 3; XExport 1] in
  x_snaps s = [(1, 1, [(1,0)]); (1, 4, [(1,0); (1,1); (1,2); (1,3)])] /\
  xafter 1 4 [SEmit 1 2] = [(1,4); (1,5)].
Proof. vm_compute. split; reflexivity. Qed.
