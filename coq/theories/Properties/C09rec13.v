(* C09 (DTLS 1.3 leg, rec13) - Nonce uniqueness on the DTLS 1.3 send side.  Statements only; model
   Rec/Rec13.v (send_record / sstep: nextLocalSequenceNumber, sealRecordContent, commitLocalKeyUpdate),
   proofs Rec/Rec13Sound.v. *)
From DtlsV Require Import Lib.Bytes Rec.Window Rec.WindowSound Rec.Rec13 Rec.Rec13Sound.
From DtlsV Require Rec.RecvSound Rec.SendSound.
From Coq Require Import Permutation.
Open Scope N_scope.

(* For every history of fewer than 2^64 emission attempts of a DTLS 1.3 sender (application data, alerts, ACKs,
   handshake fragments and retransmissions at any epoch, key installations, local KeyUpdate commits): the
   (epoch, record number) pairs of the emitted records are pairwise distinct, strictly increasing within each
   epoch in emission order, and at most 2^48-1. *)
Theorem C09_13_send_unique :
  forall (snmask : N -> bytes -> N) (aseal : N -> N -> bytes -> bytes -> bytes) 
    (overhead : N) (cid : bytes) (ops : list sop),
  N.of_nat (length ops) < w64 ->
  let l := map recnum (snd (srun snmask aseal overhead (sinit cid) ops)) in
  NoDup l /\ incr_per_epoch l /\ (forall e n : N, In (e, n) l -> n <= maxseq48).
Proof. exact send_unique. Qed.
Print Assumptions C09_13_send_unique.

(* PREMISE: distinct generations (epochs) have distinct AEAD keys (the code derives generation g+1's secret from
   generation g's by HKDF-Expand-Label "traffic upd"; injectivity of that chain is the idealisation), IVs are 12
   bytes.  Then no (key, nonce) pair is used twice: nonce = IV xor 64-bit record number (recordNonce13). *)
Theorem C09_13_key_nonce_unique :
  forall (snmask : N -> bytes -> N) (aseal : N -> N -> bytes -> bytes -> bytes) 
    (overhead : N) (K : Type) (key_of : N -> K) (iv_of : N -> bytes) 
    (cid : bytes) (ops : list sop),
  (forall e e' : N, key_of e = key_of e' -> e = e') ->
  (forall e : N, length (iv_of e) = 12%nat) ->
  N.of_nat (length ops) < w64 ->
  NoDup
    (map (fun x : emitted => (key_of (em_epoch x), nonce13 (iv_of (em_epoch x)) (em_seq x)))
       (snd (srun snmask aseal overhead (sinit cid) ops))).
Proof. exact key_nonce_unique. Qed.
Print Assumptions C09_13_key_nonce_unique.

(* recordNonce13 is injective in the record number. *)
Theorem C09_13_nonce_injective :
  forall (iv : list N) (q1 q2 : N),
  length iv = 12%nat -> q1 < w64 -> q2 < w64 -> nonce13 iv q1 = nonce13 iv q2 -> q1 = q2.
Proof. exact nonce13_inj. Qed.
Print Assumptions C09_13_nonce_injective.

(* Sequence-number exhaustion as coded: once the epoch's counter exceeds 2^48-1 every write fails (the DTLS 1.2
   bound is applied to DTLS 1.3 too); nothing wraps. *)
Theorem C09_13_no_wrap :
  forall (snmask : N -> bytes -> N) (aseal : N -> N -> bytes -> bytes -> bytes) 
    (overhead : N) (st : sstate) (e t : N) (body : bytes),
  maxseq48 < get_ctr e (s_ctr st) ->
  snd (send_record snmask aseal overhead st e t body) = None.
Proof. exact send_no_wrap. Qed.
Print Assumptions C09_13_no_wrap.

(* Epochs are never reused: a local KeyUpdate commit moves to epoch+1 with fresh counters untouched, keeps the
   previous generation (for retransmissions) ... *)
Theorem C09_13_commit_next_epoch :
  forall (snmask : N -> bytes -> N) (aseal : N -> N -> bytes -> bytes -> bytes) 
    (overhead : N) (st : sstate) (c : N),
  s_wcur st = Some c ->
  c = s_lepoch st ->
  c <> 65535 ->
  let st1 := fst (sstep snmask aseal overhead st SCommitKeyUpdate) in
  s_wcur st1 = Some (c + 1) /\
  s_lepoch st1 = c + 1 /\ has_wgen st1 c = true /\ s_ctr st1 = s_ctr st.
Proof. exact commit_next_epoch. Qed.
Print Assumptions C09_13_commit_next_epoch.

(* ... and is refused at epoch 65535. *)
Theorem C09_13_no_epoch_wrap :
  forall (snmask : N -> bytes -> N) (aseal : N -> N -> bytes -> bytes -> bytes) 
    (overhead : N) (st : sstate),
  s_wcur st = Some 65535 -> sstep snmask aseal overhead st SCommitKeyUpdate = (st, []).
Proof. exact commit_no_epoch_wrap. Qed.
Print Assumptions C09_13_no_epoch_wrap.

(* non-vacuity: handshake keys, application keys, writes, a key update, a retransmission at the old epoch *)
Example C09_13_example :
  map recnum (snd (srun (fun _ _ => 0) (fun _ _ _ i => i ++ repeat 0 16) 16 (sinit [])
    [SInstallWrite 2; SSetLocalEpoch 2; SWrite 22 [1]; SWrite 22 [2]; SInstallWrite 3; SSetLocalEpoch 3;
     SWrite 23 [3]; SWriteAt 2 22 [2]; SWrite 23 [4]; SCommitKeyUpdate; SWrite 23 [5]; SWriteAt 3 23 [6]; SWrite 23 [7]]))
  = [(2, 0); (2, 1); (3, 0); (2, 2); (3, 1); (4, 0); (3, 2); (4, 1)].
Proof. vm_compute. reflexivity. Qed.
