(* C10 - Wire conformance: secrets and protected records match the RFC formulas.
   The deciding part of C10 is the correspondence check (checks/c10.py): the real Go functions and
   the independent Gallina implementation below are evaluated on the same inputs and compared
   byte for byte.  The theorems here are well-formedness statements about that specification
   (statements closed by [exact]; proofs in Crypto/C10*Sound.v), plus the known-answer tests that
   pin the model's primitives to FIPS 180-4 / RFC 4231 / RFC 5869 / RFC 3610 by kernel evaluation. *)
From DtlsV Require Import Lib.Bytes Gen.Generated Crypto.C10Sha2 Crypto.C10Hmac Crypto.C10Prf
  Crypto.C10PrfSound Crypto.C10Layout Crypto.C10LayoutSound Crypto.C10Hkdf Crypto.C10HkdfSound
  Crypto.C10Suites Crypto.C10SuitesSound Crypto.C10Aes Crypto.C10Record Crypto.C10Transcript
  Crypto.C10TranscriptSound Crypto.C10Run.
Open Scope N_scope.

(* P_hash yields exactly the requested number of bytes, for every secret, seed and length
   (premise: the hash has a fixed positive output size; discharged below for the four instances). *)
Theorem C10_phash_length :
  forall (H : hashfn) (secret seed : bytes) (n : nat), hash_wf H -> length (p_hash H secret seed n) = n.
Proof. exact phash_length. Qed.
Print Assumptions C10_phash_length.

Theorem C10_hashes_wf :
  hash_wf H_sha256 /\ hash_wf H_sha384 /\ hash_wf H_sha512 /\ hash_wf H_sha1.
Proof. exact hashes_wf. Qed.
Print Assumptions C10_hashes_wf.

(* shorter requests are prefixes of longer ones (one stream) *)
Theorem C10_phash_prefix :
  forall (H : hashfn) (secret seed : bytes) (n m : nat), hash_wf H -> (n <= m)%nat ->
    p_hash H secret seed n = firstn n (p_hash H secret seed m).
Proof. exact phash_prefix. Qed.
Print Assumptions C10_phash_prefix.

(* RFC 5246 section 6.3: for all mac/key/iv lengths the six keys are consecutive disjoint slices of
   the key block in the order client MAC, server MAC, client key, server key, client IV, server IV,
   of the requested lengths, and concatenate to the first 2*(mac+key+iv) bytes *)
Theorem C10_keyblock_partition :
  forall (mac key iv : nat) (kb : bytes), (key_block_len mac key iv <= length kb)%nat ->
  let p := partition mac key iv kb in
  k_client_mac p = slice 0 mac kb /\
  k_server_mac p = slice mac mac kb /\
  k_client_key p = slice (2 * mac) key kb /\
  k_server_key p = slice (2 * mac + key) key kb /\
  k_client_iv p = slice (2 * mac + 2 * key) iv kb /\
  k_server_iv p = slice (2 * mac + 2 * key + iv) iv kb /\
  length (k_client_mac p) = mac /\ length (k_server_mac p) = mac /\
  length (k_client_key p) = key /\ length (k_server_key p) = key /\
  length (k_client_iv p) = iv /\ length (k_server_iv p) = iv /\
  k_client_mac p ++ k_server_mac p ++ k_client_key p ++ k_server_key p ++
    k_client_iv p ++ k_server_iv p = firstn (key_block_len mac key iv) kb.
Proof. exact keyblock_partition. Qed.
Print Assumptions C10_keyblock_partition.

(* ... and applied to the PRF expansion the six keys are exactly the whole expansion *)
Theorem C10_encryption_keys_partition :
  forall H ms cr sr mac key iv, hash_wf H ->
  let p := encryption_keys H ms cr sr mac key iv in
  k_client_mac p ++ k_server_mac p ++ k_client_key p ++ k_server_key p ++
    k_client_iv p ++ k_server_iv p = key_block H ms cr sr (key_block_len mac key iv) /\
  length (k_client_mac p) = mac /\ length (k_server_mac p) = mac /\
  length (k_client_key p) = key /\ length (k_server_key p) = key /\
  length (k_client_iv p) = iv /\ length (k_server_iv p) = iv.
Proof. exact encryption_keys_partition. Qed.
Print Assumptions C10_encryption_keys_partition.

Theorem C10_tls12_labels :
  label_master_secret = [109;97;115;116;101;114;32;115;101;99;114;101;116] /\
  label_extended_master_secret =
    [101;120;116;101;110;100;101;100;32;109;97;115;116;101;114;32;115;101;99;114;101;116] /\
  label_key_expansion = [107;101;121;32;101;120;112;97;110;115;105;111;110] /\
  label_client_finished = [99;108;105;101;110;116;32;102;105;110;105;115;104;101;100] /\
  label_server_finished = [115;101;114;118;101;114;32;102;105;110;105;115;104;101;100].
Proof. exact tls12_labels. Qed.
Print Assumptions C10_tls12_labels.

Theorem C10_psk_premaster_layout :
  forall psk : bytes,
  length (psk_premaster psk) = (4 + 2 * length psk)%nat /\
  firstn 2 (psk_premaster psk) = be_enc 2 (len psk) /\
  slice 2 (length psk) (psk_premaster psk) = repeat 0 (length psk) /\
  slice (2 + length psk) 2 (psk_premaster psk) = be_enc 2 (len psk) /\
  skipn (4 + length psk) (psk_premaster psk) = psk.
Proof. exact psk_premaster_layout. Qed.
Print Assumptions C10_psk_premaster_layout.

Theorem C10_ecdhe_psk_premaster_injective :
  forall z psk z' psk' : bytes, len z < 65536 -> len z' < 65536 ->
  ecdhe_psk_premaster z psk = ecdhe_psk_premaster z' psk' -> z = z' /\ psk = psk'.
Proof. exact ecdhe_psk_premaster_injective. Qed.
Print Assumptions C10_ecdhe_psk_premaster_injective.

(* ---------------- DTLS 1.2 handshake_messages in wire order (live handshake leg) ---------------- *)

(* RFC 6347 4.2.6: every message is hashed with a 12-byte header saying "one fragment" *)
Theorem C10_hs_unfragmented_layout :
  forall typ seq body,
  hs_unfragmented (typ, seq, body) =
    [typ] ++ be_enc 3 (len body) ++ be_enc 2 seq ++ [0; 0; 0] ++ be_enc 3 (len body) ++ body /\
  length (hs_unfragmented (typ, seq, body)) = (12 + length body)%nat.
Proof. exact hs_unfragmented_layout. Qed.
Print Assumptions C10_hs_unfragmented_layout.

(* RFC 6347 4.2.1: the HelloVerifyRequest and what preceded it are not hashed, everything after it is *)
Theorem C10_counted_after_hvr :
  forall pre h post, is_hvr h = true -> no_hvr post -> counted (pre ++ h :: post) = post.
Proof. exact counted_after_hvr. Qed.
Print Assumptions C10_counted_after_hvr.

Theorem C10_counted_no_hvr : forall l, no_hvr l -> counted l = l.
Proof. exact counted_no_hvr. Qed.
Print Assumptions C10_counted_no_hvr.

(* the hashed byte string determines the messages and their ORDER: an implementation that hashes the
   same messages in an order different from the wire order hashes different bytes *)
Theorem C10_handshake_messages_injective :
  forall l l', no_hvr l -> no_hvr l' -> Forall wm_wf l -> Forall wm_wf l' ->
  handshake_messages l = handshake_messages l' -> l = l'.
Proof. exact handshake_messages_injective. Qed.
Print Assumptions C10_handshake_messages_injective.

Theorem C10_handshake_messages_order_sensitive :
  forall pre a b post,
  no_hvr (pre ++ a :: b :: post) -> no_hvr (pre ++ b :: a :: post) ->
  Forall wm_wf (pre ++ a :: b :: post) -> Forall wm_wf (pre ++ b :: a :: post) -> a <> b ->
  handshake_messages (pre ++ a :: b :: post) <> handshake_messages (pre ++ b :: a :: post).
Proof. exact handshake_messages_order_sensitive. Qed.
Print Assumptions C10_handshake_messages_order_sensitive.

(* ---------------- key log, PSK ServerKeyExchange, DTLS 1.3 ECDSA schemes (live legs) ---------------- *)

Theorem C10_keylog_line_usable_spec :
  forall wcr lcr lsec sec, keylog_line_usable wcr lcr lsec sec = true <-> lcr = wcr /\ lsec = sec.
Proof. exact keylog_line_usable_spec. Qed.
Print Assumptions C10_keylog_line_usable_spec.

(* known finding (KeyLogWriter writes nothing under DTLS 1.3): an absent line is never usable *)
Theorem C10_keylog_absent_refuted :
  forall wcr sec, wcr <> [] -> keylog_line_usable wcr [] [] sec = false.
Proof. exact keylog_absent_refuted. Qed.
Print Assumptions C10_keylog_absent_refuted.

(* known finding (ECDHE_PSK ServerKeyExchange without a configured hint is ServerECDHParams alone): that
   byte string is the RFC 5489 encoding for no hint at all; the conforming one starts with 00 00 *)
Theorem C10_ecdhe_psk_ske_without_hint_length_refuted :
  forall hint curve pub, server_ecdh_params curve pub <> ecdhe_psk_server_key_exchange hint curve pub.
Proof. exact ecdhe_psk_ske_without_hint_length_refuted. Qed.
Print Assumptions C10_ecdhe_psk_ske_without_hint_length_refuted.

Theorem C10_ecdhe_psk_ske_empty_hint :
  forall curve pub, ecdhe_psk_server_key_exchange [] curve pub = [0; 0] ++ server_ecdh_params curve pub.
Proof. exact ecdhe_psk_ske_empty_hint. Qed.
Print Assumptions C10_ecdhe_psk_ske_empty_hint.

(* RFC 8446 4.2.3: one ECDSA scheme per curve; known finding: a secp384r1 key under 0x0403 *)
Theorem C10_ecdsa_scheme13_injective :
  forall g g' s, ecdsa_scheme13 g = Some s -> ecdsa_scheme13 g' = Some s -> g = g'.
Proof. exact ecdsa_scheme13_injective. Qed.
Print Assumptions C10_ecdsa_scheme13_injective.

Theorem C10_p384_key_under_scheme_0403_refuted : ecdsa_scheme13 24 <> Some 1027.
Proof. exact p384_key_under_scheme_0403_refuted. Qed.
Print Assumptions C10_p384_key_under_scheme_0403_refuted.

(* ---------------- record protection layouts (also used by C05 and C09) ---------------- *)

(* equal additional data => equal (epoch, sequence number, type, version, length) *)
Theorem C10_aad_injective :
  forall e s t v l e' s' t' v' l',
  e < 2 ^ 16 -> e' < 2 ^ 16 -> s < 2 ^ 48 -> s' < 2 ^ 48 -> t < 256 -> t' < 256 ->
  v < 2 ^ 16 -> v' < 2 ^ 16 -> l < 2 ^ 16 -> l' < 2 ^ 16 ->
  aad12 e s t v l = aad12 e' s' t' v' l' ->
  e = e' /\ s = s' /\ t = t' /\ v = v' /\ l = l'.
Proof. exact aad12_injective. Qed.
Print Assumptions C10_aad_injective.

(* RFC 9146 additional data: additionally determines the connection ID *)
Theorem C10_aad_cid_injective :
  forall e s v cid l e' s' v' cid' l',
  e < 2 ^ 16 -> e' < 2 ^ 16 -> s < 2 ^ 48 -> s' < 2 ^ 48 ->
  v < 2 ^ 16 -> v' < 2 ^ 16 -> l < 2 ^ 16 -> l' < 2 ^ 16 -> len cid < 256 -> len cid' < 256 ->
  aad12_cid e s v cid l = aad12_cid e' s' v' cid' l' ->
  e = e' /\ s = s' /\ v = v' /\ cid = cid' /\ l = l'.
Proof. exact aad12_cid_injective. Qed.
Print Assumptions C10_aad_cid_injective.

Theorem C10_aad_layouts_disjoint :
  forall e s t v l e' s' v' cid l', aad12 e s t v l <> aad12_cid e' s' v' cid l'.
Proof. exact aad12_vs_cid_disjoint. Qed.
Print Assumptions C10_aad_layouts_disjoint.

(* distinct (epoch, sequence number) within range => distinct nonce under one write IV *)
Theorem C10_nonce_aes_injective :
  forall iv e s e' s', e < 2 ^ 16 -> e' < 2 ^ 16 -> s < 2 ^ 48 -> s' < 2 ^ 48 ->
  nonce_aes iv e s = nonce_aes iv e' s' -> e = e' /\ s = s'.
Proof. exact nonce_aes_injective. Qed.
Print Assumptions C10_nonce_aes_injective.

Theorem C10_nonce_chacha_injective :
  forall iv e s e' s', length iv = 12%nat -> e < 2 ^ 16 -> e' < 2 ^ 16 -> s < 2 ^ 48 -> s' < 2 ^ 48 ->
  nonce_chacha iv e s = nonce_chacha iv e' s' -> e = e' /\ s = s'.
Proof. exact nonce_chacha_injective. Qed.
Print Assumptions C10_nonce_chacha_injective.

Theorem C10_nonce13_injective :
  forall iv s s', length iv = 12%nat -> s < 2 ^ 64 -> s' < 2 ^ 64 -> nonce13 iv s = nonce13 iv s' -> s = s'.
Proof. exact nonce13_injective. Qed.
Print Assumptions C10_nonce13_injective.

Theorem C10_nonce_distinct :
  forall iv e s e' s', length iv = 12%nat -> e < 2 ^ 16 -> e' < 2 ^ 16 -> s < 2 ^ 48 -> s' < 2 ^ 48 ->
  (e, s) <> (e', s') ->
  nonce_aes iv e s <> nonce_aes iv e' s' /\ nonce_chacha iv e s <> nonce_chacha iv e' s'.
Proof. exact nonce_distinct. Qed.
Print Assumptions C10_nonce_distinct.

(* receive side: the nonce is salt || the explicit part carried in the record (the sender's
   epoch||seq is one instance), and it determines that explicit part *)
Theorem C10_nonce_aes_rx_injective :
  forall iv x x', nonce_aes_rx iv x = nonce_aes_rx iv x' -> x = x'.
Proof. exact nonce_aes_rx_injective. Qed.
Print Assumptions C10_nonce_aes_rx_injective.

Theorem C10_nonce_aes_is_rx :
  forall iv e s, nonce_aes iv e s = nonce_aes_rx iv (nonce_explicit e s).
Proof. exact nonce_aes_is_rx. Qed.
Print Assumptions C10_nonce_aes_is_rx.

(* CBC: the block-cipher input is a whole number of blocks with 1..block padding bytes, each
   holding padding_length *)
Theorem C10_cbc_plaintext_aligned :
  forall block content mac, 0 < block ->
  len (cbc_plaintext block content mac) mod block = 0 /\
  1 <= len (cbc_padding block (len content + len mac)) <= block /\
  Forall (fun b => b = len (cbc_padding block (len content + len mac)) - 1)
         (cbc_padding block (len content + len mac)).
Proof. exact cbc_plaintext_aligned. Qed.
Print Assumptions C10_cbc_plaintext_aligned.

(* RFC 9146 section 5.1: the CBC MAC input of a connection-ID record is the RFC 9146 additional
   data followed by the serialized DTLSInnerPlaintext exactly once, and it determines every
   authenticated field (epoch, sequence number, version, connection ID) and the inner plaintext *)
Theorem C10_cbc_mac_input_cid_layout :
  forall e s v cid inner,
  cbc_mac_input_cid e s v cid inner = aad12_cid e s v cid (len inner) ++ inner /\
  length (cbc_mac_input_cid e s v cid inner) = (23 + length cid + length inner)%nat.
Proof. exact cbc_mac_input_cid_layout. Qed.
Print Assumptions C10_cbc_mac_input_cid_layout.

Theorem C10_cbc_mac_input_cid_injective :
  forall e s v cid inner e' s' v' cid' inner',
  e < 2 ^ 16 -> e' < 2 ^ 16 -> s < 2 ^ 48 -> s' < 2 ^ 48 -> v < 2 ^ 16 -> v' < 2 ^ 16 ->
  len cid < 256 -> len cid' < 256 -> len inner < 2 ^ 16 -> len inner' < 2 ^ 16 ->
  cbc_mac_input_cid e s v cid inner = cbc_mac_input_cid e' s' v' cid' inner' ->
  e = e' /\ s = s' /\ v = v' /\ cid = cid' /\ inner = inner'.
Proof. exact cbc_mac_input_cid_injective. Qed.
Print Assumptions C10_cbc_mac_input_cid_injective.

(* ---------------- HKDF / DTLS 1.3 ---------------- *)

(* sequence-number encryption is an involution: unmasking recovers the header bits *)
Theorem C10_sn_mask_involutive :
  forall (seq_bit : bool) (x : N) (mask : bytes),
  bytes_ok mask = true -> (2 <= length mask)%nat -> x < (if seq_bit then 2 ^ 16 else 2 ^ 8) ->
  sn_mask_apply seq_bit (sn_mask_apply seq_bit x mask) mask = x.
Proof. exact sn_mask_involutive. Qed.
Print Assumptions C10_sn_mask_involutive.

Theorem C10_hkdf_expand_length :
  forall H prk info L, hash_wf H -> length (hkdf_expand H prk info L) = L.
Proof. exact hkdf_expand_length. Qed.
Print Assumptions C10_hkdf_expand_length.

(* distinct (length, label, context) => distinct HkdfLabel bytes *)
Theorem C10_hkdf_label_injective :
  forall n label ctx n' label' ctx',
  n < 2 ^ 16 -> n' < 2 ^ 16 ->
  len (dtls13_prefix ++ label) < 256 -> len (dtls13_prefix ++ label') < 256 ->
  len ctx < 256 -> len ctx' < 256 ->
  hkdf_label n label ctx = hkdf_label n' label' ctx' -> n = n' /\ label = label' /\ ctx = ctx'.
Proof. exact hkdf_label_injective. Qed.
Print Assumptions C10_hkdf_label_injective.

Theorem C10_dtls13_labels :
  dtls13_prefix = [100;116;108;115;49;51] /\
  lbl_c_hs_traffic = [99;32;104;115;32;116;114;97;102;102;105;99] /\
  lbl_s_hs_traffic = [115;32;104;115;32;116;114;97;102;102;105;99] /\
  lbl_c_ap_traffic = [99;32;97;112;32;116;114;97;102;102;105;99] /\
  lbl_s_ap_traffic = [115;32;97;112;32;116;114;97;102;102;105;99] /\
  lbl_exp_master = [101;120;112;32;109;97;115;116;101;114] /\
  lbl_res_master = [114;101;115;32;109;97;115;116;101;114] /\
  lbl_derived = [100;101;114;105;118;101;100] /\
  lbl_finished = [102;105;110;105;115;104;101;100] /\
  lbl_traffic_upd = [116;114;97;102;102;105;99;32;117;112;100] /\
  lbl_key = [107;101;121] /\ lbl_iv = [105;118] /\ lbl_sn = [115;110] /\
  lbl_exporter = [101;120;112;111;114;116;101;114].
Proof. exact dtls13_labels. Qed.
Print Assumptions C10_dtls13_labels.

Theorem C10_dtls13_labels_nodup :
  NoDup [lbl_c_hs_traffic; lbl_s_hs_traffic; lbl_c_ap_traffic; lbl_s_ap_traffic; lbl_exp_master;
         lbl_res_master; lbl_derived; lbl_finished; lbl_traffic_upd; lbl_key; lbl_iv; lbl_sn; lbl_exporter].
Proof. exact dtls13_labels_nodup. Qed.
Print Assumptions C10_dtls13_labels_nodup.

(* ---------------- DTLS 1.3 key-update chain ---------------- *)

(* application_traffic_secret_{n+1} = HKDF-Expand-Label(application_traffic_secret_n, "traffic upd", "",
   Hash.length) for every n (RFC 8446 7.2) *)
Theorem C10_traffic_update_chain : forall H secret0 n,
  traffic_secret_n H secret0 (S n) =
  hkdf_expand_label H (traffic_secret_n H secret0 n) lbl_traffic_upd [] (h_len H).
Proof. exact traffic_update_chain. Qed.
Print Assumptions C10_traffic_update_chain.

(* stepping the current secret once per key update yields secret n after n updates *)
Theorem C10_traffic_secret_n_iter : forall H secret0 n,
  Nat.iter n (key_update_step H) secret0 = traffic_secret_n H secret0 n.
Proof. exact traffic_secret_n_iter. Qed.
Print Assumptions C10_traffic_secret_n_iter.

(* m further updates from generation n give generation n+m *)
Theorem C10_traffic_secret_n_add : forall H secret0 n m,
  traffic_secret_n H (traffic_secret_n H secret0 n) m = traffic_secret_n H secret0 (n + m).
Proof. exact traffic_secret_n_add. Qed.
Print Assumptions C10_traffic_secret_n_add.

(* key / iv / sn of generation n are HKDF-Expand-Label of secret n under "key" / "iv" / "sn" *)
Theorem C10_generation_keys_from_secret : forall H secret0 n kl,
  generation_keys H secret0 n kl =
  [traffic_secret_n H secret0 n;
   hkdf_expand_label H (traffic_secret_n H secret0 n) lbl_key [] kl;
   hkdf_expand_label H (traffic_secret_n H secret0 n) lbl_iv [] 12;
   hkdf_expand_label H (traffic_secret_n H secret0 n) lbl_sn [] kl].
Proof. exact generation_keys_from_secret. Qed.
Print Assumptions C10_generation_keys_from_secret.

Theorem C10_generation_keys_step : forall H secret0 n kl,
  generation_keys H secret0 (S n) kl =
  generation_keys H (next_traffic_secret H (traffic_secret_n H secret0 n)) 0 kl.
Proof. exact generation_keys_step. Qed.
Print Assumptions C10_generation_keys_step.

Theorem C10_generation_keys_lengths : forall H secret0 n kl, hash_wf H ->
  map (@length N) (generation_keys H secret0 (S n) kl) = [h_len H; kl; 12%nat; kl].
Proof. exact generation_keys_lengths. Qed.
Print Assumptions C10_generation_keys_lengths.

(* ---------------- suites ---------------- *)

(* tie to the regenerated facts: every suite registered in the current tree has RFC parameters in
   the model's table (so the per-suite correspondence leg covers all of them) *)
Theorem C10_suites_cover_generated : forall s, In s g_suites -> suite_known s = true.
Proof. exact suites_cover_generated. Qed.
Print Assumptions C10_suites_cover_generated.

(* the extra write-IV bytes /repo requests for CBC suites do not change the MAC / encryption keys *)
Theorem C10_encryption_keys_iv_irrelevant :
  forall H ms cr sr mac key iv iv', hash_wf H ->
  let p := encryption_keys H ms cr sr mac key iv in
  let p' := encryption_keys H ms cr sr mac key iv' in
  k_client_mac p = k_client_mac p' /\ k_server_mac p = k_server_mac p' /\
  k_client_key p = k_client_key p' /\ k_server_key p = k_server_key p'.
Proof. exact encryption_keys_iv_irrelevant. Qed.
Print Assumptions C10_encryption_keys_iv_irrelevant.

(* non-vacuity: the hypotheses above are satisfiable and the model computes (kernel evaluation) *)
Example C10_example_aad : aad12 1 5 23 65277 32 = [0;1; 0;0;0;0;0;5; 23; 254;253; 0;32].
Proof. reflexivity. Qed.
Example C10_example_aad_cid : aad12_cid 1 5 65277 [170; 187] 32 =
  [255;255;255;255;255;255;255;255; 25; 2; 25; 254;253; 0;1; 0;0;0;0;0;5; 170;187; 0;32].
Proof. reflexivity. Qed.
Example C10_example_nonce : nonce_chacha (repeat 255 12) 1 5 = [255;255;255;255; 255;254; 255;255;255;255;255;250].
Proof. reflexivity. Qed.
Example C10_example_unified_header : aad13 [] 3 65541 40 = [47; 0;5; 0;40].
Proof. reflexivity. Qed.
(* ClientHello(seq 0), HelloVerifyRequest(seq 0), ClientHello(seq 1), ServerHello(seq 1): only the last two count *)
Example C10_example_handshake_messages :
  handshake_messages [(1, 0, [7]); (3, 0, [8; 9]); (1, 1, [7; 7]); (2, 1, [5])] =
  [1; 0;0;2; 0;1; 0;0;0; 0;0;2; 7;7] ++ [2; 0;0;1; 0;1; 0;0;0; 0;0;1; 5].
Proof. reflexivity. Qed.
