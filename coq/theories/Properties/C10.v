(* C10 - Wire conformance: secrets and protected records match the RFC formulas.
   The deciding part of C10 is the correspondence check (checks/c10.py): the real Go functions and
   the independent Gallina implementation below are evaluated on the same inputs and compared
   byte for byte.  The theorems here are well-formedness statements about that specification
   (statements closed by [exact]; proofs in Crypto/C10*Sound.v), plus the known-answer tests that
   pin the model's primitives to FIPS 180-4 / RFC 4231 / RFC 5869 / RFC 3610 by kernel evaluation. *)
From DtlsV Require Import Lib.Bytes Gen.Generated Crypto.C10Sha2 Crypto.C10Hmac Crypto.C10Prf
  Crypto.C10PrfSound Crypto.C10Run.
Open Scope N_scope.

(* P_hash yields exactly the requested number of bytes, for every secret, seed and length
   (premise: the hash has a fixed positive output size; discharged below for the four instances). *)
Theorem C10_phash_length :
  forall (H : hashfn) (secret seed : bytes) (n : nat), hash_wf H -> length (p_hash H secret seed n) = n.
Proof. exact phash_length. Qed.
Print Assumptions C10_phash_length.

Theorem C10_hashes_wf :
  hash_wf H_sha256 /\ hash_wf H_sha384 /\ hash_wf H_sha512 /\ hash_wf H_sha1.
Proof. exact (conj H_sha256_wf (conj H_sha384_wf (conj H_sha512_wf H_sha1_wf))). Qed.
Print Assumptions C10_hashes_wf.

(* shorter requests are prefixes of longer ones (one stream) *)
Theorem C10_phash_prefix :
  forall (H : hashfn) (secret seed : bytes) (n m : nat), hash_wf H -> (n <= m)%nat ->
    p_hash H secret seed n = firstn n (p_hash H secret seed m).
Proof. exact phash_prefix. Qed.
Print Assumptions C10_phash_prefix.

(* RFC 5246 section 6.3: for all mac/key/iv lengths the six keys are consecutive disjoint slices of
   the key block in the order client MAC, server MAC, client key, server key, client IV, server IV,
   of the requested lengths, and concatenate to the first 2*(mac+key+iv) bytes *)
Theorem C10_keyblock_partition :
  forall (mac key iv : nat) (kb : bytes), (key_block_len mac key iv <= length kb)%nat ->
  let p := partition mac key iv kb in
  k_client_mac p = slice 0 mac kb /\
  k_server_mac p = slice mac mac kb /\
  k_client_key p = slice (2 * mac) key kb /\
  k_server_key p = slice (2 * mac + key) key kb /\
  k_client_iv p = slice (2 * mac + 2 * key) iv kb /\
  k_server_iv p = slice (2 * mac + 2 * key + iv) iv kb /\
  length (k_client_mac p) = mac /\ length (k_server_mac p) = mac /\
  length (k_client_key p) = key /\ length (k_server_key p) = key /\
  length (k_client_iv p) = iv /\ length (k_server_iv p) = iv /\
  k_client_mac p ++ k_server_mac p ++ k_client_key p ++ k_server_key p ++
    k_client_iv p ++ k_server_iv p = firstn (key_block_len mac key iv) kb.
Proof. exact keyblock_partition. Qed.
Print Assumptions C10_keyblock_partition.

(* ... and applied to the PRF expansion the six keys are exactly the whole expansion *)
Theorem C10_encryption_keys_partition :
  forall H ms cr sr mac key iv, hash_wf H ->
  let p := encryption_keys H ms cr sr mac key iv in
  k_client_mac p ++ k_server_mac p ++ k_client_key p ++ k_server_key p ++
    k_client_iv p ++ k_server_iv p = key_block H ms cr sr (key_block_len mac key iv) /\
  length (k_client_mac p) = mac /\ length (k_server_mac p) = mac /\
  length (k_client_key p) = key /\ length (k_server_key p) = key /\
  length (k_client_iv p) = iv /\ length (k_server_iv p) = iv.
Proof. exact encryption_keys_partition. Qed.
Print Assumptions C10_encryption_keys_partition.

Theorem C10_tls12_labels :
  label_master_secret = [109;97;115;116;101;114;32;115;101;99;114;101;116] /\
  label_extended_master_secret =
    [101;120;116;101;110;100;101;100;32;109;97;115;116;101;114;32;115;101;99;114;101;116] /\
  label_key_expansion = [107;101;121;32;101;120;112;97;110;115;105;111;110] /\
  label_client_finished = [99;108;105;101;110;116;32;102;105;110;105;115;104;101;100] /\
  label_server_finished = [115;101;114;118;101;114;32;102;105;110;105;115;104;101;100].
Proof. exact tls12_labels. Qed.
Print Assumptions C10_tls12_labels.

Theorem C10_psk_premaster_layout :
  forall psk : bytes,
  length (psk_premaster psk) = (4 + 2 * length psk)%nat /\
  firstn 2 (psk_premaster psk) = be_enc 2 (len psk) /\
  slice 2 (length psk) (psk_premaster psk) = repeat 0 (length psk) /\
  slice (2 + length psk) 2 (psk_premaster psk) = be_enc 2 (len psk) /\
  skipn (4 + length psk) (psk_premaster psk) = psk.
Proof. exact psk_premaster_layout. Qed.
Print Assumptions C10_psk_premaster_layout.

Theorem C10_ecdhe_psk_premaster_injective :
  forall z psk z' psk' : bytes, len z < 65536 -> len z' < 65536 ->
  ecdhe_psk_premaster z psk = ecdhe_psk_premaster z' psk' -> z = z' /\ psk = psk'.
Proof. exact ecdhe_psk_premaster_injective. Qed.
Print Assumptions C10_ecdhe_psk_premaster_injective.
