(* C11 - Negotiation honours both endpoints' policy.
   Only statements closed by [exact]; the model is Neg/C11Negotiate.v (transcribed from config.go,
   cipher_suite.go, conn.go, internal/config, internal/negotiation, flight12 / flight13, extension/alpn.go,
   signaturehash, parameterised with the attribute tables regenerated from /repo on every run),
   the proofs are in Neg/C11NegotiateSound.v.

   [negotiate c s seeded] : the two option sets (client, server; [seeded] = an earlier association left a
   session in both stores) -> None (a constructor rejects its option set) or Some of
     Ok outcome | Fail side alert | Silent side   (Silent = that side gives up without sending an alert). *)
From DtlsV Require Import Lib.Bytes Gen.GeneratedC11 Neg.C11Negotiate Neg.C11NegotiateSound.
Open Scope N_scope.

(* ---- every negotiated parameter lies within both option sets (all nine clauses at once) *)
Theorem C11_in_policy :
  forall (c s : cfg) (seeded : bool) (o : outcome),
    negotiate c s seeded = Some (Ok o) -> in_policy c s o.
Proof. exact in_policy_holds. Qed.
Print Assumptions C11_in_policy.

(* the same on the values the two connections really work with (after defaults, version narrowing,
   PSK / certificate / key-type / version filtering of the suite lists) *)
Theorem C11_in_policy_effective :
  forall (ck sk : conn) (seeded : bool) (o : outcome),
    conn_wf sk -> negotiate_conn ck sk seeded = Ok o -> in_policy_conn ck sk o.
Proof. exact in_policy_conn_holds. Qed.
Print Assumptions C11_in_policy_effective.

Theorem C11_built_values_come_from_the_option_set :
  forall (is_client : bool) (c : cfg) (k : conn), build is_client c = Some k -> built_from c k.
Proof. exact build_spec. Qed.
Print Assumptions C11_built_values_come_from_the_option_set.

(* ---- "the highest both allow" *)
(* SelectVersion returns the greatest common version PROVIDED the peer's list is a SupportedVersionsRange
   list (newest first) ... *)
Theorem C11_highest_version :
  forall rmn rmx mn mx v,
    select_version (supported_versions rmn rmx) mn mx = Some v ->
    forall w, In w g11_version_order -> in_range rmn rmx w = true -> in_range mn mx w = true -> w <= v.
Proof. exact highest_version. Qed.
Print Assumptions C11_highest_version.

(* ... it takes the FIRST acceptable entry, which on an arbitrary peer list is not the highest *)
Theorem C11_first_acceptable_is_not_highest_refuted :
  exists remote mn mx v w,
    select_version remote mn mx = Some v /\ In w remote /\ in_range mn mx w = true /\ v < w.
Proof. exact highest_version_needs_ordered_list_refuted. Qed.
Print Assumptions C11_first_acceptable_is_not_highest_refuted.

(* between two pion endpoints the premise holds (shape of the generated ClientHello; the harness checks the
   captured supported_versions), so the negotiated version is the greatest one in both ranges *)
Theorem C11_negotiated_version_is_highest :
  forall (c s : cfg) (seeded : bool) (o : outcome) (ck sk : conn),
    build true c = Some ck -> build false s = Some sk -> negotiate c s seeded = Some (Ok o) ->
    forall w, (w = v12 \/ w = v13) ->
      in_range (k_min ck) (k_max ck) w = true -> in_range (k_min sk) (k_max sk) w = true -> w <= o_version o.
Proof. exact negotiated_version_is_highest_cfg. Qed.
Print Assumptions C11_negotiated_version_is_highest.

(* ---- one dimension at a time: empty intersection <-> refusal (with the alert the code sends) *)
Theorem C11_version_refused_iff_empty :
  forall remote mn mx, select_version remote mn mx = None <-> (forall v, In v remote -> in_range mn mx v = false).
Proof. exact select_version_none. Qed.
Print Assumptions C11_version_refused_iff_empty.

(* cipher suite / SRTP profile / ALPN / group all go through [first_common] *)
Theorem C11_first_common_none_iff_disjoint :
  forall a b, first_common a b = None <-> (forall x, In x a -> ~ In x b).
Proof. exact first_common_none. Qed.
Print Assumptions C11_first_common_none_iff_disjoint.

Theorem C11_first_common_is_common :
  forall a b x, first_common a b = Some x -> In x a /\ In x b.
Proof. exact first_common_some. Qed.
Print Assumptions C11_first_common_is_common.

Theorem C11_curve_refused_iff_empty :
  forall local remote,
    select_curve local remote = None <-> (forall g, In g remote -> g <> g11_curve_mlkem -> ~ In g local).
Proof. exact select_curve_none. Qed.
Print Assumptions C11_curve_refused_iff_empty.

Theorem C11_srtp_refused_iff_empty :
  forall ps mk lp lm, ~ In 0 lp ->
    (exists a, negotiate_srtp (Some (ps, mk)) lp lm = RAlert a) <-> (forall p, In p lp -> ~ In p ps).
Proof. exact negotiate_srtp_fail_iff. Qed.
Print Assumptions C11_srtp_refused_iff_empty.

Theorem C11_srtp_refusal_alert :
  forall offer lp lm a, negotiate_srtp offer lp lm = RAlert a -> a = g11_alert_insufficient_security.
Proof. exact negotiate_srtp_alert. Qed.
Print Assumptions C11_srtp_refusal_alert.

Theorem C11_alpn_refused_iff_empty :
  forall sp cp a,
    alpn_select sp cp = RAlert a <->
    a = g11_alert_no_application_protocol /\ sp <> [] /\ cp <> [] /\ (forall x, In x sp -> ~ In x cp).
Proof. exact alpn_fail_iff. Qed.
Print Assumptions C11_alpn_refused_iff_empty.

Theorem C11_ems_server_refuses_iff :
  forall (s : cfg) (h : hello),
    negb (c_ems s =? g11_ems_require) || (h_ems h && negb (c_ems s =? g11_ems_disable)) = false <->
    c_ems s = g11_ems_require /\ h_ems h = false.
Proof. exact ems_server_refuses_iff. Qed.
Print Assumptions C11_ems_server_refuses_iff.

Theorem C11_ems_client_refuses_iff :
  forall (c : cfg) (ext : bool),
    negb (c_ems c =? g11_ems_require) || (ext && negb (c_ems c =? g11_ems_disable)) = false <->
    c_ems c = g11_ems_require /\ ext = false.
Proof. exact ems_client_refuses_iff. Qed.
Print Assumptions C11_ems_client_refuses_iff.

(* no association completes across an empty intersection *)
Theorem C11_empty_intersection_never_completes :
  forall c s seeded o,
    negotiate c s seeded = Some (Ok o) ->
    (exists v, version_allowed c v /\ version_allowed s v) /\
    (exists x, suite_enabled c x /\ suite_enabled s x /\ fits_key (c_key s) x = true) /\
    (o_group o <> 0 -> exists g, In g (eff_curves c) /\ In g (eff_curves s)) /\
    (o_srtp o <> 0 -> exists p, In p (c_srtp c) /\ In p (c_srtp s)) /\
    (o_alpn o <> 0 -> exists p, In p (c_alpn c) /\ In p (c_alpn s)).
Proof. exact empty_intersection_never_completes. Qed.
Print Assumptions C11_empty_intersection_never_completes.

(* ---- whose preference order decides (as coded) *)
Theorem C11_suite_is_first_client_choice_12 :
  forall k ss h r f, server12 k ss h r = ROk f ->
    first_common (filter (fun x => s_supports x v12) (filter known_suite (h_suites h))) ss = Some (f_suite f).
Proof. exact server12_suite_choice. Qed.
Print Assumptions C11_suite_is_first_client_choice_12.

Theorem C11_choices_13 :
  forall k ss h f, server13 k ss h = ROk f ->
    first_common (filter known_suite (h_suites h)) ss = Some (f_suite f) /\
    first_common (k_curves k) (match h_groups h with Some g => g | None => [] end) = Some (f_group f) /\
    select_sig true (inter (filter sig_known (h_sigs h)) (k_sigs k)) (presented_key (k_cfg k) h) = Some (f_sig f).
Proof. exact server13_choices. Qed.
Print Assumptions C11_choices_13.

Theorem C11_first_common_prefers_first_list :
  forall a b x, first_common a b = Some x ->
    exists pre post, a = pre ++ x :: post /\ (forall y, In y pre -> ~ In y b).
Proof. exact first_common_first. Qed.
Print Assumptions C11_first_common_prefers_first_list.

Theorem C11_alpn_server_preference :
  forall sp cp p, alpn_select sp cp = ROk p -> p <> 0 ->
    exists pre post, sp = pre ++ p :: post /\ (forall y, In y pre -> ~ In y cp).
Proof. exact alpn_server_preference. Qed.
Print Assumptions C11_alpn_server_preference.

(* ---- a server never answers with an extension the client did not offer *)
Theorem C11_no_unsolicited_ext_12 :
  forall k ss h r f, server12 k ss h r = ROk f ->
    forall e, In e (f_sh_exts f) -> In e (h_exts h) \/ (e = g11_ext_renegotiation_info /\ h_scsv h = true).
Proof. exact server12_no_unsolicited_ext. Qed.
Print Assumptions C11_no_unsolicited_ext_12.

Theorem C11_no_unsolicited_ext_13 :
  forall k ss h f, server13 k ss h = ROk f -> hello_wf h ->
    forall e, In e (f_sh_exts f ++ f_ee_exts f) ->
      In e (h_exts h) \/ (e = g11_ext_renegotiation_info /\ h_scsv h = true).
Proof. exact server13_no_unsolicited_ext. Qed.
Print Assumptions C11_no_unsolicited_ext_13.

Theorem C11_pion_hello_is_consistent :
  forall ck h, (h = client_hello13 ck \/ exists b, h = client_hello12 ck b) -> hello_wf h.
Proof. exact pion_hello_wf. Qed.
Print Assumptions C11_pion_hello_is_consistent.

(* ---- where the text of the property does NOT hold for the code as it is (each witness is replayed on the
   implementation by the regress leg of checks/c11.py) *)
Theorem C11_failure_without_alert_refuted :
  exists c s, negotiate c s false = Some (Silent Server) /\
              (forall x, suite_enabled c x -> suite_enabled s x -> fits_key (c_key s) x = false).
Proof. exact failure_without_alert_refuted. Qed.
Print Assumptions C11_failure_without_alert_refuted.

(* ---- repaired since the first revision of this file (each was a _refuted theorem here) *)
(* "fix: encode RSA-PSS schemes in CertificateVerify": every scheme a signature-scheme selection can return, for
   any key type on either version, is one CertificateVerify can carry (regenerated table), the DTLS 1.3 server
   flight never ends silently, and an RSA key completes DTLS 1.3 with an RSA-PSS scheme *)
Theorem C11_selectable_schemes_are_encodable :
  forall (is13 : bool) (key id : N), sig_fits is13 key id = true -> sig_encodable id = true.
Proof. exact selectable_schemes_are_encodable. Qed.
Print Assumptions C11_selectable_schemes_are_encodable.

Theorem C11_server13_never_silent :
  forall k ss h, server13 k ss h <> RSilent.
Proof. exact server13_never_silent. Qed.
Print Assumptions C11_server13_never_silent.

Theorem C11_rsa_dtls13_completes_with_pss :
  exists o, negotiate w_rsa13_c w_rsa13_s false = Some (Ok o) /\ o_version o = v13 /\ o_sig o = 2052.
Proof. exact rsa_dtls13_completes_with_pss. Qed.
Print Assumptions C11_rsa_dtls13_completes_with_pss.

(* "fix: sign the client's CertificateVerify with a scheme its own policy allows": the scheme of the client's
   CertificateVerify is allowed by BOTH option sets and fits the client's key (also clause pol_csig of
   C11_in_policy); among the common schemes the server's order decides *)
Theorem C11_client_signature_within_both_policies :
  forall (c s : cfg) (seeded : bool) (o : outcome),
    negotiate c s seeded = Some (Ok o) -> o_csig o <> 0 ->
    sig_allowed c (o_csig o) /\ sig_allowed s (o_csig o) /\
    sig_fits (o_version o =? v13) (c_key c) (o_csig o) = true.
Proof. exact client_signature_within_both_policies. Qed.
Print Assumptions C11_client_signature_within_both_policies.

Theorem C11_client_signature_common_schemes :
  forall remote local x, In x (common_sigs remote local) <-> In x remote /\ (local = [] \/ In x local).
Proof. exact client_signature_server_order. Qed.
Print Assumptions C11_client_signature_common_schemes.

(* the pair that used to sign with ecdsa_secp256r1_sha256 (outside the client's list) now signs with
   ecdsa_secp384r1_sha384 - replayed by the regress leg of checks/c11.py *)
Theorem C11_client_signature_former_witness :
  exists o, negotiate w_csig_c w_csig_s false = Some (Ok o) /\ o_csig o = 1283 /\ sig_allowed w_csig_c (o_csig o).
Proof. exact client_signature_former_witness. Qed.
Print Assumptions C11_client_signature_former_witness.

(* "fix: check the server's ALPN and key-exchange group against the client's offer": whatever answer the DTLS 1.2
   client is shown - [f] is ARBITRARY, a rogue or steered server - every parameter it reports comes from its OWN
   lists (suite, ALPN protocol, SRTP profile, signature scheme, ECDHE group), and a client that requires extended
   master secret has it *)
Theorem C11_client_within_own_policy_against_any_server :
  forall ck sk cs h f o,
    client12 ck sk cs h f = ROk o ->
    In (o_suite o) cs /\
    (o_alpn o <> 0 -> In (o_alpn o) (c_alpn (k_cfg ck))) /\
    (o_srtp o <> 0 -> In (o_srtp o) (c_srtp (k_cfg ck))) /\
    (o_sig o <> 0 -> In (o_sig o) (k_sigs ck)) /\
    (o_resumed o = false -> s_ecdhe (o_suite o) = true ->
       In (o_group o) (k_curves ck) /\ o_group o <> g11_curve_mlkem) /\
    (c_ems (k_cfg ck) = g11_ems_require -> o_ems o = true).
Proof. exact client12_within_own_policy. Qed.
Print Assumptions C11_client_within_own_policy_against_any_server.

(* "fix: negotiate from the ClientHello that the Finished messages cover": with hello verification the server's
   answer is the answer to the hello that echoes the cookie, whatever the first hello [h1] was made to say ... *)
Theorem C11_answer_is_for_the_verified_hello :
  forall k ss h1 h2 r f, server12_verified k ss h1 h2 r = ROk f -> server12 k ss h2 r = ROk f.
Proof. exact server12_verified_final. Qed.
Print Assumptions C11_answer_is_for_the_verified_hello.

Theorem C11_untouched_first_hello :
  forall k ss h r, server12_verified k ss h h r = server12 k ss h r.
Proof. exact server12_verified_same. Qed.
Print Assumptions C11_untouched_first_hello.

(* ... so an association whose FIRST ClientHello was rewritten on path (supported_groups, ALPN offer,
   extended_master_secret, server_name), if it completes, completes exactly as the untouched one *)
Theorem C11_first_hello_steering_harmless :
  forall ck sk seeded t o,
    t_sh_alpn t = 0 -> t_sh_suite t = 0 -> t_sh_sessionid t = false ->
    negotiate12_steered ck sk seeded true t = Ok o ->
    negotiate12_steered ck sk seeded true no_steering = Ok o.
Proof. exact first_hello_steering_harmless. Qed.
Print Assumptions C11_first_hello_steering_harmless.

Theorem C11_unsteered_is_negotiate :
  forall ck sk seeded hv, stack_of ck = Only12 -> stack_of sk = Only12 ->
    negotiate12_steered ck sk seeded hv no_steering = negotiate_conn ck sk seeded.
Proof. exact negotiate12_unsteered. Qed.
Print Assumptions C11_unsteered_is_negotiate.

(* ---- the ServerHello message hook ("the server's view follows the ServerHello that leaves after the hook"): no
   association completes on a cipher suite other than the server's choice, and the reported protocol is the one the
   final ServerHello names, held to the client's own list *)
Theorem C11_hook_cannot_change_the_suite :
  forall ck sk seeded hv t o,
    negotiate12_steered ck sk seeded hv t = Ok o -> t_sh_suite t = 0 \/ t_sh_suite t = o_suite o.
Proof. exact hook_cannot_change_the_suite. Qed.
Print Assumptions C11_hook_cannot_change_the_suite.

Theorem C11_hook_alpn_is_the_final_server_hello :
  forall ck sk seeded hv t o,
    negotiate12_steered ck sk seeded hv t = Ok o -> t_sh_alpn t <> 0 ->
    o_alpn o = t_sh_alpn t /\ In (o_alpn o) (c_alpn (k_cfg ck)).
Proof. exact hook_alpn_is_the_final_server_hello. Qed.
Print Assumptions C11_hook_alpn_is_the_final_server_hello.

(* ... and cannot rename a RESUMED session: a hook that changes the session id completes only full handshakes *)
Theorem C11_hook_cannot_rename_a_resumed_session :
  forall ck sk seeded hv t o,
    negotiate12_steered ck sk seeded hv t = Ok o -> t_sh_sessionid t = true -> o_resumed o = false.
Proof. exact hook_cannot_rename_a_resumed_session. Qed.
Print Assumptions C11_hook_cannot_rename_a_resumed_session.

(* ---- "the cipher suite fits the server's key type": true for the key the suite FILTER used (clause pol_suite)
   and, with a single certificate, for the certificate presented ... *)
Theorem C11_suite_fits_presented_key_single_certificate :
  forall c s seeded o,
    negotiate c s seeded = Some (Ok o) -> c_key2 s = 0 -> fits_key (o_server_key o) (o_suite o) = true.
Proof. exact suite_fits_presented_key_single_certificate. Qed.
Print Assumptions C11_suite_fits_presented_key_single_certificate.

(* ... refuted with two certificates selected by SNI (HandshakeContext filters with the default certificate,
   flight4Generate sends the one the server name selects): ECDHE_ECDSA suite, RSA certificate, RSA signature *)
Theorem C11_suite_does_not_fit_presented_certificate_refuted :
  exists c s o, negotiate c s false = Some (Ok o) /\
                o_server_key o = 3 /\ fits_key (o_server_key o) (o_suite o) = false /\
                sig_fits false 3 (o_sig o) = true.
Proof. exact suite_does_not_fit_presented_certificate_refuted. Qed.
Print Assumptions C11_suite_does_not_fit_presented_certificate_refuted.

Theorem C11_refused_although_suite_fits_sni_certificate_refuted :
  exists c s x, negotiate c s false = Some (Fail Server g11_alert_insufficient_security) /\
                suite_enabled c x /\ suite_enabled s x /\ c_sni c = true /\ fits_key (c_key2 s) x = true.
Proof. exact refused_although_suite_fits_sni_certificate_refuted. Qed.
Print Assumptions C11_refused_although_suite_fits_sni_certificate_refuted.

(* ---- "a side that requires extended master secret never completes without it": holds for every association
   that is not a resumption ([session_ems o b] : the master secret in force has the EMS property; b = that of the
   association that stored the session) ... *)
Theorem C11_ems_required_holds_without_resumption :
  forall c s seeded o b,
    negotiate c s seeded = Some (Ok o) -> o_resumed o = false ->
    requires_ems c = true \/ requires_ems s = true -> session_ems o b = true.
Proof. exact ems_required_holds_without_resumption. Qed.
Print Assumptions C11_ems_required_holds_without_resumption.

(* the requirement is judged on the hellos of THIS handshake, resumed or not ([f_resumed f], [resumable] are free): a
   client that requires extended master secret completes only on a ServerHello that carries the extension, a server
   only on a ClientHello that does (seeded change C11d: the client check moved to where a resumption never comes) *)
Theorem C11_client_requires_ems_in_this_server_hello :
  forall (ck sk : conn) (cs : list N) (h : hello) (f : server_flight) (o : outcome),
    client12 ck sk cs h f = ROk o ->
    (c_ems (k_cfg ck) =? g11_ems_require) = true -> f_ems_ext f = true /\ o_ems o = true.
Proof. exact client12_requires_ems_in_this_server_hello. Qed.
Print Assumptions C11_client_requires_ems_in_this_server_hello.

Theorem C11_client_refuses_resumption_without_ems :
  forall (ck sk : conn) (cs : list N) (h : hello) (f : server_flight),
    (c_ems (k_cfg ck) =? g11_ems_require) = true -> f_resumed f = true -> f_ems_ext f = false ->
    forall o, client12 ck sk cs h f <> ROk o.
Proof. exact client12_refuses_resumption_without_ems. Qed.
Print Assumptions C11_client_refuses_resumption_without_ems.

Theorem C11_server_requires_ems_in_this_client_hello :
  forall (k : conn) (ss : list N) (h : hello) (resumable : bool) (f : server_flight),
    server12 k ss h resumable = ROk f ->
    (c_ems (k_cfg k) =? g11_ems_require) = true -> h_ems h = true /\ f_ems_ext f = true.
Proof. exact server12_requires_ems_in_this_client_hello. Qed.
Print Assumptions C11_server_requires_ems_in_this_client_hello.

(* ... refuted for resumptions: Session{ID, Secret} has no EMS flag, the decision to resume does not depend on it *)
Theorem C11_ems_required_resumes_session_without_ems_refuted :
  exists c s o, negotiate c s true = Some (Ok o) /\ requires_ems s = true /\ o_resumed o = true /\
                o_ems o = true /\ session_ems o false = false.
Proof. exact ems_required_resumes_session_without_ems_refuted. Qed.
Print Assumptions C11_ems_required_resumes_session_without_ems_refuted.

(* ---- still refuted *)
Theorem C11_alpn_disjoint_completes_on_dtls13_refuted :
  exists c s o, negotiate c s false = Some (Ok o) /\ c_alpn c <> [] /\ c_alpn s <> [] /\
                (forall p, In p (c_alpn c) -> ~ In p (c_alpn s)) /\ o_alpn o = 0.
Proof. exact alpn_disjoint_completes_on_dtls13_refuted. Qed.
Print Assumptions C11_alpn_disjoint_completes_on_dtls13_refuted.

(* not a violation of the text, recorded: a common signature scheme exists and the handshake is still refused,
   because the DTLS 1.2 server does not look at the client's signature_algorithms *)
Theorem C11_common_signature_scheme_yet_refused :
  exists c s x, negotiate c s false = Some (Fail Client g11_alert_insufficient_security) /\
                sig_allowed c x /\ sig_allowed s x /\ sig_fits false (c_key s) x = true.
Proof. exact common_signature_scheme_yet_refused. Qed.
Print Assumptions C11_common_signature_scheme_yet_refused.

(* ---- "fails on both sides with an alert" and the connection IDs of DTLS 1.3 (known finding, NOT repaired):
   abortFlight3 clears the connection IDs before the client's alert is written.  The switch
   [client13_abort_keeps_connection_ids] changes exactly this: some `Fail Client a` become `Silent Client` *)
Theorem C11_connection_id_switch_only_silences_client_alerts :
  forall keep ck sk seeded,
    negotiate_conn_sw keep ck sk seeded = negotiate_conn_sw true ck sk seeded \/
    (keep = false /\ negotiate_conn_sw keep ck sk seeded = Silent Client /\
     exists a, negotiate_conn_sw true ck sk seeded = Fail Client a).
Proof. exact connection_id_switch_only_silences_client_alerts. Qed.
Print Assumptions C11_connection_id_switch_only_silences_client_alerts.

Theorem C11_client13_alert_sealed_without_connection_id_refuted :
  exists c s, negotiate_sw false c s false = Some (Silent Client) /\
              negotiate_sw true c s false = Some (Fail Client g11_alert_bad_certificate) /\
              c_cid c <> None /\ c_cid s = Some [1; 2; 3; 4].
Proof. exact client13_alert_sealed_without_connection_id_refuted. Qed.
Print Assumptions C11_client13_alert_sealed_without_connection_id_refuted.

Theorem C11_client13_alert_as_coded :
  if client13_abort_keeps_connection_ids
  then forall c s seeded, negotiate c s seeded = negotiate_sw true c s seeded
  else exists c s, negotiate c s false = Some (Silent Client) /\
                   negotiate_sw true c s false = Some (Fail Client g11_alert_bad_certificate).
Proof. exact client13_alert_as_coded. Qed.
Print Assumptions C11_client13_alert_as_coded.

(* ---- the hypotheses are satisfiable: default option sets, Ed25519 server certificate *)
Example C11_default_pair_completes :
  exists o, negotiate cfg_default (with_key cfg_default 1) false = Some (Ok o) /\
            o_version o = v12 /\ o_suite o = 49195 /\ o_group o = 29 /\ o_sig o = 2055 /\ o_ems o = true.
Proof. eexists. vm_compute. repeat split. Qed.

(* ================================================================== ALPN policy, byte level (round g) *)
From Coq Require Import List.
From DtlsV Require Import Neg.C01Names Neg.C01NamesSound Neg.C11Names Neg.C11NamesSound.

(* what ALPNProtocolSelection answers is, byte for byte, an entry of the server's list and of the offer *)
Theorem C11_alpn_selection_within_both_lists : forall own peer n,
  select name_eqb own peer = Some n -> In n own /\ In n peer.
Proof. exact alpn_selection_within_both_lists. Qed.
Print Assumptions C11_alpn_selection_within_both_lists.

(* whenever both sides complete with a protocol, each side's value is an entry of BOTH configured lists *)
Theorem C11_alpn_done_within_both_policies : forall cl sl c s,
  alpn12_as_coded cl sl = AlpnDone c s -> (In c cl /\ In c sl) /\ (In s cl /\ In s sl).
Proof. exact alpn_done_within_both_policies. Qed.
Print Assumptions C11_alpn_done_within_both_policies.

Theorem C11_alpn_peer_spelling_harmless_under_byte_equality : forall own peer,
  select_peer name_eqb own peer = select name_eqb own peer.
Proof. exact select_peer_exact_is_select. Qed.
Print Assumptions C11_alpn_peer_spelling_harmless_under_byte_equality.

(* REFUTED for the variant that matches ignoring ASCII case and answers in the peer's spelling: both
   sides complete with a protocol outside the server's list where the code as it is refuses *)
Theorem C11_alpn_folded_peer_spelling_outside_policy_refuted :
  exists cl sl c s, alpn12_peer_spelling fold_eqb cl sl = AlpnDone c s /\ c = s /\ ~ In s sl /\
                    alpn12_as_coded cl sl = AlpnRefusedByServer.
Proof. exact alpn_folded_peer_spelling_outside_policy_refuted. Qed.
Print Assumptions C11_alpn_folded_peer_spelling_outside_policy_refuted.
