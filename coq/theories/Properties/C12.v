(* C12 - Fragmentation and reassembly reproduce every handshake message exactly once.
   Only statements closed by [exact]; proofs live in Frag/SplitSound.v and Frag/BufferSound.v.
   Models: Frag/Split.v (conn.go fragmentHandshake + util.SplitBytes),
           Frag/Buffer.v (internal/fragmentbuffer/fragment_buffer.go + conn.go bufferHandshakeRecord). *)
From DtlsV Require Import Lib.Bytes Gen.Generated Frag.Split Frag.SplitSound Frag.Buffer Frag.BufferSound
  Frag.BufferAcct Frag.BufferAcctSound.
Open Scope N_scope.

(* ---- sender ---- *)

(* For every MTU > 0, type, Length, message_seq and body (any size, including empty):
   fragmentHandshake emits at least one fragment; the fragment bodies concatenate to the body; no
   fragment carries more than MTU body bytes; offsets are contiguous from 0; every fragment repeats
   the message's type / Length / message_seq; no two fragments start at the same offset. *)
Theorem C12_split :
  forall mtu ty l s body, 0 < mtu ->
    let fs := split mtu ty l s body in
    fs <> [] /\ cat_data fs = body /\ Forall (fun f => f_flen f <= mtu) fs /\ contiguous 0 fs /\
    Forall (fun f => f_ty f = ty /\ f_len f = l /\ f_seq f = s) fs /\ NoDup (map f_off fs) /\
    sum_flen fs = len body.
Proof. exact split_ok. Qed.
Print Assumptions C12_split.

Theorem C12_split_count :
  forall mtu ty l s body, 0 < mtu ->
    N.of_nat (length (split mtu ty l s body)) = N.max 1 ((len body + mtu - 1) / mtu).
Proof. exact split_count. Qed.
Print Assumptions C12_split_count.

(* what the sender emits is a "good partition" - the hypothesis of the completeness theorem *)
Theorem C12_split_is_good_partition :
  forall mtu m, 0 < mtu -> good_part m (split_msg mtu m).
Proof. exact split_msg_good_part. Qed.
Print Assumptions C12_split_is_good_partition.

(* ---- receiver: safety, for every arrival order / duplication / interleaving / packing, and for
   every mixture of partitions (fragments only need to be genuine slices) ---- *)
Theorem C12_reassembly_safe :
  forall (msgs : list hmsg) (rs : list record),
    N.of_nat (length msgs) < 65536 -> numbered msgs ->
    Forall (honest_rec (N.of_nat (length msgs)) (msg_fn msgs)) rs ->
    let '(st, pops, pn) := run init rs in
    pn = false /\ (N.to_nat (cur st) <= length msgs)%nat /\
    map strip pops = firstn (N.to_nat (cur st)) (map hstrip msgs).
Proof. exact reassembly_safe_list. Qed.
Print Assumptions C12_reassembly_safe.

(* ---- receiver: completeness (one partition per message - any contiguous cover, zero-length
   fragments anywhere - within the buffer limits) + "never surfaced while a byte is missing" ---- *)
Theorem C12_reassembly_complete :
  forall (msgs : list hmsg) (P : N -> list frag) (rs : list record),
    let n := N.of_nat (length msgs) in
    n < 65536 -> numbered msgs -> (forall j, j < n -> good_part (msg_fn msgs j) (P j)) ->
    cap_frags n P < max_count ->
    Forall (fun r => gen_rec n P r /\ cap_bytes n P + record_size r < max_size) rs ->
    let '(st, pops, pn) := run init rs in
    pn = false /\
    map strip pops = firstn (N.to_nat (cur st)) (map hstrip msgs) /\
    (forall j, j < n -> (forall i f, i <= j -> In f (P i) -> In f (arrived rs)) -> j < cur st) /\
    (forall j f, j < cur st -> In f (P j) -> 0 < f_flen f -> In f (arrived rs)).
Proof. exact reassembly_complete_list. Qed.
Print Assumptions C12_reassembly_complete.

(* the premises above bound bytes (max_size) and fragments (max_count) exactly as Push does, and
   message_seq < 65536; NOTHING bounds the number of messages under reassembly at once.  Witness: ten
   fragmented messages arriving last message first - nothing delivered and ten cache entries until the
   last record, then all ten delivered in order *)
Theorem C12_many_messages_reverse_delivered :
  length mm_history = 30%nat /\
  map strip (snd (fst (run init mm_history))) = map hstrip mm_msgs /\
  snd (fst (run init (removelast mm_history))) = [] /\
  length (cache (fst (fst (run init (removelast mm_history))))) = 10%nat.
Proof. exact many_messages_reverse_delivered. Qed.
Print Assumptions C12_many_messages_reverse_delivered.

(* ---- accounting of the fixed limits under duplication (Frag/BufferAcct.v) ---- *)

(* For EVERY sequence of Push (any payload) / Pop / AdvanceTo calls: totalFragmentCount is exactly the
   number of fragments held in the cache and totalBufferSize exactly the sum of their lengths (read off
   the cache itself) - nothing that was discarded stays charged, nothing held is uncharged. *)
Theorem C12_accounting_exact :
  forall ops : list api,
    let st := fold_left api_step ops init in
    count st = stored_count (cache st) /\ size st = stored_size (cache st).
Proof. exact accounting_exact. Qed.
Print Assumptions C12_accounting_exact.

(* the same along arrival histories handled as conn.go bufferHandshakeRecord does (Push, Pop until nil) *)
Theorem C12_accounting_exact_run :
  forall rs : list record,
    let st := fst (fst (run init rs)) in
    count st = stored_count (cache st) /\ size st = stored_size (cache st).
Proof. exact accounting_exact_run. Qed.
Print Assumptions C12_accounting_exact_run.

(* duplicates are free: a fragment whose (message_seq, offset) is already held changes neither
   totalBufferSize nor totalFragmentCount nor the cursor nor anything held ... *)
Theorem C12_duplicate_fragment_free :
  forall ep st b f, held st f ->
    let st' := fst (push_frag ep (st, b) f) in
    size st' = size st /\ count st' = count st /\ cur st' = cur st /\
    forall k, clookup k (cache st') = clookup k (cache st).
Proof. exact duplicate_fragment_free. Qed.
Print Assumptions C12_duplicate_fragment_free.

(* ... and so does a whole record of such fragments (a retransmitted datagram), whatever Push answers *)
Theorem C12_duplicate_record_free :
  forall st ep fs tail, Forall (held st) fs ->
    let st' := fst (push st (RHs ep fs tail)) in
    size st' = size st /\ count st' = count st /\ cur st' = cur st /\
    forall k, clookup k (cache st') = clookup k (cache st).
Proof. exact duplicate_record_free. Qed.
Print Assumptions C12_duplicate_record_free.

(* a well-formed handshake record is refused only when what is HELD (plus the record) is at a fixed
   limit - after any history of pushes / pops / advances, however many duplicates it contained *)
Theorem C12_refusal_only_at_limits :
  forall (ops : list api) ep fs,
    let st := fold_left api_step ops init in
    let r := RHs ep fs 0 in
    snd (snd (push st r)) = true ->
    max_size <= stored_size (cache st) + record_size r \/ max_count <= stored_count (cache st).
Proof. exact refusal_only_at_limits. Qed.
Print Assumptions C12_refusal_only_at_limits.

(* the switch of Frag/BufferAcct.v set to false is the model of the code as it is *)
Theorem C12_run_b_false : forall rs st, run_b false st rs = run st rs.
Proof. exact run_b_false. Qed.
Print Assumptions C12_run_b_false.

(* the variant that charges the limits BEFORE the duplicate-offset check (Pop / AdvanceTo still release
   only what is stored) violates the property: the second fragment of the sender's MTU-1 partition of a
   2-byte message arrives 1000 times (plain duplicates) - one fragment of one byte is held, the counter
   says 1000, the honest first fragment is refused and nothing is ever delivered again; the code as it
   is delivers the message on that history *)
Theorem C12_charge_before_duplicate_check_refuted :
  split_msg 1 dup_msg = [dup_first; dup_second] /\
  Forall (fun r => r = RHs 0 [dup_second] 0) dup_history /\
  let st := fst (fst (run_b true init dup_history)) in
  snd (fst (run_b true init dup_history)) = [] /\
  stored_count (cache st) = 1 /\ stored_size (cache st) = 1 /\ count st = 1000 /\
  push_b true st (RHs 0 [dup_first] 0) = (st, (false, false, true)) /\
  (forall rs, run_b true st rs = (st, [], false)) /\
  map strip (snd (fst (run init (dup_history ++ [RHs 0 [dup_first] 0])))) = [hstrip dup_msg].
Proof. exact charge_before_duplicate_check_refuted. Qed.
Print Assumptions C12_charge_before_duplicate_check_refuted.

(* ---- retransmissions ---- *)
Theorem C12_retransmit_flag :
  forall st ep fs,
    (max_size <=? size st + record_size (RHs ep fs 0)) || (max_count <=? count st) = false ->
    snd (push st (RHs ep fs 0)) = (true, existsb (fun f => f_seq f <? cur st) fs, false).
Proof. exact retransmit_flag. Qed.
Print Assumptions C12_retransmit_flag.

Theorem C12_retransmit_ignored :
  forall ep fs st,
    fst (push_frags ep st fs) = fst (push_frags ep st (filter (fun f => negb (f_seq f <? cur st)) fs)).
Proof. exact retransmit_ignored. Qed.
Print Assumptions C12_retransmit_ignored.

Theorem C12_retransmit_inert :
  forall ep fs st, Forall (fun f => f_seq f < cur st) fs -> fst (push_frags ep st fs) = st.
Proof. exact retransmit_inert. Qed.
Print Assumptions C12_retransmit_inert.

(* ---- hostile inputs (also used by C08): any interleaving of Push(any payload) / Pop / AdvanceTo ---- *)
Theorem C12_hostile_bounds :
  forall K (ops : list api), Forall (fun a => api_nfrags a <= K) ops ->
    let st := fold_left api_step ops init in
    WF st /\ size st < max_size /\ count st + 1 <= max_count + K.
Proof. exact hostile_bounds. Qed.
Print Assumptions C12_hostile_bounds.

Theorem C12_pop_needs_offset0 :
  forall st m st', pop st = POk m st' ->
    exists e s0, clookup (cur st) (cache st) = Some e /\ efind 0 (e_frags e) = Some s0 /\
                 p_ty m = f_ty (s_frag s0) /\ p_len m = f_len (s_frag s0) /\ p_epoch m = s_epoch s0 /\
                 len (p_body m) = e_hlen e.
Proof. exact pop_needs_offset0. Qed.
Print Assumptions C12_pop_needs_offset0.

(* Pop never panics: after ANY sequence of Push (any payload) / Pop / AdvanceTo calls, and for any
   list of records handled the way bufferHandshakeRecord handles them.  (The model keeps the value
   PPanic for the nil dereference of fragmentByOffset[0] so that [pop] follows the code line by
   line; these theorems say it is unreachable.) *)
Theorem C12_pop_never_panics :
  forall ops : list api, pop (fold_left api_step ops init) <> PPanic.
Proof. exact pop_never_panics. Qed.
Print Assumptions C12_pop_never_panics.

Theorem C12_run_never_panics :
  forall rs : list record, snd (run init rs) = false.
Proof. exact run_never_panics. Qed.
Print Assumptions C12_run_never_panics.

(* an empty fragment that is not the offset-0 fragment of an empty message is inert *)
Theorem C12_empty_fragment_inert :
  forall ep st b f, skip_empty f = true -> push_frag ep (st, b) f = (st, b || (f_seq f <? cur st)).
Proof. exact empty_fragment_inert. Qed.
Print Assumptions C12_empty_fragment_inert.

Theorem C12_zero_fragment_in_message_inert :
  forall ep st b f, f_flen f = 0 -> f_len f <> 0 -> fst (push_frag ep (st, b) f) = st.
Proof. exact zero_fragment_in_message_inert. Qed.
Print Assumptions C12_zero_fragment_in_message_inert.

(* regression corpus: the two inputs that failed before the fix in the tree *)
Theorem C12_zero_fragment_regression :
  good_part rp_msg zf_partition /\
  map strip (snd (fst (run init zf_history))) = [hstrip rp_msg] /\ snd (run init zf_history) = false.
Proof. exact zero_fragment_regression. Qed.
Print Assumptions C12_zero_fragment_regression.

Theorem C12_old_panic_input_regression :
  arrive init old_panic_record = (init, (true, false, false), [], false).
Proof. exact old_panic_input_regression. Qed.
Print Assumptions C12_old_panic_input_regression.

(* ---- liveness boundaries (outside the premises of C12_reassembly_complete; the re-partition and
   capacity boundaries are registered known findings K-C12-1 / K-C12-4 since audit round 2) ---- *)
Theorem C12_overshoot_wedges_forever :
  forall st rs, Overshot st -> snd (fst (run st rs)) = [] /\ Overshot (fst (fst (run st rs))).
Proof. exact overshoot_wedges_forever. Qed.
Print Assumptions C12_overshoot_wedges_forever.

Theorem C12_repartition_wedges_refuted :
  Forall (fun r => Forall (fun f => In f (split_msg 2 rp_msg) \/ In f (split_msg 3 rp_msg)) (rec_frags r)) rp_history /\
  (forall rs, snd (fst (run init (rp_history ++ rs))) = []).
Proof. exact repartition_wedges_refuted. Qed.
Print Assumptions C12_repartition_wedges_refuted.

(* known finding K-C12-1: a retransmission cut with another fragment size.  [0,100) of the 100-byte
   partition of a 200-byte message has arrived; whatever follows from the 150-byte partition of the
   same message ([0,150), [150,200): every byte) - any number of times, any packing, any epoch, junk
   in between - nothing is ever delivered *)
Theorem C12_refragmented_retransmission_refuted :
  In rt_first (split_msg 100 rt_msg) /\ cat_data (split_msg 150 rt_msg) = m_body rt_msg /\
  (forall rs, Forall rt_retransmission rs -> snd (fst (run init (RHs 0 [rt_first] 0 :: rs))) = []).
Proof. exact refragmented_retransmission_refuted. Qed.
Print Assumptions C12_refragmented_retransmission_refuted.

(* known finding K-C12-2: fragments of one message are not bound to one epoch - a forged fragment from an
   unprotected epoch-0 record ends up inside the message surfaced under epoch 2 (witness that the
   premise "every stored fragment is a genuine slice" of C12_reassembly_safe is needed) *)
Theorem C12_epoch_splice_refuted :
  exists p, snd (fst (run init es_history)) = [p] /\ p_epoch p = 2 /\ p_seq p = m_seq es_msg /\
            p_body p <> m_body es_msg /\ p_body p = [1; 2] ++ f_data es_forged.
Proof. exact epoch_splice_refuted. Qed.
Print Assumptions C12_epoch_splice_refuted.

(* known finding K-C12-3: the MTU bounds the fragment body (C12_split) but nothing bounds the MTU by what
   the receiving side reads per datagram (inboundBufferSize) *)
Theorem C12_mtu_exceeds_read_buffer_refuted :
  Forall (fun f => f_flen f <= 9000) (split_msg 9000 jumbo_msg) /\
  exists f, In f (split_msg 9000 jumbo_msg) /\ g_inbound_buffer < rec_hdr + hs_hdr + f_flen f.
Proof. exact mtu_exceeds_read_buffer_refuted. Qed.
Print Assumptions C12_mtu_exceeds_read_buffer_refuted.

Theorem C12_full_rejects_forever :
  forall st rs, Full st -> run st rs = (st, [], false).
Proof. exact full_rejects_forever. Qed.
Print Assumptions C12_full_rejects_forever.

(* known finding K-C12-4: the sender's own MTU-1 partition of a 1001-byte message has more fragments than
   the receiver will ever hold *)
Theorem C12_capacity_wedges_refuted :
  length (split_msg 1 cap_msg) = 1001%nat /\
  snd (fst (run init cap_history)) = [] /\ Full (fst (fst (run init cap_history))).
Proof. exact capacity_wedges_refuted. Qed.
Print Assumptions C12_capacity_wedges_refuted.

Theorem C12_hostile_length_mismatch :
  exists rs p, snd (fst (run init rs)) = [p] /\ p_len p <> len (p_body p).
Proof. exact hostile_length_mismatch. Qed.
Print Assumptions C12_hostile_length_mismatch.

(* tie to the regenerated constants of the current tree *)
Theorem C12_generated_limits :
  max_size = 2000000 /\ max_count = 1000 /\ rec_hdr = 13 /\ hs_hdr = 12 /\
  (* a record read into the 8192-byte inbound buffer holds at most 681 fragments *)
  (g_inbound_buffer - rec_hdr) / hs_hdr = 681.
Proof. vm_compute. repeat split; reflexivity. Qed.
Print Assumptions C12_generated_limits.

(* non-vacuity: three messages (one empty), MTUs 2 / 3 / 5, fragments interleaved, reordered,
   duplicated, two packed in one record - hypotheses of both theorems hold, everything is delivered *)
Example C12_example :
  let msgs := [mkMsg 1 0 [1; 2; 3; 4; 5]; mkMsg 14 1 []; mkMsg 11 2 [6; 7; 8; 9]] in
  let a := split_msg 2 (msg_fn msgs 0) in
  let b := split_msg 3 (msg_fn msgs 1) in
  let c := split_msg 5 (msg_fn msgs 2) in
  let rs := [RHs 0 (c ++ b) 0; RHs 0 [nth 2 a (mkFrag 0 0 0 0 [])] 0; RHs 0 [nth 0 a (mkFrag 0 0 0 0 [])] 0;
             RHs 0 [nth 2 a (mkFrag 0 0 0 0 [])] 0; RHs 0 [nth 1 a (mkFrag 0 0 0 0 [])] 0; RHs 0 b 0] in
  map strip (snd (fst (run init rs))) = map hstrip msgs /\
  map (fun r => snd (fst (fst (arrive (fst (fst (run init (firstn 5 rs)))) r)))) [nth 5 rs (RBad 0)] = [(true, true, false)].
Proof. vm_compute. split; reflexivity. Qed.
