(* C13 - Cookie exchange: only a cookie request is sent until the cookie comes back.
   Statements only; proofs in Hs/C13CookieSound.v and Hs/Abs12Sound.v. *)
From Coq Require Import List NArith Bool Arith.
From DtlsV Require Import Gen.Generated Hs.C13Cookie Hs.C13CookieSound Hs.Abs12 Hs.Abs12Sound.
Import ListNotations.
Open Scope nat_scope.

(* For every sequence of inputs an attacker can produce - ClientHellos with any message sequence,
   any cookie field, any other content, other datagrams, timer expiries, in any order and number -
   if the server ever emits its ServerHello flight then it had received a ClientHello echoing
   exactly the cookie it issued whose other (pinned) content equals that of the ClientHello it
   accepted as the first one. *)
Theorem C13_cookie_gate :
  forall (k : N) (is : list input),
    (exists i, In (i, [OFlight4]) (snd (run (srv_init k) is))) ->
    exists b0 ck0, In (ICH 0 ck0 b0) is /\ In (ICH 1 (Some k) b0) is.
Proof. exact cookie_gate. Qed.
Print Assumptions C13_cookie_gate.

(* Every step emits nothing, one cookie request carrying the connection's cookie - and then the
   step is an incoming datagram, never the timer -, the large flight, or a fatal alert. *)
Theorem C13_hvr_only_in_response :
  forall (k : N) (is : list input) (i : input) (o : list output),
    In (i, o) (snd (run (srv_init k) is)) ->
    o = [] \/ (o = [OHVR k] /\ i <> ITimer) \/ o = [OFlight4] \/ o = [OAlert].
Proof. exact hvr_only_in_response. Qed.
Print Assumptions C13_hvr_only_in_response.

(* the same fact at the level of the state machine, against the flag table of the current tree:
   Flight 2 (the cookie request) is never retransmitted by the timer *)
Theorem C13_flight2_not_on_timer : forall (c : cfg) (e : ep), e_flight e = F2 -> snd (on_timer c e) = [].
Proof. exact hvr_never_on_timer. Qed.
Print Assumptions C13_flight2_not_on_timer.

(* non-vacuity: wrong cookie, then altered body, are answered by an alert / nothing; the right echo is accepted *)
Example C13_example_accept :
  map snd (snd (run (srv_init 1%N) [ICH 0 None 0%N; ICH 0 None 0%N; ITimer; ICH 1 (Some 1%N) 0%N]))
  = [[OHVR 1%N]; [OHVR 1%N]; []; [OFlight4]].
Proof. vm_compute. reflexivity. Qed.

Example C13_example_reject :
  map snd (snd (run (srv_init 1%N) [ICH 0 None 0%N; ICH 1 (Some 1%N) 4%N; ICH 1 (Some 1%N) 0%N]))
  = [[OHVR 1%N]; [OAlert]; []].
Proof. vm_compute. reflexivity. Qed.
