(* C13 (DTLS 1.3 part) - cookie exchange by HelloRetryRequest.  Statements only; proofs in
   Hs/Hs13Sound.v.  What "a ClientHello echoing the cookie" is byte-wise (ValidateClientHelloRetry)
   is outside this model: here it is the complete ClientHello whose message_seq follows the first
   one; the cookie comparison itself is checked on the implementation by the C13 monitors. *)
From Coq Require Import List NArith Bool.
From DtlsV Require Import Gen.GeneratedHs13 Hs.Hs13 Hs.Hs13Live Hs.Hs13Sound Hs.Hs13Cookie Hs.Hs13CookieSound.
Import ListNotations.
Open Scope N_scope.

(* the server starts in the pre-cookie phase having sent nothing *)
Theorem C13hs13_server_starts_pre_cookie :
  forall c, hrr_cfg c -> pre_cookie c (ep_init c false) /\ snd (ep_start c false) = [].
Proof. exact server_start_pre_cookie. Qed.
Print Assumptions C13hs13_server_starts_pre_cookie.

(* for every datagram, of any content: in that phase the server stays in it and emits nothing but
   HelloRetryRequest records, or moves to Flight 4; and it emits something only if the datagram
   carried handshake data that reached the reassembly buffer (NOT: only if it carried a ClientHello -
   see C13hs13_hrr_only_for_client_hello_refuted below) *)
Theorem C13hs13_only_hrr_before_cookie :
  forall (c : cfg) (e : ep) (d : dgram) (now : N),
    hrr_cfg c -> pre_cookie c e ->
    let r := on_datagram c e d now in
    ((pre_cookie c (fst r) /\ all_hrr (snd r)) \/ e_flight (fst r) = F4) /\
    (snd r <> [] -> snd (fst (fst (process_records true e d))) = true).
Proof. exact pre_cookie_datagram. Qed.
Print Assumptions C13hs13_only_hrr_before_cookie.

(* it leaves the HelloRetryRequest flight only by consuming a complete second ClientHello, and
   Flight 0 only by consuming the first *)
Theorem C13hs13_server_leaves_hrr :
  forall (c : cfg) (e : ep),
    e_client e = false -> e_flight e = F2 -> snd (parse c e) <> 0 ->
    has e (e_recvseq e) HT_CH 0 = true /\ snd (parse c e) = F4.
Proof. exact server_leaves_hrr. Qed.
Print Assumptions C13hs13_server_leaves_hrr.

Theorem C13hs13_server_leaves_flight0 :
  forall (c : cfg) (e : ep),
    e_client e = false -> e_flight e = F0 -> snd (parse c e) <> 0 ->
    has e 0 HT_CH 0 = true /\ snd (parse c e) = if c_hrr c then F2 else F4.
Proof. exact server_leaves_flight0. Qed.
Print Assumptions C13hs13_server_leaves_flight0.

(* the retransmission timer never emits in that phase *)
Theorem C13hs13_hrr_not_on_timer :
  forall (c : cfg) (e : ep),
    hrr_cfg c -> pre_cookie c e -> pre_cookie c (fst (on_timer c e)) /\ snd (on_timer c e) = [].
Proof. exact pre_cookie_timer. Qed.
Print Assumptions C13hs13_hrr_not_on_timer.

(* over whole histories *)
Theorem C13hs13_hrr_discipline :
  forall (c : cfg) (ins : list input), hrr_cfg c -> forall e,
    pre_cookie c e ->
    Forall (fun p => all_hrr (snd p) /\ (fst p = ITimer -> snd p = [])) (snd (run c e ins)) \/
    exists ins1 i ins2 e1, ins = ins1 ++ i :: ins2 /\ i <> ITimer /\
      Forall (fun p => all_hrr (snd p) /\ (fst p = ITimer -> snd p = [])) (snd (run c e ins1)) /\
      e1 = fst (run c e ins1) /\ pre_cookie c e1 /\ e_flight (fst (step c e1 i)) = F4.
Proof. exact hrr_discipline. Qed.
Print Assumptions C13hs13_hrr_discipline.

(* THE GAP (DTLS 1.3 analogue of known finding F17), as coded: once the HelloRetryRequest has been
   sent, ONE unprotected handshake record of ANY type whose message_seq is below the reassembly
   sequence counts as a retransmission by the peer and makes the server send the HelloRetryRequest
   again, as soon as InitialRetransmitInterval/2 has passed since its last transmission ... *)
Theorem C13hs13_stale_fragment_reanswers :
  forall (c : cfg) (e : ep) (ht m fo fl tl sz now : N),
    hrr_cfg c -> pre_cookie c e -> e_flight e = F2 ->
    e_recvseq e <= e_fbcur e -> m < e_fbcur e -> has e (e_recvseq e) HT_CH 0 = false ->
    c_initial c <= 2 * (now - e_lastsent e) ->
    snd (on_datagram c e [{| r_ep := 0; r_body := Hs ht m fo fl tl; r_size := sz |}] now)
    = pack c (fl_lookup F2 (c_fl c)).
Proof. exact stale_fragment_reanswers. Qed.
Print Assumptions C13hs13_stale_fragment_reanswers.

(* ... hence "each HelloRetryRequest is sent only in direct response to a ClientHello" is refuted on
   the faithful model: witness = the server after ClientHello1 of the current tree and a 1-byte
   fragment of a Finished message with message_seq 0, 600 ms later (replayed on the implementation
   by TestVerifHs13Cookie's injection scenarios) *)
Theorem C13hs13_hrr_only_for_client_hello_refuted :
  exists (e : ep) (d : dgram) (now : N),
    pre_cookie stale_cfg e /\ carries_client_hello d = false /\
    snd (on_datagram stale_cfg e d now) = pack stale_cfg (fl_lookup F2 (c_fl stale_cfg)) /\
    snd (on_datagram stale_cfg e d now) <> [].
Proof. exact hrr_only_for_client_hello_refuted. Qed.
Print Assumptions C13hs13_hrr_only_for_client_hello_refuted.

(* ---- at the level of cookie VALUES (model Hs/Hs13Cookie.v, tied to the code by the forged second
   ClientHello family of TestVerifHs13Cookie: cookie absent / wrong / cut / extended / right on another
   hello / right; HelloRetryRequests that ask for the cookie only and for another key-share group as well) *)

(* with hello verification on, EVERY HelloRetryRequest the server ever emits - whether or not it also
   asks for another key-share group - carries the cookie of the connection, over all input histories *)
Theorem C13hs13_hrr_always_carries_cookie :
  forall (verify : bool) (k : N) (is : list cin),
    verify = true ->
    forall i o c g, In (i, o) (snd (crun (csrv_init verify k) is)) -> In (OHRR c g) o -> c = Some k.
Proof. exact hrr_always_carries_cookie. Qed.
Print Assumptions C13hs13_hrr_always_carries_cookie.

(* the ServerHello flight only after a second ClientHello whose cookie extension EQUALS the issued
   cookie ("no cookie" matches nothing) and which repeats the first hello *)
Theorem C13hs13_cookie_gate :
  forall (verify : bool) (k : N) (is : list cin),
    verify = true ->
    (exists i, In (i, [OFlight4]) (snd (crun (csrv_init verify k) is))) ->
    exists ok, In (ICH2 (Some k) true ok) is.
Proof. exact cookie_gate13. Qed.
Print Assumptions C13hs13_cookie_gate.

Theorem C13hs13_cookie_step_shape :
  forall (s : csrv) (i : cin) (o : list cout),
    snd (cstep s i) = o ->
    o = [] \/ (exists c g, o = [OHRR c g] /\ i <> ITimerC) \/ o = [OFlight4] \/ o = [OAlertC].
Proof. exact cstep_shape. Qed.
Print Assumptions C13hs13_cookie_step_shape.

(* non-vacuity: key-share mismatch; a blind second ClientHello without cookie is refused, the echo accepted *)
Example C13hs13_cookie_example :
  map snd (snd (crun (csrv_init true 1) [ICH1 false; ICH2 None true true])) = [[OHRR (Some 1) true]; [OAlertC]] /\
  map snd (snd (crun (csrv_init true 1) [ICH1 false; ICH1 false; ICH2 (Some 1) true true]))
  = [[OHRR (Some 1) true]; [OHRR (Some 1) true]; [OFlight4]].
Proof. vm_compute. split; reflexivity. Qed.

(* the premises hold for the regenerated flight structures of the current tree *)
Theorem C13hs13_premises_v13 : hrr_cfg (cfg13 g13_v13).
Proof. exact hrr_cfg_v13. Qed.
Print Assumptions C13hs13_premises_v13.
Theorem C13hs13_premises_v13_hrr : hrr_cfg (cfg13 g13_v13_hrr).
Proof. exact hrr_cfg_v13_hrr. Qed.
Print Assumptions C13hs13_premises_v13_hrr.
Theorem C13hs13_premises_v13_clientauth : hrr_cfg (cfg13 g13_v13_clientauth).
Proof. exact hrr_cfg_v13_clientauth. Qed.
Print Assumptions C13hs13_premises_v13_clientauth.
Theorem C13hs13_premises_v13_mtu300 : hrr_cfg (cfg13 g13_v13_mtu300).
Proof. exact hrr_cfg_v13_mtu300. Qed.
Print Assumptions C13hs13_premises_v13_mtu300.
Theorem C13hs13_premises_v13_mtu120 : hrr_cfg (cfg13 g13_v13_mtu120).
Proof. exact hrr_cfg_v13_mtu120. Qed.
Print Assumptions C13hs13_premises_v13_mtu120.

(* non-vacuity: first ClientHello (two fragments) -> HelloRetryRequest; the repeated first
   ClientHello half an interval later -> HelloRetryRequest again for its first fragment only;
   the timer -> nothing *)
Example C13hs13_example :
  let c := cfg13 g13_v13 in
  let ch := pack c (fl_lookup F1 (c_fl c)) in
  map (fun p => length (snd p))
      (snd (run c (ep_init c false)
                (map (fun d => IDgram d 0) ch ++ [ITimer] ++ map (fun d => IDgram d 600) ch)))
  = [0; 1; 0; 1; 0]%nat.
Proof. vm_compute. reflexivity. Qed.
