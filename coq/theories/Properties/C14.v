(* C14 - Session resumption never keys a connection from mismatched secrets.
   Statements only; model Hs/C14Resume.v, proofs Hs/C14ResumeSound.v.

   The model is an executable function [conn] of one connection attempt (client store, server
   store, configuration flags, the fresh values of this connection, which ChangeCipherSpec flights
   eventually arrive) and [run] of a HISTORY of connections over the two shared stores, between
   which the stores may be overwritten arbitrarily ([Mutate]: fresh, stale, swapped, truncated,
   foreign entries).  Every theorem is for ALL store contents, ALL parameters, ALL histories.

   Key blocks and verify_data are values [KB ms rc rs], [VD dir ms transcript] of abstract types; the
   idealisations are explicit premises: [reflects K_eqb] (a record opens exactly under the key block
   that sealed it), [KB_injective], [reflects V_eqb], [VD_injective].  The examples at the end show
   that the premises are satisfiable (the instance used for the correspondence runs).

   What the code does and the model therefore says (see the Deliverable report): with mismatching
   stored secrets nobody ever sends handshake_failure - the client cannot even open the server's
   Finished record - both sides retransmit until their callers give up and nothing is evicted
   ([C14_mismatch_stalls_without_eviction], [C14_history_mismatch_lockout]). *)
From Coq Require Import List NArith Bool.
From DtlsV Require Import Hs.C14Resume Hs.C14ResumeSound Hs.C14Run.
Import ListNotations.
Open Scope N_scope.

(* An abbreviated handshake that either side reports as established: both stores hold the SAME
   secret for the offered id, that secret is the master secret of the established side(s), the
   client accepted the server's Finished, the server (if established) the client's, and both hold
   the same key block KB(secret, this connection's randoms). *)
Theorem C14_resume_keys_agree :
  forall (K V : Type) (KB : secret -> N -> N -> K) (VD : bool -> secret -> N * N * bid -> V)
         (K_eqb : K -> K -> bool) (V_eqb : V -> V -> bool),
    reflects V_eqb -> VD_injective VD ->
    forall (p : params) (cs ss : store),
      r_mode (conn K V KB VD K_eqb V_eqb p cs ss) = Abbreviated ->
      o_out (r_c (conn K V KB VD K_eqb V_eqb p cs ss)) = Established \/
      o_out (r_s (conn K V KB VD K_eqb V_eqb p cs ss)) = Established ->
      exists oc os : sess,
        offer p cs = Some oc /\ srv_lookup p ss (s_id oc) = Some os /\
        s_sec oc = s_sec os /\
        o_out (r_c (conn K V KB VD K_eqb V_eqb p cs ss)) = Established /\
        o_ms (r_c (conn K V KB VD K_eqb V_eqb p cs ss)) = s_sec oc /\
        o_kb (r_c (conn K V KB VD K_eqb V_eqb p cs ss)) = Some (KB (s_sec oc) (p_rc p) (p_rs p)) /\
        V_eqb (VD false (s_sec oc) (tr_of p (s_id oc))) (VD false (s_sec os) (tr_of p (s_id oc))) = true /\
        (o_out (r_s (conn K V KB VD K_eqb V_eqb p cs ss)) = Established ->
           o_ms (r_s (conn K V KB VD K_eqb V_eqb p cs ss)) = s_sec os /\
           o_kb (r_s (conn K V KB VD K_eqb V_eqb p cs ss)) = o_kb (r_c (conn K V KB VD K_eqb V_eqb p cs ss)) /\
           V_eqb (VD true (s_sec os) (tr_of p (s_id oc))) (VD true (s_sec oc) (tr_of p (s_id oc))) = true).
Proof. exact resume_keys_agree. Qed.
Print Assumptions C14_resume_keys_agree.

(* The server knows the offered id but the stored secrets differ: neither side ever reports the
   connection as established - whatever the configuration, faults and arrivals.  Two independent
   reasons: record protection ... *)
Theorem C14_mismatch_never_established :
  forall (K V : Type) (KB : secret -> N -> N -> K) (VD : bool -> secret -> N * N * bid -> V)
         (K_eqb : K -> K -> bool) (V_eqb : V -> V -> bool),
    reflects K_eqb -> KB_injective KB ->
    forall (p : params) (cs ss : store) (oc os : sess),
      offer p cs = Some oc -> srv_lookup p ss (s_id oc) = Some os -> s_sec oc <> s_sec os ->
      o_out (r_c (conn K V KB VD K_eqb V_eqb p cs ss)) <> Established /\
      o_out (r_s (conn K V KB VD K_eqb V_eqb p cs ss)) <> Established.
Proof. exact mismatch_never_established. Qed.
Print Assumptions C14_mismatch_never_established.

(* ... and the Finished checks of handleResumption / flight4bParse *)
Theorem C14_mismatch_never_established_by_finished :
  forall (K V : Type) (KB : secret -> N -> N -> K) (VD : bool -> secret -> N * N * bid -> V)
         (K_eqb : K -> K -> bool) (V_eqb : V -> V -> bool),
    reflects V_eqb -> VD_injective VD ->
    forall (p : params) (cs ss : store) (oc os : sess),
      offer p cs = Some oc -> srv_lookup p ss (s_id oc) = Some os -> s_sec oc <> s_sec os ->
      o_out (r_c (conn K V KB VD K_eqb V_eqb p cs ss)) <> Established /\
      o_out (r_s (conn K V KB VD K_eqb V_eqb p cs ss)) <> Established.
Proof. exact mismatch_never_established_by_finished. Qed.
Print Assumptions C14_mismatch_never_established_by_finished.

(* What happens instead (no provoked alert): abbreviated flights, both sides stall until their
   callers give up, no alert, no store operation at all. *)
Theorem C14_mismatch_stalls_without_eviction :
  forall (K V : Type) (KB : secret -> N -> N -> K) (VD : bool -> secret -> N * N * bid -> V)
         (K_eqb : K -> K -> bool) (V_eqb : V -> V -> bool),
    reflects K_eqb -> KB_injective KB ->
    forall (p : params) (cs ss : store) (oc os : sess),
      plain p -> offer p cs = Some oc -> srv_lookup p ss (s_id oc) = Some os -> s_sec oc <> s_sec os ->
      let r := conn K V KB VD K_eqb V_eqb p cs ss in
      r_mode r = Abbreviated /\ o_out (r_c r) = Stalled /\ o_out (r_s r) = Stalled /\
      r_cops r = [] /\ r_sops r = [].
Proof. exact mismatch_stalls_without_eviction. Qed.
Print Assumptions C14_mismatch_stalls_without_eviction.

(* The server does not resume the offered id (no store, unknown id, nil entry): full handshake; an
   established side holds the master secret derived in THIS connection - a parameter of the
   connection, no function of the stores - under this connection's randoms, and established sides
   agree on it. *)
Theorem C14_unknown_session_falls_back :
  forall (K V : Type) (KB : secret -> N -> N -> K) (VD : bool -> secret -> N * N * bid -> V)
         (K_eqb : K -> K -> bool) (V_eqb : V -> V -> bool),
    reflects K_eqb -> KB_injective KB ->
    forall (p : params) (cs ss : store),
      srv_lookup p ss (offered_id (offer p cs)) = None ->
      let r := conn K V KB VD K_eqb V_eqb p cs ss in
      r_mode r = Full /\
      (o_out (r_c r) = Established ->
         o_ms (r_c r) = p_msc p /\ o_kb (r_c r) = Some (KB (p_msc p) (p_rc p) (p_rs p)) /\ p_msc p = p_mss p) /\
      (o_out (r_s r) = Established ->
         o_ms (r_s r) = p_mss p /\ o_kb (r_s r) = Some (KB (p_mss p) (p_rc p) (p_rs p)) /\ p_msc p = p_mss p).
Proof. exact unknown_session_falls_back. Qed.
Print Assumptions C14_unknown_session_falls_back.

(* ... and nothing of a fallback depends on which stale session was offered *)
Theorem C14_fallback_independent_of_stale_entry :
  forall (K V : Type) (KB : secret -> N -> N -> K) (VD : bool -> secret -> N * N * bid -> V)
         (K_eqb : K -> K -> bool) (V_eqb : V -> V -> bool) (p : params) (off off' : bid),
    let r := conn_full K V KB VD K_eqb V_eqb p off in
    let r' := conn_full K V KB VD K_eqb V_eqb p off' in
    o_out (r_c r) = o_out (r_c r') /\ o_out (r_s r) = o_out (r_s r') /\ r_sops r = r_sops r' /\
    (o_out (r_c r) = Established -> r_c r = r_c r') /\ (o_out (r_s r) = Established -> r_s r = r_s r').
Proof. exact fallback_independent_of_stale_entry. Qed.
Print Assumptions C14_fallback_independent_of_stale_entry.

(* Fresh record keys: the key block of every established side is KB(its master secret, the randoms
   of this connection); two connections - in particular two resumptions of one session - whose
   hello randoms differ have different key blocks. *)
Theorem C14_keys_from_this_connection :
  forall (K V : Type) (KB : secret -> N -> N -> K) (VD : bool -> secret -> N * N * bid -> V)
         (K_eqb : K -> K -> bool) (V_eqb : V -> V -> bool) (p : params) (cs ss : store),
    let r := conn K V KB VD K_eqb V_eqb p cs ss in
    (o_out (r_c r) = Established -> o_kb (r_c r) = Some (KB (o_ms (r_c r)) (p_rc p) (p_rs p))) /\
    (o_out (r_s r) = Established -> o_kb (r_s r) = Some (KB (o_ms (r_s r)) (p_rc p) (p_rs p))).
Proof. exact keys_from_this_connection. Qed.
Print Assumptions C14_keys_from_this_connection.

Theorem C14_fresh_randoms_fresh_keys :
  forall (K V : Type) (KB : secret -> N -> N -> K) (VD : bool -> secret -> N * N * bid -> V)
         (K_eqb : K -> K -> bool) (V_eqb : V -> V -> bool),
    KB_injective KB ->
    forall (evs : list event) (cs0 ss0 : store) (e1 e2 : entry K) (k1 k2 : K),
      In e1 (run K V KB VD K_eqb V_eqb evs cs0 ss0) -> In e2 (run K V KB VD K_eqb V_eqb evs cs0 ss0) ->
      o_out (r_c (e_r e1)) = Established -> o_out (r_c (e_r e2)) = Established ->
      o_kb (r_c (e_r e1)) = Some k1 -> o_kb (r_c (e_r e2)) = Some k2 ->
      (p_rc (e_p e1), p_rs (e_p e1)) <> (p_rc (e_p e2), p_rs (e_p e2)) -> k1 <> k2.
Proof. exact history_fresh_keys. Qed.
Print Assumptions C14_fresh_randoms_fresh_keys.

(* Connection ids of every established side of every connection of every history are those
   exchanged in that connection's own hellos (negotiated only if both sides sent the extension). *)
Theorem C14_cids_renegotiated :
  forall (K V : Type) (KB : secret -> N -> N -> K) (VD : bool -> secret -> N * N * bid -> V)
         (K_eqb : K -> K -> bool) (V_eqb : V -> V -> bool)
         (evs : list event) (cs0 ss0 : store) (e : entry K),
    In e (run K V KB VD K_eqb V_eqb evs cs0 ss0) ->
    (o_out (r_c (e_r e)) = Established ->
       o_lcid (r_c (e_r e)) = option_map fst (nego (e_p e)) /\
       o_rcid (r_c (e_r e)) = option_map snd (nego (e_p e))) /\
    (o_out (r_s (e_r e)) = Established ->
       o_lcid (r_s (e_r e)) = option_map snd (nego (e_p e)) /\
       o_rcid (r_s (e_r e)) = option_map fst (nego (e_p e))).
Proof. exact history_cids_renegotiated. Qed.
Print Assumptions C14_cids_renegotiated.

(* Eviction.  A side that sent a fatal alert while its state.SessionID was not empty has no entry
   under its store key afterwards (client: address_name; server: the session id) ... *)
Theorem C14_fatal_alert_evicts_client :
  forall (K V : Type) (KB : secret -> N -> N -> K) (VD : bool -> secret -> N * N * bid -> V)
         (K_eqb : K -> K -> bool) (V_eqb : V -> V -> bool) (p : params) (cs ss : store) (d : N),
    let r := conn K V KB VD K_eqb V_eqb p cs ss in
    o_out (r_c r) = SentAlert d -> o_sid (r_c r) <> 0 -> get (p_ckey p) (post_c cs r) = None.
Proof. exact fatal_alert_evicts_client. Qed.
Print Assumptions C14_fatal_alert_evicts_client.

Theorem C14_fatal_alert_evicts_server :
  forall (K V : Type) (KB : secret -> N -> N -> K) (VD : bool -> secret -> N * N * bid -> V)
         (K_eqb : K -> K -> bool) (V_eqb : V -> V -> bool) (p : params) (cs ss : store) (d : N),
    let r := conn K V KB VD K_eqb V_eqb p cs ss in
    o_out (r_s r) = SentAlert d -> o_sid (r_s r) <> 0 -> get (o_sid (r_s r)) (post_s ss r) = None.
Proof. exact fatal_alert_evicts_server. Qed.
Print Assumptions C14_fatal_alert_evicts_server.

(* ... hence, anywhere in a history, the next connection under the same key offers nothing ... *)
Theorem C14_history_fatal_alert_evicts :
  forall (K V : Type) (KB : secret -> N -> N -> K) (VD : bool -> secret -> N * N * bid -> V)
         (K_eqb : K -> K -> bool) (V_eqb : V -> V -> bool)
         (pre : list event) (p p' : params) (post : list event) (cs0 ss0 : store) (d : N),
    p_ckey p' = p_ckey p ->
    exists e e' : entry K,
      In e (run K V KB VD K_eqb V_eqb (pre ++ Conn p :: Conn p' :: post) cs0 ss0) /\
      In e' (run K V KB VD K_eqb V_eqb (pre ++ Conn p :: Conn p' :: post) cs0 ss0) /\
      e_p e = p /\ e_p e' = p' /\ e_cs e' = post_c (e_cs e) (e_r e) /\
      (o_out (r_c (e_r e)) = SentAlert d -> o_sid (r_c (e_r e)) <> 0 ->
         get (p_ckey p) (e_cs e') = None /\ r_offered (e_r e') = 0).
Proof. exact history_fatal_alert_evicts. Qed.
Print Assumptions C14_history_fatal_alert_evicts.

(* ... and a session the server evicted is not resumed when it is offered again. *)
Theorem C14_evicted_not_resumed :
  forall (K V : Type) (KB : secret -> N -> N -> K) (VD : bool -> secret -> N * N * bid -> V)
         (K_eqb : K -> K -> bool) (V_eqb : V -> V -> bool),
    reflects K_eqb -> KB_injective KB ->
    forall (p : params) (cs ss : store) (d : N) (p' : params) (cs' : store),
      let r := conn K V KB VD K_eqb V_eqb p cs ss in
      o_out (r_s r) = SentAlert d -> o_sid (r_s r) <> 0 ->
      offered_id (offer p' cs') = o_sid (r_s r) ->
      r_mode (conn K V KB VD K_eqb V_eqb p' cs' (post_s ss r)) = Full.
Proof. exact evicted_not_resumed. Qed.
Print Assumptions C14_evicted_not_resumed.

(* The same for fatal alerts sent from the RECORD path of an established connection (conn.go notify
   reached from processIncomingPacket: unexpected_message, decode_error): the sender's operations are
   [alert_ops_client] / [alert_ops_server]; afterwards its store has no entry for the session, the
   next ClientHello under that key is empty and the server does not resume the id. *)
Theorem C14_record_alert_evicts_client :
  forall (K V : Type) (KB : secret -> N -> N -> K) (VD : bool -> secret -> N * N * bid -> V)
         (K_eqb : K -> K -> bool) (V_eqb : V -> V -> bool) (p : params) (cs ss : store),
    let r := conn K V KB VD K_eqb V_eqb p cs ss in
    o_out (r_c r) = Established -> o_sid (r_c r) <> 0 ->
    get (p_ckey p) (apply_ops (post_c cs r) (alert_ops_client p (o_sid (r_c r)))) = None.
Proof. exact record_alert_evicts_client. Qed.
Print Assumptions C14_record_alert_evicts_client.

Theorem C14_record_alert_evicts_server :
  forall (K V : Type) (KB : secret -> N -> N -> K) (VD : bool -> secret -> N * N * bid -> V)
         (K_eqb : K -> K -> bool) (V_eqb : V -> V -> bool) (p : params) (cs ss : store),
    let r := conn K V KB VD K_eqb V_eqb p cs ss in
    o_out (r_s r) = Established -> o_sid (r_s r) <> 0 ->
    get (o_sid (r_s r)) (apply_ops (post_s ss r) (alert_ops_server (o_sid (r_s r)))) = None.
Proof. exact record_alert_evicts_server. Qed.
Print Assumptions C14_record_alert_evicts_server.

Theorem C14_record_alert_not_offered :
  forall (K V : Type) (KB : secret -> N -> N -> K) (VD : bool -> secret -> N * N * bid -> V)
         (K_eqb : K -> K -> bool) (V_eqb : V -> V -> bool) (p : params) (cs ss : store) (p' : params) (ss' : store),
    let r := conn K V KB VD K_eqb V_eqb p cs ss in
    o_out (r_c r) = Established -> o_sid (r_c r) <> 0 -> p_ckey p' = p_ckey p ->
    r_offered (conn K V KB VD K_eqb V_eqb p' (apply_ops (post_c cs r) (alert_ops_client p (o_sid (r_c r)))) ss') = 0.
Proof. exact record_alert_not_offered. Qed.
Print Assumptions C14_record_alert_not_offered.

Theorem C14_record_alert_not_resumed :
  forall (K V : Type) (KB : secret -> N -> N -> K) (VD : bool -> secret -> N * N * bid -> V)
         (K_eqb : K -> K -> bool) (V_eqb : V -> V -> bool),
    reflects K_eqb -> KB_injective KB ->
    forall (p : params) (cs ss : store) (p' : params) (cs' : store),
      let r := conn K V KB VD K_eqb V_eqb p cs ss in
      o_out (r_s r) = Established -> o_sid (r_s r) <> 0 ->
      offered_id (offer p' cs') = o_sid (r_s r) ->
      r_mode (conn K V KB VD K_eqb V_eqb p' cs' (apply_ops (post_s ss r) (alert_ops_server (o_sid (r_s r))))) = Full.
Proof. exact record_alert_not_resumed. Qed.
Print Assumptions C14_record_alert_not_resumed.

(* A full handshake in which the client sent a Certificate message performs no operation on the
   server's store and leaves the server's session id empty. *)
Theorem C14_client_cert_not_stored :
  forall (K V : Type) (KB : secret -> N -> N -> K) (VD : bool -> secret -> N * N * bid -> V)
         (K_eqb : K -> K -> bool) (V_eqb : V -> V -> bool) (p : params) (cs ss : store),
    p_ccert p = true -> r_mode (conn K V KB VD K_eqb V_eqb p cs ss) = Full ->
    r_sops (conn K V KB VD K_eqb V_eqb p cs ss) = [] /\
    post_s ss (conn K V KB VD K_eqb V_eqb p cs ss) = ss /\
    (o_out (r_s (conn K V KB VD K_eqb V_eqb p cs ss)) = Established ->
       o_sid (r_s (conn K V KB VD K_eqb V_eqb p cs ss)) = 0).
Proof. exact client_cert_not_stored. Qed.
Print Assumptions C14_client_cert_not_stored.

(* What enters the SERVER's store (flight4Parse saves the session as its last step): only a full
   handshake the server accepted writes a session - the client's Finished record opened under the
   server's key block and its verify_data matched, neither the client-authentication policy nor
   VerifyConnection refused, no client Certificate message - under this connection's session id and
   master secret. *)
Theorem C14_server_stores_only_verified :
  forall (K V : Type) (KB : secret -> N -> N -> K) (VD : bool -> secret -> N * N * bid -> V)
         (K_eqb : K -> K -> bool) (V_eqb : V -> V -> bool) (p : params) (cs ss : store) (k : bid) (v : sess),
    In (MSet k v) (r_sops (conn K V KB VD K_eqb V_eqb p cs ss)) ->
    r_mode (conn K V KB VD K_eqb V_eqb p cs ss) = Full /\
    o_out (r_s (conn K V KB VD K_eqb V_eqb p cs ss)) = Established /\
    k = p_newsid p /\ s_id v = p_newsid p /\ s_sec v = p_mss p /\ s_nil v = false /\
    p_ccert p = false /\ p_fault p <> FSPolicy /\ p_fault p <> FSVerify /\ p_arr_c p = true /\
    K_eqb (KB (p_mss p) (p_rc p) (p_rs p)) (KB (p_msc p) (p_rc p) (p_rs p)) = true /\
    V_eqb (VD true (p_mss p) (p_rc p, p_rs p, p_newsid p)) (VD true (p_msc p) (p_rc p, p_rs p, p_newsid p)) = true.
Proof. exact server_stores_only_verified. Qed.
Print Assumptions C14_server_stores_only_verified.

(* A connection the server did not accept (client refused by the authentication policy or by
   VerifyConnection, Finished mismatch, client that never sends its Finished, any alert) leaves no
   new entry: whatever the server resumes afterwards it would have resumed before.  (The repaired
   defect: a client that omitted its Certificate and never completed could resume and bypass
   RequireAndVerifyClientCert.) *)
Theorem C14_refused_client_leaves_no_entry :
  forall (K V : Type) (KB : secret -> N -> N -> K) (VD : bool -> secret -> N * N * bid -> V)
         (K_eqb : K -> K -> bool) (V_eqb : V -> V -> bool) (p : params) (cs ss : store),
    o_out (r_s (conn K V KB VD K_eqb V_eqb p cs ss)) <> Established ->
    forall (k : bid) (v : sess),
      get k (post_s ss (conn K V KB VD K_eqb V_eqb p cs ss)) = Some v -> get k ss = Some v.
Proof. exact refused_client_leaves_no_entry. Qed.
Print Assumptions C14_refused_client_leaves_no_entry.

Theorem C14_refused_client_cannot_resume :
  forall (K V : Type) (KB : secret -> N -> N -> K) (VD : bool -> secret -> N * N * bid -> V)
         (K_eqb : K -> K -> bool) (V_eqb : V -> V -> bool) (p : params) (cs ss : store)
         (p' : params) (sid : bid) (os : sess),
    o_out (r_s (conn K V KB VD K_eqb V_eqb p cs ss)) <> Established ->
    srv_lookup p' (post_s ss (conn K V KB VD K_eqb V_eqb p cs ss)) sid = Some os ->
    srv_lookup p' ss sid = Some os.
Proof. exact refused_client_cannot_resume. Qed.
Print Assumptions C14_refused_client_cannot_resume.

(* Over histories: starting from an empty server store (no other writer), EVERY session in the
   server's store after ANY history was created by a full handshake of that history which the
   server accepted, with a verified client Finished, and holds the master secret both sides derived
   in that handshake. *)
Theorem C14_server_sessions_all_verified :
  forall (K V : Type) (KB : secret -> N -> N -> K) (VD : bool -> secret -> N * N * bid -> V)
         (K_eqb : K -> K -> bool) (V_eqb : V -> V -> bool),
    reflects V_eqb -> VD_injective VD ->
    forall (ps : list params) (cs : store) (k : bid) (v : sess),
      get k (snd (final K V KB VD K_eqb V_eqb (map Conn ps) cs [])) = Some v ->
      exists e : entry K, In e (run K V KB VD K_eqb V_eqb (map Conn ps) cs []) /\
        r_mode (e_r e) = Full /\ o_out (r_s (e_r e)) = Established /\
        k = p_newsid (e_p e) /\ s_sec v = p_mss (e_p e) /\ s_sec v = p_msc (e_p e) /\
        p_fault (e_p e) <> FSPolicy /\ p_fault (e_p e) <> FSVerify /\ p_ccert (e_p e) = false /\
        V_eqb (VD true (p_mss (e_p e)) (p_rc (e_p e), p_rs (e_p e), p_newsid (e_p e)))
              (VD true (p_msc (e_p e)) (p_rc (e_p e), p_rs (e_p e), p_newsid (e_p e))) = true.
Proof. exact server_sessions_all_verified. Qed.
Print Assumptions C14_server_sessions_all_verified.

(* Sessions enter the client's store only from a full handshake the client completed, with this
   connection's session id and master secret; an abbreviated handshake writes nothing. *)
Theorem C14_stored_sessions_are_fresh :
  forall (K V : Type) (KB : secret -> N -> N -> K) (VD : bool -> secret -> N * N * bid -> V)
         (K_eqb : K -> K -> bool) (V_eqb : V -> V -> bool) (p : params) (cs ss : store) (k : bid) (v : sess),
    In (MSet k v) (r_cops (conn K V KB VD K_eqb V_eqb p cs ss)) ->
    k = p_ckey p /\ s_sec v = p_msc p /\ s_id v = p_newsid p /\ s_nil v = false /\
    o_out (r_c (conn K V KB VD K_eqb V_eqb p cs ss)) = Established /\
    r_mode (conn K V KB VD K_eqb V_eqb p cs ss) = Full.
Proof. exact stored_sessions_are_fresh. Qed.
Print Assumptions C14_stored_sessions_are_fresh.

Theorem C14_abbreviated_never_stores :
  forall (K V : Type) (KB : secret -> N -> N -> K) (VD : bool -> secret -> N * N * bid -> V)
         (K_eqb : K -> K -> bool) (V_eqb : V -> V -> bool) (p : params) (cs ss : store),
    r_mode (conn K V KB VD K_eqb V_eqb p cs ss) = Abbreviated ->
    forallb (fun o : mop => negb (is_set o))
      (r_cops (conn K V KB VD K_eqb V_eqb p cs ss) ++ r_sops (conn K V KB VD K_eqb V_eqb p cs ss)) = true.
Proof. exact abbreviated_never_stores. Qed.
Print Assumptions C14_abbreviated_never_stores.

(* Over histories: the per-connection statements hold for every connection of every history,
   whatever the stores were overwritten with in between. *)
Theorem C14_history_resume_keys_agree :
  forall (K V : Type) (KB : secret -> N -> N -> K) (VD : bool -> secret -> N * N * bid -> V)
         (K_eqb : K -> K -> bool) (V_eqb : V -> V -> bool),
    reflects V_eqb -> VD_injective VD ->
    forall (evs : list event) (cs0 ss0 : store) (e : entry K),
      In e (run K V KB VD K_eqb V_eqb evs cs0 ss0) ->
      r_mode (e_r e) = Abbreviated ->
      o_out (r_c (e_r e)) = Established \/ o_out (r_s (e_r e)) = Established ->
      exists oc os : sess,
        offer (e_p e) (e_cs e) = Some oc /\ srv_lookup (e_p e) (e_ss e) (s_id oc) = Some os /\
        s_sec oc = s_sec os /\ o_ms (r_c (e_r e)) = s_sec oc /\
        (o_out (r_s (e_r e)) = Established ->
           o_ms (r_s (e_r e)) = s_sec os /\ o_kb (r_s (e_r e)) = o_kb (r_c (e_r e))).
Proof. exact history_resume_keys_agree. Qed.
Print Assumptions C14_history_resume_keys_agree.

Theorem C14_history_mismatch_never_established :
  forall (K V : Type) (KB : secret -> N -> N -> K) (VD : bool -> secret -> N * N * bid -> V)
         (K_eqb : K -> K -> bool) (V_eqb : V -> V -> bool),
    reflects K_eqb -> KB_injective KB ->
    forall (evs : list event) (cs0 ss0 : store) (e : entry K) (oc os : sess),
      In e (run K V KB VD K_eqb V_eqb evs cs0 ss0) ->
      offer (e_p e) (e_cs e) = Some oc -> srv_lookup (e_p e) (e_ss e) (s_id oc) = Some os ->
      s_sec oc <> s_sec os ->
      o_out (r_c (e_r e)) <> Established /\ o_out (r_s (e_r e)) <> Established.
Proof. exact history_mismatch_never_established. Qed.
Print Assumptions C14_history_mismatch_never_established.

Theorem C14_history_unknown_session_falls_back :
  forall (K V : Type) (KB : secret -> N -> N -> K) (VD : bool -> secret -> N * N * bid -> V)
         (K_eqb : K -> K -> bool) (V_eqb : V -> V -> bool),
    reflects K_eqb -> KB_injective KB ->
    forall (evs : list event) (cs0 ss0 : store) (e : entry K),
      In e (run K V KB VD K_eqb V_eqb evs cs0 ss0) ->
      srv_lookup (e_p e) (e_ss e) (offered_id (offer (e_p e) (e_cs e))) = None ->
      r_mode (e_r e) = Full /\
      (o_out (r_c (e_r e)) = Established -> o_ms (r_c (e_r e)) = p_msc (e_p e)) /\
      (o_out (r_s (e_r e)) = Established -> o_ms (r_s (e_r e)) = p_mss (e_p e)).
Proof. exact history_unknown_session_falls_back. Qed.
Print Assumptions C14_history_unknown_session_falls_back.

(* Lock-out: mismatching entries survive every attempt; every further attempt under the same key
   stalls as well, however many follow, and the stores never change. *)
Theorem C14_history_mismatch_lockout :
  forall (K V : Type) (KB : secret -> N -> N -> K) (VD : bool -> secret -> N * N * bid -> V)
         (K_eqb : K -> K -> bool) (V_eqb : V -> V -> bool),
    reflects K_eqb -> KB_injective KB ->
    forall (ps : list params) (cs ss : store) (oc os : sess) (k : bid),
      (forall p : params, In p ps -> plain p /\ p_ckey p = k /\ p_cstore p = true /\ p_sstore p = true) ->
      get k cs = Some oc -> s_nil oc = false -> s_id oc <> 0 ->
      get (s_id oc) ss = Some os -> s_nil os = false -> s_sec oc <> s_sec os ->
      forall e : entry K, In e (run K V KB VD K_eqb V_eqb (map Conn ps) cs ss) ->
        o_out (r_c (e_r e)) = Stalled /\ o_out (r_s (e_r e)) = Stalled /\ e_cs e = cs /\ e_ss e = ss.
Proof. exact history_mismatch_lockout. Qed.
Print Assumptions C14_history_mismatch_lockout.

(* Boundary of the eviction theorems (concrete runs of the model, replayed on the implementation
   by the harness): the "clean old session" step of flight3Parse deletes under the session id on
   a store keyed by address_name, so a declined offer stays in the client's store ... *)
Theorem C14_declined_offer_survives_received_alert :
  let r := connT (w_params true FSVerify) w_cs [] in
  r_mode r = Full /\ r_offered r = 5 /\ o_out (r_c r) = RecvAlert 42 /\
  r_cops r = [MDel 5] /\ get 7 (post_c w_cs r) = Some (mkSess false 5 30) /\
  r_offered (connT (w_params true NoFault) (post_c w_cs r) (post_s [] r)) = 5.
Proof. exact declined_offer_survives_received_alert. Qed.
Print Assumptions C14_declined_offer_survives_received_alert.

(* ... even when the client itself sends the fatal alert, if the server answered with an empty
   session id (server without a store): state.SessionID is empty then. *)
Theorem C14_declined_offer_survives_sent_alert :
  let r := connT (w_params false FCVerify) w_cs [] in
  r_mode r = Full /\ r_offered r = 5 /\ o_out (r_c r) = SentAlert 42 /\ o_sid (r_c r) = 0 /\
  get 7 (post_c w_cs r) = Some (mkSess false 5 30) /\
  r_offered (connT (w_params true NoFault) (post_c w_cs r) (post_s [] r)) = 5.
Proof. exact declined_offer_survives_sent_alert. Qed.
Print Assumptions C14_declined_offer_survives_sent_alert.

(* Resumption skips VerifyConnection and the key exchange of the full handshake. *)
Theorem C14_resumption_skips_full_handshake_checks : forall f, f = FSVerify \/ f = FCVerify ->
  let p := mkParams 7 true true 100 200 9 31 32 false None None f true true in
  let r := connT p w_cs [(5, mkSess false 5 30)] in
  r_mode r = Abbreviated /\ o_out (r_c r) = Established /\ o_out (r_s r) = Established /\
  o_out (r_c (connT p [] [])) <> Established.
Proof. exact resumption_skips_full_handshake_checks. Qed.
Print Assumptions C14_resumption_skips_full_handshake_checks.

(* The premises are satisfiable: the instance the correspondence evaluates. *)
Example C14_premises_satisfiable :
  reflects kt_eqb /\ KB_injective kbT /\ reflects vt_eqb /\ VD_injective vdT.
Proof. exact (conj kt_eqb_spec (conj kbT_inj (conj vt_eqb_spec vdT_inj))). Qed.

(* The hypotheses of the main theorems are satisfiable: a resumption with equal secrets establishes
   both sides in abbreviated mode; with different secrets both stall. *)
Example C14_resumption_instance :
  let p := mkParams 7 true true 100 200 9 31 31 false (Some 1) (Some 2) NoFault true true in
  let r := connT p [(7, mkSess false 5 30)] [(5, mkSess false 5 30)] in
  let r' := connT p [(7, mkSess false 5 30)] [(5, mkSess false 5 33)] in
  r_mode r = Abbreviated /\ o_out (r_c r) = Established /\ o_out (r_s r) = Established /\
  o_ms (r_c r) = 30 /\ o_lcid (r_c r) = Some 1 /\ o_rcid (r_c r) = Some 2 /\
  o_out (r_c r') = Stalled /\ o_out (r_s r') = Stalled.
Proof. vm_compute. repeat split; reflexivity. Qed.
