(* C15 - Connection IDs and peer address migration (RFC 9146 / RFC 9853).
   Only statements closed by [exact]; models in Rrc/C15Manager.v, Rrc/C15Conn.v, Rrc/C15Router.v,
   proofs in Rrc/C15ManagerSound.v, Rrc/C15ConnSound.v, Rrc/C15RouterSound.v.
   Premises carried: none cryptographic.  "Admitted record" (an [ERecord] event) means a record for
   which conn.go prepareIncomingPacket succeeded (authenticity of such records is C05's subject);
   the challenge cookie is an input of the model (drawn by crypto/rand in the code). *)
From DtlsV Require Import Lib.Bytes Rrc.C15Manager Rrc.C15ManagerSound Rrc.C15Conn Rrc.C15ConnSound
     Rrc.C15Router Rrc.C15RouterSound.
Open Scope N_scope.

(* ------------------------------------------------------------------ amplification *)

(* rrc.Manager, any operation sequence from the zero value, any timer scheduling: every stored
   candidate path has sentBytes <= 3 * receivedBytes, both within uint64 (receivedBytes saturates,
   so it never exceeds what was really counted). *)
Theorem C15_manager_amplification :
  forall (ops : list op) (a : addr) (p : path),
    pget a (run [] ops) = Some p ->
    p_sent p <= 3 * p_recv p /\ p_sent p <= MAX64 /\ p_recv p <= MAX64.
Proof. exact amplification. Qed.
Print Assumptions C15_manager_amplification.

(* Reserve for a non-active address succeeds only for a stored, unexpired path and keeps it
   within the budget. *)
Theorem C15_reserve_sound :
  forall (a act : addr) (b now : N) (s s' : paths),
    reserve a act b now s = (s', true) -> a <> act ->
    exists p, pget a s = Some p /\ now < p_expires p /\ p_sent p + b <= 3 * p_recv p /\
              p_sent p + b <= MAX64 /\
              s' = pset a (mkPath (p_recv p) (p_sent p + b) (p_cookie p) (p_pending p) (p_expires p)) s.
Proof. exact reserve_sound. Qed.
Print Assumptions C15_reserve_sound.

Theorem C15_reserve_unknown_or_expired_fails :
  forall (a act : addr) (b now : N) (s : paths),
    a <> act -> (pget a s = None \/ exists p, pget a s = Some p /\ p_expires p <= now) ->
    reserve a act b now s = (s, false).
Proof. exact reserve_unknown_or_expired_fails. Qed.
Print Assumptions C15_reserve_unknown_or_expired_fails.

(* Connection level, exact byte counts: over every event sequence (admitted records of every kind
   from any addresses, timer callbacks at any moments, write failures), the RRC bytes authorised
   towards an address while it was not the active one are at most three times the bytes of the
   admitted records that came from it while it was not the active one. *)
Theorem C15_conn_amplification :
  forall (st0 : cstate) (evs : list event) (a : addr),
    mgr st0 = [] -> sent_cand a (couts st0 evs) <= 3 * received_from a st0 evs.
Proof. exact conn_amplification. Qed.
Print Assumptions C15_conn_amplification.

(* ------------------------------------------------------------------ address changes *)

(* After any event sequence from a connection without candidate paths, a step changes the remote
   address only if: RRC was negotiated; the step is an admitted path_response record from address
   a = the new address; an EARLIER admitted record from a, carrying a connection ID and newest in
   the replay window (content application data / handshake / ACK / path_challenge), made Start
   issue exactly the cookie the response carries; and the response arrives less than
   TIMEOUT = 1 s after that. *)
Theorem C15_addr_changes_only_on_validated_response :
  forall (st0 : cstate) (evs : list event) (e : event),
    mgr st0 = [] ->
    let st := crun st0 evs in
    raddr (fst (cstep st e)) <> raddr st ->
    exists r, e = ERecord r /\ negotiated st0 = true /\ raddr (fst (cstep st e)) = r_from r /\
      exists c r0, r_kind r = KResponse c /\ In (ERecord r0) evs /\ r_from r0 = r_from r /\
                   r_hascid r0 = true /\ r_latest r0 = true /\ triggers (r_kind r0) /\
                   r_cookie r0 = c /\ r_now r < r_now r0 + TIMEOUT.
Proof. exact addr_changes_only_on_validated_response. Qed.
Print Assumptions C15_addr_changes_only_on_validated_response.

(* Without the negotiated extension (whatever connection IDs are in use) the remote address is
   constant and no RRC record is ever produced. *)
Theorem C15_no_rrc_no_change :
  forall (st : cstate) (evs : list event),
    negotiated st = false -> raddr (crun st evs) = raddr st /\ couts st evs = [].
Proof. exact no_rrc_no_change. Qed.
Print Assumptions C15_no_rrc_no_change.

(* ------------------------------------------------------------------ challenge freshness *)

Theorem C15_response_accept_spec :
  forall (a : addr) (c now : N) (s s' : paths),
    handle_response a c now s = (s', true) <->
    (s' = [] /\ exists p, pget a s = Some p /\ p_pending p = true /\ p_cookie p = c /\ now < p_expires p).
Proof. exact response_accept_spec. Qed.
Print Assumptions C15_response_accept_spec.

(* wrong address, nothing pending, wrong cookie, or late: rejected *)
Theorem C15_response_rejected :
  forall (a : addr) (c now : N) (s : paths),
    (pget a s = None \/
     exists p, pget a s = Some p /\ (p_pending p = false \/ p_cookie p <> c \/ p_expires p <= now)) ->
    snd (handle_response a c now s) = false.
Proof. exact response_rejected. Qed.
Print Assumptions C15_response_rejected.

(* once accepted, the same (or any) response is rejected from every address at every time until a
   new Start; and over any operation sequence accepted responses never outnumber successful Starts *)
Theorem C15_response_not_accepted_twice :
  forall (a : addr) (c now : N) (s s' : paths),
    handle_response a c now s = (s', true) ->
    forall a' c' now', handle_response a' c' now' s' = (s', false).
Proof. exact response_not_accepted_twice. Qed.
Print Assumptions C15_response_not_accepted_twice.

Theorem C15_accepts_le_starts :
  forall ops : list op, naccepts [] ops <= nstarts [] ops.
Proof. exact accepts_le_starts. Qed.
Print Assumptions C15_accepts_le_starts.

(* ------------------------------------------------------------------ connection IDs and routing *)

(* definitional (the admission test IS this comparison): an admitted protected DTLS 1.2 record
   carries exactly the local ID, or none when the local ID is empty *)
Theorem C15_accept_requires_own_cid :
  forall (local : bytes) (rc : option bytes),
    record_admitted local rc = true ->
    match rc with Some c => c = local | None => local = [] end.
Proof. exact accept_requires_own_cid. Qed.
Print Assumptions C15_accept_requires_own_cid.

Theorem C15_sends_carry_peer_cid :
  forall remote : bytes,
    (remote <> [] -> wrap_cid remote = Some remote) /\ (remote = [] -> wrap_cid remote = None).
Proof. exact sends_carry_peer_cid. Qed.
Print Assumptions C15_sends_carry_peer_cid.

(* the router returns the ID of the first well-formed tls12_cid record of the datagram; it has no
   source-address input, so independence of the source holds by its type *)
Theorem C15_route_first_cid :
  forall (rs : list rrec) (c : bytes),
    first_cid rs = Some c <->
    exists pre r post, rs = pre ++ r :: post /\ forallb (fun x => negb (is_cid_rec x)) pre = true /\
                       is_cid_rec r = true /\ rc_cid r = c.
Proof. exact route_first_cid. Qed.
Print Assumptions C15_route_first_cid.

Theorem C15_route_ignores_source :
  forall (conns : list (bytes * N)) (d : dgram) (id : bytes) (c : N),
    route d = Some id -> lookup id conns = Some c ->
    forall src, get_conn conns src d = Some c.
Proof. exact route_ignores_source. Qed.
Print Assumptions C15_route_ignores_source.

(* a listener with any number of connections: the record whose connection ID is registered for
   connection a is handed to a whatever its source address (also when that address is the one
   tracked for another live connection) *)
Theorem C15_listener_routes_to_cid_owner :
  forall (conns : list (bytes * N)) (id : bytes) (a : N),
    lookup id conns = Some a -> forall src, get_conn_id conns src (Some id) = Some a.
Proof. exact owner_gets_record. Qed.
Print Assumptions C15_listener_routes_to_cid_owner.

(* hypotheses are satisfiable: an honest migration in the model - a newest CID record from
   address 2 starts a challenge, the matching response 0.4 s later switches the address *)
Example C15_migration_happens :
  let st0 := mkC 1 true [] in
  let e1 := ERecord (mkRecv 2 true true 40 KApp 777 55 WOk 1000000000) in
  let e2 := ERecord (mkRecv 2 true true 48 (KResponse 777) 0 55 WOk 1400000000) in
  raddr (crun st0 [e1]) = 1 /\ raddr (crun st0 [e1; e2]) = 2 /\
  map o_dest (couts st0 [e1; e2]) = [2].
Proof. vm_compute. repeat split; reflexivity. Qed.
