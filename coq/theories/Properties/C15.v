(* C15 - Connection IDs and peer address migration (RFC 9146 / RFC 9853).
   Only statements closed by [exact]; models in Rrc/C15Manager.v, Rrc/C15Conn.v, Rrc/C15Newest.v,
   Rrc/C15Router.v, proofs in Rrc/C15ManagerSound.v, Rrc/C15ConnSound.v, Rrc/C15NewestSound.v,
   Rrc/C15RouterSound.v.
   Premises carried: none cryptographic.  "Admitted record" (an [ERecord] event) means a record for
   which conn.go prepareIncomingPacket succeeded (authenticity of such records is C05's subject);
   the challenge cookie is an input of the model (drawn by crypto/rand in the code). *)
From DtlsV Require Import Lib.Bytes Rrc.C15Manager Rrc.C15ManagerSound Rrc.C15Conn Rrc.C15ConnSound
     Rrc.C15Newest Rrc.C15NewestSound Rrc.C15Router Rrc.C15RouterSound.
Open Scope N_scope.

(* ------------------------------------------------------------------ amplification *)

(* rrc.Manager, any operation sequence from the zero value, any timer scheduling: every stored
   candidate path has sentBytes <= 3 * receivedBytes, both within uint64 (receivedBytes saturates,
   so it never exceeds what was really counted). *)
Theorem C15_manager_amplification :
  forall (ops : list op) (a : addr) (p : path),
    pget a (run [] ops) = Some p ->
    p_sent p <= 3 * p_recv p /\ p_sent p <= MAX64 /\ p_recv p <= MAX64.
Proof. exact amplification. Qed.
Print Assumptions C15_manager_amplification.

(* Reserve for a non-active address succeeds only for a stored, unexpired path and keeps it
   within the budget. *)
Theorem C15_reserve_sound :
  forall (a act : addr) (b now : N) (s s' : paths),
    reserve a act b now s = (s', true) -> a <> act ->
    exists p, pget a s = Some p /\ now < p_expires p /\ p_sent p + b <= 3 * p_recv p /\
              p_sent p + b <= MAX64 /\
              s' = pset a (mkPath (p_recv p) (p_sent p + b) (p_cookie p) (p_pending p) (p_expires p)) s.
Proof. exact reserve_sound. Qed.
Print Assumptions C15_reserve_sound.

Theorem C15_reserve_unknown_or_expired_fails :
  forall (a act : addr) (b now : N) (s : paths),
    a <> act -> (pget a s = None \/ exists p, pget a s = Some p /\ p_expires p <= now) ->
    reserve a act b now s = (s, false).
Proof. exact reserve_unknown_or_expired_fails. Qed.
Print Assumptions C15_reserve_unknown_or_expired_fails.

(* Connection level, exact byte counts: over every event sequence (admitted records of every kind
   from any addresses, timer callbacks at any moments, write failures), the RRC bytes authorised
   towards an address while it was not the active one are at most three times the bytes of the
   admitted records that came from it while it was not the active one. *)
Theorem C15_conn_amplification :
  forall (st0 : cstate) (evs : list event) (a : addr),
    mgr st0 = [] -> sent_cand a (couts st0 evs) <= 3 * received_from a st0 evs.
Proof. exact conn_amplification. Qed.
Print Assumptions C15_conn_amplification.

(* ------------------------------------------------------------------ address changes *)

(* After any event sequence from a connection without candidate paths, a step changes the remote
   address only if: RRC was negotiated; the step is an admitted path_response record from address
   a = the new address; an EARLIER admitted record from a, carrying a connection ID and newest in
   the replay window (content application data / handshake / ACK / path_challenge), made Start
   issue exactly the cookie the response carries; and the response arrives less than
   TIMEOUT = 1 s after that. *)
Theorem C15_addr_changes_only_on_validated_response :
  forall (st0 : cstate) (evs : list event) (e : event),
    mgr st0 = [] ->
    let st := crun st0 evs in
    raddr (fst (cstep st e)) <> raddr st ->
    exists r, e = ERecord r /\ negotiated st0 = true /\ raddr (fst (cstep st e)) = r_from r /\
      exists c r0, r_kind r = KResponse c /\ In (ERecord r0) evs /\ r_from r0 = r_from r /\
                   r_hascid r0 = true /\ r_latest r0 = true /\ triggers (r_kind r0) /\
                   r_cookie r0 = c /\ r_now r < r_now r0 + TIMEOUT.
Proof. exact addr_changes_only_on_validated_response. Qed.
Print Assumptions C15_addr_changes_only_on_validated_response.

(* Without the negotiated extension (whatever connection IDs are in use) the remote address is
   constant and no RRC record is ever produced. *)
Theorem C15_no_rrc_no_change :
  forall (st : cstate) (evs : list event),
    negotiated st = false -> raddr (crun st evs) = raddr st /\ couts st evs = [].
Proof. exact no_rrc_no_change. Qed.
Print Assumptions C15_no_rrc_no_change.

(* ------------------------------------------------------------------ "newest record" *)

(* [r_latest] above is an input of Rrc/C15Conn.v; Rrc/C15Newest.v computes it as conn.go does (one
   replay window per epoch, Conn.newestRecord, records of an epoch above the remote epoch are not
   admitted).  Code now (91521a5, 0538fb0, 696da78 = rule RSeen): over any stream of authentic
   protected records and remote-epoch changes, an admitted record is judged newest IF AND ONLY IF it
   is above - by epoch, then by sequence number (RFC 9146 section 6) - every record admitted before. *)
Theorem C15_newest_iff :
  forall (r0 : N) (evs : list nevent) (pre : list (N * N * bool)) (ep seq : N) (v : bool)
         (post : list (N * N * bool)),
    snd (nrun RSeen (ninit r0) evs) = pre ++ (ep, seq, v) :: post ->
    (v = true <-> forall ep' seq' b, In (ep', seq', b) pre -> lex_lt (ep', seq') (ep, seq)).
Proof. exact newest_iff. Qed.
Print Assumptions C15_newest_iff.

Theorem C15_newest_is_newest :
  forall (r0 : N) (evs : list nevent) (pre : list (N * N * bool)) (ep seq : N) (post : list (N * N * bool)),
    snd (nrun RSeen (ninit r0) evs) = pre ++ (ep, seq, true) :: post ->
    forall ep' seq' b, In (ep', seq', b) pre -> lex_lt (ep', seq') (ep, seq).
Proof. exact newest_is_newest. Qed.
Print Assumptions C15_newest_is_newest.

(* Composition with the connection model: after any history (arrivals of any epoch, number,
   connection ID, content and source address, epoch changes, timer callbacks), a step that produces
   a path challenge is the arrival of a record above every protected record admitted before. *)
Theorem C15_challenge_only_for_newest :
  forall (local : bytes) (r0 : N) (c0 : cstate) (evs : list eevent) (a : arrival) (o : out),
    let '(st, acc) := erun RSeen local (mkES (ninit r0) c0) evs in
    In o (snd (fst (estep RSeen local st (EArrive a)))) -> o_type o = TChallenge ->
    forall p, In p acc -> lex_lt p (a_ep a, a_seq a).
Proof. exact challenge_only_for_newest. Qed.
Print Assumptions C15_challenge_only_for_newest.

(* ... and conversely an admitted arrival above every protected record admitted before is handled by
   the connection-level step as a newest record (whether a challenge leaves is then decided by
   Rrc/C15Conn.v: negotiation, connection ID, non-active source, no pending challenge, budget). *)
Theorem C15_newest_arrival_is_latest :
  forall (local : bytes) (r0 : N) (c0 : cstate) (evs : list eevent) (a : arrival),
    let '(st, acc) := erun RSeen local (mkES (ninit r0) c0) evs in
    nadmit (e_n st) (a_ep a) (a_seq a) = true -> record_admitted local (a_rc a) = true ->
    (forall p, In p acc -> lex_lt p (a_ep a, a_seq a)) ->
    snd (fst (estep RSeen local st (EArrive a))) =
    snd (cstep (e_c st) (ERecord (with_latest (a_recv a) true))).
Proof. exact newest_arrival_is_latest. Qed.
Print Assumptions C15_newest_arrival_is_latest.

(* The earlier verdicts fail.  RWindow (the replay window's own answer), F71: the first record of
   the epoch, arriving after records 1 and 2, is judged newest. *)
Theorem C15_window_verdict_refuted_late_zero :
  let evs := [NRecord 3 1; NRecord 3 2; NRecord 3 0] in
  snd (nrun RWindow (ninit 3) evs) = [(3, 1, true); (3, 2, true); (3, 0, true)] /\
  snd (nrun RSeen (ninit 3) evs) = [(3, 1, true); (3, 2, true); (3, 0, false)].
Proof. exact window_verdict_refuted_late_zero. Qed.
Print Assumptions C15_window_verdict_refuted_late_zero.

(* RWindow, F72: a record of epoch 3 arriving after records of epoch 4 is judged newest. *)
Theorem C15_window_verdict_refuted_old_epoch :
  let evs := [NRecord 3 0; NRecord 3 1; NRemote 4; NRecord 4 0; NRecord 4 1; NRecord 3 5] in
  snd (nrun RWindow (ninit 3) evs) =
    [(3, 0, true); (3, 1, true); (4, 0, true); (4, 1, true); (3, 5, true)] /\
  snd (nrun RSeen (ninit 3) evs) =
    [(3, 0, true); (3, 1, true); (4, 0, true); (4, 1, true); (3, 5, false)].
Proof. exact window_verdict_refuted_old_epoch. Qed.
Print Assumptions C15_window_verdict_refuted_old_epoch.

(* RAuth ("epoch = the epoch the peer is authorised to use", 0538fb0 until 696da78): the peer's
   KeyUpdate (3, 1) raises the authorised epoch to 4, our ACK is lost, the peer stays in epoch 3:
   its records (3, 2), (3, 3) are above everything admitted and are not judged newest. *)
Theorem C15_auth_epoch_verdict_refuted_ack_lost :
  let evs := [NRecord 3 0; NRecord 3 1; NRemote 4; NRecord 3 2; NRecord 3 3] in
  snd (nrun RAuth (ninit 3) evs) =
    [(3, 0, true); (3, 1, true); (3, 2, false); (3, 3, false)] /\
  snd (nrun RSeen (ninit 3) evs) =
    [(3, 0, true); (3, 1, true); (3, 2, true); (3, 3, true)].
Proof. exact auth_epoch_verdict_refuted_ack_lost. Qed.
Print Assumptions C15_auth_epoch_verdict_refuted_ack_lost.

(* ------------------------------------------------------------------ "newest record": the summary *)

(* The per-epoch "a record was accepted" flags may be kept as a two-field summary (Rrc/C15Newest.v
   sstate / sum_verdict) provided the summary is the MAXIMUM so far ([KMax]).  Over any stream of
   authentic protected records and remote-epoch changes: (1) the verdicts are exactly those of the
   per-epoch flags (rule RSeen, the code), (2) the summary is the highest epoch in which a record was
   admitted, (3) a record is judged newest if and only if it is above the running maximum - epoch,
   then sequence number (RFC 9146 section 6) - of the records admitted before it. *)
Theorem C15_newest_is_running_max :
  forall (r0 : N) (evs : list nevent),
    snd (srun KMax (sinit r0) evs) = snd (nrun RSeen (ninit r0) evs) /\
    SumOk (s_sum (fst (srun KMax (sinit r0) evs)))
          (rev (map (fun x => fst (rec_of x)) (snd (srun KMax (sinit r0) evs)))) /\
    forall pre ep seq v post,
      snd (srun KMax (sinit r0) evs) = pre ++ (ep, seq, v) :: post ->
      (v = true <-> above (ep, seq) (rmax (map rec_of pre))).
Proof. exact newest_is_running_max. Qed.
Print Assumptions C15_newest_is_running_max.

(* [above x (rmax l)] is "x is above every element of l" *)
Theorem C15_running_max_spec :
  forall (l : list (N * N)) (x : N * N), (forall p, In p l -> lex_lt p x) <-> above x (rmax l).
Proof. exact rmax_spec. Qed.
Print Assumptions C15_running_max_spec.

(* The summary that remembers the epoch accepted LAST ([KLast]) is refuted: after records of epoch 4
   were admitted the first stale record (3, 5) is refused but drags the summary back to 3, so the next
   one (3, 6) is judged the newest record of the connection (a path challenge to wherever it came
   from); and after the stale (3, 5) the late first record (4, 0) passes for the first of its epoch. *)
Theorem C15_newest_last_epoch_refuted :
  let evs1 := [NRecord 3 0; NRecord 3 1; NRemote 4; NRecord 4 0; NRecord 4 1; NRecord 3 5; NRecord 3 6] in
  let evs2 := [NRecord 3 0; NRemote 4; NRecord 4 1; NRecord 4 2; NRecord 3 5; NRecord 4 0] in
  snd (srun KLast (sinit 3) evs1) =
    [(3, 0, true); (3, 1, true); (4, 0, true); (4, 1, true); (3, 5, false); (3, 6, true)] /\
  snd (srun KMax (sinit 3) evs1) =
    [(3, 0, true); (3, 1, true); (4, 0, true); (4, 1, true); (3, 5, false); (3, 6, false)] /\
  s_sum (fst (srun KLast (sinit 3) evs1)) = Some 3 /\ s_sum (fst (srun KMax (sinit 3) evs1)) = Some 4 /\
  snd (srun KLast (sinit 3) evs2) =
    [(3, 0, true); (4, 1, true); (4, 2, true); (3, 5, false); (4, 0, true)] /\
  snd (srun KMax (sinit 3) evs2) =
    [(3, 0, true); (4, 1, true); (4, 2, true); (3, 5, false); (4, 0, false)].
Proof. exact newest_last_epoch_refuted. Qed.
Print Assumptions C15_newest_last_epoch_refuted.

(* ------------------------------------------------------------------ challenge freshness *)

Theorem C15_response_accept_spec :
  forall (a : addr) (c now : N) (s s' : paths),
    handle_response a c now s = (s', true) <->
    (s' = [] /\ exists p, pget a s = Some p /\ p_pending p = true /\ p_cookie p = c /\ now < p_expires p).
Proof. exact response_accept_spec. Qed.
Print Assumptions C15_response_accept_spec.

(* wrong address, nothing pending, wrong cookie, or late: rejected *)
Theorem C15_response_rejected :
  forall (a : addr) (c now : N) (s : paths),
    (pget a s = None \/
     exists p, pget a s = Some p /\ (p_pending p = false \/ p_cookie p <> c \/ p_expires p <= now)) ->
    snd (handle_response a c now s) = false.
Proof. exact response_rejected. Qed.
Print Assumptions C15_response_rejected.

(* once accepted, the same (or any) response is rejected from every address at every time until a
   new Start; and over any operation sequence accepted responses never outnumber successful Starts *)
Theorem C15_response_not_accepted_twice :
  forall (a : addr) (c now : N) (s s' : paths),
    handle_response a c now s = (s', true) ->
    forall a' c' now', handle_response a' c' now' s' = (s', false).
Proof. exact response_not_accepted_twice. Qed.
Print Assumptions C15_response_not_accepted_twice.

Theorem C15_accepts_le_starts :
  forall ops : list op, naccepts [] ops <= nstarts [] ops.
Proof. exact accepts_le_starts. Qed.
Print Assumptions C15_accepts_le_starts.

(* ------------------------------------------------------------------ connection IDs and routing *)

(* definitional (the admission test IS this comparison): an admitted protected DTLS 1.2 record
   carries exactly the local ID, or none when the local ID is empty *)
Theorem C15_accept_requires_own_cid :
  forall (local : bytes) (rc : option bytes),
    record_admitted local rc = true ->
    match rc with Some c => c = local | None => local = [] end.
Proof. exact accept_requires_own_cid. Qed.
Print Assumptions C15_accept_requires_own_cid.

Theorem C15_sends_carry_peer_cid :
  forall remote : bytes,
    (remote <> [] -> wrap_cid remote = Some remote) /\ (remote = [] -> wrap_cid remote = None).
Proof. exact sends_carry_peer_cid. Qed.
Print Assumptions C15_sends_carry_peer_cid.

(* the router returns the ID of the first well-formed tls12_cid record of the datagram; it has no
   source-address input, so independence of the source holds by its type *)
Theorem C15_route_first_cid :
  forall (rs : list rrec) (c : bytes),
    first_cid rs = Some c <->
    exists pre r post, rs = pre ++ r :: post /\ forallb (fun x => negb (is_cid_rec x)) pre = true /\
                       is_cid_rec r = true /\ rc_cid r = c.
Proof. exact route_first_cid. Qed.
Print Assumptions C15_route_first_cid.

Theorem C15_route_ignores_source :
  forall (conns : list (bytes * N)) (d : dgram) (id : bytes) (c : N),
    route d = Some id -> lookup id conns = Some c ->
    forall src, get_conn conns src d = Some c.
Proof. exact route_ignores_source. Qed.
Print Assumptions C15_route_ignores_source.

(* a listener with any number of connections: the record whose connection ID is registered for
   connection a is handed to a whatever its source address (also when that address is the one
   tracked for another live connection) *)
Theorem C15_listener_routes_to_cid_owner :
  forall (conns : list (bytes * N)) (id : bytes) (a : N),
    lookup id conns = Some a -> forall src, get_conn_id conns src (Some id) = Some a.
Proof. exact owner_gets_record. Qed.
Print Assumptions C15_listener_routes_to_cid_owner.

(* The premise [lookup id conns = Some a] above is where the listener can fall short (KNOWN GAP
   K-C15-1): an ID is registered only when some datagram the connection wrote STARTS WITH A COMPLETE
   ServerHello carrying it (cidConnIdentifier does not reassemble fragments). *)
Theorem C15_listener_learns_from_complete_serverhello :
  forall (ws : list first_rec) (f : first_rec) (c : bytes),
    In f ws -> fr_complete f = true -> fr_cid f = Some c -> exists c', learned ws = Some c'.
Proof. exact learned_from_complete. Qed.
Print Assumptions C15_listener_learns_from_complete_serverhello.

Theorem C15_listener_fragmented_serverhello_never_learned :
  forall ws : list first_rec,
    (forall f, In f ws -> fr_sh f = true -> fr_off f <> 0 \/ fr_flen f <> fr_len f) -> learned ws = None.
Proof. exact fragmented_never_learned. Qed.
Print Assumptions C15_listener_fragmented_serverhello_never_learned.

Theorem C15_listener_unlearned_id_not_routed :
  forall (addr : bytes) (k : N) (ws : list first_rec) (id src : bytes),
    learned ws = None -> src <> addr -> id <> addr ->
    get_conn_id (table_after addr k ws) src (Some id) = None.
Proof. exact unlearned_id_not_routed. Qed.
Print Assumptions C15_listener_unlearned_id_not_routed.

(* "routes to the owner whatever the source address, for every ID length" is refuted as coded: a
   ServerHello of 1203 bytes (DTLS 1.3, 20-byte server ID, default MTU 1200) leaves in two
   fragments, its ID is never registered, and the record from a new address reaches nobody; the
   same ServerHello in one piece is registered and routed. *)
Theorem C15_listener_routes_negotiated_id_refuted :
  let id := [7; 7; 7] in
  let ws := [mkFR true 0 1200 1203 (Some id); mkFR true 1200 3 1203 (Some id); mkFR false 0 0 0 None] in
  (exists f, In f ws /\ fr_sh f = true /\ fr_cid f = Some id) /\
  learned ws = None /\
  get_conn_id (table_after [1; 1] 0 ws) [2; 2] (Some id) = None /\
  get_conn_id (table_after [1; 1] 0 [mkFR true 0 1203 1203 (Some id)]) [2; 2] (Some id) = Some 0.
Proof. exact listener_routes_negotiated_id_refuted. Qed.
Print Assumptions C15_listener_routes_negotiated_id_refuted.

(* hypotheses are satisfiable: an honest migration in the model - a newest CID record from
   address 2 starts a challenge, the matching response 0.4 s later switches the address *)
Example C15_migration_happens :
  let st0 := mkC 1 true [] in
  let e1 := ERecord (mkRecv 2 true true 40 KApp 777 55 WOk 1000000000) in
  let e2 := ERecord (mkRecv 2 true true 48 (KResponse 777) 0 55 WOk 1400000000) in
  raddr (crun st0 [e1]) = 1 /\ raddr (crun st0 [e1; e2]) = 2 /\
  map o_dest (couts st0 [e1; e2]) = [2].
Proof. vm_compute. repeat split; reflexivity. Qed.
