(* C16 - Lifecycle: Close, alerts and deadlines are safe at any moment, on any goroutine.
   Statements about the lock-region model Life/C16Close.v of conn.go close()/Close()/the read
   loop/HandshakeContext, for EVERY interleaving ([list op], any number of Close() callers).
   Proofs in Life/C16CloseSound.v.  Data races, goroutine leaks and deadlocks of the real
   scheduler are runtime facts: they are explored by the harness (checks/c16.py), not proved. *)
From DtlsV Require Import Life.C16Close Life.C16CloseSound Life.C16Run.
From Coq Require Import List Bool Arith.
Import ListNotations.

(* --- close_notify at most once (from close()), for every interleaving and any callers --- *)
Theorem C16_close_notify_at_most_once :
  forall (d v : bool) (ops : list op), cn_close (cn (run ops (cfg0 d v))) <= 1.
Proof. exact cn_close_le1. Qed.
Print Assumptions C16_close_notify_at_most_once.

Theorem C16_close_notify_reply_at_most_once :
  forall (d v : bool) (ops : list op), cn_reply (cn (run ops (cfg0 d v))) <= 1.
Proof. exact cn_reply_le1. Qed.
Print Assumptions C16_close_notify_reply_at_most_once.

(* At most one close_notify record per endpoint in total: the reply of the read loop to a
   received close_notify and the close_notify of the application's Close() share
   conn.closeNotifyOnce (sendCloseNotify).  Before that fix the model refuted this statement
   (witness schedule ops_two_close_notify, now an Example with one record); the harness keeps
   the former failing placement v12/simul/client/6/1/0/0 as a regression case. *)
Theorem C16_close_notify_total_at_most_once :
  forall (d v : bool) (ops : list op),
    let c := cn (run ops (cfg0 d v)) in cn_close c + cn_reply c <= 1.
Proof. exact close_notify_total_le1. Qed.
Print Assumptions C16_close_notify_total_at_most_once.

(* --- exactly one close_notify when the application closes an established open session --- *)
(* What is true of the model with the shared Once: exactly one close_notify record of this
   endpoint is on the wire - the one of this Close(), or the read loop's reply to the peer's
   close_notify if that reached the Once first (then Close() writes none).  Premise: the socket
   took writes all along ([wr_blk] is set by Env EWrBlock and never cleared); on a socket that
   does not, Close() gives the write up after closeNotifyTimeout and returns without a record
   (C16_example_close_with_blocked_socket). *)
Theorem C16_close_notify_sent_when_user_closes_established_open :
  forall (d v : bool) (ops1 ops2 : list op) (i : nat),
    let g1 := run ops1 (cfg0 d v) in
    est (cn g1) = true -> closed (cn g1) = false -> nth_error (us g1) i = Some (UC CLock) ->
    let g2 := run (StepUser i :: ops2) g1 in
    nth_error (us g2) i = Some UDone -> wr_blk (cn g2) = false ->
    cn_close (cn g2) + cn_reply (cn g2) = 1.
Proof. exact sent_when_user_closes_established_open. Qed.
Print Assumptions C16_close_notify_sent_when_user_closes_established_open.

Theorem C16_close_notify_only_for_user_close_of_established :
  forall (d v : bool) (ops : list op),
    let c := cn (run ops (cfg0 d v)) in
    1 <= cn_close c -> by_user c = true /\ est c = true /\ closed c = true.
Proof. exact cn_close_only_user_established. Qed.
Print Assumptions C16_close_notify_only_for_user_close_of_established.

(* --- the underlying socket is closed once --- *)
Theorem C16_socket_closed_at_most_once :
  forall (d v : bool) (ops : list op), sock_closes (cn (run ops (cfg0 d v))) <= 1.
Proof. exact sock_closes_le1. Qed.
Print Assumptions C16_socket_closed_at_most_once.

(* --- idempotence --- *)
Theorem C16_close_idempotent :
  forall (d v : bool) (ops : list op) (i : nat),
    let g := run ops (cfg0 d v) in
    closed (cn g) = true -> nth_error (us g) i = Some (UC CLock) ->
    let g' := run [StepUser i; StepUser i; StepUser i; StepUser i] g in
    obs (cn g') = obs (cn g) /\ hs g' = hs g /\ rd g' = rd g /\
    nth_error (us g') i = Some (if hs_open (cn g) then UWait else UDone) /\
    (forall j, j <> i -> nth_error (us g') j = nth_error (us g) j).
Proof. exact close_idempotent_reachable. Qed.
Print Assumptions C16_close_idempotent.

Theorem C16_close_idempotent_settled :
  forall (g : cfg) (i : nat),
    closed (cn g) = true -> by_user (cn g) = true -> can_hs (cn g) = true -> can_rd (cn g) = true ->
    nth_error (us g) i = Some (UC CLock) ->
    cn (run [StepUser i; StepUser i; StepUser i; StepUser i] g) = cn g.
Proof. exact close_idempotent_settled. Qed.
Print Assumptions C16_close_idempotent_settled.

(* --- blocked calls: the wake condition of the code's select is implied by closed --- *)
Theorem C16_blocked_read_unblocks :
  forall c : conn, closed c = true ->
    In KEof (read_ready c) /\ (rd_dl c = false -> forall k, In k (read_ready c) -> k = KEof).
Proof. exact read_unblocks. Qed.
Print Assumptions C16_blocked_read_unblocks.

(* DTLS 1.2 and 1.3 alike (Conn.Write maps Canceled-while-closed to ErrConnClosed) *)
Theorem C16_blocked_write_unblocks :
  forall c : conn, closed c = true ->
    In KClosed (write_ready c) /\
    (wr_dl c = false -> forall k, In k (write_ready c) -> close_class k = true).
Proof. exact write_unblocks. Qed.
Print Assumptions C16_blocked_write_unblocks.

(* --- a pending HandshakeContext is released with a closed-connection class --- *)
(* HandshakeContext reports "context canceled" only if the context its caller passed is done
   (commit 83f5bff; before, Close() during the handshake surfaced the internal cancellation:
   finding F66, the former schedule is C16_example_close_during_handshake) *)
Theorem C16_handshake_canceled_only_by_caller :
  forall (d v : bool) (ops : list op) (r : hres),
    let g := run ops (cfg0 d v) in
    hs g = HRet r -> hres_class (est (cn g)) r = KCanceled -> hctx (cn g) = true.
Proof. exact handshake_canceled_only_by_caller. Qed.
Print Assumptions C16_handshake_canceled_only_by_caller.

Theorem C16_handshake_result_without_caller_cancel :
  forall (d v : bool) (ops : list op) (r : hres),
    let g := run ops (cfg0 d v) in
    hctx (cn g) = false -> hs g = HRet r ->
    In (hres_class (est (cn g)) r) [KOk; KNetClosed; KAlert; KOther; KClosed].
Proof. exact handshake_result_without_caller_cancel. Qed.
Print Assumptions C16_handshake_result_without_caller_cancel.

(* --- Close() returns, HandshakeContext is released, no goroutine stays (model level) --- *)
(* [ops] ranges over every environment input as well, including Env EWrBlock (the socket stops
   taking writes): since commit 8ae01eb the close_notify write of close() is bounded, so the three
   statements need no assumption about the socket (finding F81). *)
Theorem C16_no_deadlock :
  forall (d v : bool) (ops : list op),
    let g := run ops (cfg0 d v) in
    pending g = true -> quiet g = false ->
    exists o, internal o = true /\ op_enabled o g = true.
Proof. exact no_deadlock_reachable. Qed.
Print Assumptions C16_no_deadlock.

Theorem C16_internal_steps_finite :
  forall (o : op) (g : cfg), internal o = true -> op_enabled o g = true -> mu (exec o g) < mu g.
Proof. exact enabled_decreases. Qed.
Print Assumptions C16_internal_steps_finite.

Theorem C16_close_returns :
  forall (d v : bool) (ops : list op),
    let g := run ops (cfg0 d v) in
    pending g = true ->
    exists ops', Forall (fun o => internal o = true) ops' /\ quiet (run ops' g) = true.
Proof. exact close_returns_reachable. Qed.
Print Assumptions C16_close_returns.

Theorem C16_quiet_closed_is_settled :
  forall (d v : bool) (ops : list op),
    let g := run ops (cfg0 d v) in
    closed (cn g) = true -> quiet g = true ->
    sock_closes (cn g) = 1 /\ sock_closed (cn g) = true /\ forallb u_done (us g) = true.
Proof. exact quiet_closed_settled_reachable. Qed.
Print Assumptions C16_quiet_closed_is_settled.

(* --- a received fatal alert / close_notify closes the connection in the same way --- *)
Theorem C16_alert_closes_like_user :
  forall g : cfg, open_established g ->
    let gu := run run_user_close g in
    let gf := run run_recv_fatal g in
    let gc := run run_recv_close_notify g in
    strip (cn gu) = strip (cn gf) /\ strip (cn gf) = strip (cn gc) /\
    closed (cn gf) = true /\ sock_closes (cn gf) = 1 /\ dec_closed (cn gf) = true /\
    quiet gu = true /\ quiet gf = true /\ quiet gc = true /\
    by_user (cn gu) = true /\ by_user (cn gf) = false /\ by_user (cn gc) = false /\
    (cn_close (cn gu), cn_reply (cn gu)) = (1, 0) /\
    (cn_close (cn gf), cn_reply (cn gf)) = (0, 0) /\
    (cn_close (cn gc), cn_reply (cn gc)) = (0, 1) /\
    In KEof (read_ready (cn gu)) /\ In KEof (read_ready (cn gf)) /\ In KEof (read_ready (cn gc)).
Proof. exact alert_closes_like_user. Qed.
Print Assumptions C16_alert_closes_like_user.

(* --- non-vacuity --- *)
Example C16_example_former_two_close_notify_schedule :
  let c := cn (run ops_two_close_notify (cfg0 false false)) in
  cn_close c = 0 /\ cn_reply c = 1 /\ cn_once c = true /\ closed c = true.
Proof. exact former_two_close_notify_schedule. Qed.

Example C16_example_four_closers :
  let g := run ops_four_closers (cfg0 false false) in
  cn_close (cn g) = 1 /\ cn_reply (cn g) = 0 /\ sock_closes (cn g) = 1 /\ quiet g = true /\
  us g = [UDone; UDone; UDone; UDone].
Proof. exact four_closers. Qed.

Example C16_example_close_during_handshake :
  let g := run ops_close_during_handshake (cfg0 false false) in
  cn_close (cn g) = 0 /\ sock_closes (cn g) = 1 /\ quiet g = true /\
  hs g = HRet HClosed /\ hres_class (est (cn g)) HClosed = KClosed.
Proof. exact close_during_handshake. Qed.

Example C16_example_close_and_ctx_during_handshake :
  let g := run ops_close_and_ctx_during_handshake (cfg0 false false) in
  quiet g = true /\ hs g = HRet (HErr RCanceled) /\
  hres_class (est (cn g)) (HErr RCanceled) = KCanceled.
Proof. exact close_and_ctx_during_handshake. Qed.

(* Close() on a socket that does not take writes returns (former finding F81), without a record *)
Example C16_example_close_with_blocked_socket :
  let g := run ops_close_with_blocked_socket (cfg0 false false) in
  cn_close (cn g) = 0 /\ cn_reply (cn g) = 0 /\ cn_once (cn g) = true /\ closed (cn g) = true /\
  sock_closes (cn g) = 1 /\ quiet g = true /\ us g = [UDone].
Proof. exact close_with_blocked_socket. Qed.

Example C16_example_reply_blocked_until_close :
  let g := run ops_reply_blocked (cfg0 false false) in
  rd g = RReply /\ reader_enabled (rd g) (cn g) = false /\ closed (cn g) = false /\
  let g' := run (SpawnClose :: repeat (StepUser 0) 7 ++ repeat StepReader 10) g in
  quiet g' = true /\ cn_close (cn g') + cn_reply (cn g') = 0 /\ sock_closes (cn g') = 1.
Proof. exact reply_blocked_until_close. Qed.

(* --- a state machine that fails on a received (post-handshake) message releases the read loop --- *)
(* Env (ERecvHs failed) hands a handshake/ACK datagram to the state machine, the read loop waits in
   [RHand failed]; C16_no_deadlock / C16_close_returns / C16_alert... range over these inputs too. *)
Theorem C16_fsm_failure_releases_reader :
  forall (g : cfg) (f : bool),
    rd g = RHand f ->
    op_enabled StepReader g = true /\ rd (exec StepReader g) = RRead /\
    closed (cn (exec StepReader g)) = closed (cn g).
Proof. exact fsm_failure_releases_reader. Qed.
Print Assumptions C16_fsm_failure_releases_reader.

Example C16_example_failed_post_handshake_then_peer_close :
  let g := run ops_failed_post_handshake_then_peer_close (cfg0 false true) in
  closed (cn g) = true /\ cn_reply (cn g) = 1 /\ cn_close (cn g) = 0 /\ dec_closed (cn g) = true /\
  sock_closes (cn g) = 1 /\ quiet g = true /\ In KEof (read_ready (cn g)).
Proof. exact failed_post_handshake_then_peer_close. Qed.

Example C16_example_failed_post_handshake_then_close :
  let g := run ops_failed_post_handshake_then_close (cfg0 false true) in
  closed (cn g) = true /\ cn_close (cn g) = 1 /\ sock_closes (cn g) = 1 /\ quiet g = true /\
  us g = [UDone] /\ rd g = RDone.
Proof. exact failed_post_handshake_then_close. Qed.

(* --- known gap K-C16-1: a deadline does not wake a Read/Write blocked in the implicit
   Handshake() (conn.go Read/Write call HandshakeContext(context.Background())) --- *)
Theorem C16_deadline_wakes_handshake_refuted :
  let g := run [Env ECallHandshake; StepHs BEst; Env ERdDeadline; Env EWrDeadline] (cfg0 false false) in
  rd_dl (cn g) = true /\ wr_dl (cn g) = true /\ hs g = HSelect /\
  forall o, internal o = true -> op_enabled o g = false.
Proof. exact deadline_wakes_handshake_refuted. Qed.
Print Assumptions C16_deadline_wakes_handshake_refuted.

Example C16_example_close_during_negotiation :
  let g := run ops_close_during_negotiation (cfg0 true false) in
  cn_close (cn g) = 0 /\ sock_closes (cn g) = 1 /\ quiet g = true /\
  hs g = HRet HClosed /\ hres_class (est (cn g)) HClosed = KClosed.
Proof. exact close_during_negotiation. Qed.

Example C16_example_close_before_install :
  let g := run ops_close_before_install (cfg0 false false) in
  can_rd (cn g) = true /\ hs g = HRet (HErr RSockClosed) /\ quiet g = true /\
  sock_closes (cn g) = 1.
Proof. exact close_before_install. Qed.

(* the established open idle configuration of C16_alert_closes_like_user is reachable *)
Example C16_example_open_established_reachable :
  open_established (run ops_established (cfg0 false false)).
Proof. exact open_established_reachable. Qed.

(* --- the peer's close_notify while the reply cannot be written (transport write fault) --- *)
(* For every history after which the read loop holds the peer's close_notify while the transport
   refuses the write of the close_notify reply (Env ERecvCNF: ECONNREFUSED-like error at the alert
   emission), and every continuation in which the read loop - enabled all along - takes three steps,
   whatever else is interleaved: conn.closed is signalled, every pending and later Read is woken and
   (no expired deadline) gets io.EOF, Write gets a closed-class error, and the internal steps alone
   lead to a configuration without any goroutine of the connection. *)
Theorem C16_peer_close_survives_reply_write_failure :
  forall (d v : bool) (ops1 ops2 : list op),
    let g1 := run ops1 (cfg0 d v) in
    rd g1 = RReplyF ->
    op_enabled StepReader g1 = true /\
    (3 <= reader_steps ops2 ->
     let g2 := run ops2 g1 in
     closed (cn g2) = true /\
     In KEof (read_ready (cn g2)) /\
     (rd_dl (cn g2) = false -> forall k, In k (read_ready (cn g2)) -> k = KEof) /\
     In KClosed (write_ready (cn g2)) /\
     (wr_dl (cn g2) = false -> forall k, In k (write_ready (cn g2)) -> close_class k = true) /\
     exists ops3, Forall (fun o => internal o = true) ops3 /\ quiet (run ops3 g2) = true).
Proof. exact peer_close_survives_reply_write_failure. Qed.
Print Assumptions C16_peer_close_survives_reply_write_failure.

(* The variant in which the write error of the reply replaces the peer-closed classification
   (processIncomingPacket: "if alertErr != nil { err = alertErr }", model run_sw) is refuted: the
   connection stays open, nothing is enabled, a Read blocks for ever (seeded change C16g; harness
   leg wfault, placement <variant>/reply/<side>/1/0/1). *)
Theorem C16_peer_close_survives_reply_write_failure_refuted :
  exists ops1 ops2,
    rd (run_sw ops1 (cfg0 false false)) = RReplyF /\ 3 <= reader_steps ops2 /\
    let g2 := run_sw ops2 (run_sw ops1 (cfg0 false false)) in
    closed (cn g2) = false /\ read_ready (cn g2) = [] /\ est (cn g2) = true /\
    rd g2 = RRead /\ us g2 = [] /\ op_enabled StepReader g2 = false /\
    (forall b, op_enabled (StepHs b) g2 = false).
Proof. exact peer_close_survives_reply_write_failure_refuted. Qed.
Print Assumptions C16_peer_close_survives_reply_write_failure_refuted.
