(* C17 - Retransmission discipline: timer law, backoff, no retransmission storms.
   Statements only; proofs in Hs/Abs12Sound.v.  The model (Hs/Abs12.v) is tied to the code by
   replaying scripted-network traces WITH their virtual timestamps (checks/c17.py: intervals
   10 ms / 1 s / 40 s, backoff on and off, silences long enough to reach the 60 s cap). *)
From Coq Require Import List NArith Bool Arith.
From DtlsV Require Import Gen.Generated Gen.GeneratedFlights Hs.Abs12 Hs.Abs12Live Hs.Abs12Sound.
Import ListNotations.
Open Scope nat_scope.

(* in the absence of input the k-th consecutive retransmission interval is min(I*2^k, 60 s);
   constant I when backoff is disabled *)
Theorem C17_interval_law :
  forall (c : cfg) (e : ep) (k : nat),
    e_fst e = Waiting -> fl_retransmit (e_flight e) = true -> (e_interval e <= 60000)%N ->
    let e' := timeouts k c e in
    e_fst e' = Waiting /\ e_flight e' = e_flight e /\
    e_interval e' = if c_backoff c then N.min (e_interval e * 2 ^ N.of_nat k) 60000%N else e_interval e.
Proof. exact interval_law. Qed.
Print Assumptions C17_interval_law.

(* one expiry: the flight is sent again, the next deadline is one (new) interval later *)
Theorem C17_timer_step :
  forall (c : cfg) (e : ep),
    e_fst e = Waiting -> fl_retransmit (e_flight e) = true ->
    let e' := fst (on_timer c e) in
    e_interval e' = next_interval (c_backoff c) (e_interval e) /\
    e_timer e' = (e_timer e + e_interval e')%N /\
    e_flight e' = e_flight e /\ e_fst e' = Waiting /\
    snd (on_timer c e) = fl_lookup (e_flight e) (c_fl c).
Proof. exact timer_step. Qed.
Print Assumptions C17_timer_step.

(* the initial interval is restored when new (not retransmitted) data arrives and only then;
   a datagram that repeats old flights changes neither interval nor deadline and emits nothing *)
Theorem C17_interval_reset_rule :
  forall (c : cfg) (e : ep) (retr : bool) (now : N),
    e_fst e = Waiting ->
    snd (parse c (if retr then e else upd_fsm e (e_flight e) Waiting (e_est e) (c_initial c) (e_timer e))) = 0 ->
    let e' := fst (on_event c e retr now) in
    snd (on_event c e retr now) = [] /\
    e_timer e' = e_timer e /\ e_fst e' = Waiting /\ e_flight e' = e_flight e /\
    e_interval e' = if retr then e_interval e else c_initial c.
Proof. exact interval_reset_rule. Qed.
Print Assumptions C17_interval_reset_rule.

(* cookie requests are never retransmitted on a timer - against the flag table of the current tree *)
Theorem C17_hvr_never_on_timer : forall (c : cfg) (e : ep), e_flight e = F2 -> snd (on_timer c e) = [].
Proof. exact hvr_never_on_timer. Qed.
Print Assumptions C17_hvr_never_on_timer.

Theorem C17_flags_of_current_tree :
  map fl_retransmit [F0; F1; F2; F3; F4; F4b; F5; F5b; F6] = [true; true; false; true; true; true; true; true; true] /\
  map fl_last_send [F0; F1; F2; F3; F4; F4b; F5; F5b; F6] = [false; false; false; false; false; false; false; true; true] /\
  map fl_last_recv [F0; F1; F2; F3; F4; F4b; F5; F5b; F6] = [false; false; false; false; false; true; true; false; false].
Proof. exact flags_of_tree. Qed.
Print Assumptions C17_flags_of_current_tree.

(* after completing, an endpoint sends nothing on a timer ... *)
Theorem C17_finished_silent_on_timer : forall (c : cfg) (e : ep), e_fst e = Finished -> on_timer c e = (e, []).
Proof. exact finished_silent_on_timer. Qed.
Print Assumptions C17_finished_silent_on_timer.

(* ... and re-sends its final flight only in response to the peer's RETRANSMISSION (handshake data the
   peer has sent before; F65), and only if it was the sender of the last flight *)
Theorem C17_finished_resend_rule :
  forall (c : cfg) (e : ep) (retr : bool) (now : N),
    e_fst e = Finished ->
    fst (on_event c e retr now) = e /\
    snd (on_event c e retr now) =
      if fl_last_send (e_flight e) && retr then fl_lookup (e_flight e) (c_fl c) else [].
Proof. exact finished_resend_rule. Qed.
Print Assumptions C17_finished_resend_rule.

Theorem C17_finished_silent_on_new_data :
  forall (c : cfg) (e : ep) (now : N), e_fst e = Finished -> on_event c e false now = (e, []).
Proof. exact finished_silent_on_new_data. Qed.
Print Assumptions C17_finished_silent_on_new_data.

(* the interval law for ANY configured interval, also above the cap or beyond what doubling can
   represent (F63, F64): it never decreases, and is constant without backoff or from the cap upwards *)
Theorem C17_interval_law_any :
  forall (c : cfg) (e : ep) (k : nat),
    e_fst e = Waiting -> fl_retransmit (e_flight e) = true ->
    let e' := timeouts k c e in
    (e_interval e <= e_interval e')%N /\
    (c_backoff c = false \/ (60000 <= e_interval e)%N -> e_interval e' = e_interval e).
Proof. exact interval_law_any. Qed.
Print Assumptions C17_interval_law_any.

(* no storms: whatever the peer sends - new data, stale flights, anything, for ever - one received
   datagram makes an endpoint emit at most one flight, and so does one timer expiry *)
Theorem C17_emission_bound_per_datagram :
  forall (c : cfg) (e : ep) (d : dgram) (now : N), length (snd (on_datagram c e d now)) <= max_flight c.
Proof. exact emission_bound_per_datagram. Qed.
Print Assumptions C17_emission_bound_per_datagram.

Theorem C17_emission_bound_per_timer :
  forall (c : cfg) (e : ep), length (snd (on_timer c e)) <= max_flight c.
Proof. exact emission_bound_per_timer. Qed.
Print Assumptions C17_emission_bound_per_timer.

(* non-vacuity: the schedule 1 s, 2 s, ... 32 s, 60 s, 60 s *)
Example C17_example_schedule :
  map (fun k => e_interval (timeouts k g_cfg_psk (ep_init g_cfg_psk true))) [0; 1; 2; 3; 4; 5; 6; 7]
  = [1000; 2000; 4000; 8000; 16000; 32000; 60000; 60000]%N.
Proof. vm_compute. reflexivity. Qed.
