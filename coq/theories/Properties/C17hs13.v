(* C17 (DTLS 1.3 part) - retransmission discipline of the DTLS 1.3 handshake state machine.
   Statements only; proofs in Hs/Hs13Sound.v.  The model (Hs/Hs13.v) is tied to the code by
   replaying scripted-network traces WITH their virtual timestamps (checks/hs13lib.py: intervals
   10 ms / 250 ms / 1 s / 40 s, backoff on and off, silences up to 300 s that reach the 60 s cap,
   stale-peer and reversed-burst schedules). *)
From Coq Require Import List NArith Bool.
From DtlsV Require Import Gen.GeneratedHs13 Hs.Hs13 Hs.Hs13Live Hs.Hs13Sound.
Import ListNotations.
Open Scope N_scope.

(* in the absence of input the k-th consecutive retransmission interval is [sched c I k], the flight
   stays the same and each expiry comes exactly one new interval after the previous one.
   [awaiting]: waiting for a reply with a retransmittable flight *)
Theorem C17hs13_interval_law :
  forall (c : cfg) (e : ep) (k : nat),
    awaiting c e ->
    let e' := timeouts k c e in
    awaiting c e' /\ e_flight e' = e_flight e /\ e_out e' = e_out e /\
    e_interval e' = sched c (e_interval e) k /\
    e_timer (timeouts (S k) c e) = e_timer e' + e_interval (timeouts (S k) c e).
Proof. exact interval_law. Qed.
Print Assumptions C17hs13_interval_law.

(* [sched c I k] = min(I*2^k, 60 s) with backoff while I < 60 s, constantly I otherwise (an interval
   configured at or above the cap is never shortened; no overflow whatever I is) *)
Theorem C17hs13_schedule_bounds :
  forall (c : cfg) (i : N) (k : nat), i <= sched c i k /\ sched c i k <= N.max i 60000.
Proof. exact sched_bounds. Qed.
Print Assumptions C17hs13_schedule_bounds.

(* dual-stack client: while the version is negotiated (before the state machine exists) the
   ClientHello is repeated on the same schedule, and a datagram that does not complete the server's
   first message changes nothing (the repeat deadline belongs to the transmission) *)
Theorem C17hs13_negotiation_interval_law :
  forall (c : cfg) (e : ep) (k : nat),
    negotiating e = true ->
    let e' := neg_timeouts k c e in
    negotiating e' = true /\ e_out e' = e_out e /\ e_interval e' = sched c (e_interval e) k /\
    e_timer (neg_timeouts (S k) c e) = e_timer e' + e_interval (neg_timeouts (S k) c e).
Proof. exact neg_interval_law. Qed.
Print Assumptions C17hs13_negotiation_interval_law.

Theorem C17hs13_negotiation_timer_step :
  forall (c : cfg) (e : ep),
    negotiating e = true ->
    let e' := fst (ep_timer c e) in
    e_interval e' = bump c (e_interval e) /\ e_timer e' = e_timer e + e_interval e' /\
    e_out e' = e_out e /\ negotiating e' = true /\ e_lastsent e' = e_lastsent e /\ e_sent e' = e_sent e /\
    snd (ep_timer c e) = pack c (e_out e).
Proof. exact neg_timer_step. Qed.
Print Assumptions C17hs13_negotiation_timer_step.

Theorem C17hs13_negotiation_datagram_quiet :
  forall (c : cfg) (e : ep) (d : dgram) (now : N),
    negotiating e = true ->
    let e1 := fst (fst (fst (process_records true e d))) in
    has e1 0 HT_SH 0 || has e1 0 HT_HRR 0 = false ->
    snd (ep_datagram c e d now) = [] /\ negotiating (fst (ep_datagram c e d now)) = true /\
    e_timer (fst (ep_datagram c e d now)) = e_timer e /\
    e_interval (fst (ep_datagram c e d now)) = e_interval e /\
    e_out (fst (ep_datagram c e d now)) = e_out e.
Proof. exact neg_datagram_quiet. Qed.
Print Assumptions C17hs13_negotiation_datagram_quiet.

(* the timer law of the negotiating client holds whatever arrives in between: any number of
   datagrams that do not complete the server's first message leave deadline, interval and flight
   as they were *)
Theorem C17hs13_negotiation_timer_unmoved :
  forall (c : cfg) (ds : list (dgram * N)) (e : ep),
    negotiating e = true -> all_undecided c e ds ->
    let e' := neg_reads c e ds in
    negotiating e' = true /\ e_timer e' = e_timer e /\ e_interval e' = e_interval e /\ e_out e' = e_out e.
Proof. exact neg_timer_unmoved. Qed.
Print Assumptions C17hs13_negotiation_timer_unmoved.

(* one expiry: what is left of the current flight is sent again *)
Theorem C17hs13_timer_step :
  forall (c : cfg) (e : ep),
    awaiting c e ->
    let e' := fst (on_timer c e) in
    e_interval e' = bump c (e_interval e) /\
    e_timer e' = e_timer e + e_interval e' /\
    e_flight e' = e_flight e /\ e_out e' = e_out e /\ awaiting c e' /\
    snd (on_timer c e) = pack c (e_out e).
Proof. exact timer_step. Qed.
Print Assumptions C17hs13_timer_step.

(* the initial interval is restored exactly when new (not retransmitted) data arrives: after an
   event the interval is [base] = the initial one if the datagram carried new handshake data or an
   ACK only, the old one if it carried retransmitted records - or one backoff step beyond [base]
   when the event itself triggered a retransmission (partial ACK, repeated flight of the peer) *)
Theorem C17hs13_interval_reset_rule :
  forall (c : cfg) (e : ep) (hs retr : bool) (acks : list (list frag)) (rta : list frag) (now : N),
    e_fst e = Waiting ->
    int_ok c (if retr then e_interval e else c_initial c)
           (e_interval (fst (on_event c e hs retr acks rta now))).
Proof. exact interval_reset_rule. Qed.
Print Assumptions C17hs13_interval_reset_rule.

(* the per-flight flags of the current tree: only the HelloRetryRequest (Flight 2) is exempt from
   timer retransmission *)
Theorem C17hs13_flags_of_current_tree :
  forall c, flags_cfg c ->
    map (fl_retransmit c) [F0; F1; F2; F3; F4; F5] = [true; true; false; true; true; true] /\
    map (fl_last_send c) [F0; F1; F2; F3; F4; F5] = [false; false; false; false; false; true] /\
    map (fl_last_recv c) [F0; F1; F2; F3; F4; F5] = [false; false; false; false; true; false].
Proof. exact flags_of_tree. Qed.
Print Assumptions C17hs13_flags_of_current_tree.

(* cookie requests are never sent by a timer: over every history of the server, as long as it has
   not consumed a ClientHello answering its HelloRetryRequest, every timer step emits nothing and
   every other step emits HelloRetryRequest records only *)
Theorem C17hs13_hrr_never_on_timer :
  forall (c : cfg) (ins : list input), hrr_cfg c -> forall e,
    pre_cookie c e ->
    Forall (fun p => all_hrr (snd p) /\ (fst p = ITimer -> snd p = [])) (snd (run c e ins)) \/
    exists ins1 i ins2 e1, ins = ins1 ++ i :: ins2 /\ i <> ITimer /\
      Forall (fun p => all_hrr (snd p) /\ (fst p = ITimer -> snd p = [])) (snd (run c e ins1)) /\
      e1 = fst (run c e ins1) /\ pre_cookie c e1 /\ e_flight (fst (step c e1 i)) = F4.
Proof. exact hrr_discipline. Qed.
Print Assumptions C17hs13_hrr_never_on_timer.

Theorem C17hs13_timer_silent_when_not_retransmitting :
  forall (c : cfg) (e : ep), e_fst e = Waiting -> e_retr e = false -> snd (on_timer c e) = [].
Proof. exact timer_silent_when_not_retransmitting. Qed.
Print Assumptions C17hs13_timer_silent_when_not_retransmitting.

(* after completing: the timer re-sends nothing but the not yet acknowledged NewSessionTicket (the
   server's reliable post-handshake message, on its own schedule under the same interval rule) ... *)
Theorem C17hs13_finished_timer :
  forall (c : cfg) (e : ep),
    e_fst e = Finished ->
    e_fst (fst (on_timer c e)) = Finished /\ e_est (fst (on_timer c e)) = e_est e /\
    snd (on_timer c e) = match e_nst e with [] => [] | _ => pack c (e_nst e) end.
Proof. exact finished_timer. Qed.
Print Assumptions C17hs13_finished_timer.

Theorem C17hs13_nst_timer_step :
  forall (c : cfg) (e : ep),
    e_fst e = Finished -> e_nst e <> [] ->
    let e' := fst (on_timer c e) in
    e_nsti e' = bump c (e_nsti e) /\
    e_nstt e' = e_nstt e + e_nsti e' /\ e_nst e' = e_nst e /\ snd (on_timer c e) = pack c (e_nst e).
Proof. exact nst_timer_step. Qed.
Print Assumptions C17hs13_nst_timer_step.

(* ... and a received datagram is answered by at most one datagram, an ACK of the protected
   handshake records it has just received (the peer's retransmitted final flight, or the
   NewSessionTicket); a handshake flight is never sent again *)
Theorem C17hs13_finished_receive :
  forall (c : cfg) (e : ep) (d : dgram) (now : N),
    e_fst e = Finished ->
    let r := on_datagram c e d now in
    e_fst (fst r) = Finished /\ e_est (fst r) = e_est e /\ exists epo fs, snd r = ack_dgram epo fs.
Proof. exact finished_receive. Qed.
Print Assumptions C17hs13_finished_receive.

(* emission bound over whole histories (any datagrams - stale, invalid, anything - and timer
   expiries, in any order): datagrams emitted <= expiries * F + received * (F + 1), where F is the
   number of records of the largest flight *)
Theorem C17hs13_emission_bound :
  forall (c : cfg) (ins : list input) (e : ep),
    bounded c e ->
    (emitted (snd (run c e ins)) <= n_timers ins * maxrecs c + n_dgrams ins * (1 + maxrecs c))%nat.
Proof. exact emission_bound. Qed.
Print Assumptions C17hs13_emission_bound.

(* the same bound with the negotiation phase of a dual-stack client included *)
Theorem C17hs13_emission_bound_with_negotiation :
  forall (c : cfg) (ins : list input) (e : ep),
    bounded c e ->
    (emitted (snd (erun c e ins)) <= n_timers ins * maxrecs c + n_dgrams ins * (1 + maxrecs c))%nat.
Proof. exact emission_bound_ep. Qed.
Print Assumptions C17hs13_emission_bound_with_negotiation.

Theorem C17hs13_initial_states_bounded : forall (c : cfg) (client : bool), bounded c (ep_init c client).
Proof. exact ep_init_bounded. Qed.
Print Assumptions C17hs13_initial_states_bounded.

(* the constant really is the flight size: with MTU 120 one stale 145-byte ClientHello fragment
   makes the server emit its whole 16-datagram flight again (17 datagrams after the fault-free
   exchange, 33 after its own timer at 1000 ms - the fragment costs nothing if it arrives right
   then - and 49 when it arrives 600 ms later) *)
Theorem C17hs13_amplification_witness :
  sout_len (run_moves storm_cfg (sys_init storm_cfg) storm_moves) = 17%nat /\
  sout_len (run_moves storm_cfg (sys_init storm_cfg) (storm_moves ++ [Deliver true 28 1000])) = 33%nat /\
  sout_len (run_moves storm_cfg (sys_init storm_cfg) (storm_moves ++ [Deliver true 28 1600])) = 49%nat /\
  maxrecs storm_cfg = 16%nat.
Proof. exact storm_witness. Qed.
Print Assumptions C17hs13_amplification_witness.

(* no storms, in time: within half an initial interval of its last transmission ([recent]) a waiting
   endpoint answers a datagram with handshake records only if the datagram lets it move on to a
   later flight (or finish) or acknowledges a fragment that was still pending; a repetition by the
   peer is not answered.  Premise: no ACK with an empty record list (never sent; forging one needs
   the keys). *)
Theorem C17hs13_reanswer_needs_progress :
  forall (c : cfg) (e : ep) (d : dgram) (now : N),
    flags_cfg c -> e_fst e = Waiting -> recent c e now ->
    Forall (fun a => a <> []) (snd (process_records true e d)) ->
    has_hs (snd (on_datagram c e d now)) = true ->
    stage e < stage (fst (on_datagram c e d now)) \/
    exists f, In f (concat (snd (process_records true e d))) /\ fmem f (e_pending e) = true.
Proof. exact reanswer_needs_progress. Qed.
Print Assumptions C17hs13_reanswer_needs_progress.

(* the zero-delay ping-pong is impossible: over ANY sequence of ACK-free datagrams, however long,
   that arrive within a window shorter than half an initial interval starting no earlier than the
   endpoint's last transmission (its state machine has transmitted: [e_sent]), the endpoint emits
   handshake records in at most 7 - stage steps (each one moves it to a later flight) *)
Theorem C17hs13_no_zero_delay_ping_pong :
  forall (c : cfg) (T : N) (ins : list input), flags_cfg c -> forall e,
    Forall (in_window c T) ins -> stage e <= 7 -> (e_fst e = Waiting -> T <= e_lastsent e /\ e_sent e = true) ->
    N.of_nat (count_hs (snd (run c e ins))) + stage e <= 7.
Proof. exact no_zero_delay_ping_pong. Qed.
Print Assumptions C17hs13_no_zero_delay_ping_pong.

(* KNOWN GAP, as coded: a fragment whose message_seq is not below the reassembly sequence is never a
   retransmission, even when the identical fragment is already held ... *)
Theorem C17hs13_held_fragment_is_new_data :
  forall (e : ep) (m ht fo fl tl ep0 : N),
    e_fbcur (fb_advance e) <= m -> snd (push e (m, ht, fo, fl, tl, ep0)) = false.
Proof. exact held_fragment_is_new_data. Qed.
Print Assumptions C17hs13_held_fragment_is_new_data.

(* ... hence "the initial interval is restored only when NEW data arrives" is refuted on the faithful
   model: an endpoint backed off to 4 s that is handed a fragment it already holds is back at 1 s
   (replayed on the implementation by TestVerifHs13Timed's repeated-fragment scenarios; one copy per
   timer period keeps the endpoint from ever backing off) *)
Theorem C17hs13_only_new_data_restores_interval_refuted :
  exists (e : ep) (d : dgram) (now : N),
    existsb (same_slot 40 0) (e_frags e) = true /\ d = repeat_dgram /\
    e_interval e = 4000 /\ c_initial repeat_cfg = 1000 /\
    e_interval (fst (on_datagram repeat_cfg e d now)) = 1000 /\ snd (on_datagram repeat_cfg e d now) = [].
Proof. exact only_new_data_restores_interval_refuted. Qed.
Print Assumptions C17hs13_only_new_data_restores_interval_refuted.

(* non-vacuity: the schedule 1 s, 2 s, ... 32 s, 60 s, 60 s of a client waiting in Flight 1 *)
Example C17hs13_example_schedule :
  map (fun k => e_interval (timeouts k (cfg13 g13_v13) (ep_init (cfg13 g13_v13) true))) [0; 1; 2; 3; 4; 5; 6; 7]%nat
  = [1000; 2000; 4000; 8000; 16000; 32000; 60000; 60000].
Proof. vm_compute. reflexivity. Qed.
