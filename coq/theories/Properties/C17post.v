(* C17 (DTLS 1.3 post-handshake part) - the timer law of reliable post-handshake flights
   (NewSessionTicket, KeyUpdate; internal/handshake/post_handshake.go).  Statements only; model
   Hs/Hs13Post.v, proofs in Hs/Hs13PostSound.v.  The model is tied to the code by leg "post" of
   checks/c17.py: sequences of 2..4 post-handshake flights on one real connection under virtual
   time, every transmission attributed to its flight and compared with the model's deadline
   (Hs/Hs13PostRun.v post_ok). *)
From Coq Require Import List NArith Bool.
From DtlsV Require Import Hs.Hs13Post Hs.Hs13PostSound.
Import ListNotations.
Open Scope N_scope.

(* for every history of the connection (starts, expiries, acknowledgements; any number of earlier
   flights and expiries, from any state): once the active flight is acknowledged, the next flight
   starts with the configured initial interval, its first retransmission due one initial interval
   after its first transmission *)
Theorem C17_post_handshake_interval_restored :
  forall (c : pcfg) (s : pconn) (h : list pev) (id id' now : N),
    active_is (prun c s h) id ->
    prun c s (h ++ [Acked id; Start id' now]) = Some (id', start c now) /\
    pf_interval (start c now) = p_initial c /\ pf_next (start c now) = now + p_initial c.
Proof. exact post_interval_restored. Qed.
Print Assumptions C17_post_handshake_interval_restored.

(* a flight that starts when none is active starts afresh *)
Theorem C17_post_handshake_start_fresh :
  forall (c : pcfg) (s : pconn) (h : list pev) (id now : N),
    prun c s h = None -> prun c s (h ++ [Start id now]) = Some (id, start c now).
Proof. exact post_start_fresh. Qed.
Print Assumptions C17_post_handshake_start_fresh.

(* the timer law of one unacknowledged flight: interval psched I k after k expiries, each expiry
   exactly one (new) interval after the previous one *)
Theorem C17_post_handshake_flight_schedule :
  forall (c : pcfg) (now : N) (k : nat),
    let f := timeouts c (start c now) k in
    pf_interval f = psched c (p_initial c) k /\
    pf_next (timeouts c (start c now) (S k)) = pf_next f + psched c (p_initial c) (S k).
Proof. exact post_flight_schedule. Qed.
Print Assumptions C17_post_handshake_flight_schedule.

(* psched I k = min(I*2^k, 60 s) with backoff while I < 60 s, constantly I otherwise *)
Theorem C17_post_handshake_schedule_bounds :
  forall (c : pcfg) (i : N) (k : nat), i <= psched c i k /\ psched c i k <= N.max i 60000.
Proof. exact psched_bounds. Qed.
Print Assumptions C17_post_handshake_schedule_bounds.

(* both together on the connection, after any history *)
Theorem C17_post_handshake_schedule_after_history :
  forall (c : pcfg) (s : pconn) (h : list pev) (id id' now : N) (k : nat),
    active_is (prun c s h) id ->
    exists f, prun c s (h ++ [Acked id; Start id' now] ++ repeat Timeout k) = Some (id', f) /\
      pf_interval f = psched c (p_initial c) k /\
      pf_next (timeout c f (pf_next f)) = pf_next f + psched c (p_initial c) (S k).
Proof. exact post_schedule_after_history. Qed.
Print Assumptions C17_post_handshake_schedule_after_history.

(* the variant with one interval field per connection that nothing restores violates the law ... *)
Theorem C17_post_handshake_interval_restored_refuted :
  exists c h id id' now nx,
    sh_active (sh_run c (sh_init c) h) = Some (id, nx) /\
    forall d, sh_active (sh_run c (sh_init c) (h ++ [Acked id; Start id' now])) = Some (id', d) ->
              d <> now + p_initial c.
Proof. exact shared_interval_restored_refuted. Qed.
Print Assumptions C17_post_handshake_interval_restored_refuted.

(* ... by exactly the backoff of all earlier expiries on the connection *)
Theorem C17_post_handshake_shared_interval_inherits :
  forall (c : pcfg) (k : nat) (id id' now : N),
    let h := Start id 0 :: repeat Timeout k in
    sh_active (sh_run c (sh_init c) (h ++ [Acked id; Start id' now])) = Some (id', now + psched c (p_initial c) k).
Proof. exact shared_interval_inherits. Qed.
Print Assumptions C17_post_handshake_shared_interval_inherits.
