(* C18 - Wire codecs round-trip and respect declared lengths.
   Only statements closed by [exact]; proofs live in Codec/C18*Sound.v.

   Reading guide.  A prefix codec [c : codec A] has [wf c] (value domain), [enc c], [dec c];
   a whole-input codec [w : wcodec A] models one Go Marshal/Unmarshal pair.
     sound c     : wf a -> enc a = Some e /\ forall rest, dec (e ++ rest) = Some (a, rest)
                   (round trip AND bytes beyond the encoding are never consumed)
     wsound w    : wf a -> enc a = Some e /\ dec e = Some a
     wfixpoint w : dec b = Some a -> enc a = Some e /\ dec e = Some a   (for every byte string b)
     wrefix w    : dec b = Some a -> enc a = Some e -> |e| <= |b| /\ exists a', dec e = Some a' /\ enc a' = Some e
                   (conditional form, for decoders that accept values their Marshal refuses)
     wtrunc w    : wf a -> enc a = Some e -> k < |e| -> dec (firstn k e) = None
     wlenient w  : wf a -> enc a = Some e /\ forall rest, dec (e ++ rest) = Some a
   Theorems named *_refuted are counterexamples to the ideal statement, true of the faithful
   model (and replayed on the implementation by checks/c18.py).  Theorems named
   *_as_coded_refuted are counterexamples for a decoder/encoder as it was coded BEFORE a repair
   (the [_gen true] variant of the definition); the repaired definition has the positive theorem
   next to it. *)
From DtlsV Require Import Codec.C18Envelope Codec.C18EnvelopeSound.
From DtlsV Require Import Lib.Bytes Gen.Generated Codec.C18Comb Codec.C18CombSound
  Codec.C18Rec Codec.C18RecSound Codec.C18Hs Codec.C18HsSound Codec.C18Rec13 Codec.C18Rec13Sound
  Codec.C18Ext Codec.C18ExtSound Codec.C18Kx Codec.C18KxSound Codec.C18Hello Codec.C18HelloSound.
Open Scope N_scope.

(* ================================================================== the combinator library *)

Theorem C18_comb_uint : forall k, sound (c_u k) /\ dec_ok (c_u k) /\ trunc (c_u k).
Proof. exact (fun k => conj (sound_u k) (conj (decok_u k) (trunc_u k))). Qed.
Print Assumptions C18_comb_uint.

Theorem C18_comb_fixed_bytes : forall n, sound (c_bytes n) /\ dec_ok (c_bytes n) /\ trunc (c_bytes n).
Proof. exact (fun n => conj (sound_bytes n) (conj (decok_bytes n) (trunc_bytes n))). Qed.
Print Assumptions C18_comb_fixed_bytes.

Theorem C18_comb_sequence : forall A B (c1 : codec A) (c2 : A -> codec B),
  (sound c1 -> (forall a, wf c1 a = true -> sound (c2 a)) -> sound (c_bind c1 c2)) /\
  (dec_ok c1 -> (forall a, wf c1 a = true -> dec_ok (c2 a)) -> dec_ok (c_bind c1 c2)) /\
  (sound c1 -> trunc c1 -> (forall a, wf c1 a = true -> trunc (c2 a)) -> trunc (c_bind c1 c2)).
Proof. exact (fun A B c1 c2 => conj (sound_bind c1 c2) (conj (decok_bind c1 c2) (trunc_bind c1 c2))). Qed.
Print Assumptions C18_comb_sequence.

(* length-prefixed vector: the declared length is honoured in both directions *)
Theorem C18_comb_vector : forall A k (w : wcodec A),
  (wsound w -> sound (c_vec k w)) /\ (wdec_ok w -> dec_ok (c_vec k w)) /\ trunc (c_vec k w).
Proof. exact (fun A k w => conj (sound_vec k w) (conj (decok_vec k w) (trunc_vec k w))). Qed.
Print Assumptions C18_comb_vector.

Theorem C18_comb_list_to_end : forall A (c : codec A),
  (sound c -> nonempty c -> wsound (w_list c)) /\ (dec_ok c -> wdec_ok (w_list c)).
Proof. exact (fun A c => conj (wsound_list c) (wdecok_list c)). Qed.
Print Assumptions C18_comb_list_to_end.

Theorem C18_comb_map_guard : forall A B (f : A -> B) (g : B -> A) wfB pe pd (c : codec A),
  ((forall y, wfB y = true -> wf c (g y) = true -> f (g y) = y) -> sound c -> sound (c_map f g wfB c)) /\
  (sound c -> sound (c_guard pe pd c)) /\
  ((forall a, wf c a = true -> pd a = true -> pe a = true) -> dec_ok c -> dec_ok (c_guard pe pd c)).
Proof.
  exact (fun A B f g wfB pe pd c =>
           conj (sound_map f g wfB c) (conj (sound_guard pe pd c) (decok_guard pe pd c))).
Qed.
Print Assumptions C18_comb_map_guard.

(* the fixed point of decode-then-encode follows from the two per-combinator facts *)
Theorem C18_comb_fixpoint : forall A (c : codec A) (w : wcodec A),
  (sound c -> dec_ok c -> fixpoint c) /\ (wsound w -> wdec_ok w -> wfixpoint w) /\
  (wsound w -> wdec_ok w -> wrefix w).
Proof. exact (fun A c w => conj (fixpoint_of c) (conj (wfixpoint_of w) (wrefix_of w))). Qed.
Print Assumptions C18_comb_fixpoint.

(* ================================================================== record headers *)

(* legacy (cidlen irrelevant unless content type = tls12_cid) and connection-ID record header *)
Theorem C18_record_header : forall cidlen,
  sound (c_header cidlen) /\ wsound (w_header cidlen) /\ wfixpoint (w_header cidlen) /\
  wtrunc (w_header cidlen) /\ wlenient (w_header cidlen).
Proof.
  exact (fun n => conj (sound_header n) (conj (header_roundtrip n) (conj (header_fixpoint n)
                  (conj (header_trunc n) (header_ignores_body n))))).
Qed.
Print Assumptions C18_record_header.

Theorem C18_record_header_domain : forall n ct maj mi ep sq cid l,
  wf (c_header n) (mk_hdr ct maj mi ep sq cid l) = true <->
  ct < 256 /\ maj = 254 /\ (mi = 255 \/ mi = 253) /\ ep < 65536 /\ sq < 281474976710656 /\
  length cid = (if ct =? ct_cid then n else 0%nat) /\ bytes_ok cid = true /\ l < 65536.
Proof. exact header_wf_spec. Qed.
Print Assumptions C18_record_header_domain.

Theorem C18_handshake_header :
  sound c_hs_header /\ wsound w_hs_header /\ wfixpoint w_hs_header /\ wtrunc w_hs_header /\
  wlenient w_hs_header.
Proof.
  exact (conj sound_hs_header (conj hs_header_roundtrip (conj hs_header_fixpoint
        (conj hs_header_trunc hs_header_ignores_body)))).
Qed.
Print Assumptions C18_handshake_header.

(* ================================================================== record contents *)

Theorem C18_alert : wsound w_alert /\ wfixpoint w_alert /\ wtrunc w_alert /\
  (forall b, wdec w_alert b <> None -> length b = 2%nat).
Proof. exact (conj alert_roundtrip (conj alert_fixpoint (conj alert_trunc alert_exact))). Qed.
Print Assumptions C18_alert.

Theorem C18_change_cipher_spec : wsound w_ccs /\ wfixpoint w_ccs /\ wtrunc w_ccs /\
  (forall b, wdec w_ccs b <> None -> b = [1]).
Proof. exact (conj ccs_roundtrip (conj ccs_fixpoint (conj ccs_trunc ccs_only_01))). Qed.
Print Assumptions C18_change_cipher_spec.

Theorem C18_application_data : wsound w_appdata /\ wfixpoint w_appdata.
Proof. exact (conj appdata_roundtrip appdata_fixpoint). Qed.
Print Assumptions C18_application_data.

Theorem C18_ack : wsound w_ack /\ wfixpoint w_ack /\ wtrunc w_ack.
Proof. exact (conj ack_roundtrip (conj ack_fixpoint ack_trunc)). Qed.
Print Assumptions C18_ack.

Theorem C18_return_routability : wsound w_rrc /\ wfixpoint w_rrc /\
  (forall t ck e k, wwf w_rrc (t, ck) = true -> t <= 2 -> wenc w_rrc (t, ck) = Some e ->
     (k < length e)%nat -> wdec w_rrc (firstn k e) = None).
Proof. exact (conj rrc_roundtrip (conj rrc_fixpoint rrc_trunc_known)). Qed.
Print Assumptions C18_return_routability.

(* messages of unknown rrc_msg_type carry no length: every non-empty prefix is accepted *)
Theorem C18_return_routability_trunc_refuted : exists x e k,
  wwf w_rrc x = true /\ wenc w_rrc x = Some e /\ (k < length e)%nat /\ wdec w_rrc (firstn k e) <> None.
Proof. exact rrc_trunc_refuted. Qed.
Print Assumptions C18_return_routability_trunc_refuted.

Theorem C18_inner_plaintext : wsound w_inner /\ wfixpoint w_inner /\
  (forall b x, inner_dec b = Some x -> inner_enc x = Some b) /\
  (forall z, inner_dec (repeat 0 z) = None).
Proof. exact (conj inner_roundtrip (conj inner_fixpoint (conj inner_exact inner_all_zero_rejected))). Qed.
Print Assumptions C18_inner_plaintext.

(* ================================================================== datagram unpacking *)

Theorem C18_unpack_partition : forall aware cid fuel b rs,
  unpack aware cid fuel b = Some rs -> concat rs = b /\ Forall (well_framed aware cid) rs.
Proof. exact unpack_partition. Qed.
Print Assumptions C18_unpack_partition.

Theorem C18_unpack_datagram_partition : forall b rs,
  unpack_datagram b = Some rs -> concat rs = b /\ Forall (well_framed false 0) rs.
Proof. exact unpack_datagram_partition. Qed.
Print Assumptions C18_unpack_datagram_partition.

Theorem C18_content_aware_unpack_partition : forall cid b rs,
  content_aware_unpack cid b = Some rs -> concat rs = b /\ Forall (well_framed true cid) rs.
Proof. exact content_aware_unpack_partition. Qed.
Print Assumptions C18_content_aware_unpack_partition.

(* the model's fuel (the datagram length) is never what stops the loop *)
Theorem C18_unpack_fuel : forall aware cid fuel b, (length b <= fuel)%nat ->
  unpack aware cid fuel b = unpack aware cid (length b) b.
Proof. exact unpack_fuel_enough. Qed.
Print Assumptions C18_unpack_fuel.

(* completeness is refuted: a well-framed record of declared length 0 is rejected when last *)
Theorem C18_unpack_zero_length_last_refuted :
  well_framed false 0 zero_len_record /\
  unpack_datagram zero_len_record = None /\
  content_aware_unpack 0 zero_len_record = None /\
  unpack_datagram (zero_len_record ++ one_byte_record) = Some [zero_len_record; one_byte_record] /\
  unpack_datagram (one_byte_record ++ zero_len_record) = None.
Proof. exact unpack_zero_length_last_refuted. Qed.
Print Assumptions C18_unpack_zero_length_last_refuted.

(* ================================================================== RecordLayer (DTLS 1.2) *)

Theorem C18_record12_roundtrip : forall x, record_wf (w_hs 0) x = true ->
  exists e, record_marshal (w_hs 0) x = Some e /\ record_unmarshal (w_hs 0) 0 e = Some x.
Proof. exact record12_roundtrip. Qed.
Print Assumptions C18_record12_roundtrip.

Theorem C18_record12_fixpoint : forall n b x e, bytes_ok b = true ->
  record_unmarshal (w_hs 0) n b = Some x -> record_marshal (w_hs 0) x = Some e ->
  exists x', record_unmarshal (w_hs 0) 0 e = Some x' /\ record_marshal (w_hs 0) x' = Some e /\
             (is_hs (snd x) = false -> snd x' = snd x).
Proof. exact record12_fixpoint_bytes. Qed.
Print Assumptions C18_record12_fixpoint.

(* ... re-encodes, unless its content is longer than the 16-bit length field can say *)
Theorem C18_record12_reencodes : forall n b x, bytes_ok b = true ->
  record_unmarshal (w_hs 0) n b = Some x -> is_hs (snd x) = false ->
  exists ce, content_enc (w_hs 0) (snd x) = Some ce /\
             (len ce <= 65535 -> exists e, record_marshal (w_hs 0) x = Some e).
Proof. exact record12_reencodes. Qed.
Print Assumptions C18_record12_reencodes.

(* 9ff70b9 (F77): what RecordLayer.Marshal emits declares the true length of its content *)
Theorem C18_record12_marshal_declares_length : forall h c e, record_marshal (w_hs 0) (h, c) = Some e ->
  exists he ce, e = he ++ ce /\ content_enc (w_hs 0) c = Some ce /\ len ce <= 65535 /\
    enc (c_header (length (h_cid h)))
        (mk_hdr (content_type c) (h_maj h) (h_min h) (h_epoch h) (h_seq h) (h_cid h) (len ce)) = Some he.
Proof. exact record12_marshal_declares_length. Qed.
Print Assumptions C18_record12_marshal_declares_length.

(* before 9ff70b9: 65546 bytes of application data behind a header declaring 10; not splittable *)
Theorem C18_record12_marshal_wrap_as_coded_refuted :
  exists e, record_marshal_gen (w_hs 0) true (rec_wrap_witness (H := hs)) = Some e /\
            firstn 2 (skipn 11 e) = [0; 10] /\ len e = 13 + 65546 /\
            unpack_datagram e = None /\ record_marshal (w_hs 0) rec_wrap_witness = None.
Proof. exact record12_marshal_wrap_as_coded_refuted. Qed.
Print Assumptions C18_record12_marshal_wrap_as_coded_refuted.

(* consequence of F35a (ContentLen ignored by Unmarshal) and 9ff70b9 *)
Theorem C18_record12_oversize_not_reencoded :
  exists b h d, bytes_ok b = true /\ record_unmarshal (w_hs 0) 0 b = Some (h, CAppData d) /\ len d = 65536 /\
                record_marshal (w_hs 0) (h, CAppData d) = None.
Proof. exact record12_oversize_not_reencoded. Qed.
Print Assumptions C18_record12_oversize_not_reencoded.

Theorem C18_record12_declared_length_refuted :
  exists b h d, record_unmarshal (w_hs 0) 0 b = Some (h, CAppData d) /\ h_len h = 0 /\ d = [1; 2; 3].
Proof. exact record12_declared_length_refuted. Qed.
Print Assumptions C18_record12_declared_length_refuted.

Theorem C18_record12_trunc_refuted :
  exists x e k, record_wf (w_hs 0) x = true /\ record_marshal (w_hs 0) x = Some e /\ (k < length e)%nat /\
                record_unmarshal (w_hs 0) 0 (firstn k e) <> None.
Proof. exact record12_trunc_refuted. Qed.
Print Assumptions C18_record12_trunc_refuted.

Theorem C18_record12_value_fixpoint_refuted :
  exists b x e, bytes_ok b = true /\ record_unmarshal (w_hs 0) 0 b = Some x /\
                record_marshal (w_hs 0) x = Some e /\ record_unmarshal (w_hs 0) 0 e <> Some x.
Proof. exact record12_value_fixpoint_refuted. Qed.
Print Assumptions C18_record12_value_fixpoint_refuted.

(* ================================================================== DTLS 1.3 record layer *)

(* unified header under every negotiated connection-id length (<= 255, as Marshal enforces) *)
Theorem C18_unified_header : forall cidlen,
  sound (c_uhdr cidlen) /\ wsound (w_uhdr cidlen) /\ wtrunc (w_uhdr cidlen) /\ wlenient (w_uhdr cidlen) /\
  ((cidlen <= 255)%nat -> wfixpoint (w_uhdr cidlen)).
Proof.
  exact (fun n => conj (sound_uhdr n) (conj (uhdr_roundtrip n) (conj (uhdr_trunc n)
                  (conj (uhdr_ignores_body n) (uhdr_fixpoint n))))).
Qed.
Print Assumptions C18_unified_header.

Theorem C18_unified_header_domain : forall n cid sq sb l lb el,
  wf (c_uhdr n) (mk_uhdr cid sq sb l lb el) = true <->
  (length cid <= 255)%nat /\ (cid = [] \/ length cid = n) /\ bytes_ok cid = true /\
  sq < (if sb then 65536 else 256) /\ (if lb then l < 65536 else l = 0) /\ el < 4.
Proof. exact uhdr_wf_spec. Qed.
Print Assumptions C18_unified_header_domain.

Theorem C18_ciphertext_record13_roundtrip : forall n x, crec13_wf n x = true ->
  exists e, crec13_marshal x = Some e /\ crec13_unmarshal n e = Some x.
Proof. exact crec13_roundtrip. Qed.
Print Assumptions C18_ciphertext_record13_roundtrip.

Theorem C18_ciphertext_record13_fixpoint : forall n b x, (n <= 255)%nat -> bytes_ok b = true ->
  crec13_unmarshal n b = Some x ->
  exists e x', crec13_marshal x = Some e /\ crec13_unmarshal n e = Some x' /\
               crec13_marshal x' = Some e /\ snd x' = snd x.
Proof. exact crec13_fixpoint. Qed.
Print Assumptions C18_ciphertext_record13_fixpoint.

Theorem C18_ciphertext_record13_length_honoured : forall n b h er,
  crec13_unmarshal n b = Some (h, er) ->
  ct_len_ok (len er) = true /\ (uh_lbit h = true -> uh_len h = len er).
Proof. exact crec13_length_honoured. Qed.
Print Assumptions C18_ciphertext_record13_length_honoured.

Theorem C18_plaintext_record13_roundtrip : forall x, prec13_wf (w_hs 0) x = true ->
  exists e, prec13_marshal (w_hs 0) x = Some e /\ prec13_unmarshal (w_hs 0) e = Some x.
Proof. exact (prec13_roundtrip (w_hs 0) (hs_roundtrip 0)). Qed.
Print Assumptions C18_plaintext_record13_roundtrip.

(* unlike RecordLayer.Unmarshal, the DTLS 1.3 plaintext record honours its declared length *)
Theorem C18_plaintext_record13_length_honoured : forall b h c,
  prec13_unmarshal (w_hs 0) b = Some (h, c) ->
  len b = 13 + h_len h /\ h_len h <= 16384 /\ h_epoch h = 0 /\ is_plain13_ct (h_ct h) = true /\
  content_type c = h_ct h.
Proof. exact (prec13_length_honoured (w_hs 0)). Qed.
Print Assumptions C18_plaintext_record13_length_honoured.

(* UnpackDatagram13: the records are consecutive pieces of the datagram; what is not returned is
   the untouched tail, and without connection ids there is no such tail *)
Theorem C18_unpack13_partition : forall n req en, (n <= 255)%nat -> forall fuel first b rs rest,
  bytes_ok b = true -> unpack13 n req en first fuel b = Some (rs, rest) -> concat rs ++ rest = b.
Proof. exact unpack13_partition. Qed.
Print Assumptions C18_unpack13_partition.

Theorem C18_unpack13_no_cid_total : forall req en fuel first b rs rest,
  unpack13 0 req en first fuel b = Some (rs, rest) -> rest = [].
Proof. exact unpack13_no_cid_total. Qed.
Print Assumptions C18_unpack13_no_cid_total.

Theorem C18_unpack13_zero_length_last_refuted :
  let z := [26; 254; 253; 0; 0; 0; 0; 0; 0; 0; 0; 0; 0] in
  let r1 := [60; 1; 0; 7; 0; 16] ++ repeat 170 16 in
  let r2 := [60; 2; 0; 8; 0; 16] ++ repeat 187 16 in
  well_framed false 0 z /\
  unpack_datagram13 0 false true z = None /\
  unpack_datagram13 1 true true (r1 ++ z ++ r2) = Some ([r1; z], r2) /\
  unpack_datagram13 1 true true (r1 ++ z) = None.
Proof. exact unpack13_zero_length_last_refuted. Qed.
Print Assumptions C18_unpack13_zero_length_last_refuted.

(* ================================================================== handshake messages *)

Theorem C18_hello_verify_request : wsound w_hvr /\ wfixpoint w_hvr /\ wtrunc w_hvr /\ wlenient w_hvr.
Proof. exact (conj hvr_roundtrip (conj hvr_fixpoint (conj hvr_trunc hvr_beyond_cookie_ignored))). Qed.
Print Assumptions C18_hello_verify_request.

Theorem C18_finished : wsound w_finished /\ wfixpoint w_finished.
Proof. exact (conj finished_roundtrip finished_fixpoint). Qed.
Print Assumptions C18_finished.

Theorem C18_key_update : wsound w_key_update /\ wfixpoint w_key_update /\ wtrunc w_key_update.
Proof. exact (conj key_update_roundtrip (conj key_update_fixpoint key_update_trunc)). Qed.
Print Assumptions C18_key_update.

Theorem C18_request_connection_id : wsound w_req_cid /\ wfixpoint w_req_cid /\ wtrunc w_req_cid.
Proof. exact (conj req_cid_roundtrip (conj req_cid_fixpoint req_cid_trunc)). Qed.
Print Assumptions C18_request_connection_id.

Theorem C18_new_connection_id : wsound w_new_cid /\ wfixpoint w_new_cid /\ wtrunc w_new_cid.
Proof. exact (conj new_cid_roundtrip (conj new_cid_fixpoint new_cid_trunc)). Qed.
Print Assumptions C18_new_connection_id.

Theorem C18_certificate : wsound w_certificate /\ wfixpoint w_certificate /\ wtrunc w_certificate.
Proof. exact (conj certificate_roundtrip (conj certificate_fixpoint certificate_trunc)). Qed.
Print Assumptions C18_certificate.

(* over the regenerated signature-scheme table *)
Theorem C18_signature_scheme : sound c_sigalg /\ dec_ok c_sigalg /\ trunc c_sigalg.
Proof. exact (conj sound_sigalg (conj decok_sigalg trunc_sigalg)). Qed.
Print Assumptions C18_signature_scheme.

(* CertificateVerify over the regenerated table, RSA-PSS schemes included: round trip, every
   accepted input re-encodes to a fixed point, truncation rejected *)
Theorem C18_certificate_verify :
  wsound w_cert_verify /\ wfixpoint w_cert_verify /\ wrefix w_cert_verify /\ wtrunc w_cert_verify.
Proof.
  exact (conj cert_verify_roundtrip (conj cert_verify_fixpoint (conj cert_verify_refix cert_verify_trunc))).
Qed.
Print Assumptions C18_certificate_verify.

Theorem C18_certificate_verify_pss_reencodes :
  obind (wdec w_cert_verify [8; 4; 0; 1; 170]) (wenc w_cert_verify) = Some [8; 4; 0; 1; 170].
Proof. exact cert_verify_pss_reencodes. Qed.
Print Assumptions C18_certificate_verify_pss_reencodes.

(* ClientKeyExchange under every key-exchange context kx (bit 1 = PSK, bit 2 = ECDHE): round
   trip; truncation rejected; declared lengths honoured (bytes after the declared identity /
   public key are ignored, never consumed); conditional fixed point *)
Theorem C18_client_key_exchange : forall kx,
  wsound (w_cke kx) /\ wtrunc (w_cke kx) /\ wlenient (w_cke kx) /\ wrefix (w_cke kx).
Proof.
  exact (fun kx => conj (cke_roundtrip kx) (conj (cke_trunc kx)
                   (conj (cke_beyond_declared_ignored kx) (cke_refix kx)))).
Qed.
Print Assumptions C18_client_key_exchange.

(* under every context the library constructs (PSK, ECDHE or both) every accepted input
   re-encodes, and the re-encoding is a fixed point *)
Theorem C18_client_key_exchange_fixpoint : forall kx,
  kx_psk kx || kx_ecdhe kx = true -> wfixpoint (w_cke kx).
Proof. exact cke_fixpoint. Qed.
Print Assumptions C18_client_key_exchange_fixpoint.

(* regression inputs of the repaired decoder *)
Theorem C18_client_key_exchange_regressions :
  cke_dec 6 [0; 0] = None /\ cke_dec 4 [0; 0] = None /\
  cke_dec 4 [1; 170; 0] = Some (None, Some [170]) /\
  cke_dec 4 [1; 170; 187; 204] = Some (None, Some [170]) /\
  cke_dec 6 [0; 1; 9; 1; 170; 187] = Some (Some [9], Some [170]).
Proof. exact cke_regressions. Qed.
Print Assumptions C18_client_key_exchange_regressions.

(* the handshake envelope over all modelled message types, every key-exchange context *)
Theorem C18_handshake_envelope : forall kx, wsound (w_hs kx) /\ wrefix (w_hs kx) /\ wtrunc (w_hs kx).
Proof. exact (fun kx => conj (hs_roundtrip kx) (conj (hs_refix kx) (hs_trunc kx))). Qed.
Print Assumptions C18_handshake_envelope.

(* the WHOLE type switch of Handshake.Unmarshal, context-dependent messages included (ClientHello,
   ServerHello / HelloRetryRequest, NewSessionTicket, EncryptedExtensions, ServerKeyExchange under the
   envelope's key-exchange algorithm, CertificateRequest): round trip and truncation for every value
   and every context *)
Theorem C18_handshake_full_envelope : forall kx, wsound (w_hsx kx) /\ wtrunc (w_hsx kx).
Proof. exact (fun kx => conj (hsx_roundtrip kx) (hsx_trunc kx)). Qed.
Print Assumptions C18_handshake_full_envelope.

(* whatever Handshake.Unmarshal accepts is 12 header bytes followed by exactly Length =
   FragmentLength bytes; those bytes, and no others, went to the decoder the type byte selects,
   which returned a message of that type; the type byte is one the switch has a case for *)
Theorem C18_handshake_full_envelope_exact : forall kx b h m,
  bytes_ok b = true -> hsx_unmarshal kx b = Some (h, m) ->
  exists he body, b = he ++ body /\ length he = 12%nat /\ len body = hh_len h /\ hh_flen h = hh_len h /\
                  msgx_dec kx (hh_type h) body = Some m /\ msgx_type m = hh_type h /\
                  memN (hh_type h) hs_types = true.
Proof. exact hsx_unmarshal_exact. Qed.
Print Assumptions C18_handshake_full_envelope_exact.

Theorem C18_handshake_full_envelope_length_honoured : forall kx b h m,
  bytes_ok b = true -> hsx_unmarshal kx b = Some (h, m) -> len b = 12 + hh_len h.
Proof. exact hsx_length_honoured. Qed.
Print Assumptions C18_handshake_full_envelope_length_honoured.

(* the switch case by case: which decoder, with which context *)
Theorem C18_handshake_dispatch : forall kx b,
  msgx_dec kx 1 b = omap XClientHello (wdec w_client_hello b) /\
  msgx_dec kx 2 b = omap XServerHello (sh_dec b) /\
  msgx_dec kx 4 b = omap XNewSessionTicket (wdec w_new_session_ticket b) /\
  msgx_dec kx 8 b = omap XEncryptedExtensions (wdec w_encrypted_extensions b) /\
  msgx_dec kx 12 b = omap XServerKeyExchange (ske_dec kx b) /\
  msgx_dec kx 13 b = omap XCertificateRequest (cr_dec b) /\
  msgx_dec kx 16 b = omap (fun x => XBase (MClientKeyExchange x)) (cke_dec kx b) /\
  (forall ty, memN ty [3; 9; 10; 11; 14; 15; 20; 24] = true ->
              msgx_dec kx ty b = omap XBase (msg_dec 0 ty b)).
Proof. exact msgx_dispatch. Qed.
Print Assumptions C18_handshake_dispatch.

Theorem C18_handshake_unknown_type_refused : forall kx ty b,
  memN ty hs_types = false -> msgx_dec kx ty b = None.
Proof. exact msgx_dec_unknown. Qed.
Print Assumptions C18_handshake_unknown_type_refused.

(* the full envelope is a conservative extension of the nine-type one *)
Theorem C18_handshake_full_extends : forall kx b x, hs_unmarshal kx b = Some x ->
  hsx_unmarshal kx b = Some (fst x, XBase (snd x)).
Proof. exact hsx_extends_hs. Qed.
Print Assumptions C18_handshake_full_extends.

(* PARTIAL: byte-level fixed point of the full envelope for every type byte except ServerHello (2; no
   length bound proved for its re-encoding), ServerKeyExchange (12; refuted just below) and
   CertificateRequest (13).  Missing for the full statement: exactly those three types. *)
Theorem C18_handshake_full_envelope_refix_partial : forall kx b x e,
  bytes_ok b = true -> hsx_unmarshal kx b = Some x -> refix_type (hh_type (fst x)) = true ->
  hsx_marshal x = Some e ->
  (length e <= length b)%nat /\ exists x', hsx_unmarshal kx e = Some x' /\ hsx_marshal x' = Some e.
Proof. exact hsx_refix_partial. Qed.
Print Assumptions C18_handshake_full_envelope_refix_partial.

(* REFUTED for the full switch (inherited from ServerKeyExchange, known finding): the re-encoding of
   an accepted envelope need not be accepted again *)
Theorem C18_handshake_full_fixpoint_refuted :
  exists b x e, bytes_ok b = true /\ hsx_unmarshal 4 b = Some x /\ hsx_marshal x = Some e /\
                hsx_unmarshal 4 e = None.
Proof. exact hsx_fixpoint_refuted. Qed.
Print Assumptions C18_handshake_full_fixpoint_refuted.

(* internal/negotiation canonicalize (hello hooks): a hello of the codec's domain is its own canonical
   form; whatever comes back is a fixed point of canonicalize and its bytes of decode-then-encode *)
Theorem C18_canonicalize_function :
  (forall x, wwf w_client_hello x = true -> canonicalize w_client_hello x = Some x) /\
  (forall x, wwf w_server_hello x = true -> canonicalize w_server_hello x = Some x) /\
  (forall x raw c, wenc w_client_hello x = Some raw -> bytes_ok raw = true ->
     canonicalize w_client_hello x = Some c ->
     canonicalize w_client_hello c = Some c /\ exists e, wenc w_client_hello c = Some e /\ wdec w_client_hello e = Some c) /\
  (forall x raw c, wenc w_server_hello x = Some raw -> bytes_ok raw = true ->
     canonicalize w_server_hello x = Some c ->
     canonicalize w_server_hello c = Some c /\ exists e, wenc w_server_hello c = Some e /\ wdec w_server_hello e = Some c).
Proof. exact canonicalize_hello. Qed.
Print Assumptions C18_canonicalize_function.

Example C18_full_envelope_nonvacuous :
  hsx_wf 4 (mk_hshdr 12 10 7 0 10, XServerKeyExchange (None, (3, (29, ([170], (4, (3, [187]))))))) = true /\
  hsx_unmarshal 0 [14; 0; 0; 0; 0; 5; 0; 0; 0; 0; 0; 0] = Some (mk_hshdr 14 0 5 0 0, XBase MServerHelloDone).
Proof. split; vm_compute; reflexivity. Qed.

Theorem C18_handshake_fragment_reencode_refuted :
  exists b x, bytes_ok b = true /\ hs_unmarshal 0 b = Some x /\ hs_marshal x = None.
Proof. exact hs_fragment_reencode_refuted. Qed.
Print Assumptions C18_handshake_fragment_reencode_refuted.

(* ================================================================== ServerKeyExchange, CertificateRequest *)

(* ServerKeyExchange under every key-exchange context: value-level round trip on its domain *)
Theorem C18_server_key_exchange : forall kx, wsound (w_ske kx).
Proof. exact ske_roundtrip. Qed.
Print Assumptions C18_server_key_exchange.

(* ... but the decoder accepts more than the encoder can reproduce *)
Theorem C18_server_key_exchange_fixpoint_refuted :
  exists b x e, bytes_ok b = true /\ ske_dec 4 b = Some x /\ ske_enc x = Some e /\ ske_dec 4 e = None.
Proof. exact ske_fixpoint_refuted. Qed.
Print Assumptions C18_server_key_exchange_fixpoint_refuted.

Theorem C18_server_key_exchange_reencode_refuted :
  (exists b x, bytes_ok b = true /\ ske_dec 4 b = Some x /\ ske_enc x = None) /\
  (exists b x, bytes_ok b = true /\ ske_dec 4 b = Some x /\ ske_enc x = None /\
               fst (snd (snd (snd (snd (snd x))))) = 0).
Proof. exact ske_reencode_refuted. Qed.
Print Assumptions C18_server_key_exchange_reencode_refuted.

Theorem C18_server_key_exchange_trunc_refuted :
  exists x e k, ske_wf 4 x = true /\ ske_enc x = Some e /\ (k < length e)%nat /\ ske_dec 4 (firstn k e) <> None.
Proof. exact ske_trunc_refuted. Qed.
Print Assumptions C18_server_key_exchange_trunc_refuted.

Theorem C18_certificate_request : wsound w_certreq.
Proof. exact certreq_roundtrip. Qed.
Print Assumptions C18_certificate_request.

(* 6845684 (F75): an odd declared length of supported_signature_algorithms is refused, and the
   schemes of an accepted message come from inside the declared vector *)
Theorem C18_certificate_request_odd_sigalgs_rejected : forall b tys r1 sl r2,
  dec c_cr_types b = Some (tys, r1) -> dec (c_u 2) r1 = Some (sl, r2) -> sl mod 2 = 1 -> cr_dec b = None.
Proof. exact certreq_odd_sigalgs_rejected. Qed.
Print Assumptions C18_certificate_request_odd_sigalgs_rejected.

Theorem C18_certificate_request_sigalgs_within_vector : forall b tys sigs cas,
  cr_dec b = Some (tys, (sigs, cas)) ->
  exists r1 sl r2, dec c_cr_types b = Some (tys, r1) /\ dec (c_u 2) r1 = Some (sl, r2) /\ sl <= len r2 /\
                   sigs = filter_map sig_lookup (chunk2 (take sl r2)).
Proof. exact certreq_sigalgs_within_vector. Qed.
Print Assumptions C18_certificate_request_sigalgs_within_vector.

Theorem C18_certificate_request_declared_length_as_coded_refuted :
  exists b x, bytes_ok b = true /\ cr_dec_gen true b = Some x /\
    b = [0; 0; 1; 4; 0; 0] /\ fst (snd x) = [(4, 0)] /\ cr_dec b = None.
Proof. exact certreq_declared_length_as_coded_refuted. Qed.
Print Assumptions C18_certificate_request_declared_length_as_coded_refuted.

(* 1dbb75b (F76): the encoder refuses vectors that its 16-bit length fields cannot say *)
Theorem C18_certificate_request_enc_refuses_oversize : forall tys sigs cas,
  65535 < N.of_nat (length sigs) * 2 \/ 65535 < cas_len cas -> cr_enc (tys, (sigs, cas)) = None.
Proof. exact certreq_enc_refuses_oversize. Qed.
Print Assumptions C18_certificate_request_enc_refuses_oversize.

Theorem C18_certificate_request_enc_lengths : forall tys sigs cas e,
  cr_enc (tys, (sigs, cas)) = Some e ->
  N.of_nat (length tys) <= 255 /\ N.of_nat (length sigs) * 2 < 65536 /\ cas_len cas < 65536.
Proof. exact certreq_enc_lengths. Qed.
Print Assumptions C18_certificate_request_enc_lengths.

Theorem C18_certificate_request_enc_wrap_as_coded_refuted :
  exists x e, cr_wf (fst x, (fst (snd x), [])) = true /\ cr_enc_gen true x = Some e /\
              cr_dec e = Some (fst x, (fst (snd x), [])) /\ snd (snd x) <> [] /\ cr_enc x = None.
Proof. exact certreq_enc_wrap_as_coded_refuted. Qed.
Print Assumptions C18_certificate_request_enc_wrap_as_coded_refuted.

(* NOT REPAIRED (known findings): ServerKeyExchange cut inside its identity hint is accepted;
   the ServerKeyExchange / ClientKeyExchange encoders do not refuse what they cannot express *)
Theorem C18_server_key_exchange_hint_trunc_refuted :
  exists x e k, ske_wf 6 x = true /\ fst x = Some ske_long_hint /\ ske_enc x = Some e /\
                (k < 2 + length ske_long_hint)%nat /\ (k < length e)%nat /\
                ske_dec 6 (firstn k e) = Some (None, (3, (29, (repeat 0 (N.to_nat 32), (0, (0, [])))))).
Proof. exact ske_hint_trunc_refuted. Qed.
Print Assumptions C18_server_key_exchange_hint_trunc_refuted.

Theorem C18_server_key_exchange_enc_wrap_refuted :
  (exists x e, ske_enc x = Some e /\ len (fst (snd (snd (snd x)))) = 256 /\ ske_wf 4 x = false /\ ske_dec 4 e = None) /\
  (exists x e, ske_enc x = Some e /\ fst x = Some (repeat 104 (N.to_nat 65536)) /\ ske_wf 2 x = false /\
               ske_dec 2 e = None).
Proof. exact ske_enc_wrap_refuted. Qed.
Print Assumptions C18_server_key_exchange_enc_wrap_refuted.

Theorem C18_client_key_exchange_enc_outside_domain_refuted :
  (exists x e, cke_enc x = Some e /\ fst x = None /\ cke_wf 6 x = false /\ cke_dec 6 e = None) /\
  (exists x e y, cke_enc x = Some e /\ cke_wf 2 x = false /\ cke_dec 2 e = Some y /\ snd x <> None /\ snd y = None) /\
  (exists x e, cke_enc x = Some e /\ fst x = Some (repeat 105 (N.to_nat 65536)) /\ cke_wf 2 x = false /\
               cke_dec 2 e = Some (Some [], None)).
Proof. exact cke_enc_outside_domain_refuted. Qed.
Print Assumptions C18_client_key_exchange_enc_outside_domain_refuted.

(* ================================================================== extensions *)

(* [ext_ok w] = wsound w /\ wdec_ok w /\ wfixpoint w *)

(* the extension block framing: extension.ParseList / MarshalRawList *)
Theorem C18_extension_list : ext_ok w_ext_list /\ wtrunc w_ext_list.
Proof. exact (conj ext_list_ok ext_list_trunc). Qed.
Print Assumptions C18_extension_list.

(* payloads of package extension: connection_id, ALPN offer/selection, use_srtp offer/selection,
   the three uint16-list extensions (supported_groups, signature_algorithms[_cert]), the empty
   payloads (server_name ack, RRC, EMS, early_data, post_handshake_auth) and Raw *)
Theorem C18_extension_payloads_common :
  (ext_ok w_connection_id /\ wtrunc w_connection_id) /\
  (ext_ok w_alpn_offer /\ wtrunc w_alpn_offer) /\ (ext_ok w_alpn_selection /\ wtrunc w_alpn_selection) /\
  (ext_ok w_srtp_offer /\ wtrunc w_srtp_offer) /\ (ext_ok w_srtp_selection /\ wtrunc w_srtp_selection) /\
  (ext_ok w_u16_list /\ wtrunc w_u16_list) /\ ext_ok w_empty /\ ext_ok w_raw_payload.
Proof.
  exact (conj (conj connection_id_ok connection_id_trunc)
        (conj (conj alpn_offer_ok alpn_offer_trunc) (conj (conj alpn_selection_ok alpn_selection_trunc)
        (conj (conj srtp_offer_ok srtp_offer_trunc) (conj (conj srtp_selection_ok srtp_selection_trunc)
        (conj (conj u16_list_ok u16_list_trunc) (conj empty_ok raw_payload_ok))))))).
Qed.
Print Assumptions C18_extension_payloads_common.

(* payloads of extension/dtls12: renegotiation_info, supported_point_formats (lossy decoder) *)
Theorem C18_extension_payloads_dtls12 :
  (ext_ok w_renegotiation_info /\ wtrunc w_renegotiation_info) /\
  (ext_ok w_point_formats /\ wtrunc w_point_formats).
Proof.
  exact (conj (conj renegotiation_info_ok renegotiation_info_trunc) (conj point_formats_ok point_formats_trunc)).
Qed.
Print Assumptions C18_extension_payloads_dtls12.

(* payloads of extension/dtls13 *)
Theorem C18_extension_payloads_dtls13 :
  (ext_ok w_cookie /\ wtrunc w_cookie) /\ (ext_ok w_max_early_data /\ wtrunc w_max_early_data) /\
  (ext_ok w_psk_modes /\ wtrunc w_psk_modes) /\
  (ext_ok w_offered_versions /\ wtrunc w_offered_versions) /\
  (ext_ok w_selected_version /\ wtrunc w_selected_version) /\
  (ext_ok w_cert_authorities /\ wtrunc w_cert_authorities) /\
  (ext_ok w_oid_filters /\ wtrunc w_oid_filters) /\
  (ext_ok w_client_key_share /\ wtrunc w_client_key_share) /\ ext_ok w_server_key_share /\
  (ext_ok w_retry_key_share /\ wtrunc w_retry_key_share) /\
  (ext_ok w_offered_psks /\ wtrunc w_offered_psks) /\ (ext_ok w_selected_psk /\ wtrunc w_selected_psk).
Proof.
  exact (conj (conj cookie_ok_ cookie_trunc) (conj (conj max_early_data_ok max_early_data_trunc)
        (conj (conj psk_modes_ok psk_modes_trunc) (conj (conj offered_versions_ok offered_versions_trunc)
        (conj (conj selected_version_ok selected_version_trunc)
        (conj (conj cert_authorities_ok cert_authorities_trunc) (conj (conj oid_filters_ok oid_filters_trunc)
        (conj (conj client_key_share_ok client_key_share_trunc) (conj server_key_share_ok
        (conj (conj retry_key_share_ok retry_key_share_trunc)
        (conj (conj offered_psks_ok offered_psks_trunc) (conj selected_psk_ok selected_psk_trunc)))))))))))).
Qed.
Print Assumptions C18_extension_payloads_dtls13.

(* server_name (ClientHello form; lossy: entries of other name types are dropped) *)
Theorem C18_extension_server_name : ext_ok w_sni /\ wtrunc w_sni.
Proof. exact (conj sni_ok_ sni_trunc). Qed.
Print Assumptions C18_extension_server_name.

(* ================================================================== typed extension blocks, hello messages *)

(* decodeExtensionList / extension.MarshalList under every message context ctx (ClientHello,
   ServerHello 1.2 / 1.3, HelloRetryRequest, EncryptedExtensions, CertificateRequest,
   CertificateEntry, NewSessionTicket); the registry is the regenerated g_c18_ext_registry *)
Theorem C18_extension_block : forall ctx,
  sound (c_ext_block ctx) /\ dec_ok (c_ext_block ctx) /\ trunc (c_ext_block ctx) /\
  ext_ok (w_ext_block ctx) /\ wtrunc (w_ext_block ctx).
Proof.
  exact (fun ctx => conj (sound_ext_block ctx) (conj (decok_ext_block ctx) (conj (trunc_ext_block ctx)
                    (conj (ext_block_ok ctx) (ext_block_trunc ctx))))).
Qed.
Print Assumptions C18_extension_block.

(* what is accepted satisfies the validation rules (no duplicates, pre_shared_key last in a
   ClientHello, the dependency rules of the context) *)
Theorem C18_extension_block_validated : forall ctx b l, bytes_ok b = true ->
  wdec (w_ext_block ctx) b = Some l -> block_ok ctx l = true.
Proof. exact ext_block_validated. Qed.
Print Assumptions C18_extension_block_validated.

Theorem C18_client_hello : ext_ok w_client_hello /\ wtrunc w_client_hello.
Proof. exact (conj client_hello_ok client_hello_trunc). Qed.
Print Assumptions C18_client_hello.

(* ServerHello and HelloRetryRequest: the extension context is chosen from the random and from
   the extension types present *)
Theorem C18_server_hello : wsound w_server_hello /\ wfixpoint w_server_hello.
Proof. exact (conj server_hello_roundtrip server_hello_fixpoint). Qed.
Print Assumptions C18_server_hello.

Theorem C18_dtls13_messages :
  (ext_ok w_encrypted_extensions /\ wtrunc w_encrypted_extensions) /\
  (ext_ok w_new_session_ticket /\ wtrunc w_new_session_ticket) /\
  (ext_ok w_cert_request13 /\ wtrunc w_cert_request13) /\
  (ext_ok w_certificate13 /\ wtrunc w_certificate13).
Proof.
  exact (conj (conj encrypted_extensions_ok encrypted_extensions_trunc)
        (conj (conj new_session_ticket_ok new_session_ticket_trunc)
        (conj (conj cert_request13_ok cert_request13_trunc) (conj certificate13_ok certificate13_trunc)))).
Qed.
Print Assumptions C18_dtls13_messages.

(* negotiation.go canonicalize = Unmarshal (Marshal hook_result): whatever it returns is in the
   domain and is left unchanged by canonicalising again *)
Theorem C18_canonicalize_hello : forall e,  bytes_ok e = true ->
  (forall y, wdec w_client_hello e = Some y ->
     exists e', wenc w_client_hello y = Some e' /\ wdec w_client_hello e' = Some y) /\
  (forall y, wdec w_server_hello e = Some y ->
     exists e', wenc w_server_hello y = Some e' /\ wdec w_server_hello e' = Some y).
Proof.
  exact (fun e He => conj (fun y Hy => proj2 (proj2 client_hello_ok) e y He Hy)
                          (fun y Hy => server_hello_fixpoint e y He Hy)).
Qed.
Print Assumptions C18_canonicalize_hello.

(* ================================================================== non-vacuity *)

Example C18_example_header :
  wdec (w_header 4) [25; 254; 253; 0; 1; 0; 0; 0; 0; 0; 7; 170; 187; 204; 221; 0; 3; 9; 9; 9] =
  Some (mk_hdr 25 254 253 1 7 [170; 187; 204; 221] 3).
Proof. vm_compute. reflexivity. Qed.

Example C18_example_ack :
  wdec w_ack [0; 16; 0; 0; 0; 0; 0; 0; 0; 2; 0; 0; 0; 0; 0; 0; 0; 5] = Some [(2, 5)].
Proof. vm_compute. reflexivity. Qed.

Example C18_example_handshake :
  hs_unmarshal 4 [16; 0; 0; 4; 0; 1; 0; 0; 0; 0; 0; 4; 3; 1; 2; 3] =
  Some (mk_hshdr 16 4 1 0 4, MClientKeyExchange (None, Some [1; 2; 3])) /\
  hs_wf 4 (mk_hshdr 16 4 1 0 4, MClientKeyExchange (None, Some [1; 2; 3])) = true.
Proof. vm_compute. split; reflexivity. Qed.

Example C18_example_extension_list :
  wdec w_ext_list [0; 9; 0; 23; 0; 0; 0; 54; 0; 1; 0] = Some [(23, []); (54, [0])].
Proof. vm_compute. reflexivity. Qed.

Example C18_example_key_share :
  wdec w_client_key_share [0; 7; 0; 29; 0; 3; 1; 2; 3] = Some [(29, [1; 2; 3])].
Proof. vm_compute. reflexivity. Qed.

(* a ClientHello with supported_groups, signature_algorithms and extended_master_secret *)
Example C18_example_client_hello :
  let b := [254; 253] ++ repeat 1 32 ++ [0; 0; 0; 2; 192; 43; 1; 0] ++
           [0; 20; 0; 10; 0; 4; 0; 2; 0; 29; 0; 13; 0; 4; 0; 2; 4; 3; 0; 23; 0; 0] in
  omap (fun x => map ev_type (snd x)) (wdec w_client_hello b) = Some [10; 13; 23] /\
  obind (wdec w_client_hello b) (wenc w_client_hello) = Some b.
Proof. vm_compute. split; reflexivity. Qed.
