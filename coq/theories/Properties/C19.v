(* C19 - Exported state resumes the same session without reusing record numbers.
   Only statements closed by [exact]; the model is State/C19Export.v (generateState, serialize,
   deserialize / UnmarshalBinary, generateInternalState, ExportKeyingMaterial,
   nextLocalSequenceNumber of /repo), proofs are in State/C19ExportSound.v.  The gob layer (Go
   standard library) is not modelled. *)
From DtlsV Require Import Lib.Bytes Gen.Generated Rec.Window State.C19Export State.C19ExportSound State.C19Run.
Open Scope N_scope.

(* The round trip ConnectionState -> MarshalBinary -> UnmarshalBinary -> Resume is defined exactly
   on the states with a suite known to ciphersuite.ForID(id, nil), a version other than 1.3, a
   sequence counter for the current local epoch, a local epoch other than 0, a master secret and a
   next sequence number of at most 2^48 (920182a: a counter that went beyond - an exhausted
   connection that kept attempting writes - is refused like a damaged one). *)
Theorem C19_import_export_defined_iff :
  forall s, (exists s', import_export s = Some s') <-> exportable s.
Proof. exact import_export_defined_iff. Qed.
Print Assumptions C19_import_export_defined_iff.

(* Which fields survive and which start afresh - each a separate conjunct. Preserved: epochs,
   randoms, master secret, suite, SRTP profile and (observable) peer MKI, both connection ids, RRC
   flag, role, peer certificates, identity hint, session id, ALPN protocol, and the next sequence
   number of the CURRENT local epoch.  Reset: version := 1.2, the counters of all other epochs := 0,
   remote sequence numbers := [], replay windows := [], MKI := [] when no profile was negotiated,
   extended-master-secret flag, CID-offered flags, certificates-verified flag, handshake message
   counters. *)
Theorem C19_import_export_preserves :
  forall s, exportable s ->
  exists s', import_export s = Some s' /\
  ( i_local_epoch s' = i_local_epoch s /\ i_remote_epoch s' = i_remote_epoch s /\
    i_local_random s' = i_local_random s /\ i_remote_random s' = i_remote_random s /\
    i_master s' = i_master s /\ i_suite s' = i_suite s /\
    i_profile s' = i_profile s /\ obs_profile s' = obs_profile s /\ obs_mki s' = obs_mki s /\
    i_local_cid s' = i_local_cid s /\ i_remote_cid s' = i_remote_cid s /\
    i_rrc s' = i_rrc s /\ i_is_client s' = i_is_client s /\
    i_certs s' = i_certs s /\ i_hint s' = i_hint s /\ i_session_id s' = i_session_id s /\
    i_alpn s' = i_alpn s /\
    get (i_local_seq s') (i_local_epoch s') = get (i_local_seq s) (i_local_epoch s) ) /\
  ( i_version s' = v12 /\
    (forall e, e <> i_local_epoch s -> get (i_local_seq s') e = 0) /\
    i_local_seq s' = repeat 0 (N.to_nat (i_local_epoch s)) ++ [get (i_local_seq s) (i_local_epoch s)] /\
    i_remote_seq s' = [] /\ i_replay s' = [] /\
    i_mki s' = (if i_profile s =? 0 then [] else i_mki s) /\
    i_ems s' = false /\ i_cid_offered s' = (false, false) /\ i_certs_verified s' = false /\
    i_hs_seq s' = (0, 0) ).
Proof. exact import_export_preserves. Qed.
Print Assumptions C19_import_export_preserves.

Theorem C19_import_export_idempotent :
  forall s s', import_export s = Some s' -> import_export s' = Some s'.
Proof. exact import_export_idempotent. Qed.
Print Assumptions C19_import_export_idempotent.

(* Same exported keying material before and after - for EVERY PRF, reserved-label predicate, label
   and length - and the same as the untouched peer's. *)
Theorem C19_exporter_equal :
  forall (PHash : bytes -> bytes -> N -> N -> bytes) (reserved : bytes -> bool) s s',
  import_export s = Some s' ->
  forall label n, conn_exporter PHash reserved s' label n = conn_exporter PHash reserved s label n.
Proof. exact exporter_equal. Qed.
Print Assumptions C19_exporter_equal.

Theorem C19_exporter_decoded_equal :
  forall (PHash : bytes -> bytes -> N -> N -> bytes) (reserved : bytes -> bool) p z p',
  serialize p = Some z -> unmarshal z = Some p' -> p_version p <> v_zero ->
  forall label n, exporter PHash reserved p' label n = exporter PHash reserved p label n.
Proof. exact exporter_decoded_equal. Qed.
Print Assumptions C19_exporter_decoded_equal.

Theorem C19_exporter_peer_equal :
  forall (PHash : bytes -> bytes -> N -> N -> bytes) (reserved : bytes -> bool) s t,
  mirrors s t -> (i_local_epoch t =? 0) = (i_local_epoch s =? 0) ->
  i_version s <> v13 -> i_version t <> v13 ->
  i_local_epoch s < N.of_nat (length (i_local_seq s)) ->
  i_local_epoch t < N.of_nat (length (i_local_seq t)) ->
  forall label n, conn_exporter PHash reserved t label n = conn_exporter PHash reserved s label n.
Proof. exact exporter_peer_equal. Qed.
Print Assumptions C19_exporter_peer_equal.

(* Same record keys: the key block is a function (any function) of master secret, client random,
   server random and the suite's protection class, and the role selecting the write half is kept. *)
Theorem C19_keys_equal :
  forall (KeyBlock : bytes -> bytes -> bytes -> N -> bytes) s s',
  import_export s = Some s' ->
  key_block KeyBlock s' = key_block KeyBlock s /\ i_is_client s' = i_is_client s /\
  key_inputs s' = key_inputs s.
Proof. exact keys_equal. Qed.
Print Assumptions C19_keys_equal.

(* The record sequence continues without reusing a number: for every history of sends [pre] (any
   epochs, any length) of the original connection, every export epoch, and every number [post] of
   sends of the resumed connection - as long as fewer than 2^64 sends were attempted in total. *)
Theorem C19_seq_continues :
  forall (pre : list N) (e : N) (post : nat) (s s' : istate),
  i_local_seq s = counters_after [] pre -> i_local_epoch s = e ->
  import_export s = Some s' ->
  N.of_nat (length pre + post) < two64 ->
  get (i_local_seq s') e = get (counters_after [] pre) e /\
  (forall q, In (e, q) (emitted [] pre) -> q < get (i_local_seq s') e) /\
  (forall q, In (e, q) (emitted (i_local_seq s') (repeat e post)) -> get (i_local_seq s') e <= q) /\
  (forall x, In x (emitted [] pre) -> ~ In x (emitted (i_local_seq s') (repeat e post))) /\
  NoDup (emitted [] pre ++ emitted (i_local_seq s') (repeat e post)).
Proof. exact seq_continues. Qed.
Print Assumptions C19_seq_continues.

Theorem C19_emitted_numbers_at_most_48_bits :
  forall es st e q, In (e, q) (emitted st es) -> q <= max_seq.
Proof. exact emitted_le_max. Qed.
Print Assumptions C19_emitted_numbers_at_most_48_bits.

(* only the current epoch's counter is exported *)
Theorem C19_seq_other_epochs_restart :
  exists pre s s',
  i_local_seq s = counters_after [] pre /\ import_export s = Some s' /\
  In (0, 0) (emitted [] pre) /\ In (0, 0) (emitted (i_local_seq s') [0]).
Proof. exact seq_other_epochs_restart. Qed.
Print Assumptions C19_seq_other_epochs_restart.

(* Data keeps flowing in both directions with the untouched peer (link predicate [delivers]: what
   the record layer consults, reduced to state fields). *)
Theorem C19_delivers_preserved :
  forall s s', import_export s = Some s' ->
  forall t, delivers s' t = delivers s t /\ delivers t s' = delivers t s.
Proof. exact delivers_preserved. Qed.
Print Assumptions C19_delivers_preserved.

Theorem C19_data_flows_after_import :
  forall s s' t,
  import_export s = Some s' -> mirrors s t ->
  (exists c, exists id, i_suite s = Some id /\ suite_class id = Some c) ->
  i_local_epoch s <> 0 -> i_local_epoch s <= i_remote_epoch t ->
  i_local_epoch t <> 0 -> i_local_epoch t <= i_remote_epoch s ->
  get (i_local_seq s) (i_local_epoch s) <= max_seq ->
  get (i_local_seq t) (i_local_epoch t) <= max_seq ->
  delivers s' t = true /\ delivers t s' = true.
Proof. exact data_flows_after_import. Qed.
Print Assumptions C19_data_flows_after_import.

(* A state captured before the keys were switched on (local epoch 0 or no master secret: the
   State a VerifyConnection callback receives, or a corrupted epoch) is refused by the import;
   every imported state has a non-zero local epoch and a master secret. *)
Theorem C19_pre_keys_refused :
  (forall p, p_local_epoch p = 0 \/ p_master p = [] -> gen_internal p = None) /\
  (forall s, i_local_epoch s = 0 \/ i_master s = [] -> import_export s = None) /\
  (forall p x, gen_internal p = Some x -> i_local_epoch x <> 0 /\ i_master x <> []) /\
  (exists z p, s_local_epoch z = 0 /\ unmarshal z = Some p /\ gen_internal p = None).
Proof. exact pre_keys_refused. Qed.
Print Assumptions C19_pre_keys_refused.

(* DTLS 1.3 is refused at every entry point ... *)
Theorem C19_v13_refused :
  (forall s, i_version s = v13 -> gen_state s = Refused) /\
  (forall p, p_version p = v13 -> serialize p = None) /\
  (forall z, s_version z = v13 -> unmarshal z = None) /\
  (forall p, p_version p = v13 -> gen_internal p = None) /\
  (forall s, i_version s = v13 -> import_export s = None).
Proof. exact v13_refused. Qed.
Print Assumptions C19_v13_refused.

(* ... by its version field only *)
Theorem C19_v13_suite_with_v12_label_accepted :
  exists z p x, s_version z = v12 /\ s_suite z = 4865 /\ unmarshal z = Some p /\ gen_internal p = Some x /\
                key_inputs x = None.
Proof. exact v13_suite_with_v12_label_accepted. Qed.
Print Assumptions C19_v13_suite_with_v12_label_accepted.

Theorem C19_unknown_suite_refused :
  forall z, suite_known (s_suite z) = false -> unmarshal z = None.
Proof. exact unknown_suite_refused. Qed.
Print Assumptions C19_unknown_suite_refused.

(* F73 (repaired by 4d323b9): ConnectionState() never panics - also not from another goroutine
   while the handshake switches the local epoch ... *)
Theorem C19_gen_state_never_panics :
  forall s, gen_state s <> Panics.
Proof. exact gen_state_never_panics. Qed.
Print Assumptions C19_gen_state_never_panics.

(* ... in that window the state is reported as not available ... *)
Theorem C19_gen_state_epoch_switch_refused :
  i_suite epoch_switch_window = Some 168 /\ i_local_epoch epoch_switch_window = 1 /\
  i_local_seq epoch_switch_window = [4] /\ gen_state epoch_switch_window = Refused.
Proof. exact gen_state_epoch_switch_refused. Qed.
Print Assumptions C19_gen_state_epoch_switch_refused.

(* ... regression witness: the unchecked index of the code before the repair *)
Theorem C19_gen_state_unchecked_index_refuted :
  gen_state_gen false epoch_switch_window = Panics /\
  (forall chk s, i_local_epoch s < N.of_nat (length (i_local_seq s)) -> gen_state_gen chk s <> Panics).
Proof. exact gen_state_unchecked_index_refuted. Qed.
Print Assumptions C19_gen_state_unchecked_index_refuted.

Theorem C19_export_bounds_as_coded :
  if export_checks_counter_exists then forall s, gen_state s <> Panics
  else exists s, gen_state s = Panics.
Proof. exact export_bounds_as_coded. Qed.
Print Assumptions C19_export_bounds_as_coded.

(* F74 (repaired by 920182a): every accepted state - genuine or damaged - carries a next sequence
   number of at most 2^48, and the resumed sender never wraps: its numbers are pairwise distinct,
   none below the accepted one, none above 2^48 - 1. *)
Theorem C19_imported_seq_within_limit :
  forall p x, gen_internal p = Some x ->
  i_local_seq x = repeat 0 (N.to_nat (p_local_epoch p)) ++ [p_seq p] /\ i_local_epoch x = p_local_epoch p /\
  get (i_local_seq x) (i_local_epoch x) = p_seq p /\ p_seq p <= seq_limit.
Proof. exact imported_seq_within_limit. Qed.
Print Assumptions C19_imported_seq_within_limit.

Theorem C19_imported_sender_never_wraps :
  forall p x (post : nat),
  gen_internal p = Some x -> N.of_nat post < two64 - seq_limit ->
  let e := i_local_epoch x in
  NoDup (emitted (i_local_seq x) (repeat e post)) /\
  (forall e' q, In (e', q) (emitted (i_local_seq x) (repeat e post)) -> e' = e /\ p_seq p <= q <= max_seq).
Proof. exact imported_sender_never_wraps. Qed.
Print Assumptions C19_imported_sender_never_wraps.

(* regression witness: 2^64 - 1 was accepted; the counter wrapped to numbers already used *)
Theorem C19_seq_beyond_limit_wraps_refuted :
  exists pre s z p x,
  i_local_seq s = counters_after [] pre /\ i_local_epoch s = 1 /\ get (i_local_seq s) 1 = 3 /\
  s_seq z = two64 - 1 /\ unmarshal z = Some p /\ gen_internal_gen false p = Some x /\
  key_inputs x = key_inputs s /\
  emitted (i_local_seq x) [1; 1; 1] = [(1, 0); (1, 1)] /\
  In (1, 0) (emitted [] pre) /\ In (1, 1) (emitted [] pre) /\
  gen_internal p = None.
Proof. exact seq_beyond_limit_wraps_refuted. Qed.
Print Assumptions C19_seq_beyond_limit_wraps_refuted.

Theorem C19_seq_limit_as_coded :
  if import_checks_seq_limit
  then forall p x, gen_internal p = Some x -> get (i_local_seq x) (i_local_epoch x) <= seq_limit
  else exists p x, gen_internal p = Some x /\ In (1, 0) (emitted (i_local_seq x) [1; 1]).
Proof. exact seq_limit_as_coded. Qed.
Print Assumptions C19_seq_limit_as_coded.

(* the other face of the limit: a connection that kept attempting writes after exhaustion cannot be
   resumed; it could not have put anything on the wire; exactly 2^48 still resumes *)
Theorem C19_exhausted_sender_refused :
  forall s, seq_limit < get (i_local_seq s) (i_local_epoch s) -> import_export s = None.
Proof. exact exhausted_sender_refused. Qed.
Print Assumptions C19_exhausted_sender_refused.

Theorem C19_exhausted_sender_sends_nothing :
  forall (n : nat) st e, max_seq < get st e -> get st e + N.of_nat n < two64 -> emitted st (repeat e n) = [].
Proof. exact exhausted_sender_sends_nothing. Qed.
Print Assumptions C19_exhausted_sender_sends_nothing.

Theorem C19_exhausted_counter_at_limit_resumes :
  exists s s', get (i_local_seq s) (i_local_epoch s) = seq_limit /\ import_export s = Some s' /\
               emitted (i_local_seq s') [1; 1] = [].
Proof. exact exhausted_counter_at_limit_resumes. Qed.
Print Assumptions C19_exhausted_counter_at_limit_resumes.

(* F67 (repaired by 559b800): the Conn built by Resume starts in the finished state whatever
   versions its options allow; with 1.3-only options (no DTLS 1.2 suite is left in the
   configuration) the first Handshake/Read/Write is refused instead - never a new handshake ... *)
Theorem C19_resumed_conn_starts_finished :
  forall vmin vmax, vmin <> v13 -> handshake_start vmin vmax true = StartFinished.
Proof. exact resumed_conn_starts_finished. Qed.
Print Assumptions C19_resumed_conn_starts_finished.

Theorem C19_resumed_conn_never_starts_a_handshake :
  forall vmin vmax, handshake_start vmin vmax true = (if vmin =? v13 then StartRefused else StartFinished).
Proof. exact resumed_conn_never_starts_a_handshake. Qed.
Print Assumptions C19_resumed_conn_never_starts_a_handshake.

(* ... regression witnesses: dual-stack and 1.3-only options made it start a new handshake *)
Theorem C19_resume_ignored_refuted :
  handshake_start_gen false v12 v13 true = StartDualStack /\
  handshake_start_gen false v13 v13 true = StartNew13 /\
  handshake_start_gen false v12 v12 true = StartFinished.
Proof. exact resume_ignored_refuted. Qed.
Print Assumptions C19_resume_ignored_refuted.

Theorem C19_resume_start_as_coded :
  if resume_honoured_for_any_version
  then forall vmin vmax, handshake_start vmin vmax true = StartFinished \/ handshake_start vmin vmax true = StartRefused
  else exists vmin vmax, handshake_start vmin vmax true = StartDualStack \/ handshake_start vmin vmax true = StartNew13.
Proof. exact resume_start_as_coded. Qed.
Print Assumptions C19_resume_start_as_coded.

(* Gaps of the code as written (known findings), stated as witnesses.
   K-C19-1: a session on a suite that only the configuration's custom list knows is established and
   exported, but its bytes are refused, the State object is refused, and no keying material can be
   exported from it. *)
Theorem C19_custom_suite_round_trip_refuted :
  exists s p z,
  i_suite s = Some 65305 /\ i_local_epoch s = 1 /\ i_master s <> [] /\
  gen_state s = Ok p /\ serialize p = Some z /\
  unmarshal z = None /\ gen_internal p = None /\ import_export s = None /\
  (forall PHash reserved label n, conn_exporter PHash reserved s label n = None).
Proof. exact custom_suite_round_trip_refuted. Qed.
Print Assumptions C19_custom_suite_round_trip_refuted.

(* K-C19-2: when the peer has not seen the final flight (its read epoch is still 0: the premise
   [i_local_epoch s <= i_remote_epoch t] of C19_data_flows_after_import fails) the resumed owner
   of that flight has nothing to repeat and nothing it writes is delivered. *)
Theorem C19_final_flight_not_repeatable_refuted :
  (forall s s', import_export s = Some s' -> can_repeat_final_flight s' = false) /\
  (exists s s' t, import_export s = Some s' /\ mirrors s t /\
     can_repeat_final_flight s = true /\ i_local_epoch s = 1 /\ i_remote_epoch t = 0 /\
     delivers s t = false /\ delivers s' t = false /\ can_repeat_final_flight s' = false).
Proof. exact final_flight_not_repeatable_refuted. Qed.
Print Assumptions C19_final_flight_not_repeatable_refuted.

(* K-C19-3: between Resume and its first Handshake/Read/Write the Conn reports a blank state. *)
Theorem C19_resumed_conn_blank_before_start_refuted :
  (forall x, gen_state (resumed_conn_before_start x) = Refused /\
             obs_profile (resumed_conn_before_start x) = None /\
             forall PHash reserved label n, conn_exporter PHash reserved (resumed_conn_before_start x) label n = None) /\
  (exists s x, import_export s = Some x /\ gen_state x <> Refused /\ obs_profile x = Some 1 /\
               obs_profile (resumed_conn_before_start x) <> obs_profile x).
Proof. exact resumed_conn_blank_before_start_refuted. Qed.
Print Assumptions C19_resumed_conn_blank_before_start_refuted.

(* The serialised form has no integrity check: "altered bytes are rejected or give a connection
   that cannot authenticate records" does not hold for the code as written. *)
Theorem C19_corruption_rejected_or_dead_refuted :
  exists z z' p p' x x',
  z <> z' /\ unmarshal z = Some p /\ unmarshal z' = Some p' /\
  gen_internal p = Some x /\ gen_internal p' = Some x' /\
  key_inputs x' = key_inputs x /\ key_inputs x <> None /\
  (forall t, delivers x' t = delivers x t /\ delivers t x' = delivers t x) /\
  i_alpn x' <> i_alpn x.
Proof. exact corruption_rejected_or_dead_refuted. Qed.
Print Assumptions C19_corruption_rejected_or_dead_refuted.

Theorem C19_corrupted_seq_reuses_numbers :
  exists pre s p z' p' x',
  i_local_seq s = counters_after [] pre /\ gen_state s = Ok p /\
  p_seq p = 3 /\ s_seq z' = 1 /\ unmarshal z' = Some p' /\ gen_internal p' = Some x' /\
  In (1, 1) (emitted [] pre) /\ In (1, 1) (emitted (i_local_seq x') [1]).
Proof. exact corrupted_seq_reuses_numbers. Qed.
Print Assumptions C19_corrupted_seq_reuses_numbers.

(* Observation outside the letter of C19: the replay window is not exported. *)
Theorem C19_replay_window_forgotten :
  forall s s', import_export s = Some s' ->
  i_replay s' = [] /\
  forall (W : nat) (x : N), (0 < W)%nat -> x <= max_seq -> check max_seq (win_init W) x = true.
Proof. exact replay_window_forgotten. Qed.
Print Assumptions C19_replay_window_forgotten.

(* Tie to the regenerated facts of the current tree: versions, the 48-bit bound, and the suite
   table (ids and which of them are DTLS 1.3 suites). *)
Theorem C19_generated_constants :
  v12 = g_version12 /\ v13 = g_version13 /\ max_seq = g_max_sequence_number /\
  map (fun r => let '(id, _, _, b) := r in (id, b)) suite_table =
  map (fun r => let '(id, _, _, b) := r in (id, b)) g_suites.
Proof. vm_compute. repeat split; reflexivity. Qed.
Print Assumptions C19_generated_constants.

(* non-vacuity: a concrete client state after a handshake with CID, SRTP+MKI, ALPN, a session id
   and 4 handshake records in epoch 0, Finished + 2 application records in epoch 1 *)
Definition C19_example_state : istate :=
  mkI v12 1 1 [56; 109; 67; 128; 1; 2; 3] [56; 109; 67; 128; 9; 8; 7] [187; 219; 221; 86]
      (counters_after [] [0; 0; 0; 0; 1; 1; 1]) [] [win_init 64; win_init 64] (Some 49195) 1 [77; 75; 73]
      [130; 146; 99; 21] [114; 150; 112; 228; 0; 34] true true [[48; 130; 1]; [48; 130; 2]] [] [79; 200] [118; 47; 49]
      true (true, true) true (3, 5).

Example C19_example_exportable : exportable C19_example_state.
Proof.
  split; [exists 49195; split; reflexivity|]. split; [discriminate|]. split; [vm_compute; reflexivity|].
  split; [discriminate|]. split; [discriminate|]. vm_compute. discriminate.
Qed.

Example C19_example_roundtrip :
  match import_export C19_example_state with
  | Some s' => i_local_seq C19_example_state = [4; 3] /\ i_local_seq s' = [0; 3] /\
               i_replay s' = [] /\ i_suite s' = Some 49195 /\ i_mki s' = [77; 75; 73] /\
               emitted (i_local_seq s') [1; 1] = [(1, 3); (1, 4)] /\
               emitted [] [0; 0; 0; 0; 1; 1; 1] = [(0, 0); (0, 1); (0, 2); (0, 3); (1, 0); (1, 1); (1, 2)]
  | None => False
  end.
Proof. vm_compute. repeat split; reflexivity. Qed.

Example C19_example_main_case_shape :
  main_ok (C19_example_state,
           match gen_state C19_example_state with Ok p => p | _ => mkP 0 0 0 [] [] [] 0 0 0 [] [] [] false false [] [] [] [] end,
           match gen_state C19_example_state with Ok p => p | _ => mkP 0 0 0 [] [] [] 0 0 0 [] [] [] false false [] [] [] [] end,
           match import_export C19_example_state with Some s' => s' | None => C19_example_state end,
           C19_example_state,
           [(0, 0); (0, 1); (0, 2); (0, 3); (1, 0); (1, 1); (1, 2)], [(1, 3); (1, 4)], None, None,
           (v12, v13, 0, false)) = true.
Proof. vm_compute. reflexivity. Qed.

(* ConnectionState() more than once on one connection (round f).  [export] is a function of the
   CURRENT connection state: after any history of sends and earlier ConnectionState() calls (looks)
   the exported State is generateState of the state as it is now, and its sequence number is the
   connection's next one at the moment of the call - the counters the sends of the history left,
   whatever the earlier calls returned. *)
Theorem C19_export_reflects_current_counters :
  forall (c : conn) (evs : list ev),
  let c' := conn_run false c evs in
  snd (export c') = gen_state (c_state c') /\
  i_local_seq (c_state c') = counters_after (i_local_seq (c_state c)) (sends_of evs) /\
  i_local_epoch (c_state c') = i_local_epoch (c_state c) /\
  forall p, snd (export c') = Ok p ->
    p_seq p = get (i_local_seq (c_state c')) (i_local_epoch (c_state c')) /\
    p_seq p = get (counters_after (i_local_seq (c_state c)) (sends_of evs)) (i_local_epoch (c_state c)).
Proof. exact export_reflects_current_counters. Qed.
Print Assumptions C19_export_reflects_current_counters.

(* looks are invisible: the export at the end of a history equals the export at the end of the
   same history with every look removed *)
Theorem C19_looks_do_not_change_the_export :
  forall (s : istate) (evs : list ev),
  snd (export (conn_run false (conn_fresh s) evs)) =
  snd (export (conn_run false (conn_fresh s) (map EvSend (sends_of evs)))).
Proof. exact looks_do_not_change_the_export. Qed.
Print Assumptions C19_looks_do_not_change_the_export.

(* so the sequence statement of C19 holds for every history with looks in it: sends and looks in
   any order since the start of the connection, the State of the last call serialised and resumed,
   [post] more records: the resumed sender starts at the connection's next number and no
   (epoch, sequence number) is used twice *)
Theorem C19_looks_then_export_continues :
  forall (evs : list ev) (e : N) (post : nat) (s0 s' : istate),
  i_local_seq s0 = [] -> i_local_epoch s0 = e ->
  let c' := conn_run false (conn_fresh s0) evs in
  import_export (c_state c') = Some s' ->
  N.of_nat (length (sends_of evs) + post) < two64 ->
  get (i_local_seq s') e = get (counters_after [] (sends_of evs)) e /\
  (forall x, In x (emitted [] (sends_of evs)) -> ~ In x (emitted (i_local_seq s') (repeat e post))) /\
  NoDup (emitted [] (sends_of evs) ++ emitted (i_local_seq s') (repeat e post)).
Proof. exact looks_then_export_continues. Qed.
Print Assumptions C19_looks_then_export_continues.

(* a ConnectionState() that memoises its first snapshot ([export_gen true]) is refuted: look, two
   records, export - the State carries sequence number 1 while the connection's next number is 3,
   and the connection resumed from it sends (epoch 1, sequence number 1) a second time *)
Theorem C19_export_memoised_refuted : exists s evs p s',
  i_local_seq s = counters_after [] [0; 0; 1] /\
  let c' := conn_run true (conn_fresh s) evs in
  snd (export_gen true c') = Ok p /\
  p_seq p = 1 /\ get (i_local_seq (c_state c')) (i_local_epoch (c_state c')) = 3 /\
  snd (export c') <> Ok p /\
  match serialize p with Some z => match unmarshal z with Some p' => gen_internal p' | None => None end | None => None end = Some s' /\
  In (1, 1) (emitted [] ([0; 0; 1] ++ sends_of evs)) /\ In (1, 1) (emitted (i_local_seq s') [1]).
Proof. exact export_memoised_refuted. Qed.
Print Assumptions C19_export_memoised_refuted.

Example C19_example_looks_case_shape :
  looks_ok (C19_example_state, [3; 2; 0; 2; 0], [3; 4; 5]) = true.
Proof. vm_compute. reflexivity. Qed.
