(* C20 - DTLS 1.3 key updates keep data exactly-once and epochs monotonic.
   Only statements closed by [exact]; model in Ku/C20KeyUpdate.v, proofs in Ku/C20KeyUpdateSound.v.
   Runs are arbitrary lists of operations (UpdateKeys on either side with or without requesting the
   peer's update, Write, retransmission timers, and network moves that hand ANY record to a side at
   any time, any number of times).  [authentic] is the AEAD premise (C05): every record handed over was
   really emitted by the peer - so loss, duplication, reordering and arbitrary delay are all covered.
   [N.of_nat (c_window c) <= 32767] : the replay window is smaller than half the 16-bit sequence
   number space carried on the wire (the code's default is 64).
   [no_shadow c] : no off-path sender left an unauthenticated handshake fragment, numbered like a future
   post-handshake message, in either side's reassembly buffer while the handshake ran ([GInv] contains
   the same fact).  The code does not enforce this (known finding K-C20-1; the model represents what
   the code does in that case, see [on_ku]); [C20_shadowed_keyupdate_refuted] shows that the statements
   about UpdateKeys, the epochs being in step and delivery fail without the premise. *)
From Coq Require Import List NArith Bool.
From DtlsV Require Import Lib.Bytes Rec.Window Ku.C20KeyUpdate Ku.C20KeyUpdateSound Ku.C20Run.
From DtlsV Require Import Ku.C20Pending Ku.C20PendingSound.
Import ListNotations.
Open Scope N_scope.

(* ---- each side's sending epoch never decreases; +1 exactly when an update is committed ---- *)
Theorem C20_send_epoch_monotone :
  forall (st : gst) (o : op) (s : side),
    w_epoch (sd (fst (step st o)) s) = w_epoch (sd st s) \/
    (w_epoch (sd (fst (step st o)) s) = w_epoch (sd st s) + 1 /\
     In (EvCommit s (w_epoch (sd st s) + 1)) (snd (step st o))).
Proof. exact step_send_epoch_monotone. Qed.
Print Assumptions C20_send_epoch_monotone.

Theorem C20_send_epoch_counts_commits :
  forall (ops : list op) (st : gst) (s : side),
    w_epoch (sd (fst (exec st ops)) s) = w_epoch (sd st s) + commits s (snd (exec st ops)).
Proof. exact exec_send_epoch. Qed.
Print Assumptions C20_send_epoch_counts_commits.

(* ---- the invariant of all authentic runs (used by the statements below) ---- *)
Theorem C20_invariant_of_runs :
  forall c : config, N.of_nat (c_window c) <= 32767 -> no_shadow c ->
  forall ops : list op, authentic (init c) ops -> GInv (c_window c) (c_base c) (fst (exec (init c) ops)).
Proof. exact run_GInv. Qed.
Print Assumptions C20_invariant_of_runs.

(* ---- UpdateKeys returns nil only in the step that delivers an ACK the peer really sent, and strictly
        earlier in the run the call's KeyUpdate was sent and the peer processed exactly that message ---- *)
Theorem C20_update_returns_after_ack :
  forall c : config, N.of_nat (c_window c) <= 32767 -> no_shadow c ->
  forall (ops1 : list op) (o : op) (s : side) (id : N),
    authentic (init c) (ops1 ++ [o]) ->
    In (EvDone s id) (snd (step (fst (exec (init c) ops1)) o)) ->
    exists (m : N) (r : rec) (l : list (N * N)),
      In (EvStart s id m) (snd (exec (init c) ops1)) /\
      In (EvKuIn (other s) m) (snd (exec (init c) ops1)) /\
      o = OpDeliver s r /\ r_kind r = Ack l /\ In r (map snd (net (fst (exec (init c) ops1)) (other s))).
Proof. exact run_update_returns_after_ack. Qed.
Print Assumptions C20_update_returns_after_ack.

(* the same at state level: the ACK names a record of the call's flight, the peer's receive epoch is
   already the next one *)
Theorem C20_update_completion_state :
  forall (W : nat) (b : side -> N), N.of_nat W <= 32767 ->
  forall (st : gst) (o : op) (s : side) (id : N),
    GInv W b st -> authentic_op st o -> In (EvDone s id) (snd (step st o)) ->
    exists (r : rec) (l : list (N * N)) (f : flight) (q : N),
      o = OpDeliver s r /\ r_kind r = Ack l /\ In r (map snd (net st (other s))) /\
      pending (sd st s) = Some f /\ f_id f = Some id /\
      In q (f_seqs f) /\ In (w_epoch (sd st s), q) l /\
      b s <= f_msg f < hs_recv (sd st (other s)) /\ r_epoch (sd st (other s)) = w_epoch (sd st s) + 1.
Proof. exact done_after_ack. Qed.
Print Assumptions C20_update_completion_state.

(* ---- at most once, unmodified: for every payload p and every run, Read on one side returns p at most
        as often as the application of the other side wrote p ---- *)
Theorem C20_at_most_once_unmodified :
  forall c : config, N.of_nat (c_window c) <= 32767 -> no_shadow c ->
  forall (ops : list op) (X : side) (p : N),
    authentic (init c) ops ->
    (cnt (reads_of (other X) (snd (exec (init c) ops))) p <= cnt (writes_of X ops) p)%nat.
Proof. exact run_at_most_once. Qed.
Print Assumptions C20_at_most_once_unmodified.

(* every delivered payload is the content of a record the peer sealed under the key of that epoch, and
   no record number is delivered twice *)
Theorem C20_delivered_records_genuine :
  forall (W : nat) (b : side -> N) (st : gst) (X : side), GInv W b st ->
    NoDup (map gkey (got (sd st (other X)))) /\
    (forall e q p : N, In (e, q, p) (got (sd st (other X))) ->
       exists r : rec, In (e, r) (net st X) /\ r_seq r = q /\ r_kind r = App p /\ r_key r = secret_of X e).
Proof. exact delivered_records_genuine. Qed.
Print Assumptions C20_delivered_records_genuine.

(* ---- records under an epoch the receiver has not authorised / holds no generation for ---- *)
(* no installed generation with epoch <= receive epoch and matching epoch bits holds the record's key:
   nothing is delivered and nothing changes, except that the datagram may be parked when it carries
   the epoch bits of the next epoch; parked datagrams are re-examined under the same rule *)
Theorem C20_unauthorised_epoch_rejected :
  forall (me : side) (s : sidest) (r : rec), no_key s r ->
    recv me s r = (s, []) \/
    (recv me s r = (set_futq s (futq s ++ [r]), []) /\ low2 (r_epoch s + 1) = r_elow r).
Proof. exact unauthorised_epoch_rejected. Qed.
Print Assumptions C20_unauthorised_epoch_rejected.

Theorem C20_unauthorised_parked_rejected :
  forall (me : side) (s : sidest) (r : rec), no_key s r -> recv_parked me s r = (s, []).
Proof. exact unauthorised_parked_rejected. Qed.
Print Assumptions C20_unauthorised_parked_rejected.

(* a record under the key of any epoch beyond the receive epoch is such a record *)
Theorem C20_future_epoch_has_no_key :
  forall (W : nat) (b : side -> N) (st : gst) (X : side) (e : N) (r : rec),
    GInv W b st -> r_key r = secret_of X e -> r_epoch (sd st (other X)) < e -> no_key (sd st (other X)) r.
Proof. exact future_epoch_no_key. Qed.
Print Assumptions C20_future_epoch_has_no_key.

(* the peer itself never emits under an epoch the receiver has not authorised, and the epoch bits on
   the wire are the low bits of the epoch *)
Theorem C20_sent_epoch_authorised :
  forall (W : nat) (b : side -> N), N.of_nat W <= 32767 ->
  forall (st : gst) (X : side) (e : N) (r : rec), GInv W b st -> In (e, r) (net st X) ->
    3 <= e <= r_epoch (sd st (other X)) /\ r_key r = secret_of X e /\ r_elow r = low2 e.
Proof. exact sent_epoch_authorised. Qed.
Print Assumptions C20_sent_epoch_authorised.

Theorem C20_epochs_in_step :
  forall (W : nat) (b : side -> N) (st : gst) (X : side), GInv W b st ->
    w_epoch (sd st X) <= r_epoch (sd st (other X)) <= w_epoch (sd st X) + 1 /\
    (r_epoch (sd st (other X)) = w_epoch (sd st X) + 1 -> pending (sd st X) <> None) /\
    futq (sd st (other X)) = [].
Proof. exact epochs_in_step. Qed.
Print Assumptions C20_epochs_in_step.

(* "no longer retains": as coded, every generation ever authorised stays installed (TrafficKeyState
   never discards), so this clause of the property is vacuous for the implementation *)
Theorem C20_all_generations_retained :
  forall (W : nat) (b : side -> N), N.of_nat W <= 32767 ->
  forall (st : gst) (X : side), GInv W b st ->
  forall g : gen,
    In g (r_gens (sd st (other X))) <->
    g = mkgen 2 (Hs X) \/
    (exists e : N, 3 <= e <= r_epoch (sd st (other X)) /\ g = mkgen e (secret_of X e)).
Proof. exact all_generations_retained. Qed.
Print Assumptions C20_all_generations_retained.

(* ---- successor chain: the write secret of epoch e is Next^(e-3) of the initial one, consecutive
        generations are Next-successors, and the peer's read generation of every committed epoch holds
        the same term ---- *)
Theorem C20_successor_chain :
  forall (W : nat) (b : side -> N), N.of_nat W <= 32767 ->
  forall (st : gst) (X : side), GInv W b st ->
    w_sec (sd st X) = secret_of X (w_epoch (sd st X)) /\
    (forall e : N, 3 <= e <= w_epoch (sd st X) ->
       In (mkgen e (secret_of X e)) (r_gens (sd st (other X))) /\
       (e < w_epoch (sd st X) -> secret_of X (e + 1) = Next (secret_of X e))).
Proof. exact successor_chain. Qed.
Print Assumptions C20_successor_chain.

(* ---- delivered if it arrives in time: a genuine application record that was not delivered before
        and lies ahead of the newest accepted number of its epoch (by at most 2^15) or fewer than W
        behind it is handed to Read - whatever the current epochs are ---- *)
Theorem C20_delivered_if_arrives_while_retained :
  forall (W : nat) (b : side -> N), N.of_nat W <= 32767 ->
  forall (st : gst) (X : side) (e : N) (r : rec) (p : N),
    GInv W b st -> In (e, r) (net st X) -> r_kind r = App p ->
    let Y := other X in
    let sy := sd st Y in
    failed sy = false -> ~ In (e, r_seq r) (seen sy) ->
    latest (wins sy e) < r_seq r <= latest (wins sy e) + 32768 \/
    r_seq r <= latest (wins sy e) /\ latest (wins sy e) - r_seq r < N.of_nat W ->
    recv Y sy r = (add_got (mark sy e (r_seq r)) e (r_seq r) p, [EvRead Y p]).
Proof. exact delivered_if_arrives_while_retained. Qed.
Print Assumptions C20_delivered_if_arrives_while_retained.

(* ---- known finding K-C20-1: [no_shadow] is necessary.  One planted fragment (the number of A's second
        post-handshake message), authentic records only, nothing lost: A's second UpdateKeys returns nil,
        B never processed that KeyUpdate, A writes under epoch 5 while B reads epoch 4, the payload
        written afterwards is sent and never read ---- *)
Theorem C20_shadowed_keyupdate_refuted :
  exists (c : config) (ops : list op),
    N.of_nat (c_window c) <= 32767 /\ authentic (init c) ops /\
    (forall s, c_shadow c s = [] \/ c_shadow c s = [c_base c (other s) + 1]) /\
    let st := fst (exec (init c) ops) in
    let evs := snd (exec (init c) ops) in
    In (EvStart A 1 4) evs /\ In (EvDone A 1) evs /\ ~ In (EvKuIn B 4) evs /\
    w_epoch (sd st A) = 5 /\ r_epoch (sd st B) = 4 /\
    In (EvSent A 5 (mkrec (secret_of A 5) 1 0 (App 9))) evs /\ reads_of B evs = [].
Proof. exact shadowed_keyupdate_refuted. Qed.
Print Assumptions C20_shadowed_keyupdate_refuted.

(* ---- non-vacuity: a concrete authentic run (window 2 to keep it short) ---- *)
Definition ex_cfg : config := cfg 2 3 7 1 2 [0; 1] [0].
Definition ex_ops : list op :=
  [ OpWrite A 1;                                   (* (3,1) App 1: kept back by the network *)
    OpUpdate A false 0;                            (* KeyUpdate message 3 in record (3,2) *)
    OpDeliver B (rc A 3 3 2 (KU 3 false));         (* B: receive epoch 4, ACK [(3,2)] *)
    OpDeliver A (rc B 3 3 2 (Ack [(3,2)]));        (* A: send epoch 4, call 0 returns *)
    OpWrite A 2;
    OpUpdate A true 1;                             (* message 4 in (4,1), asks B to update too *)
    OpTimer A;                                     (* retransmission in (4,2) *)
    OpDeliver B (rc A 4 0 2 (KU 4 true));          (* B: receive epoch 5, ACK, own KeyUpdate 7 *)
    OpDeliver A (rc B 3 3 3 (Ack [(4,2)]));        (* A: send epoch 5, call 1 returns *)
    OpDeliver B (rc A 3 3 1 (App 1));              (* epoch-3 record after two updates: delivered *)
    OpDeliver B (rc A 3 3 1 (App 1));              (* once more: rejected *)
    OpDeliver B (rc A 4 0 1 (KU 4 true));          (* first transmission arrives late: only ACKed *)
    OpWrite A 3; OpWrite A 4; OpWrite A 5; OpWrite A 6;
    OpDeliver B (rc A 5 1 3 (App 6));
    OpDeliver B (rc A 5 1 2 (App 5));
    OpDeliver B (rc A 5 1 0 (App 3));              (* 3 behind the newest, window 2: too old, rejected *)
    OpDeliver A (rc B 3 3 4 (KU 7 false));         (* A: receive epoch 4 *)
    OpDeliver B (rc A 5 1 4 (Ack [(3,4)])) ].      (* B: send epoch 4 *)

Example C20_example_authentic : authentic (init ex_cfg) ex_ops.
Proof. vm_compute. repeat split; tauto. Qed.

Example C20_example_run :
  let '(st, evs) := exec (init ex_cfg) ex_ops in
  (ev_read evs, ev_done evs,
   (w_epoch (sd st A), r_epoch (sd st A), w_epoch (sd st B), r_epoch (sd st B)), commits A evs, commits B evs)
  = ([(B, 1); (B, 6); (B, 5)], [(A, 0); (A, 1)], (5, 4, 4, 5), 2, 1).
Proof. vm_compute. reflexivity. Qed.

(* records sealed under generations the receiver has not authorised (a peer switching too early):
   one generation ahead is parked and released by the KeyUpdate, two ahead is dropped *)
Definition ex_early : list op :=
  [ OpDeliver B (rc A 4 0 7 (App 9));
    OpDeliver B (rc A 5 1 7 (App 8));
    OpUpdate A false 0;
    OpDeliver B (rc A 3 3 1 (KU 3 false)) ].

Example C20_example_early :
  map (fun k => let '(st, evs) := exec (init ex_cfg) (firstn k ex_early) in
                (ev_read evs, length (futq (sd st B)), r_epoch (sd st B))) [1; 2; 3; 4]%nat
  = [([], 1%nat, 3); ([], 1%nat, 3); ([], 1%nat, 3); ([(B, 9)], 0%nat, 4)].
Proof. vm_compute. reflexivity. Qed.

Example C20_example_no_key : no_key (sd (init ex_cfg) B) (rc A 4 0 7 (App 9)).
Proof.
  intros g Hg. vm_compute in Hg. destruct Hg as [<- | [<- | []]]; vm_compute; intros _ _ H; discriminate.
Qed.

(* a long first epoch (2^16 + 300 records before the update): records of the OLD epoch that arrive after
   the peer processed the KeyUpdate - an application record written while the ACK was outstanding and
   the retransmitted KeyUpdate - are expanded against the old epoch's own high-water mark, so they are
   delivered / acknowledged again, and UpdateKeys returns *)
Definition ex_long_cfg : config := cfg 64 3 7 65836 2 [0; 1] [65835].
Definition ex_long_ops : list op :=
  [ OpUpdate A false 0;                                   (* KeyUpdate 3 in (3,65836) *)
    OpDeliver B (rc A 3 3 65836 (KU 3 false));            (* B: receive epoch 4; its ACK is lost *)
    OpWrite A 1;                                          (* (3,65837): still the old epoch *)
    OpTimer A;                                            (* retransmission in (3,65838) *)
    OpDeliver B (rc A 3 3 65838 (KU 3 false));            (* acknowledged again: ACK [(3,65838)] *)
    OpDeliver A (rc B 3 3 3 (Ack [(3, 65838)]));          (* A: send epoch 4, call 0 returns *)
    OpWrite A 2;                                          (* (4,0) *)
    OpDeliver B (rc A 4 0 0 (App 2));
    OpDeliver B (rc A 3 3 65837 (App 1)) ].               (* old epoch after new epoch: delivered *)

Example C20_example_long_epoch :
  authentic (init ex_long_cfg) ex_long_ops /\
  (let '(st, evs) := exec (init ex_long_cfg) ex_long_ops in
   (ev_read evs, ev_done evs, (w_epoch (sd st A), r_epoch (sd st B))))
  = ([(B, 2); (B, 1)], [(A, 0)], (4, 4)).
Proof. split; [vm_compute; repeat split; tauto | vm_compute; reflexivity]. Qed.

(* ---- a KeyUpdate requested while ANOTHER reliable post-handshake flight (the server's NewSessionTicket)
   is still unacknowledged: the explicit post-handshake queue of one endpoint (Ku/C20Pending.v).
   Histories = any list of enqueued commands (application data, KeyUpdate, ticket), ACKs of the pending
   flight (their absence = loss) and retransmission timers, from any starting epoch. ---- *)
Theorem C20_send_epoch_monotone_with_pending_flights :
  forall (e0 : N) (ops : list pop),
    nondecreasing (emitted_epochs (prun false (pinit e0) ops)).
Proof. exact send_epoch_monotone_with_pending_flights. Qed.
Print Assumptions C20_send_epoch_monotone_with_pending_flights.

Theorem C20_one_active_reliable_flight :
  forall (e0 : N) (ops : list pop),
    let st := prun false (pinit e0) ops in
    (length (ps_flights st) <= 1)%nat /\
    (forall f, In f (ps_flights st) -> pf_epoch f = ps_epoch st) /\
    (forall e, In e (emitted_epochs st) -> e <= ps_epoch st).
Proof. exact one_active_reliable_flight. Qed.
Print Assumptions C20_one_active_reliable_flight.

(* the variant that lets a KeyUpdate overtake a pending NewSessionTicket flight whose packets keep the
   epoch they were sealed under: a ticket retransmission under epoch 3 follows data under epoch 4 *)
Theorem C20_send_epoch_monotone_with_pending_flights_refuted :
  exists ops : list pop, ~ nondecreasing (emitted_epochs (prun true (pinit 3) ops)).
Proof. exact send_epoch_monotone_with_pending_flights_refuted. Qed.
Print Assumptions C20_send_epoch_monotone_with_pending_flights_refuted.

Example C20_example_overtake_witness_under_code_policy :
  emitted_epochs (prun false (pinit 3) overtake_witness) = [3; 3].
Proof. exact overtake_witness_code. Qed.
