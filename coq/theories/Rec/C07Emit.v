(* C07 - what the SEND side puts on the wire, as labels: content kind, epoch, protected or not.
   Definitions only; proofs in Rec/C07EmitSound.v.

   conn.go Write:            c.Handshake() first (blocks until the handshake is done, fails if it failed), then
                             newApplicationDataPacket (ShouldEncrypt: true) -> writeApplicationData:
                             Header.Epoch := LocalEpoch()  (1.3: postHandshake.writeApplicationData, same)
   conn.go processPacket /   the record is protected iff pkt.ShouldEncrypt (1.2: CipherSuite.Encrypt,
     processHandshakePacket  1.3: sealRecordContent); its epoch is pkt.Record.Header.Epoch
   conn.go notify:           alert at Epoch LocalEpoch(), ShouldEncrypt: isHandshakeCompletedSuccessfully(), or
                             (5aa3cd1) DTLS 1.3 with LocalEpoch >= 2 while the handshake runs
   conn.go close:            close_notify only if the handshake completed (then protected)
   flight12/flight*handler   packet shapes of the generators: everything Epoch 0 in clear, except
                             Finished: Epoch 1 + ShouldEncrypt (flights 4b, 5, 5b, 6)
   flight13/flight*handler   ClientHello / ServerHello / HelloRetryRequest Epoch 0 in clear; everything else is
                             HandshakePacket(): Epoch 2 (EpochHandshake) + ShouldEncrypt
   fsm12.prepare /           Header.Epoch += InitialEpoch (0); LocalEpoch := max epoch of the flight if > 0
     traffic_secrets.go prepareFlightPackets
   record_protection.go      activateApplicationRecordProtection: LocalEpoch := 3, always BEFORE StateFinished
   fsm.go runHandshakeFSM    established := state reaches StateFinished; reachable only from a last flight
                             (1.2: 4b/5 after the peer's Finished, 5b/6 after sending; 1.3: after activation);
                             prepare() is not reachable from StateFinished
   state.go generateInternalState  Resume of an exported state: refused when its local epoch is 0 (769b023)
   handshake/conn.go sendACK, post_handshake.go KeyUpdate / NewSessionTicket, connection_id.go RRC:
                             Epoch LocalEpoch() (KeyUpdate: current write generation = LocalEpoch), ShouldEncrypt: true *)
From Coq Require Import List NArith Bool.
Import ListNotations.
Open Scope N_scope.

Inductive version := V12 | V13.

Inductive kind :=
| KApp                 (* application_data *)
| KHs (ht : N)         (* handshake message of type ht (20 = Finished, 24 = KeyUpdate, 4 = NewSessionTicket ...) *)
| KAlert
| KCCS
| KAck
| KRrc.

Record emission := mkE { e_kind : kind; e_epoch : N; e_enc : bool }.

Inductive flight := F0 | F1 | F2 | F3 | F4 | F4b | F5 | F5b | F6.

Definition clr (ht : N) : emission := mkE (KHs ht) 0 false.
Definition hs13 (ht : N) : emission := mkE (KHs ht) 2 true.      (* flight13.HandshakePacket *)
Definition ccs : emission := mkE KCCS 0 false.
Definition fin12 : emission := mkE (KHs 20) 1 true.

(* the generators' packet lists (optional messages included: a superset of every concrete flight) *)
Definition flight_table (v : version) (f : flight) : list emission :=
  match v, f with
  | V12, F0 => []
  | V12, F1 => [clr 1]
  | V12, F2 => [clr 3]
  | V12, F3 => [clr 1]
  | V12, F4 => [clr 2; clr 11; clr 12; clr 13; clr 14]
  | V12, F4b => [clr 2; ccs; fin12]
  | V12, F5 => [clr 11; clr 16; clr 15; ccs; fin12]
  | V12, F5b => [ccs; fin12]
  | V12, F6 => [ccs; fin12]
  | V13, F0 => []
  | V13, F1 => [clr 1]
  | V13, F2 => [clr 2]                                  (* HelloRetryRequest = ServerHello *)
  | V13, F3 => [clr 1]
  | V13, F4 => [clr 2; hs13 8; hs13 13; hs13 11; hs13 15; hs13 20]
  | V13, F5 => [hs13 11; hs13 15; hs13 20]
  | V13, _ => []                                        (* no generator *)
  end.

Definition all_flights : list flight := [F0; F1; F2; F3; F4; F4b; F5; F5b; F6].

Definition max_epoch (l : list emission) : N := fold_right (fun e m => N.max (e_epoch e) m) 0 l.

(* flights from which StateFinished is entered *)
Definition last_flight (v : version) (f : flight) : bool :=
  match v, f with
  | V12, F4b | V12, F5 | V12, F5b | V12, F6 => true
  | V13, F4 | V13, F5 => true
  | _, _ => false
  end.

Record sstate := mkS {
  s_ver : version;
  s_est : bool;              (* handshakeEstablished *)
  s_closed : bool;
  s_epoch : N;               (* LocalEpoch *)
  s_cur : option flight;     (* last flight prepared *)
  s_act : bool               (* 1.3: application record protection activated *)
}.

Definition sinit (v : version) : sstate := mkS v false false 0 None false.

Inductive op :=
| OWrite                 (* Conn.Write by the application: any time, any goroutine *)
| OFlight (f : flight)   (* FSM prepare + send of flight f *)
| ORetransmit            (* re-send of the current flight (timer / peer retransmission / finish->send) *)
| OActivate              (* 1.3 activateApplicationRecordProtection *)
| OFinish                (* FSM enters StateFinished *)
| OAlert                 (* Conn.notify *)
| OClose                 (* Conn.Close *)
| OKeyUpdate             (* 1.3 UpdateKeys: KeyUpdate message *)
| OKeyUpdateAck          (* 1.3 commitLocalKeyUpdate: next write generation *)
| OTicket                (* 1.3 NewSessionTicket *)
| OAck                   (* 1.3 ACK record *)
| ORrc                   (* return routability check message *)
| OResume (e : N).       (* Resume() of an exported DTLS 1.2 State whose local epoch is e *)

Definition is13 (v : version) : bool := match v with V13 => true | V12 => false end.

Definition flight_of (s : sstate) : list emission :=
  match s_cur s with Some f => flight_table (s_ver s) f | None => [] end.

Definition set_epoch (s : sstate) (e : N) : sstate :=
  mkS (s_ver s) (s_est s) (s_closed s) e (s_cur s) (s_act s).

Definition step (s : sstate) (o : op) : sstate * list emission :=
  match o with
  | OWrite =>
      if s_est s && negb (s_closed s) then (s, [mkE KApp (s_epoch s) true]) else (s, [])
  | OFlight f =>
      if s_est s || s_act s then (s, []) else
      let pk := flight_table (s_ver s) f in
      let ne := max_epoch pk in
      (mkS (s_ver s) false (s_closed s) (if ne =? 0 then s_epoch s else ne) (Some f) false, pk)
  | ORetransmit =>
      if s_closed s || (is13 (s_ver s) && s_est s) then (s, []) else (s, flight_of s)
  | OActivate =>
      if is13 (s_ver s) && negb (s_est s) &&
         match s_cur s with Some f => last_flight V13 f | None => false end
      then (mkS (s_ver s) false (s_closed s) 3 (s_cur s) true, []) else (s, [])
  | OFinish =>
      if negb (s_est s) &&
         (if is13 (s_ver s) then s_act s
          else match s_cur s with Some f => last_flight V12 f | None => false end)
      then (mkS (s_ver s) true (s_closed s) (s_epoch s) (s_cur s) (s_act s), []) else (s, [])
  | OAlert =>
      (* conn.go notify: protected once established; DTLS 1.3 (5aa3cd1) also while the handshake runs as soon as
         the handshake keys are in use (LocalEpoch >= 2), so that the peer can read it and fail fast *)
      if s_closed s then (s, [])
      else (s, [mkE KAlert (s_epoch s) (s_est s || (is13 (s_ver s) && (2 <=? s_epoch s)))])
  | OClose =>
      if s_closed s then (s, []) else
      (mkS (s_ver s) (s_est s) true (s_epoch s) (s_cur s) (s_act s),
       if s_est s then [mkE KAlert (s_epoch s) true] else [])
  | OKeyUpdate =>
      if is13 (s_ver s) && s_est s && negb (s_closed s) then (s, [mkE (KHs 24) (s_epoch s) true]) else (s, [])
  | OKeyUpdateAck =>
      if is13 (s_ver s) && s_est s then (set_epoch s (s_epoch s + 1), []) else (s, [])
  | OTicket =>
      if is13 (s_ver s) && s_est s && negb (s_closed s) then (s, [mkE (KHs 4) (s_epoch s) true]) else (s, [])
  | OAck => if is13 (s_ver s) && negb (s_closed s) then (s, [mkE KAck (s_epoch s) true]) else (s, [])
  | ORrc => if s_est s && negb (s_closed s) then (s, [mkE KRrc (s_epoch s) true]) else (s, [])
  | OResume e =>
      (* state.go generateInternalState (769b023): a State captured before the keys were switched on (local epoch
         0, e.g. the one handed to VerifyConnection) is refused with ErrHandshakeInProgress; DTLS 1.3 states are
         not serialisable.  Otherwise the connection starts established at the exported epoch
         (prepareHandshakeStart12: ResumeState, fsm StateFinished) *)
      if is13 (s_ver s) || (e =? 0) then (s, [])
      else (mkS (s_ver s) true false e (s_cur s) (s_act s), [])
  end.

(* the connection Resume() makes from a *State whose local epoch is e, WHEN IT ACCEPTS IT: established from the start
   at that epoch (createConn with a ResumeState: the handshake is skipped).  The guard of generateInternalState -
   local epoch <> 0 and a master secret - is the hypothesis of the theorems about this start state; the harness
   observes whether it holds for every State that Resume accepts (States handed out by the library while the
   handshake is still in epoch 0 included: VerifyConnection argument, ConnectionState() inside a callback) *)
Definition resumed_start (e : N) : sstate := mkS V12 true false e None false.

(* trace: every emission tagged with "was the handshake established when it was emitted" *)
Fixpoint run (s : sstate) (ops : list op) : list (bool * emission) :=
  match ops with
  | [] => []
  | o :: ops' => let '(s', es) := step s o in map (fun e => (s_est s, e)) es ++ run s' ops'
  end.

(* ---- the per-record checker used on observed wire records ---- *)

Definition kind_eqb (a b : kind) : bool :=
  match a, b with
  | KApp, KApp | KAlert, KAlert | KCCS, KCCS | KAck, KAck | KRrc, KRrc => true
  | KHs x, KHs y => x =? y
  | _, _ => false
  end.

Definition em_eqb (a b : emission) : bool :=
  kind_eqb (e_kind a) (e_kind b) && (e_epoch a =? e_epoch b) && Bool.eqb (e_enc a) (e_enc b).

Definition in_tables (v : version) (e : emission) : bool :=
  existsb (fun f => existsb (em_eqb e) (flight_table v f)) all_flights.

Definition min_app_epoch (v : version) : N := if is13 v then 3 else 1.

(* is this label something the model can emit, in a state with the given establishment flag? *)
Definition allowed (v : version) (est : bool) (e : emission) : bool :=
  match e_kind e with
  | KApp => est && e_enc e && (min_app_epoch v <=? e_epoch e)
  | KAlert => Bool.eqb (e_enc e) (est || (is13 v && (2 <=? e_epoch e))) && (negb est || (min_app_epoch v <=? e_epoch e))
  | KAck => is13 v && e_enc e && (negb est || (3 <=? e_epoch e))
  | KRrc => est && e_enc e && (min_app_epoch v <=? e_epoch e)
  | KCCS => negb (is13 v) && in_tables v e
  | KHs ht =>
      if is13 v && ((ht =? 24) || (ht =? 4)) then est && e_enc e && (3 <=? e_epoch e)
      else (negb (is13 v && est)) && in_tables v e
  end.
